/- C19 — A shared binding context is safe under concurrent use.
   Property theorems only; helper lemmas live in Proofs/CtxConc.lean. -/
import XsdataModel.Proofs.CtxConc

namespace Props.C19
open Py Xs.Ctx

/-! Interleaved semantics (`Ctx/Conc.lean`): any number of threads, each either
inside `XmlContext.build(c, parent_ns)` or inside `find_types(q)` (with the lazy
`build_xsi_cache`), share one context; a schedule is a list of thread numbers,
each entry lets that thread perform one dict/list/slot operation. -/

/-- **build_race_benign**: for every set of threads and *every* schedule, a
thread that has finished `build(c, p)` got exactly the metadata it gets when
run alone on a fresh context — provided no namespace-less class is requested
under two parent namespaces (the sequential defect C14-F1).  The
check-then-insert race on `cache` can build a class twice but never publishes
different or partial metadata, and `cache[clazz]` never raises `KeyError`. -/
theorem build_race_benign (U : Universe) (w : World) (progs : List Prog) (schedule : List Nat)
    (hc : consistent U (progUses progs)) :
    ∀ th ∈ (runSched U w (Sys.start State.init progs) schedule).threads,
      ∀ c p o, th.prog = .build c p → th.st = .done o → o = Prog.alone U w (.build c p) := by
  intro th hth c p o hp hs
  have hI := runSched_inv hc w schedule _
    (SysInv.start U progs State.init (by intro c m h; simp [State.init] at h))
  have := hI.threads th hth
  unfold ThreadOK at this
  rw [hp] at this
  have h2 := this.2
  rw [hs] at h2
  exact h2

/-- the same on a context that already holds metadata, e.g. one that served
earlier (admissible) calls: only the cache invariant is needed -/
theorem build_race_benign_warm_cache (U : Universe) (w : World) (progs : List Prog)
    (schedule : List Nat) (s0 : State) (hc : consistent U (progUses progs))
    (h0 : ∀ c m, s0.cache.lookup c = some m → ∃ p, (c, p) ∈ progUses progs ∧ pureBuild U c p = .ok m) :
    ∀ th ∈ (runSched U w (Sys.start s0 progs) schedule).threads,
      ∀ c p o, th.prog = .build c p → th.st = .done o → o = Prog.alone U w (.build c p) := by
  intro th hth c p o hp hs
  have hI := runSched_inv hc w schedule _ (SysInv.start U progs s0 h0)
  have := hI.threads th hth
  unfold ThreadOK at this
  rw [hp] at this
  have h2 := this.2
  rw [hs] at h2
  exact h2

/-- one class `PA` in namespace `urn:a` -/
def oneU : Universe :=
  ⟨[ { name := "PA".toList, base := none, isModel := true, inPkg := true, ns := some (some "urn:a".toList),
       mname := none, targetNs := none, moduleNs := none, globalType := true, inner := false, bad := false,
       fields := [⟨"x".toList, .element, none, none, none⟩] } ]⟩

def w1 : World := ⟨1, 0⟩
def qPA : Str := "{urn:a}PA".toList

/-- the hypothesis of `build_race_benign` is satisfiable with racing threads -/
example : consistent oneU (progUses [.build 0 none, .build 0 none, .findTypes qPA, .build 0 (some "urn:p".toList)]) := by
  decide

/-- **Full-strength statement for the type index**: every `find_types(q)` that
finishes, under any schedule on a cold context, returns what it returns alone. -/
def XsiLinearizable (U : Universe) (w : World) : Prop :=
  ∀ (progs : List Prog) (schedule : List Nat),
    ∀ th ∈ (runSched U w (Sys.start State.init progs) schedule).threads,
      ∀ q o, th.prog = .findTypes q → th.st = .done o → o = Prog.alone U w (.findTypes q)

/-- the 2-thread schedule: thread 1 passes the staleness check; thread 0 checks,
clears, refills, stamps; thread 1 clears; thread 0 looks up an empty index. -/
def raceSchedule : List Nat := [1, 0, 0, 0, 0, 1, 0]

/-- **The full statement is false of the code as it stands** (finding C19-F1):
thread 0 finds no class for `{urn:a}PA` although run alone it finds `PA`
(the parser then raises "No class found matching root"). -/
theorem xsi_race_counterexample : ¬ XsiLinearizable oneU w1 := by
  intro h
  have := h [.findTypes qPA, .findTypes qPA] raceSchedule
    ⟨.findTypes qPA, .done (.gotTypes [])⟩ (by decide) qPA (.gotTypes []) rfl rfl
  revert this
  decide

/-- a second symptom of the same race: both threads refill and the class is
indexed twice (`find_types` returns `[PA, PA]`) -/
theorem xsi_duplicate_witness :
    (runSched oneU w1 (Sys.start State.init [.findTypes qPA, .findTypes qPA])
      [1, 0, 0, 1, 1, 0, 0, 0, 1, 1, 0, 1]).results
      = [some (.gotTypes [0, 0]), some (.gotTypes [0, 0])] := by
  decide

/-- **xsi_lookup_warm** (the partial statement): on a context whose index is
current (`build_xsi_cache()` / any lookup has run since the last import), every
lookup by any number of threads under every schedule returns the cache-free
answer — nobody clears, nobody refills. -/
theorem xsi_lookup_warm (U : Universe) (w : World) (progs : List Prog) (schedule : List Nat)
    (s0 : State) (h1 : s0.sysModules = w.mods + 1) (h2 : s0.xsi = pureIndex U w.loaded) :
    ∀ th ∈ (runSched U w (Sys.start s0 progs) schedule).threads,
      ∀ q o, th.prog = .findTypes q → th.st = .done o → o = Prog.alone U w (.findTypes q) := by
  intro th hth q o hp hs
  have hI := runSched_warm w schedule _ (WarmInv.start U w progs s0 h1 h2)
  have := hI.threads th hth
  unfold ThreadWarm at this
  rw [hp] at this
  rw [hs] at this
  exact this

/-- warming is what one sequential `build_xsi_cache()` does -/
example : (doBuildXsi oneU w1 State.init).sysModules = w1.mods + 1 ∧
    (doBuildXsi oneU w1 State.init).xsi = pureIndex oneU w1.loaded := by
  decide

/-- and on the warm context the race schedule is harmless -/
example : (runSched oneU w1 (Sys.start (doBuildXsi oneU w1 State.init) [.findTypes qPA, .findTypes qPA])
    (raceSchedule ++ [1])).results = [some (.gotTypes [0]), some (.gotTypes [0])] := by
  decide


/-- **no thread ever blocks or loops**: whatever the shared state looks like
(i.e. whatever the other threads did), each step of an unfinished thread strictly
decreases the number of shared operations it still has to perform; so under any
fair schedule every call returns. -/
theorem thread_progress (U : Universe) (w : World) (s : State) (st : TState) (h : st.isDone = false) :
    ((stepT U w s st).2).remaining (indexEntries U w.loaded).length
      < st.remaining (indexEntries U w.loaded).length := by
  cases st with
  | bCheck c p =>
    simp only [stepT]
    split
    · simp [TState.remaining]
    · split <;> simp [TState.remaining]
  | bWrite c m => simp [stepT, TState.remaining]
  | bRead c => simp only [stepT]; split <;> simp [TState.remaining]
  | xCheck q => simp only [stepT]; split <;> simp [TState.remaining]
  | xClear q =>
    simp only [stepT, afterFill]
    split
    · simp [TState.remaining]
    · simp [TState.remaining]
  | xFill q todo =>
    cases todo with
    | nil => simp [stepT, TState.remaining]
    | cons e rest =>
      obtain ⟨k, c0⟩ := e
      simp only [stepT, afterFill]
      split
      · simp [TState.remaining]
      · simp [TState.remaining]
  | xStamp q => simp [stepT, TState.remaining]
  | xContains q => simp only [stepT]; split <;> simp [TState.remaining]
  | xGet q => simp only [stepT]; split <;> simp [TState.remaining]
  | done o => simp [TState.isDone] at h

end Props.C19
