/-
C08 — the serializer entry points above the writers.

`XmlSerializer.render / write` (serializers/xml.py) and `TreeSerializer.render`
(serializers/tree.py) are both `EventGenerator`s: they call `self.generate(obj)`, clean the user's
prefix map the same way and hand events + map + config to a writer they construct —
`XmlEventWriter` / `LxmlEventWriter` (an `XmlWriter`: declaration written by hand, text output)
or `LxmlTreeBuilder` (an `EventContentHandler`: the tree itself is the result).

At this layer the prefix map only decides how names are spelled (that is C03's model,
`Xml/Writer.lean`); the infoset is `eventsTree`.
-/
import XsdataModel.Backends.Writer
import XsdataModel.Xml.Namespaces

namespace Xs.Backends
open Py Xs.Bind

/-- the parts of `SerializerConfig` the writers look at -/
structure WCfg where
  indent : Option Str := none
  xmlDeclaration : Bool := true
  xmlVersion : Str := "1.0".toList
  encoding : Str := "UTF-8".toList

/-- what a serializer hands to the writer it constructs: `writer(config=…, ns_map=…)` and
`writer.write(events)` / `builder.build(events)` -/
structure WriterInput where
  cfg : WCfg
  nsMap : Xs.Ns.NsMap
  events : List Ev

/-- `XmlSerializer.write`: `events = self.generate(obj)`;
`handler = self.writer(config=self.config, output=out, ns_map=clean_prefixes(ns_map) if ns_map else {})` -/
def xmlSerializerInput (e : BEnv) (Γ : Ctx) (scfg : SerCfg) (cfg : WCfg) (userMap : List (Xs.Ns.Pfx × Str))
    (v : Val) : Except Err WriterInput :=
  match generate e Γ scfg v with
  | .error x => .error x
  | .ok evs => .ok ⟨cfg, Xs.Ns.serializerNsMap userMap, evs⟩

/-- `TreeSerializer.render`: `builder = LxmlTreeBuilder(config=self.config,
ns_map=clean_prefixes(ns_map) if ns_map else {})`; `builder.build(self.generate(obj))` -/
def treeSerializerInput (e : BEnv) (Γ : Ctx) (scfg : SerCfg) (cfg : WCfg) (userMap : List (Xs.Ns.Pfx × Str))
    (v : Val) : Except Err WriterInput :=
  match generate e Γ scfg v with
  | .error x => .error x
  | .ok evs => .ok ⟨cfg, Xs.Ns.serializerNsMap userMap, evs⟩

/-- `LxmlEventWriter.write(events)`: `XmlWriter.start_document` writes the declaration into the
output, `EventHandler.write` feeds the `ElementTreeContentHandler`, `etree.indent` when `indent`
is set, then `etree.tostring(handler.etree)` (external) goes to the output: the declaration text
and the tree that is printed -/
def lxmlEventWriterWrite (e : Env) (isDt : Str → Bool) (inp : WriterInput) : Except Err (Str × Tree) :=
  match eventsTree isDt inp.events with
  | .error x => .error x
  | .ok t =>
    let decl := xmlDeclaration inp.cfg.xmlDeclaration inp.cfg.xmlVersion inp.cfg.encoding
    match indentOn inp.cfg.indent with
    | none => .ok (decl, t)
    | some i => .ok (decl, lxmlIndent e i t)

/-- `LxmlTreeBuilder.build(events)`: `self.write(events)` (`EventContentHandler`: `startDocument` on
the handler, no declaration), `etree.indent` when `indent` is set, `return self.handler.etree` -/
def lxmlTreeBuilderBuild (e : Env) (isDt : Str → Bool) (inp : WriterInput) : Except Err Tree :=
  match eventsTree isDt inp.events with
  | .error x => .error x
  | .ok t =>
    match indentOn inp.cfg.indent with
    | none => .ok t
    | some i => .ok (lxmlIndent e i t)

/-- `XmlEventWriter.write(events)`: the declaration and the handler calls (`XMLGenerator` turns them
into text; `nativeTree` is what a reader of that text sees) -/
def xmlEventWriterWrite (m : NsMap) (isDt : Str → Bool) (inp : WriterInput) : Except Err (Str × List ISax) :=
  match eventsSaxIndent m isDt inp.cfg.indent inp.events with
  | .error x => .error x
  | .ok calls => .ok (xmlDeclaration inp.cfg.xmlDeclaration inp.cfg.xmlVersion inp.cfg.encoding, calls)

/-- `XmlSerializer(writer=LxmlEventWriter).render(obj, ns_map)` -/
def xmlSerializerRenderLxml (e : BEnv) (Γ : Ctx) (isDt : Str → Bool) (scfg : SerCfg) (cfg : WCfg)
    (userMap : List (Xs.Ns.Pfx × Str)) (v : Val) : Except Err (Str × Tree) :=
  (xmlSerializerInput e Γ scfg cfg userMap v).bind (lxmlEventWriterWrite e.py isDt)

/-- `TreeSerializer.render(obj, ns_map)` -/
def treeSerializerRender (e : BEnv) (Γ : Ctx) (isDt : Str → Bool) (scfg : SerCfg) (cfg : WCfg)
    (userMap : List (Xs.Ns.Pfx × Str)) (v : Val) : Except Err Tree :=
  (treeSerializerInput e Γ scfg cfg userMap v).bind (lxmlTreeBuilderBuild e.py isDt)

/-- `XmlSerializer(writer=XmlEventWriter).render(obj, ns_map)` read back: the infoset of the text -/
def xmlSerializerRenderNative (e : BEnv) (Γ : Ctx) (isDt : Str → Bool) (scfg : SerCfg) (cfg : WCfg)
    (userMap : List (Xs.Ns.Pfx × Str)) (v : Val) : Except Err Tree :=
  (xmlSerializerInput e Γ scfg cfg userMap v).bind (fun inp => nativeTree isDt inp.cfg.indent inp.events)

end Xs.Backends
