/-
L6 — data of the dictionary/JSON layer: the JSON AST, Python `dict`
construction, the dictionary factories of
xsdata/formats/dataclass/serializers/dict.py, `XmlMeta.get_all_vars`, the
generic classes `AnyElement`/`DerivedElement` seen as dataclass instances, and
the non-determinism monad used for the steps of `DictDecoder` whose outcome
depends on `set` iteration order.

Primitives are restricted to str / int / bool (+ QName); floats, decimals,
dates, enums, bytes are outside this layer.
-/
import XsdataModel.Bind.Gen

namespace Xs.Dict
open Py Xs.Bind

/-- the values `json.load` produces / `json.dump` accepts (numbers: ints only) -/
inductive J
  | null
  | bool (b : Bool)
  | num (i : Int)
  | str (s : Str)
  | arr (xs : List J)
  | obj (kvs : List (Str × J))
deriving Repr

def J.isNull : J → Bool
  | .null => true
  | _ => false

/-- `collections.is_array` on a loaded JSON value -/
def J.isArr : J → Bool
  | .arr _ => true
  | _ => false

def J.isObj : J → Bool
  | .obj _ => true
  | _ => false

mutual
/-- a value a JSON library dumps and loads back unchanged: only the constructors of `J`
(by typing) and every object is a proper mapping (pairwise distinct keys) -/
def J.native : J → Bool
  | .arr xs => J.nativeList xs
  | .obj kvs => decide ((kvs.map (·.1)).Nodup) && J.nativePairs kvs
  | _ => true
def J.nativeList : List J → Bool
  | [] => true
  | x :: xs => x.native && J.nativeList xs
def J.nativePairs : List (Str × J) → Bool
  | [] => true
  | kv :: rest => kv.2.native && J.nativePairs rest
end

/-- the environment of the dictionary layer: the binding environment, plus the converters of
the types this layer does not model itself (`TypeRef.other name`: Decimal, bytes, the Xml* types,
enumerations, …).  `other name s` is `converter.serialize(converter.deserialize(s, [T]))`: the
canonical lexical form of the value the string `s` denotes for the type called `name`, `none` when
`deserialize` raises ConverterError.  A value of such a type is represented in `Val` by its
canonical lexical form (`Val.prim (.str x)`); the round trip theorems of the converter models
(C05: `deserialize (serialize v) = v`) say that `serialize v` is a fixed point of it. -/
structure DEnv extends BEnv where
  other : Str → Str → Option Str := fun _ _ => none

/-- `d[k] = v` on an insertion-ordered dict -/
def kvSet {α} (d : List (Str × α)) (k : Str) (v : α) : List (Str × α) :=
  if d.any (·.1 = k) then d.map (fun kw => if kw.1 = k then (kw.1, v) else kw) else d ++ [(k, v)]

/-- `dict(pairs)` -/
def dictOf {α} (pairs : List (Str × α)) : List (Str × α) :=
  pairs.foldl (fun d kv => kvSet d kv.1 kv.2) []

/-- `d.get(k)` -/
def kvGet {α} (d : List (Str × α)) (k : Str) : Option α := (d.find? (·.1 = k)).map (·.2)

def kvKeys {α} (d : List (Str × α)) : List Str := d.map (·.1)

/-- `set(d.keys()) == ks` for a key set `ks` -/
def keysEq {α} (d : List (Str × α)) (ks : List Str) : Bool :=
  (kvKeys d).all (ks.contains ·) && ks.all ((kvKeys d).contains ·)

/-- `dict_factory` argument of `DictEncoder` -/
inductive Factory
  | dict          -- `dict`
  | filterNone    -- `DictFactory.FILTER_NONE`
deriving DecidableEq, Repr

def Factory.apply (f : Factory) (pairs : List (Str × J)) : J :=
  match f with
  | .dict => .obj (dictOf pairs)
  | .filterNone => .obj (dictOf (pairs.filter (fun kv => !kv.2.isNull)))

/-! ### metadata helpers -/

/-- `var.wrapper` recovered from `wrapper_qname = build_qname(namespace, wrapper)` -/
def wrapperName (v : VarCore) : Option Str := v.wrapperQName.map localName

/-- the key `next_value` yields a field under -/
def keyOf (v : VarCore) : Str := (wrapperName v).getD v.localName

/-- `XmlMeta.get_all_vars` -/
def allVars (m : XmlMeta) : List XmlVar :=
  sortByIndex (m.wildcards ++ m.choices ++ m.anyAttributes ++ m.attributes.map (·.2)
    ++ (m.elements.map (·.2)).flatten ++ m.text.toList)

/-- `context.build(clazz)` : the metadata under parent namespace `None` -/
def metaOf (Γ : Ctx) (c : ClassId) : Except Err XmlMeta :=
  match (Γ.find c).bind (·.metaFor none) with
  | some m => .ok m
  | none => .error (.context "not a dataclass")

/-- `{var.local_name for var in meta.get_all_vars()}` -/
def localNames (Γ : Ctx) (c : ClassId) : Option (List Str) :=
  match metaOf Γ c with
  | .ok m => some ((allVars m).map (·.localName))
  | .error _ => none

/-- the names `local_names_match` accepts for a class: the local name of every var and the
wrapper name of every wrapped var (a wrapped field is written under its wrapper name) -/
def matchNames (Γ : Ctx) (c : ClassId) : Option (List Str) :=
  match metaOf Γ c with
  | .ok m => some ((allVars m).map (·.localName) ++ (allVars m).filterMap (fun v => wrapperName v.toVarCore))
  | .error _ => none

/-- `XmlContext.local_names_match(names, clazz)` -/
def localNamesMatch (Γ : Ctx) (names : List Str) (c : ClassId) : Bool :=
  match matchNames Γ c with
  | some ln => names.all (ln.contains ·)
  | none => false

/-- `XmlContext.get_subclasses(clazz)` on the exported universe: every loaded class that
has `clazz` in its mro, except `clazz` itself -/
def subclassesOf (Γ : Ctx) (c : ClassId) : List ClassId :=
  (Γ.classes.filter (fun ci => ci.id ≠ c && ci.mro.contains c)).map (·.id)

/-- model classes among a tuple of types -/
def clsTypes (ts : List TypeRef) : List ClassId :=
  ts.filterMap (fun t => match t with | .cls c => some c | _ => none)

def dedup (xs : List ClassId) : List ClassId :=
  xs.foldl (fun acc x => if acc.contains x then acc else acc ++ [x]) []

/-- `XmlVar.element_types` restricted to model classes -/
def varElementTypes (v : XmlVar) : List ClassId :=
  dedup ((v.elements.map (fun e => clsTypes e.2.types)).flatten)

/-- `XmlMeta.element_types` restricted to model classes -/
def metaElementTypes (m : XmlMeta) : List ClassId :=
  dedup (((m.elements.map (·.2)).flatten.map (fun v => clsTypes v.types)).flatten)

/-! ### the generic classes -/

def anyId : ClassId := "AnyElement".toList
def derivedId : ClassId := "DerivedElement".toList

def kQName : Str := "qname".toList
def kText : Str := "text".toList
def kTail : Str := "tail".toList
def kChildren : Str := "children".toList
def kAttributes : Str := "attributes".toList
def kValue : Str := "value".toList
def kType : Str := "type".toList

/-- `class_type.any_keys` -/
def anyKeys : List Str := [kQName, kText, kTail, kChildren, kAttributes]
/-- `class_type.derived_keys` -/
def derivedKeys : List Str := [kQName, kValue, kType]

/-- the members of `AnyElement` that do not default to `None` -/
def anyRequired : List Str := [kChildren, kAttributes]
/-- the members of `DerivedElement` that do not default to `None` -/
def derivedRequired : List Str := [kQName, kValue]

/-- `DictDecoder.is_generic(keys, clazz)` : the keys are field names of the generic class and
every field that does not default to `None` is there (FILTER_NONE drops the `None` members) -/
def isGeneric {α} (d : List (Str × α)) (required all : List Str) : Bool :=
  required.all ((kvKeys d).contains ·) && (kvKeys d).all (all.contains ·)

def optStrVal : Option Str → Val
  | none => .none
  | some s => .prim (.str s)

/-- `is_model(value)` with the field values in `fields(obj)` order -/
def asObject : Val → Option (ClassId × List (Str × Val))
  | .obj c fs => some (c, fs)
  | .any q t tl a cs =>
    some (anyId, [(kQName, optStrVal q), (kText, optStrVal t), (kTail, optStrVal tl),
      (kChildren, .list cs), (kAttributes, .attrs a)])
  | .derived q v t => some (derivedId, [(kQName, .prim (.str q)), (kValue, v), (kType, optStrVal t)])
  | _ => none

def valOptStr : Val → Option (Option Str)
  | .none => some none
  | .prim (.str s) => some (some s)
  | _ => none

/-- the instance `class_factory` returned, in the `Val` vocabulary: instances of the two
generic classes have their own constructors -/
def genericView (v : Val) : Except Err Val :=
  match v with
  | .obj c fs =>
    if c = anyId then
      match (kvGet fs kQName).bind valOptStr, (kvGet fs kText).bind valOptStr, (kvGet fs kTail).bind valOptStr,
        kvGet fs kChildren, kvGet fs kAttributes with
      | some q, some t, some tl, some (.list cs), some (.attrs a) => .ok (.any q t tl a cs)
      | _, _, _, _, _ => .error (.unsupported "AnyElement with untyped content")
    else if c = derivedId then
      match kvGet fs kQName, kvGet fs kValue, (kvGet fs kType).bind valOptStr with
      | some (.prim (.str q)), some x, some t => .ok (.derived q x t)
      | _, _, _ => .error (.unsupported "DerivedElement with untyped content")
    else .ok v
  | _ => .ok v

/-! ### non-determinism: the set of admissible results of a step -/

/-- all admissible results (or the error every schedule ends in) -/
def ND (α : Type) := Except Err (List α)

def ND.run {α} (m : ND α) : Except Err (List α) := m
def ND.ofExcept {α} (m : Except Err α) : ND α :=
  match m with
  | .ok a => .ok [a]
  | .error e => .error e
def ND.fail {α} (e : Err) : ND α := Except.error e
def ND.choose {α} (xs : List α) : ND α := Except.ok xs

def ND.pure {α} (a : α) : ND α := Except.ok [a]

/-- results of `f` on each alternative; an error in any alternative is the error -/
def ND.collect {α β} (f : α → ND β) : List α → ND β
  | [] => Except.ok []
  | a :: rest =>
    match f a with
    | .error e => .error e
    | .ok ys =>
      match ND.collect f rest with
      | .error e => .error e
      | .ok zs => .ok (ys ++ zs)

def ND.bind {α β} (m : ND α) (f : α → ND β) : ND β :=
  match m with
  | .error e => .error e
  | .ok xs => ND.collect f xs

instance : Monad ND where
  pure := ND.pure
  bind := ND.bind

instance : MonadLift (Except Err) ND where
  monadLift := ND.ofExcept

/-- `[f(x) for x in xs]` with every combination of the alternatives -/
def ND.mapM {α β} (f : α → ND β) : List α → ND (List β)
  | [] => ND.pure []
  | a :: rest => ND.bind (f a) fun b => ND.bind (ND.mapM f rest) fun bs => ND.pure (b :: bs)

/-- `json.dump` / `json.load` as far as the property needs them -/
structure JsonLib (Text : Type) where
  dump : J → Option Text          -- `none` = the encoder raised
  load : Text → Option J

end Xs.Dict
