/-
C15 — helper lemmas for `Bind/Union.lean`: the parser extended over `UnionNode` is `Clean`
(a value or a parser-side error) for every input, and `pickBest` picks the first result of
maximal score.
-/
import XsdataModel.Proofs.C15NoLeak
import XsdataModel.Bind.Union

namespace Proofs.C15
open Py Xs.Bind

/-! ### cleanliness -/

theorem elementFinish_clean (e : BEnv) (Γ : Ctx) (cfg : ParserConfig) (m : XmlMeta) (attrs : List (QN × Str))
    (nsmap : NsMap) (derived : Bool) (xt : Option QN) (xn : Option Bool) (q : QN) (text tail : Option Str)
    (sub : Out) (st : ElState) : Clean (elementFinish e Γ cfg m attrs nsmap derived xt xn q text tail sub st) := by
  unfold elementFinish
  clean_descend'

theorem rootResult_clean (out : Out) : Clean (rootResult out) := by
  unfold rootResult
  split <;> rfl

theorem rootNode_clean (e : BEnv) (he : e.isNCName [] = false) (Γ : Ctx) (c : ClassId) (pns : Option Str) (q : QN)
    (a : List (QN × Str)) (n : NsMap) : Clean (rootNode e Γ c pns q a n) := by
  unfold rootNode
  clean_descend

/-- whatever a trial does, `suppress(Exception)` leaves a value (or the model's marker) -/
theorem suppressed_clean (r : Except Err (Val × Nat)) : Clean (suppressed r) := by
  unfold suppressed
  split <;> rfl

theorem unionTrial_clean (e : BEnv) (Γ : Ctx) (cfg : ParserConfig) (kids : XmlMeta → Except Err (Out × ElState))
    (var : XmlVar) (attrs : List (QN × Str)) (nsmap : NsMap) (q : QN) (text tail : Option Str) (t : TypeRef) :
    Clean (unionTrial e Γ cfg kids var attrs nsmap q text tail t) := by
  unfold unionTrial
  split <;> exact suppressed_clean _

theorem unionBind_clean (var : XmlVar) (results : List Val) : Clean (unionBind var results) := by
  unfold unionBind
  split <;> rfl

theorem filterFixedAttrs_clean (e : BEnv) (Γ : Ctx) (attrs : List (QN × Str)) (pns : Option Str) (t : TypeRef) :
    Clean (filterFixedAttrs e Γ attrs pns t) := by
  unfold filterFixedAttrs
  split
  · split <;> rfl
  · rfl

theorem filterCandidates_clean (e : BEnv) (Γ : Ctx) (var : XmlVar) (attrs : List (QN × Str)) :
    Clean (filterCandidates e Γ var attrs) := by
  unfold filterCandidates
  apply Clean.bind
  · apply Clean.mapM
    intro t
    exact Clean.map (filterFixedAttrs_clean e Γ attrs _ t)
  · intro _; exact Clean.pure _

theorem buildNodeU_clean (e : BEnv) (he : e.isNCName [] = false) (Γ : Ctx) (pmeta : XmlMeta) (qname : QN)
    (var : XmlVar) (attrs : List (QN × Str)) (nsmap : NsMap) :
    Clean (buildNodeU e Γ pmeta qname var attrs nsmap) := by
  unfold buildNodeU
  split
  · exact Clean.bind (filterCandidates_clean e Γ var attrs) (fun _ => Clean.pure _)
  · exact Clean.map (buildNode_clean e he Γ pmeta qname var attrs nsmap)

theorem childNodeU_go_clean (e : BEnv) (he : e.isNCName [] = false) (Γ : Ctx) (cfg : ParserConfig) (m : XmlMeta)
    (st : ElState) (qname : QN) (attrs : List (QN × Str)) (nsmap : NsMap) (wrapper : Option QN) :
    ∀ vars, Clean (childNodeU.go e Γ cfg m st qname attrs nsmap wrapper vars)
  | [] => by unfold childNodeU.go; split <;> rfl
  | var :: rest => by
    have ih := childNodeU_go_clean e he Γ cfg m st qname attrs nsmap wrapper rest
    unfold childNodeU.go
    have hb := buildNodeU_clean e he Γ m qname var attrs nsmap
    dsimp only
    repeat' split
    all_goals first
      | exact ih
      | exact Clean.ok _
      | (rename_i heq; rw [heq] at hb; exact Clean.error_cast hb)

theorem childNodeU_clean (e : BEnv) (he : e.isNCName [] = false) (Γ : Ctx) (cfg : ParserConfig) (m : XmlMeta)
    (st : ElState) (qname : QN) (attrs : List (QN × Str)) (nsmap : NsMap) (wrapper : Option QN) :
    Clean (childNodeU e Γ cfg m st qname attrs nsmap wrapper) := by
  unfold childNodeU
  exact childNodeU_go_clean e he Γ cfg m st qname attrs nsmap wrapper _

macro_rules | `(tactic| clean_leaf) => `(tactic| exact elementFinish_clean _ _ _ _ _ _ _ _ _ _ _ _ _ _)
macro_rules | `(tactic| clean_leaf) => `(tactic| exact rootResult_clean _)
macro_rules | `(tactic| clean_leaf) => `(tactic| exact rootNode_clean _ ‹_› _ _ _ _ _ _)
macro_rules | `(tactic| clean_leaf) => `(tactic| exact unionBind_clean _ _)
macro_rules | `(tactic| clean_leaf) => `(tactic| exact childNodeU_clean _ ‹_› _ _ _ _ _ _ _ _)
macro_rules | `(tactic| clean_leaf) => `(tactic| exact parseNode_clean _ ‹_› _ _ _ _)

mutual

theorem parseNodeU_clean (e : BEnv) (he : e.isNCName [] = false) (Γ : Ctx) :
    ∀ (cfg : ParserConfig) (node : NodeU) (t : Tree), Clean (parseNodeU e Γ cfg node t)
  | cfg, node, .node qname a n text children tail => by
    cases node with
    | union pmeta var attrs nsmap cands =>
      unfold parseNodeU
      dsimp only
      apply Clean.bind
      · apply Clean.mapM
        intro t
        exact unionTrial_clean _ _ _ _ _ _ _ _ _ _ _
      · intro results; exact unionBind_clean _ _
    | base nd =>
      cases nd with
      | element m at' ns derived xt xn =>
        have hk := parseKidsU_clean e he Γ cfg m {} none children
        unfold parseNodeU
        dsimp only
        clean_descend
      | skip => unfold parseNodeU; exact parseNode_clean e he Γ cfg _ _
      | wrapper q => unfold parseNodeU; exact parseNode_clean e he Γ cfg _ _
      | primitive pm v ns => unfold parseNodeU; exact parseNode_clean e he Γ cfg _ _
      | standard v dt ns nl d mx => unfold parseNodeU; exact parseNode_clean e he Γ cfg _ _
      | wildcard v at' ns => unfold parseNodeU; exact parseNode_clean e he Γ cfg _ _
termination_by _ _ t => sizeOf t

theorem parseKidsU_clean (e : BEnv) (he : e.isNCName [] = false) (Γ : Ctx) :
    ∀ (cfg : ParserConfig) (m : XmlMeta) (st : ElState) (wrapper : Option QN) (ts : List Tree),
      Clean (parseKidsU e Γ cfg m st wrapper ts)
  | cfg, m, st, wrapper, [] => by unfold parseKidsU; rfl
  | cfg, m, st, wrapper, (.node q a n t c tl) :: rest => by
    have h1 := fun node => parseNodeU_clean e he Γ cfg node (.node q a n t c tl)
    have h2 := fun st' => parseKidsU_clean e he Γ cfg m st' wrapper rest
    have h3 := parseKidsU_clean e he Γ cfg m st (some q) c
    unfold parseKidsU
    repeat' (first
      | clean_leaf
      | exact h1 _
      | exact h2 _
      | apply Clean.bind
      | intro _
      | split
      | dsimp only)
termination_by _ _ _ _ ts => sizeOf ts

end

theorem parseRootU_clean (e : BEnv) (he : e.isNCName [] = false) (Γ : Ctx) (cfg : ParserConfig) (c : ClassId) :
    ∀ t : Tree, Clean (parseRootU e Γ cfg c t)
  | .node q a n t ch tl => by
    have h := fun node => parseNodeU_clean e he Γ cfg node (.node q a n t ch tl)
    unfold parseRootU
    repeat' (first
      | clean_leaf
      | exact h _
      | apply Clean.bind
      | intro _
      | split
      | dsimp only)


/-! ### `pickBest`: the first result of maximal score -/

/-- the order `score_object` results are compared in: `None` (-1.0) below every score -/
def rankOf : Option Nat → Nat
  | none => 0
  | some a => a + 1

theorem scoreGt_iff (s b : Option Nat) : scoreGt s b = true ↔ rankOf s > rankOf b := by
  cases s <;> cases b <;> simp [scoreGt, rankOf]

/-- `a` scores strictly higher than `b` -/
def Better (a b : Val) : Prop := rankOf (scoreVal a) > rankOf (scoreVal b)

theorem pickBest_spec : ∀ (rs : List Val) (b : Val),
    let b' := pickBest rs (scoreVal b) b
    (b' = b ∧ ∀ x ∈ rs, ¬ Better x b) ∨
    (∃ pre post, rs = pre ++ b' :: post ∧ Better b' b ∧ (∀ x ∈ pre, Better b' x) ∧ (∀ x ∈ post, ¬ Better x b'))
  | [], b => by simp [pickBest]
  | r :: rest, b => by
    simp only [pickBest]
    by_cases hg : scoreGt (scoreVal r) (scoreVal b) = true
    · simp only [hg, if_true]
      have hgb : Better r b := (scoreGt_iff _ _).mp hg
      rcases pickBest_spec rest r with ⟨h1, h2⟩ | ⟨pre, post, h1, h2, h3, h4⟩
      · right
        refine ⟨[], rest, ?_, ?_, ?_, ?_⟩
        · simp [h1]
        · rw [h1]; exact hgb
        · simp
        · rw [h1]; exact h2
      · right
        refine ⟨r :: pre, post, ?_, ?_, ?_, ?_⟩
        · simp [← h1]
        · unfold Better at *; omega
        · intro x hx
          rcases List.mem_cons.mp hx with rfl | hx
          · exact h2
          · exact h3 x hx
        · exact h4
    · have hg' : ¬ Better r b := fun h => hg ((scoreGt_iff _ _).mpr h)
      simp only [hg, if_false, Bool.false_eq_true]
      rcases pickBest_spec rest b with ⟨h1, h2⟩ | ⟨pre, post, h1, h2, h3, h4⟩
      · left
        refine ⟨h1, ?_⟩
        intro x hx
        rcases List.mem_cons.mp hx with rfl | hx
        · exact hg'
        · exact h2 x hx
      · right
        refine ⟨r :: pre, post, ?_, h2, ?_, h4⟩
        · simp [← h1]
        · intro x hx
          rcases List.mem_cons.mp hx with rfl | hx
          · unfold Better at *; omega
          · exact h3 x hx

theorem scoreVal_none_iff (v : Val) : scoreVal v = none ↔ v = .none := by
  cases v <;> simp [scoreVal]

end Proofs.C15
