/-
Helper lemmas for the dictionary round trip (C04): the `ND` monad, Python dict
construction, `Params`, `find?`, and the primitive converters.  Core Lean only.
-/
import XsdataModel.Dict.Frag
import XsdataModel.Proofs.DatesFormatParse

namespace Proofs.C04
open Py Xs.Bind Xs.Dict
open Proofs.DatesFormatParse (AllD dval nstr natStr_eq nstr_ne_nil nstr_AllD dval_nstr pyInt_digits strip_eq intStrip_eq not_intSpace_of_digit
  not_space_of_digit intBody_digits_ne)

/-! ### `ND` -/

@[simp] theorem nd_pure_bind {α β} (a : α) (f : α → ND β) : ND.bind (ND.pure a) f = f a := by
  unfold ND.bind ND.pure
  simp only [ND.collect]
  cases f a with
  | error e => rfl
  | ok ys => simp only [List.append_nil]; rfl

@[simp] theorem nd_fail_bind {α β} (err : Err) (f : α → ND β) : ND.bind (ND.fail err) f = ND.fail err := rfl

@[simp] theorem nd_ofExcept_ok {α} (a : α) : ND.ofExcept (Except.ok a : Except Err α) = ND.pure a := rfl

theorem nd_mapM_nil {α β} (f : α → ND β) : ND.mapM f [] = ND.pure [] := rfl

theorem nd_mapM_cons {α β} (f : α → ND β) (a : α) (rest : List α) :
    ND.mapM f (a :: rest) = ND.bind (f a) fun b => ND.bind (ND.mapM f rest) fun bs => ND.pure (b :: bs) := rfl

/-- decoding item by item what was encoded item by item -/
theorem nd_mapM_roundtrip {α β} (enc : α → Except Err β) (dec : β → ND α) :
    ∀ (items : List α) (js : List β), items.mapM enc = .ok js →
      (∀ x ∈ items, ∀ j, enc x = .ok j → dec j = ND.pure x) → ND.mapM dec js = ND.pure items := by
  intro items
  induction items with
  | nil =>
    intro js h _
    simp [List.mapM_nil, pure, Except.pure] at h
    subst h; rfl
  | cons x xs ih =>
    intro js h hall
    rw [List.mapM_cons] at h
    cases hx : enc x with
    | error err => simp [hx, bind, Except.bind] at h
    | ok j =>
      cases hxs : xs.mapM enc with
      | error err => simp [hx, hxs, bind, Except.bind] at h
      | ok js' =>
        simp [hx, hxs, bind, Except.bind, pure, Except.pure] at h
        subst h
        rw [nd_mapM_cons, hall x (List.mem_cons_self ..) j hx, nd_pure_bind,
          ih js' hxs (fun y hy => hall y (List.mem_cons_of_mem _ hy)), nd_pure_bind]

/-! ### lists -/

theorem find?_unique {α} (p : α → Bool) (l : List α) (a : α) (hmem : a ∈ l) (hp : p a = true)
    (huniq : ∀ b ∈ l, p b = true → b = a) : l.find? p = some a := by
  induction l with
  | nil => cases hmem
  | cons b bs ih =>
    by_cases hb : p b = true
    · have := huniq b (List.mem_cons_self ..) hb
      subst this
      simp [List.find?, hb]
    · have hb' : p b = false := by simpa using hb
      simp only [List.find?, hb']
      cases hmem with
      | head => exact absurd hp hb
      | tail _ h => exact ih h (fun c hc => huniq c (List.mem_cons_of_mem _ hc))

theorem kvGet_of_mem {α} (d : List (Str × α)) (k : Str) (v : α) (hnd : (d.map (·.1)).Nodup) (hmem : (k, v) ∈ d) :
    kvGet d k = some v := by
  induction d with
  | nil => cases hmem
  | cons kv rest ih =>
    simp only [List.map_cons, List.nodup_cons] at hnd
    cases hmem with
    | head => simp [kvGet, List.find?]
    | tail _ h =>
      have hne : kv.1 ≠ k := by
        intro heq
        apply hnd.1
        rw [heq]
        exact List.mem_map_of_mem (f := (·.1)) h
      have := ih hnd.2 h
      simp only [kvGet] at this ⊢
      simp [List.find?, hne, this]

theorem kvGet_mem {α} (d : List (Str × α)) (k : Str) (v : α) (h : kvGet d k = some v) : (k, v) ∈ d := by
  induction d with
  | nil => simp [kvGet] at h
  | cons kv rest ih =>
    simp only [kvGet, List.find?] at h
    by_cases hk : kv.1 = k
    · simp [hk] at h
      rw [← hk, ← h]
      exact List.mem_cons_self ..
    · simp [hk] at h
      exact List.mem_cons_of_mem _ (ih (by simpa [kvGet] using h))

theorem kvGet_isSome_of_key {α} (d : List (Str × α)) (k : Str) (h : k ∈ d.map (·.1)) : ∃ v, kvGet d k = some v := by
  induction d with
  | nil => cases h
  | cons kv rest ih =>
    by_cases hk : kv.1 = k
    · exact ⟨kv.2, by simp [kvGet, List.find?, hk]⟩
    · have : k ∈ rest.map (·.1) := by
        simp only [List.map_cons, List.mem_cons] at h
        rcases h with h | h
        · exact absurd h.symm hk
        · exact h
      obtain ⟨v, hv⟩ := ih this
      exact ⟨v, by simpa [kvGet, List.find?, hk] using hv⟩

/-! ### Python dict construction -/

theorem kvSet_fresh {α} (d : List (Str × α)) (k : Str) (v : α) (h : k ∉ d.map (·.1)) : kvSet d k v = d ++ [(k, v)] := by
  unfold kvSet
  have : d.any (fun x => decide (x.1 = k)) = false := by
    rw [List.any_eq_false]
    intro x hx hxk
    apply h
    have : x.1 = k := by simpa using hxk
    rw [← this]
    exact List.mem_map_of_mem (f := (·.1)) hx
  simp [this]

theorem dictOf_foldl {α} (ps acc : List (Str × α)) (h : ((acc ++ ps).map (·.1)).Nodup) :
    ps.foldl (fun d kv => kvSet d kv.1 kv.2) acc = acc ++ ps := by
  induction ps generalizing acc with
  | nil => simp
  | cons kv rest ih =>
    simp only [List.foldl_cons]
    have hfresh : kv.1 ∉ acc.map (·.1) := by
      intro hmem
      simp only [List.map_append, List.map_cons] at h
      have := (List.nodup_append.1 h).2.2
      exact this _ hmem _ (List.mem_cons_self ..) rfl
    rw [kvSet_fresh _ _ _ hfresh]
    have : acc ++ [(kv.1, kv.2)] ++ rest = acc ++ kv :: rest := by simp
    rw [ih (acc ++ [(kv.1, kv.2)]) (by rw [this]; exact h), this]

theorem dictOf_nodup {α} (ps : List (Str × α)) (h : (ps.map (·.1)).Nodup) : dictOf ps = ps := by
  unfold dictOf
  have := dictOf_foldl ps [] (by simpa using h)
  simpa using this

/-! ### `Params` -/

theorem params_get_nil (k : Str) : Params.get [] k = none := rfl

theorem params_get_cons (kv : Str × Val) (rest : Params) (k : Str) :
    Params.get (kv :: rest) k = if kv.1 = k then some kv.2 else Params.get rest k := by
  unfold Params.get
  by_cases h : kv.1 = k
  · simp [List.find?, h]
  · simp [List.find?, h]

theorem params_has_cons (kv : Str × Val) (rest : Params) (k : Str) :
    Params.has (kv :: rest) k = (decide (kv.1 = k) || Params.has rest k) := by
  simp [Params.has]

theorem params_get_append_single (p : Params) (k k' : Str) (v : Val) :
    Params.get (p ++ [(k, v)]) k' = match Params.get p k' with
      | some x => some x
      | none => if k = k' then some v else none := by
  induction p with
  | nil => simp [params_get_cons, params_get_nil]
  | cons kv rest ih =>
    rw [List.cons_append, params_get_cons, params_get_cons]
    by_cases h : kv.1 = k'
    · simp [h]
    · simp only [h, if_false]; exact ih

def updKV (k : Str) (v : Val) : Str × Val → Str × Val := fun kw => if kw.1 = k then (kw.1, v) else (kw.1, kw.2)

theorem params_set_eq (p : Params) (k : Str) (v : Val) :
    p.set k v = if p.has k then p.map (updKV k v) else p ++ [(k, v)] := rfl

theorem params_get_map_ne (p : Params) (k k' : Str) (v : Val) (hne : k' ≠ k) :
    Params.get (p.map (updKV k v)) k' = Params.get p k' := by
  induction p with
  | nil => rfl
  | cons kv rest ih =>
    rw [List.map_cons, params_get_cons, params_get_cons, ih]
    by_cases hk : kv.1 = k
    · have : kv.1 ≠ k' := by rw [hk]; exact Ne.symm hne
      simp [updKV, hk, this, Ne.symm hne]
    · simp [updKV, hk]

theorem params_get_map_eq (p : Params) (k : Str) (v : Val) (h : p.has k = true) :
    Params.get (p.map (updKV k v)) k = some v := by
  induction p with
  | nil => simp [Params.has] at h
  | cons kv rest ih =>
    rw [List.map_cons, params_get_cons]
    by_cases hk : kv.1 = k
    · simp [updKV, hk]
    · rw [params_has_cons] at h
      simp only [hk, decide_false, Bool.false_or] at h
      simp only [updKV, hk, if_false]
      exact ih h

theorem params_get_none_of_not_has (p : Params) (k : Str) (h : p.has k = false) : Params.get p k = none := by
  induction p with
  | nil => rfl
  | cons kv rest ih =>
    rw [params_has_cons] at h
    simp only [Bool.or_eq_false_iff, decide_eq_false_iff_not] at h
    rw [params_get_cons]
    simp only [h.1, if_false]
    exact ih h.2

theorem params_get_set_eq (p : Params) (k : Str) (v : Val) : (p.set k v).get k = some v := by
  rw [params_set_eq]
  by_cases h : p.has k = true
  · simp only [h, if_true]; exact params_get_map_eq p k v h
  · have h' : p.has k = false := by simpa using h
    simp only [h', Bool.false_eq_true, if_false]
    rw [params_get_append_single, params_get_none_of_not_has p k h']
    simp

theorem params_get_set_ne (p : Params) (k k' : Str) (v : Val) (hne : k' ≠ k) : (p.set k v).get k' = p.get k' := by
  rw [params_set_eq]
  by_cases h : p.has k = true
  · simp only [h, if_true]; exact params_get_map_ne p k k' v hne
  · have h' : p.has k = false := by simpa using h
    simp only [h', Bool.false_eq_true, if_false]
    rw [params_get_append_single]
    cases Params.get p k' with
    | some x => rfl
    | none => simp [Ne.symm hne]

/-! ### primitive converters: `deserialize(serialize(p))` -/

theorem isSpace_minus (e : Env) : e.isSpace '-' = false := by
  simp [Env.isSpace, isAscii, isAsciiSpace]

theorem isIntSpace_minus (e : Env) : e.isIntSpace '-' = false := by
  simp [Env.isIntSpace, isAscii]

theorem pyInt_intStr (e : Env) (i : Int) : e.pyInt (intStr i) = some i := by
  unfold intStr
  by_cases hneg : i < 0
  · simp only [hneg, if_true]
    rw [natStr_eq]
    have hne := nstr_ne_nil i.natAbs
    have hall := nstr_AllD i.natAbs
    have hstrip : e.intStrip ('-' :: nstr i.natAbs) = '-' :: nstr i.natAbs := by
      apply intStrip_eq
      · intro c hc
        simp at hc
        rw [← hc]; exact isIntSpace_minus e
      · intro c hc
        have : c ∈ nstr i.natAbs := by
          rw [List.getLast?_cons_of_ne_nil hne] at hc
          exact List.mem_of_mem_getLast? hc
        exact not_intSpace_of_digit e (hall c this)
    unfold Env.pyInt
    rw [hstrip]
    simp only [if_true]
    cases hb : nstr i.natAbs with
    | nil => exact absurd hb hne
    | cons d ds =>
      have := intBody_digits_ne e (nstr i.natAbs) hall hne false
      rw [hb] at this
      simp only [this]
      have hd : digitsVal ((d :: ds).map fun c => c.toNat - 48) = i.natAbs := by
        have := dval_nstr i.natAbs
        rw [hb] at this
        exact this
      simp only [hd, if_true, Int.ofNat_eq_natCast]
      congr 1
      omega
  · simp only [hneg, if_false]
    rw [natStr_eq, pyInt_digits e _ (nstr_AllD _) (nstr_ne_nil _), dval_nstr]
    congr 1
    omega

theorem strip_true (e : Env) : e.strip ['t', 'r', 'u', 'e'] = ['t', 'r', 'u', 'e'] := by
  simp [Env.strip, Env.lstrip, Env.rstrip, Env.isSpace, isAscii, isAsciiSpace]

theorem strip_false (e : Env) : e.strip ['f', 'a', 'l', 's', 'e'] = ['f', 'a', 'l', 's', 'e'] := by
  simp [Env.strip, Env.lstrip, Env.rstrip, Env.isSpace, isAscii, isAsciiSpace]

/-- the string `converter.serialize` gives for a loaded scalar that came from `p` -/
theorem serializeJ_encPrim (p : PVal) : serializeJ (encPrim p) = .ok (some (serPrim p)) := by
  cases p <;> rfl

theorem deOne_serPrim (e : BEnv) (p : PVal) (h : pvalType p ≠ .qname) :
    deOne e (serPrim p) (.prim (pvalType p)) [] = some p := by
  cases p with
  | str s => rfl
  | int i => simp [deOne, serPrim, pvalType, pyInt_intStr]
  | bool b =>
    cases b with
    | true => simp [deOne, serPrim, pvalType, strip_true]
    | false => simp [deOne, serPrim, pvalType, strip_false]
  | qname t => exact absurd rfl h

theorem mapM_congr_except {α β} {f g : α → Except Err β} :
    ∀ (xs : List α), (∀ x ∈ xs, f x = g x) → xs.mapM f = xs.mapM g := by
  intro xs
  induction xs with
  | nil => intro _; rfl
  | cons x t ih =>
    intro h
    rw [List.mapM_cons, List.mapM_cons, h x (List.mem_cons_self ..), ih (fun y hy => h y (List.mem_cons_of_mem _ hy))]

end Proofs.C04
