"""More sections for Tables.lean. Each function gets the line writer `w`."""
import extract_tables as T
from extract_tables import chars, extra, lean_bool, nats, strs  # noqa: F401


@extra
def c03_namespaces(w):
    """Constant tables the XML writer consults (C03)."""
    from xsdata.formats.dataclass.serializers import mixins
    from xsdata.models import enums
    from xsdata.models.enums import DataType, Namespace, QNames

    w("-- xsdata/models/enums.py : Namespace (uri, prefix) as consulted by Namespace.get_enum")
    pairs = [(uri, ns.prefix) for uri, ns in enums.__STANDARD_NAMESPACES__.items()]
    w("def nsEnum : List (List Char × List Char) := [" + ", ".join(f"({chars(u)}, {chars(p)})" for u, p in pairs) + "]")
    w("-- xsdata/models/enums.py : __DataTypeQNameIndex__ keys (DataType.from_qname)")
    w(f"def dataTypeQNames : List (List Char) := {strs(list(enums.__DataTypeQNameIndex__.keys()))}")
    w("-- xsdata/models/enums.py : Namespace.XML")
    w(f"def nsXmlUri : List Char := {chars(Namespace.XML.uri)}")
    w(f"def nsXmlPrefix : List Char := {chars(Namespace.XML.prefix)}")
    w("-- xsdata/models/enums.py : QNames")
    w(f"def qnXsiNil : List Char := {chars(QNames.XSI_NIL)}")
    w(f"def qnXsiType : List Char := {chars(QNames.XSI_TYPE)}")
    w(f"def qnXsiSchemaLocation : List Char := {chars(QNames.XSI_SCHEMA_LOCATION)}")
    w(f"def qnXsiNoNamespaceSchemaLocation : List Char := {chars(QNames.XSI_NO_NAMESPACE_SCHEMA_LOCATION)}")
    w("-- xsdata/formats/dataclass/serializers/mixins.py : XSI_NIL")
    w(f"def xsiNilTuple : List Char × List Char := ({chars(mixins.XSI_NIL[0])}, {chars(mixins.XSI_NIL[1])})")
    w("-- xml.sax.saxutils.XMLGenerator._qname : the hard-wired XML namespace")
    from xml.sax.saxutils import XMLGenerator

    consts = [c for c in XMLGenerator._qname.__code__.co_consts if isinstance(c, str) and c.startswith("http")]
    assert len(consts) == 1, consts
    w(f"def saxXmlNamespace : List Char := {chars(consts[0])}")
    w("")
