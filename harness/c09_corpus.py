"""Regenerates corpus/C09/*.json: hand-written respellings of one document, as `bind.parse`
correspondence cases (run: /venv/bin/python harness/c09_corpus.py)."""
import json
import os
import sys

HERE = os.path.dirname(os.path.abspath(__file__))
sys.path.insert(0, HERE)
sys.path.insert(0, os.path.join(HERE, "shims"))
sys.path.insert(0, os.environ.get("XSDATA_REPO", "/repo"))

import bindlib as B  # noqa: E402
import c09_rewrite as R  # noqa: E402

DESC = {"classes": [
    {"name": "Leaf", "meta": {"namespace": "urn:a"}, "fields": [
        {"name": "v", "type": {"opt": "str"}, "metadata": {"type": "Element"}, "default": {"value": None}},
        {"name": "n", "type": {"opt": "int"}, "metadata": {"type": "Attribute"}, "default": {"value": None}},
        {"name": "flag", "type": {"opt": "bool"}, "metadata": {"type": "Attribute"}, "default": {"value": None}},
    ]},
    {"name": "Root", "meta": {"namespace": "urn:a"}, "fields": [
        {"name": "a", "type": {"opt": "int"}, "metadata": {"type": "Attribute"}, "default": {"value": None}},
        {"name": "b", "type": {"opt": "str"}, "metadata": {"type": "Attribute"}, "default": {"value": None}},
        {"name": "q", "type": {"opt": "qname"}, "metadata": {"type": "Element"}, "default": {"value": None}},
        {"name": "item", "type": {"list": {"cls": "Leaf"}}, "metadata": {"type": "Element"}, "default": {"factory": "list"}},
    ]},
]}

ORIG = ('<ns0:Root xmlns:ns0="urn:a" a="7" b="x&lt;y é"><ns0:q xmlns:ns1="urn:q">ns1:n1</ns0:q>'
        '<ns0:item n="1" flag="true"><ns0:v>hello &amp; bye</ns0:v></ns0:item><ns0:item n="2"/></ns0:Root>').encode()

SPELLINGS = {
    "default-ns-utf16": ('<?xml version="1.0" encoding="UTF-16"?>\n<Root xmlns="urn:a" b="x&lt;y é" a="7">\n  <r:q xmlns="urn:q" '
                         'xmlns:r="urn:a">n1</r:q>\n  <item flag=" true " n=" 1">\n    <v>hello &amp; bye</v>\n  </item>\n  <item n="2"></item>\n</Root>\n').encode("utf-16"),
    "cdata-charref-latin1": ("<?xml version='1.0' encoding='ISO-8859-1'?><!DOCTYPE p:Root><p:Root b='x&#60;y &#xE9;' a='&#55;' xmlns:p='urn:a'>"
                             "<!-- c --><p:q xmlns:z='urn:q'>z:n1</p:q><?pi x?><p:item flag='1' n='1'><p:v><![CDATA[hello & ]]>b&#121;e</p:v></p:item>"
                             "<p:item n='2'/></p:Root><!-- after -->").encode("iso-8859-1"),
    "comment-in-text": ('<ns0:Root xmlns:ns0="urn:a" a="7" b="x&lt;y é"><ns0:q xmlns:ns1="urn:q">ns1:n1</ns0:q>'
                        '<ns0:item n="1" flag="true"><ns0:v>hello <!--t-->&amp; bye</ns0:v></ns0:item><ns0:item n="2"/></ns0:Root>').encode(),
}


def main():
    out = os.path.join(os.path.dirname(HERE), "corpus", "C09")
    os.makedirs(out, exist_ok=True)
    u = B.Universe(DESC)
    ctx = u.export_ctx()
    for name, data in SPELLINGS.items():
        tree = R.infoset(data)
        case = {"op": "bind.parse", "args": {
            "ctx": ctx, "tree": tree, "clazz": "Root", "config": {}, "desc": DESC, "_kind": "valid", "_kinds": ["corpus", name],
            "_doc": __import__("base64").b64encode(data).decode(), "_files": {}, "_handlers": ["native", "lxml"],
            "_orig": __import__("base64").b64encode(ORIG).decode(), "_xinclude": False,
            "_encoding": "utf-16" if "utf16" in name else "iso-8859-1" if "latin1" in name else "utf-8",
        }}
        with open(os.path.join(out, name + ".json"), "w") as f:
            json.dump(case, f, ensure_ascii=False, indent=None)
    print("wrote", sorted(os.listdir(out)))


if __name__ == "__main__":
    main()
