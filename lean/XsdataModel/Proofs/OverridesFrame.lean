/- `ValidateAttributesOverrides`: when every attr of a class that is named like a base
attr is a compatible override of it, validating the class changes no other class. -/
import XsdataModel.Codegen.Overrides

set_option linter.unusedSimpArgs false
set_option linter.unusedVariables false

namespace Xs.Codegen
open Py List

/-- the child attr does not make the handler touch the parent attr: it is an override
(same xml type and namespace) and not "a list over a non-list" -/
def calmPair (child parent : OAttr) : Bool :=
  overridesAttr child parent && !(child.isList && !parent.isList && !parent.isProhibited)

/-- the slug map `validateClass` builds for class `c` -/
def baseMapOf (st : OState) (c : OClass) : List ((Nat × Nat) × Str) :=
  (baseAttrPositions st (st.length + 1) c.base).filterMap (fun p => (attrAt st p).map (fun a => (p, a.slug)))

/-- decidable: every attr of class `t` that meets a base attr is calm with it -/
def calmClass (st : OState) (t : Nat) : Bool :=
  match st[t]? with
  | none => true
  | some c => c.attrs.all (fun child =>
      match ((baseMapOf st c).find? (fun p => p.2 == child.slug)).map (·.1) with
      | none => true
      | some pp => match attrAt st pp with
        | none => true
        | some parent => calmPair child parent)

theorem validateAttr_calm (cleanUri : Str → Str) (st : OState) (t : Nat) (cur : List OAttr)
    (baseMap : List ((Nat × Nat) × Str)) (child : OAttr)
    (h : ∀ pp parent, (baseMap.find? (fun p => p.2 == child.slug)).map (·.1) = some pp →
      attrAt st pp = some parent → calmPair child parent = true) :
    (validateAttr cleanUri st t cur baseMap child).2 = st := by
  unfold validateAttr
  simp only
  cases hf : (baseMap.find? (fun p => p.2 == child.slug)).map (·.1) with
  | none => rfl
  | some pp =>
    simp only
    cases ha : attrAt st pp with
    | none => rfl
    | some parent =>
      have hc := h pp parent hf ha
      unfold calmPair at hc
      simp only [Bool.and_eq_true, Bool.not_eq_true'] at hc
      simp only [hc.1, if_true]
      by_cases hany : (parent.anyType && !child.anyType) = true
      · simp only [hany, if_true]
      · simp only [hany, Bool.false_eq_true, if_false, hc.2]
        by_cases h2 : (!child.isList && !child.isProhibited && parent.isList) = true
        · simp only [h2, if_true]
          split <;> rfl
        · simp only [h2, Bool.false_eq_true, if_false]
          split <;> rfl

theorem getElem?_zipIdx_map {α β} (f : α × Nat → β) (l : List α) (j : Nat) :
    (l.zipIdx.map f)[j]? = (l[j]?).map (fun a => f (a, j)) := by
  rw [List.getElem?_map, List.getElem?_zipIdx]
  cases l[j]? <;> simp

/-- **Frame property**: a calm class is validated without touching any other class. -/
theorem validateClass_frame (cleanUri : Str → Str) (st : OState) (t : Nat)
    (hcalm : calmClass st t = true) (j : Nat) (hj : j ≠ t) :
    (validateClass cleanUri st t)[j]? = st[j]? := by
  unfold validateClass
  cases hc : st[t]? with
  | none => rfl
  | some c =>
    simp only
    unfold calmClass at hcalm
    rw [hc] at hcalm
    simp only [List.all_eq_true] at hcalm
    -- the loop never changes the state
    have key : ∀ (l : List OAttr) (cur : List OAttr), (∀ x ∈ l, x ∈ c.attrs) →
        (l.foldl (fun (acc : OState × List OAttr) child =>
          let cur := acc.2
          let r := validateAttr cleanUri acc.1 t cur (baseMapOf st c) child
          let cur' := match r.1 with
            | some child' => cur.map (fun a => if a == child then child' else a)
            | none => cur.filter (fun a => !(a == child))
          (r.2, cur')) (st, cur)).1 = st := by
      intro l
      induction l with
      | nil => intro _ _; rfl
      | cons x xs ih =>
        intro cur hl
        rw [List.foldl_cons]
        have hx := hcalm x (hl x List.mem_cons_self)
        have hst : (validateAttr cleanUri st t cur (baseMapOf st c) x).2 = st := by
          apply validateAttr_calm
          intro pp parent hf ha
          rw [hf] at hx
          simp only [ha] at hx
          exact hx
        simp only [hst]
        exact ih _ (fun y hy => hl y (List.mem_cons_of_mem _ hy))
    have hk := key c.attrs c.attrs (fun _ h => h)
    unfold baseMapOf at hk
    -- name the result of the loop and use its first component
    generalize hres : (c.attrs.foldl _ (st, c.attrs)) = res at hk ⊢
    obtain ⟨st', attrs'⟩ := res
    simp only at hk
    subst hk
    simp only
    rw [getElem?_zipIdx_map]
    cases hjj : st'[j]? with
    | none => rfl
    | some cj =>
      have : (j == t) = false := by simpa using hj
      simp [this]

end Xs.Codegen
