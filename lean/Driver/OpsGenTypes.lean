import Driver.Proto
import Driver.OpsGen
import XsdataModel.Gen.FieldType
open Lean Proto Py Xs.Gen

namespace OpsGenTypes
open OpsGen

/-- {"b": code} | {"r": t, "pattern": bool} | {"l": t} | {"u": [t…]} -/
partial def dSTy (j : Json) : Except String STy := do
  match fld j "b" with
  | .str s => pure (.builtin s.toList)
  | _ =>
  match fld j "r" with
  | .null =>
    (match fld j "l" with
    | .null => do
      let ms ← (← asArr (fld j "u")).mapM dSTy
      pure (.union ms)
    | i => do pure (.list (← dSTy i)))
  | b => do pure (.restriction (← dSTy b) (← getBool j "pattern"))

def run (op : String) (a : Json) : Option (Except String Json) :=
  match op with
  | "gen.field_type" => some do
      -- the annotation + tokens flag of the field of every declaration of the simple type
      let t ← dSTy (fld a "type")
      let decls ← asArr (fld a "decls")
      let r := attrOf t
      pure <| ok (jObj [
        ("tokens", jBool r.tokens), ("pattern", jBool r.pattern),
        ("fields", Json.arr (← decls.toArray.mapM fun d => do
          pure (jStr (fieldTypeOf t (← getBool d "attr") (← getNat d "min") (← getNat d "max")))))])
  | _ => none

end OpsGenTypes
