/- helper lemmas for Props/C10 -/
import XsdataModel.Bind.Parse

namespace Proofs.C10
open Py Xs.Bind

/-- sequential composition of two `parseKids` results -/
def seqKids (r1 : Except Err (Out × ElState)) (k : ElState → Except Err (Out × ElState)) :
    Except Err (Out × ElState) :=
  match r1 with
  | .error err => .error err
  | .ok (o1, st1) =>
    match k st1 with
    | .error err => .error err
    | .ok (o2, st2) => .ok (⟨o1.objs ++ o2.objs, o1.warns + o2.warns⟩, st2)

theorem parseKids_append (e : BEnv) (Γ : Ctx) (cfg : ParserConfig) (m : XmlMeta) (w : Option QN) :
    ∀ (xs ys : List Tree) (st : ElState),
      parseKids e Γ cfg m st w (xs ++ ys) =
        seqKids (parseKids e Γ cfg m st w xs) (fun st1 => parseKids e Γ cfg m st1 w ys) := by
  intro xs
  induction xs with
  | nil =>
    intro ys st
    simp only [List.nil_append, parseKids, seqKids]
    cases h : parseKids e Γ cfg m st w ys with
    | error err => rfl
    | ok p => obtain ⟨⟨o, wn⟩, st2⟩ := p; simp
  | cons x xs ih =>
    intro ys st
    obtain ⟨q, a, n, t, c, tl⟩ := x
    rw [List.cons_append, parseKids.eq_2, parseKids.eq_2]
    split
    · cases h1 : parseKids e Γ cfg m st (some q) c with
      | error err => simp [seqKids, bind, Except.bind]
      | ok p1 =>
        obtain ⟨o1, st1⟩ := p1
        simp only [bind, Except.bind, ih]
        cases h2 : parseKids e Γ cfg m st1 w xs with
        | error err => simp [seqKids]
        | ok p2 =>
          obtain ⟨o2, st2⟩ := p2
          cases h3 : parseKids e Γ cfg m st2 w ys with
          | error err => simp [seqKids, h3, pure, Except.pure]
          | ok p3 =>
            obtain ⟨o3, st3⟩ := p3
            simp [seqKids, h3, pure, Except.pure, List.append_assoc, Nat.add_assoc]
    · cases h0 : childNode e Γ cfg m st q a n w with
      | error err => simp [seqKids, bind, Except.bind]
      | ok p0 =>
        obtain ⟨node, st0⟩ := p0
        simp only [bind, Except.bind]
        cases h1 : parseNode e Γ cfg node (Tree.node q a n t c tl) with
        | error err => simp [seqKids]
        | ok o1 =>
          simp only [ih]
          cases h2 : parseKids e Γ cfg m st0 w xs with
          | error err => simp [seqKids]
          | ok p2 =>
            obtain ⟨o2, st2⟩ := p2
            cases h3 : parseKids e Γ cfg m st2 w ys with
            | error err => simp [seqKids, h3, pure, Except.pure]
            | ok p3 =>
              obtain ⟨o3, st3⟩ := p3
              simp [seqKids, h3, pure, Except.pure, List.append_assoc, Nat.add_assoc]


/-! ### single branches of `parseNode` (unfoldings) -/

/-- a `SkipNode` swallows any subtree: no object, no warning, whatever the flags -/
theorem parseNode_skip (e : BEnv) (Γ : Ctx) (cfg : ParserConfig) (t : Tree) :
    parseNode e Γ cfg .skip t = .ok ⟨[], 0⟩ := by
  cases t; simp [parseNode]

/-- a child element under a `PrimitiveNode` raises `XmlContextError`, whatever the flags -/
theorem parseNode_primitive_child (e : BEnv) (Γ : Ctx) (cfg : ParserConfig) (pm : XmlMeta) (var : XmlVar)
    (ns : NsMap) (nil : Bool) (q : QN) (a : List (QN × Str)) (n : NsMap) (t tl : Option Str) (u : Tree) (us : List Tree) :
    parseNode e Γ cfg (.primitive pm var ns nil) (.node q a n t (u :: us) tl)
      = .error (.context "Primitive node doesn't support child nodes!") := by
  simp [parseNode]

/-- the same under a `StandardNode` (an `xsi:type` naming a builtin datatype) -/
theorem parseNode_standard_child (e : BEnv) (Γ : Ctx) (cfg : ParserConfig) (var : XmlVar) (dt : PT)
    (ns : NsMap) (nillable derived mixed : Bool) (q : QN) (a : List (QN × Str)) (n : NsMap) (t tl : Option Str)
    (u : Tree) (us : List Tree) :
    parseNode e Γ cfg (.standard var dt ns nillable derived mixed) (.node q a n t (u :: us) tl)
      = .error (.context "StandardNode node doesn't support child nodes!") := by
  simp [parseNode]

/-! ### fields without a namespace list -/

/-- a wildcard / any-attribute field without a namespace
list (`XmlVar.namespaces == ()`: no `namespace` metadata, and for a Wildcard field a class
without namespace) matches exactly the names that have no namespace. -/
theorem matchNamespace_nil (q : QN) : matchNamespace [] q = (targetUri q).isNone := by
  simp only [matchNamespace, List.isEmpty_nil, Bool.true_and, List.any_nil]
  cases targetUri q <;> simp

theorem findByNamespace_bare {vars : List XmlVar} {q : QN}
    (hb : vars.all (·.namespaces.isEmpty) = true) (hq : (targetUri q).isSome = true) :
    findByNamespace vars q = none := by
  unfold findByNamespace
  rw [List.find?_eq_none]
  intro v hv
  have : v.namespaces = [] := by simpa using List.all_eq_true.mp hb v hv
  have hn : (targetUri q).isNone = false := by cases h : targetUri q <;> simp_all
  simp [this, matchNamespace_nil, hn]

/-! ### vocabulary of the statements -/

/-- the node `ElementNode.child` created is a `PrimitiveNode` or a `StandardNode` -/
def isSimpleNode : Node → Bool
  | .primitive .. | .standard .. => true
  | _ => false


/-- `q` is an unknown property of the class described by `m`: no element, choice or
wildcard var takes a child named `q`, and `q` is not the name of a wrapper element -/
def unknownFor (m : XmlMeta) (q : QN) : Bool :=
  (m.findChildren q).isEmpty && !m.wrappers.any (·.1 = q)

/-- one candidate var of `find_children` that `ElementNode.child` passes over -/
def passedOver (e : BEnv) (Γ : Ctx) (m : XmlMeta) (st : ElState) (q : QN) (a : List (QN × Str))
    (n : NsMap) (wrapper : Option QN) (var : XmlVar) : Bool :=
  (wrapper.isSome && var.wrapperQName ≠ wrapper) ||
  (let unique := if !var.isElement || var.listElement then 0 else var.index
   !(unique = 0 || !st.assigned.contains unique)) ||
  (match buildNode e Γ m q var a n with
   | .ok none => true
   | _ => false)

/-- every candidate is passed over (other wrapper, already assigned, or `build_node`
returned `None`) and `q` does not open a wrapper here -/
def noCandidate (e : BEnv) (Γ : Ctx) (m : XmlMeta) (st : ElState) (q : QN) (a : List (QN × Str))
    (n : NsMap) (wrapper : Option QN) : Bool :=
  (m.findChildren q).all (passedOver e Γ m st q a n wrapper) &&
  !(wrapper.isNone && m.wrappers.any (·.1 = q))

theorem unknownFor_noCandidate {m : XmlMeta} {q : QN} (h : unknownFor m q = true)
    (e : BEnv) (Γ : Ctx) (st : ElState) (a : List (QN × Str)) (n : NsMap) (w : Option QN) :
    noCandidate e Γ m st q a n w = true := by
  simp only [unknownFor, Bool.and_eq_true, List.isEmpty_iff, Bool.not_eq_true'] at h
  simp [noCandidate, h.1, h.2]

/-- what `ElementNode.child` does when no var yields a node -/
def unknownOutcome (cfg : ParserConfig) (st : ElState) : Except Err (Node × ElState) :=
  if cfg.failOnUnknownProperties then .error (.parser "Unknown property") else .ok (.skip, st)

theorem childNode_go_passed (e : BEnv) (Γ : Ctx) (cfg : ParserConfig) (m : XmlMeta) (st : ElState)
    (q : QN) (a : List (QN × Str)) (n : NsMap) (w : Option QN) :
    ∀ vars : List XmlVar, vars.all (passedOver e Γ m st q a n w) = true →
      childNode.go e Γ cfg m st q a n w vars = unknownOutcome cfg st := by
  intro vars
  induction vars with
  | nil => intro _; simp [childNode.go, unknownOutcome]
  | cons v vs ih =>
    intro h
    simp only [List.all_cons, Bool.and_eq_true] at h
    obtain ⟨hv, hvs⟩ := h
    rw [childNode.go.eq_def]
    simp only
    rw [ih hvs]
    simp only [passedOver] at hv
    generalize (if (!v.isElement || v.listElement) = true then 0 else v.index) = u at hv ⊢
    by_cases h1 : (w.isSome && decide (v.wrapperQName ≠ w)) = true
    · rw [if_pos h1]
    · rw [if_neg h1]
      by_cases h2 : (decide (u = 0) || !st.assigned.contains u) = true
      · rw [if_pos h2]
        simp only [h1, h2, Bool.false_or, Bool.not_true] at hv
        cases hb : buildNode e Γ m q v a n with
        | error err => simp [hb] at hv
        | ok r =>
          cases r with
          | none => rfl
          | some nd => simp [hb] at hv
      · rw [if_neg h2]

theorem childNode_noCandidate {e : BEnv} {Γ : Ctx} {m : XmlMeta} {st : ElState}
    {q : QN} {a : List (QN × Str)} {n : NsMap} {w : Option QN} (cfg : ParserConfig)
    (h : noCandidate e Γ m st q a n w = true) :
    childNode e Γ cfg m st q a n w = unknownOutcome cfg st := by
  simp only [noCandidate, Bool.and_eq_true] at h
  exact childNode_go_passed e Γ cfg m st q a n w _ h.1

/-- lenient: the head element is swallowed -/
theorem parseKids_head_skipped {e : BEnv} {Γ : Ctx} {cfg : ParserConfig} {m : XmlMeta} {st : ElState}
    {q : QN} {a : List (QN × Str)} {n : NsMap} {w : Option QN}
    (hc : cfg.failOnUnknownProperties = false) (h : noCandidate e Γ m st q a n w = true)
    (t : Option Str) (c : List Tree) (tl : Option Str) (rest : List Tree) :
    parseKids e Γ cfg m st w (.node q a n t c tl :: rest) = parseKids e Γ cfg m st w rest := by
  have hw : (w.isNone && m.wrappers.any fun x => decide (x.fst = q)) = false := by
    simp only [noCandidate, Bool.and_eq_true, Bool.not_eq_true'] at h; exact h.2
  rw [parseKids.eq_2, hw, childNode_noCandidate cfg h]
  simp only [unknownOutcome, hc, Bool.false_eq_true, if_false, bind, Except.bind, parseNode]
  cases parseKids e Γ cfg m st w rest with
  | error err => rfl
  | ok p => obtain ⟨⟨o, wn⟩, st2⟩ := p; simp [pure, Except.pure]

/-- strict: the head element stops the parse -/
theorem parseKids_head_strict {e : BEnv} {Γ : Ctx} {cfg : ParserConfig} {m : XmlMeta} {st : ElState}
    {q : QN} {a : List (QN × Str)} {n : NsMap} {w : Option QN}
    (hc : cfg.failOnUnknownProperties = true) (h : noCandidate e Γ m st q a n w = true)
    (t : Option Str) (c : List Tree) (tl : Option Str) (rest : List Tree) :
    parseKids e Γ cfg m st w (.node q a n t c tl :: rest) = .error (.parser "Unknown property") := by
  have hw : (w.isNone && m.wrappers.any fun x => decide (x.fst = q)) = false := by
    simp only [noCandidate, Bool.and_eq_true, Bool.not_eq_true'] at h; exact h.2
  rw [parseKids.eq_2, hw, childNode_noCandidate cfg h]
  simp [unknownOutcome, hc, bind, Except.bind]


/-! ### attributes -/

theorem foldlM_insert_noop {α β ε : Type} {f : β → α → Except ε β} {x : α}
    (h : ∀ b, f b x = .ok b) (b : β) (l1 l2 : List α) :
    List.foldlM f b (l1 ++ x :: l2) = List.foldlM f b (l1 ++ l2) := by
  simp only [List.foldlM_append, List.foldlM_cons, h]
  cases List.foldlM f b l1 <;> rfl

/-- `r` runs first; when it succeeds, `err` is raised (when it fails, its own error stands) -/
def thenFail {ε β γ : Type} (r : Except ε β) (err : ε) : Except ε γ :=
  match r with
  | .ok _ => .error err
  | .error e => .error e

theorem foldlM_insert_fail {α β ε : Type} {f : β → α → Except ε β} {x : α} {err : ε}
    (h : ∀ b, f b x = .error err) (b : β) (l1 l2 : List α) :
    List.foldlM f b (l1 ++ x :: l2) = thenFail (List.foldlM f b l1) err := by
  simp only [List.foldlM_append, List.foldlM_cons, h]
  cases List.foldlM f b l1 <;> rfl

/-- `q` matches neither a declared attribute nor an `Attributes` (anyAttribute) field -/
def unknownAttr (m : XmlMeta) (q : QN) : Bool :=
  (m.findAttribute q).isNone && (m.findAnyAttributes q).isNone

/-- the attribute is reported: the option is on and the name is outside the xsi namespace -/
def attrReported (cfg : ParserConfig) (q : QN) : Bool :=
  cfg.failOnUnknownAttributes && targetUri q ≠ some xsiNs

theorem find_insert_ne {β : Type} {q k : QN} (hne : q ≠ k) (v : β) (a1 a2 : List (QN × β)) :
    (a1 ++ (q, v) :: a2).find? (·.1 = k) = (a1 ++ a2).find? (·.1 = k) := by
  simp only [List.find?_append, List.find?_cons]
  have : decide (q = k) = false := by simpa using hne
  simp [this]

theorem xsiTypeOf_insert {q : QN} (hne : q ≠ xsiType) (e : BEnv) (v : Str) (a1 a2 : List (QN × Str)) (n : NsMap) :
    xsiTypeOf e (a1 ++ (q, v) :: a2) n = xsiTypeOf e (a1 ++ a2) n := by
  simp only [xsiTypeOf, find_insert_ne hne]

theorem xsiNilOf_insert {q : QN} (hne : q ≠ xsiNil) (v : Str) (a1 a2 : List (QN × Str)) :
    xsiNilOf (a1 ++ (q, v) :: a2) = xsiNilOf (a1 ++ a2) := by
  simp only [xsiNilOf, find_insert_ne hne]

/-- an `ElementNode` was given the attributes and prefix map at `start`; at `end` it does
not look at the element's own attribute list again -/
theorem parseNode_element_tree_attrs (e : BEnv) (Γ : Ctx) (cfg : ParserConfig) (m : XmlMeta)
    (ea : List (QN × Str)) (en : NsMap) (d : Bool) (xt : Option QN) (xn : Option Bool)
    (pq : QN) (pa pa' : List (QN × Str)) (pn pn' : NsMap) (pt ptl : Option Str) (c : List Tree) :
    parseNode e Γ cfg (.element m ea en d xt xn) (.node pq pa pn pt c ptl)
      = parseNode e Γ cfg (.element m ea en d xt xn) (.node pq pa' pn' pt c ptl) := by
  simp only [parseNode]

/-! ### conversion -/

/-- `converter.deserialize` raises `ConverterError` for this value (for a tokens var: for one
of the tokens) -/
def convFails (e : BEnv) (var : VarCore) (s : Str) (nsmap : NsMap) (types : Option (List TypeRef)) : Bool :=
  let types := types.getD var.types
  if var.tokens then ((pySplitWs e.py s).mapM (fun t => deserialize e t types nsmap)).isNone
  else (deserialize e s types nsmap).isNone

/-! ### injection at depth -/

/-- `ks'` is `ks` with one element named `uq` (any content) inserted somewhere below an
element bound by `m` (entered with node state `st`, under wrapper `w`): directly among the
children when `uq` is unknown for `m`, or deeper — inside a child that the parser binds
with an `ElementNode`, or inside one of `m`'s wrapper elements. -/
inductive InjectedKids (e : BEnv) (Γ : Ctx) (cfg : ParserConfig) (uq : QN) :
    XmlMeta → ElState → Option QN → List Tree → List Tree → Bool → Prop
  | here {m : XmlMeta} (hq : unknownFor m uq = true) (st : ElState) (w : Option QN)
      (a : List (QN × Str)) (n : NsMap) (t : Option Str) (c : List Tree) (tl : Option Str)
      (pre post : List Tree) :
      InjectedKids e Γ cfg uq m st w (pre ++ post) (pre ++ .node uq a n t c tl :: post)
        (parseKids e Γ cfg m st w pre).isOk
  | inChild {m m' : XmlMeta} {st st1 st' : ElState} {w : Option QN} {o1 : Out}
      {pre : List Tree} (post : List Tree)
      {cq : QN} {ca ea : List (QN × Str)} {cn en : NsMap} (ct ctl : Option Str) {cc cc' : List Tree}
      {d : Bool} {xt : Option QN} {xn : Option Bool}
      (hpre : parseKids e Γ cfg m st w pre = .ok (o1, st1))
      (hw : (w.isNone && m.wrappers.any (·.1 = cq)) = false)
      (hchild : childNode e Γ cfg m st1 cq ca cn w = .ok (.element m' ea en d xt xn, st'))
      {b : Bool} (hrec : InjectedKids e Γ cfg uq m' {} none cc cc' b) :
      InjectedKids e Γ cfg uq m st w (pre ++ .node cq ca cn ct cc ctl :: post)
        (pre ++ .node cq ca cn ct cc' ctl :: post) b
  | inWrapper {m : XmlMeta} {st st1 : ElState} {o1 : Out} {pre : List Tree} (post : List Tree)
      {cq : QN} (ca : List (QN × Str)) (cn : NsMap) (ct ctl : Option Str) {cc cc' : List Tree}
      (hpre : parseKids e Γ cfg m st none pre = .ok (o1, st1))
      (hw : m.wrappers.any (·.1 = cq) = true)
      {b : Bool} (hrec : InjectedKids e Γ cfg uq m st1 (some cq) cc cc' b) :
      InjectedKids e Γ cfg uq m st none (pre ++ .node cq ca cn ct cc ctl :: post)
        (pre ++ .node cq ca cn ct cc' ctl :: post) b


/-! ### a small universe for the non-vacuity examples

`R(a: str element, l: L element)`, `L(x: int element, i: int attribute)`,
`W(w: Optional[object] wildcard ##any)`; single letter names keep the terms short. -/
namespace Ex

def exEnv : BEnv := ⟨Env.ascii, fun _ => true, fun _ => true⟩

def baseVar : VarCore :=
  { index := 1, name := ['a'], localName := ['a'], qname := ['a'], wrapperQName := none,
    types := [.prim .str], clazz := none, init := true, mixed := false, tokens := false, format := none,
    anyType := false, processContents := ['s','t','r','i','c','t'], required := false, nillable := false,
    sequence := none, listElement := false, default := .none, namespaces := [], kind := .element,
    isClazzUnion := false }

def mkVar (v : VarCore) : XmlVar := { v with elements := [], wildcards := [] }

def varA : XmlVar := mkVar baseVar
def varLeaf : XmlVar :=
  mkVar { baseVar with
    index := 2, name := ['l'], localName := ['l'], qname := ['l'], types := [.cls ['L']], clazz := some ['L'] }
def varX : XmlVar := mkVar { baseVar with name := ['x'], localName := ['x'], qname := ['x'], types := [.prim .int] }
def varId : XmlVar :=
  mkVar { baseVar with
    index := 2, name := ['i'], localName := ['i'], qname := ['i'], types := [.prim .int], kind := .attribute }

def metaRoot : XmlMeta :=
  { clazz := ['R'], qname := ['R'], targetQName := some ['R'], nillable := false, text := none, choices := [],
    elements := [(['a'], [varA]), (['l'], [varLeaf])], wildcards := [], attributes := [], anyAttributes := [],
    wrappers := [] }
def metaLeaf : XmlMeta :=
  { clazz := ['L'], qname := ['L'], targetQName := some ['L'], nillable := false, text := none, choices := [],
    elements := [(['x'], [varX])], wildcards := [], attributes := [(['i'], varId)], anyAttributes := [],
    wrappers := [] }

def exCtx : Ctx :=
  { classes := [
      { id := ['R'], metas := [(none, metaRoot)], mro := [['R']], bases := [],
        fields := [⟨['a'], true, some .none⟩, ⟨['l'], true, some .none⟩] },
      { id := ['L'], metas := [(none, metaLeaf)], mro := [['L']], bases := [],
        fields := [⟨['x'], true, some .none⟩, ⟨['i'], true, some .none⟩] }],
    xsiIndex := [(['R'], [['R']]), (['L'], [['L']])], datatypes := [] }

def leafT (s : Str) : QN → Tree := fun q => .node q [] [] (some s) [] none
def unk : Tree := .node ['z'] [(['k'], ['v'])] [] (some ['t']) [leafT ['n'] ['a'], leafT ['m'] ['y']] (some ['t','l'])
def docKids : List Tree := [leafT ['h','i'] ['a'], .node ['l'] [(['i'], ['7'])] [] none [leafT ['5'] ['x']] none]
def doc (ks : List Tree) : Tree := .node ['R'] [] [] none ks none


def varW : XmlVar :=
  mkVar { baseVar with
    name := ['w'], localName := ['w'], qname := ['w'], types := [.obj], kind := .wildcard,
    namespaces := ["##any".toList] }

def metaW : XmlMeta :=
  { clazz := ['W'], qname := ['W'], targetQName := some ['W'], nillable := false, text := none, choices := [],
    elements := [], wildcards := [varW], attributes := [], anyAttributes := [], wrappers := [] }

def ctxW : Ctx :=
  { classes := [{ id := ['W'], metas := [(none, metaW)], mro := [['W']], bases := [],
                  fields := [⟨['w'], true, some .none⟩] }],
    xsiIndex := [(['W'], [['W']])], datatypes := [] }

/-- `V(items: list[str])`, items `<it>` under the wrapper element `<ws>` -/
def varIt : XmlVar :=
  mkVar { baseVar with
    name := ['v'], localName := ['i','t'], qname := ['i','t'], wrapperQName := some ['w','s'], listElement := true,
    default := .listFactory }

def metaV : XmlMeta :=
  { clazz := ['V'], qname := ['V'], targetQName := some ['V'], nillable := false, text := none, choices := [],
    elements := [(['i','t'], [varIt])], wildcards := [], attributes := [], anyAttributes := [],
    wrappers := [(['w','s'], ['i','t'])] }

def ctxV : Ctx :=
  { classes := [{ id := ['V'], metas := [(none, metaV)], mro := [['V']], bases := [],
                  fields := [⟨['v'], true, some (.list [])⟩] }],
    xsiIndex := [(['V'], [['V']])], datatypes := [] }

/-- `B(rest: list[object] Wildcard, extra: Attributes)`, neither field with namespace metadata, class without namespace -/
def varBare (k : VarKind) (nm : Str) : XmlVar :=
  mkVar { baseVar with
    name := nm, localName := nm, qname := nm, types := [.obj], kind := k, namespaces := [], listElement := true }

def metaB : XmlMeta :=
  { clazz := ['B'], qname := ['B'], targetQName := some ['B'], nillable := false, text := none, choices := [],
    elements := [], wildcards := [varBare .wildcard ['r']], attributes := [], anyAttributes := [varBare .attributes ['x']],
    wrappers := [] }

end Ex

end Proofs.C10
