/-
L8 — the occurrence arithmetic of the code generator (C02, C16):

* content models as particles and their language (`Spec` part, written from the
  XSD / DTD definitions, independent of the code);
* the path records `SchemaMapper` attaches to each element site
  (`Restrictions.path`, xsdata/models/xsd.py `get_restrictions`);
* `CalculateAttributePaths.process_attr_path`;
* `UpdateAttributesEffectiveChoice` (group_repeating_attrs / merge_attrs /
  reset_symmetrical_choices);
* `MergeAttributes.merge_duplicate_attrs`;
* `DtdMapper.build_content` for DTD content models (repaired: paths as for XSD).
-/
import XsdataModel.Py.Basic
import XsdataModel.Tables

namespace Xs.Gen
open Py

/-- `sys.maxsize`: how the code spells `unbounded` -/
def maxsize : Nat := Tables.sysMaxsize

/-! ### content models and their language -/

inductive Particle
  | elem (name : Str) (min max : Nat)
  | seq (min max : Nat) (ps : List Particle)
  | choice (min max : Nat) (ps : List Particle)
deriving Repr

/-- `k` repetitions are allowed by `min..max` (`max = maxsize` means unbounded) -/
def repOK (k min max : Nat) : Prop := min ≤ k ∧ (max = maxsize ∨ k ≤ max)

mutual
/-- the words (sequences of child element names) a particle accepts -/
def Matches : Particle → List Str → Prop
  | .elem name min max, w => ∃ k, repOK k min max ∧ w = List.replicate k name
  | .seq min max ps, w =>
      ∃ ws : List (List Str), repOK ws.length min max ∧ (∀ x ∈ ws, SeqOnce ps x) ∧ w = ws.flatten
  | .choice min max ps, w =>
      ∃ ws : List (List Str), repOK ws.length min max ∧ (∀ x ∈ ws, ChoiceOnce ps x) ∧ w = ws.flatten
/-- one pass through a sequence body -/
def SeqOnce : List Particle → List Str → Prop
  | [], w => w = []
  | p :: ps, w => ∃ a b, Matches p a ∧ SeqOnce ps b ∧ w = a ++ b
/-- one pass through a choice body -/
def ChoiceOnce : List Particle → List Str → Prop
  | [], _ => False
  | p :: ps, w => Matches p w ∨ ChoiceOnce ps w
end

/-! ### the code's records -/

inductive PKind | s | c | a | g
deriving DecidableEq, Repr

structure PathE where
  kind : PKind
  id : Nat
  min : Nat
  max : Nat
deriving DecidableEq, Repr

/-- an element `Attr` with the part of its `Restrictions` that occurrence handling reads -/
structure Site where
  name : Str
  index : Nat
  min : Nat
  max : Nat
  path : List PathE := []
  /-- `restrictions.choice` : positive = a real choice id, negative = effective choice -/
  choice : Option Int := none
  sequence : Option Nat := none
deriving DecidableEq, Repr

/-! ### SchemaMapper: element sites with their paths (ids in document order, from 1) -/

mutual
def sitesAux : Particle → List PathE → Nat → List Site × Nat
  | .elem name min max, path, next => ([{ name, index := 0, min, max, path }], next)
  | .seq min max ps, path, next => sitesList ps (path ++ [⟨.s, next, min, max⟩]) (next + 1)
  | .choice min max ps, path, next => sitesList ps (path ++ [⟨.c, next, min, max⟩]) (next + 1)
def sitesList : List Particle → List PathE → Nat → List Site × Nat
  | [], _, next => ([], next)
  | p :: ps, path, next =>
    let (a, n1) := sitesAux p path next
    let (b, n2) := sitesList ps path n1
    (a ++ b, n2)
end

/-- the attrs of the class built for a complex type with content model `p`, `index` = position -/
def sites (p : Particle) : List Site :=
  let raw := (sitesAux p [] 1).1
  (List.range raw.length).zip raw |>.map fun (i, s) => { s with index := i }

/-! ### CalculateAttributePaths.process_attr_path -/

def processAttrPath (s : Site) : Site :=
  let step (acc : Nat × Nat × Option Nat × Option Int × Option Nat) (e : PathE) :=
    let (mn, mx, cmin, choice, sq) := acc
    let sq := if e.kind = .s && sq.isNone then some e.id else sq
    let choice := if e.kind = .c && choice.isNone then some (Int.ofNat e.id) else choice
    let cmin := if e.kind = .c then
        (match cmin with
         | none => some e.min
         | some m => if e.min < m then some e.min else some m)
      else cmin
    (mn * e.min, mx * e.max, cmin, choice, sq)
  let (mn, mx, cmin, choice, sq) := s.path.foldl step (1, 1, none, s.choice, s.sequence)
  let min' := s.min * mn
  let min' := match cmin with
    | some m => if m ≤ 1 then 0 else min'
    | none => min'
  { s with min := min', max := s.max * mx, choice := choice, sequence := sq }

/-- `CalculateAttributePaths.process` : only attrs with a non-empty path -/
def calculatePaths (ss : List Site) : List Site :=
  ss.map fun s => if s.path.isEmpty then s else processAttrPath s

/-! ### UpdateAttributesEffectiveChoice -/

/-- `group_repeating_attrs` : index ranges of names that occur more than once -/
def groupRepeating (ss : List Site) : List (List Nat) :=
  let names := (ss.map (·.name)).eraseDups
  names.filterMap fun n =>
    let idxs := (List.range ss.length).filter (fun i => (ss[i]?.map (·.name)) = some n)
    if idxs.length > 1 then
      let choiceIds := (idxs.filterMap (fun i => ss[i]?.map (·.choice))).eraseDups
      let pathLens := (idxs.filterMap (fun i => ss[i]?.map (·.path.length))).eraseDups
      let first := idxs.head!
      let last := idxs.getLast!
      let range := (List.range (last + 1)).drop first
      if choiceIds.contains none then some range
      else if choiceIds.length = 1 && pathLens.length = 1 then some range
      else none
    else none

/-- `collections.connected_components` on index lists: merge overlapping lists; the
result lists are sorted, in order of first appearance of their first member -/
def connectedComponents (lists : List (List Nat)) : List (List Nat) :=
  let merge (comps : List (List Nat)) (l : List Nat) : List (List Nat) :=
    let (touch, rest) := comps.partition (fun c => c.any (l.contains ·))
    rest ++ [(touch.flatten ++ l).eraseDups]
  -- repeat merging until stable (bounded by the number of lists)
  let rec fix (fuel : Nat) (comps : List (List Nat)) : List (List Nat) :=
    match fuel with
    | 0 => comps
    | fuel + 1 =>
      let next := comps.foldl merge []
      if next.length = comps.length then next else fix fuel next
  let comps := fix (lists.length + 1) (lists.foldl merge [])
  let sorted := comps.map (fun c => (List.range ((c.foldl max 0) + 1)).filter (c.contains ·))
  -- order of `neighbors` keys = first appearance in the input lists
  let order := lists.flatten.eraseDups
  (order.filterMap (fun i => sorted.find? (fun c => c.head? = some i ∨ c.contains i))).eraseDups

/-- `merge_attrs` -/
def mergeEffective (ss : List Site) (groups : List (List Nat)) : List Site :=
  (List.range ss.length).zip ss |>.foldl (fun (acc : List Site) (is : Nat × Site) =>
    let (i, s) := is
    match groups.findIdx? (·.contains i) with
    | none => acc ++ [s]
    | some g =>
      match acc.findIdx? (·.name = s.name) with
      | none => acc ++ [{ s with choice := some (-(Int.ofNat g) - 1) }]
      | some pos =>
        acc.mapIdx fun j e => if j = pos then { e with min := e.min + s.min, max := e.max + s.max } else e) []

/-- `reset_effective_choice` on one path -/
def resetEffectivePath (path : List PathE) (index maxOccur : Nat) : List PathE :=
  match path.findIdx? (fun e => e.kind = .s && e.id = index && e.max = 1) with
  | some i => path.mapIdx fun j e => if j = i then { e with max := maxOccur } else e
  | none => path

/-- `reset_symmetrical_choices` (after the repair `fix: UpdateAttributesEffectiveChoice treats a merged
group as a symmetrical sequence only when every attr of the group belongs to that sequence`): the
set of sequences is collected over *all* attrs of the group, `None` included, and the group is
symmetrical only if it is one sequence and not `None`; the two asserts of the loop cannot fire.
(Before the repair attrs without a sequence were skipped, a group mixing attrs of a sequence with
attrs outside of it passed the test and generation died with `AssertionError`.) -/
def resetSymmetrical (ss : List Site) : List Site :=
  let choices := (ss.filterMap (·.choice)).eraseDups.filter (· ≤ 0)
  choices.foldl (fun (ss : List Site) (c : Int) =>
    let grp := ss.filter (·.choice = some c)
    let mins := (grp.map (·.min)).eraseDups
    let maxs := (grp.map (·.max)).eraseDups
    let seqs := (grp.map (·.sequence)).eraseDups
    if mins.length = 1 && maxs.length = 1 && seqs.length = 1 && !seqs.contains none then
      ss.map fun s =>
        if s.choice = some c then
          match s.sequence with
          | some sq => { s with choice := none, path := resetEffectivePath s.path sq s.max }
          | none => s
        else s
    else ss) ss

/-- `UpdateAttributesEffectiveChoice.process` -/
def effectiveChoice (ss : List Site) : List Site :=
  let groups := groupRepeating ss
  if groups.isEmpty then ss else
  resetSymmetrical (mergeEffective ss (connectedComponents groups))

/-! ### MergeAttributes.merge_duplicate_attrs -/

def mergeDuplicates (ss : List Site) : List Site :=
  ss.foldl (fun (acc : List Site) (a : Site) =>
    match acc.findIdx? (·.name = a.name) with
    | none => acc ++ [a]
    | some pos =>
      acc.mapIdx fun j e =>
        if j = pos then
          let minO := if e.min = 0 then 0 else e.min         -- `or 0`
          let maxO := if e.max = 0 then 1 else e.max         -- `or 1`
          let aMin := a.min
          let aMax := if a.max = 0 then 1 else a.max
          let exclusive := e.choice.isSome && a.choice.isSome && e.index ≠ a.index &&
            (e.choice = a.choice || e.path.length = a.path.length)
          { e with
            min := Nat.min minO aMin
            max := if exclusive then Nat.max maxO aMax else maxO + aMax
            sequence := if a.sequence.isSome then a.sequence else e.sequence }
        else e) []

/-- the three handlers in the order of `ClassContainer.processors[Steps.FLATTEN]` -/
def occurs (ss : List Site) : List Site := mergeDuplicates (effectiveChoice (calculatePaths ss))

/-- `Restrictions.is_list` / `is_optional` -/
def Site.isList (s : Site) : Bool := s.max > 1
def Site.isOptional (s : Site) : Bool := s.min = 0

/-! ### DTD content models (xsdata/codegen/mappers/dtd.py) -/

inductive Occur | once | opt | mult | plus
deriving DecidableEq, Repr

/-- libxml2's binary content tree -/
inductive DtdContent
  | pcdata (o : Occur)
  | element (name : Str) (o : Occur)
  | seq (o : Occur) (l r : Option DtdContent)
  | or (o : Occur) (l r : Option DtdContent)
deriving Repr

/-- `build_occurs` -/
def buildOccurs : Occur → Nat × Nat
  | .once => (1, 1)
  | .opt => (0, 1)
  | .mult => (0, maxsize)
  | .plus => (1, maxsize)

/-- `DtdMapper.build_content` with `build_path` (after the repair `fix: DtdMapper combines the
occurrence of enclosing sequence and choice nodes …`): the element/value attrs in order; every
SEQ / OR node appends the step `("s"|"c", id(node), min, max)` of its own occurrence indicator to
the restrictions path of the attrs below it (ids in visit order), the attr keeps the bounds of
its own indicator; `CalculateAttributePaths` combines them as for XSD. -/
def buildContent : DtdContent → List PathE → Nat → List Site × Nat
  | .element name o, path, next =>
    ([{ name, index := 0, min := (buildOccurs o).1, max := (buildOccurs o).2, path }], next)
  | .pcdata o, path, next =>
    ([{ name := "value".toList, index := 0, min := (buildOccurs o).1, max := (buildOccurs o).2, path }], next)
  | .seq o l r, path, next =>
    let path' := path ++ [⟨.s, next, (buildOccurs o).1, (buildOccurs o).2⟩]
    let (a, n1) := match l with | some c => buildContent c path' (next + 1) | none => ([], next + 1)
    let (b, n2) := match r with | some c => buildContent c path' n1 | none => ([], n1)
    (a ++ b, n2)
  | .or o l r, path, next =>
    let path' := path ++ [⟨.c, next, (buildOccurs o).1, (buildOccurs o).2⟩]
    let (a, n1) := match l with | some c => buildContent c path' (next + 1) | none => ([], next + 1)
    let (b, n2) := match r with | some c => buildContent c path' n1 | none => ([], n1)
    (a ++ b, n2)

def dtdSites (c : DtdContent) : List Site :=
  let raw := (buildContent c [] 1).1
  (List.range raw.length).zip raw |>.map fun (i, s) => { s with index := i }

/-- the DTD content model as a particle (the language `lxml.etree.DTD` validates) -/
def occurBounds : Occur → Nat × Nat := buildOccurs

def DtdContent.toParticle : DtdContent → Option Particle
  | .pcdata _ => none
  | .element name o => some (.elem name (occurBounds o).1 (occurBounds o).2)
  | .seq o l r =>
    let a := match l with | some c => (DtdContent.toParticle c).toList | none => []
    let b := match r with | some c => (DtdContent.toParticle c).toList | none => []
    some (.seq (occurBounds o).1 (occurBounds o).2 (a ++ b))
  | .or o l r =>
    let a := match l with | some c => (DtdContent.toParticle c).toList | none => []
    let b := match r with | some c => (DtdContent.toParticle c).toList | none => []
    some (.choice (occurBounds o).1 (occurBounds o).2 (a ++ b))

end Xs.Gen
