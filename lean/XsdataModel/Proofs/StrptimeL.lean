/- Helper lemmas: `strptime` on the output of `strftime` for zero-padded numeric fields. -/
import XsdataModel.Conv.Strptime
import XsdataModel.Proofs.IntL
import XsdataModel.Proofs.DecimalL
import XsdataModel.Proofs.Strip

namespace Xs.Conv
open Py Xs.Spec Xs.Dates

/-- the two characters of a zero-padded two-digit field -/
def two (v : Nat) : Str := [Char.ofNat (48 + v / 10), Char.ofNat (48 + v % 10)]

theorem zpadInt_two : ∀ v : Nat, v < 100 → zpadInt (v : Int) 2 = two v := by decide +kernel

theorem two_digits (v : Nat) (h : v < 100) : AllDigits (two v) := by
  intro c hc
  simp only [two, List.mem_cons, List.mem_nil_iff, or_false] at hc
  rcases hc with rfl | rfl
  · exact digitChar_isDigit _ (by omega)
  · exact digitChar_isDigit _ (by omega)

theorem two_value : ∀ v : Nat, v < 100 → digitsNat (two v) = v := by decide +kernel

theorem charClass_digit (e : Env) (c : Char) (h : isAsciiDigit c = true) : charClass e c = .ad (c.toNat - 48) := by
  simp [charClass, h]

theorem charClass_two (e : Env) (w : Nat) (h : w < 10) : charClass e (Char.ofNat (48 + w)) = .ad w := by
  rw [charClass_digit e _ (digitChar_isDigit w h), digitChar_toNat w h]
  congr 1; omega

/-- which two-digit values a directive's first alternatives take whole -/
def twoOk (d : Char) (v : Nat) : Bool :=
  if d = 'm' then 1 ≤ v && v ≤ 12
  else if d = 'd' then 1 ≤ v && v ≤ 31
  else if d = 'H' then v ≤ 23
  else if d = 'M' then v ≤ 59
  else if d = 'S' then v ≤ 61
  else false

theorem dirLens2_two : ∀ d ∈ ['m', 'd', 'H', 'M', 'S'], ∀ v, v < 100 → twoOk d v = true →
    (dirLens2 d (some (.ad (v / 10))) (some (.ad (v % 10)))).head? = some 2 := by
  decide +kernel

theorem dirLens_two (e : Env) (d : Char) (hd : d ∈ ['m', 'd', 'H', 'M', 'S']) (v : Nat) (hv : v < 100)
    (hok : twoOk d v = true) (tail : Str) :
    ∃ rest, dirLens e d (two v ++ tail) = 2 :: rest := by
  have hY : d ≠ 'Y' := by intro h; subst h; revert hd; decide
  have hf : d ≠ 'f' := by intro h; subst h; revert hd; decide
  have h2 := dirLens2_two d hd v hv hok
  unfold dirLens
  simp only [hY, hf, if_false, two, List.cons_append, List.nil_append, List.getElem?_cons_zero,
    List.getElem?_cons_succ, Option.map_some, charClass_two e (v / 10) (by omega), charClass_two e (v % 10) (by omega)]
  cases hl : dirLens2 d (some (CC.ad (v / 10))) (some (CC.ad (v % 10))) with
  | nil => simp [hl] at h2
  | cons k rest =>
    simp only [hl, List.head?_cons, Option.some.injEq] at h2
    subst h2
    exact ⟨rest, rfl⟩

/-- first match of the items -/
def firstMatch (e : Env) (items : List FItem) (s : Str) (f : TmF) : Option (TmF × Str) :=
  (matchItems e items s f).head?

theorem firstMatch_nil (e : Env) (s : Str) (f : TmF) : firstMatch e [] s f = some (f, s) := rfl

theorem firstMatch_lit (e : Env) (c : Char) (is : List FItem) (tail : Str) (f : TmF) :
    firstMatch e (.lit c :: is) (c :: tail) f = firstMatch e is tail f := by
  simp [firstMatch, matchItems, litEq]

theorem head_flatMap_cons {α β} (g : α → List β) (a : α) (rest : List α) (x : β)
    (h : (g a).head? = some x) : ((a :: rest).flatMap g).head? = some x := by
  cases hg : g a with
  | nil => simp [hg] at h
  | cons y ys =>
    simp only [hg, List.head?_cons, Option.some.injEq] at h
    subst h
    simp [List.flatMap_cons, hg]

/-- a two-digit directive takes the zero-padded field whole, provided the rest matches -/
theorem firstMatch_two (e : Env) (d : Char) (hd : d ∈ ['m', 'd', 'H', 'M', 'S']) (v : Nat) (hv : v < 100)
    (hok : twoOk d v = true) (is : List FItem) (tail : Str) (f : TmF) (r : TmF × Str)
    (h : firstMatch e is tail (f.set e d (two v)) = some r) :
    firstMatch e (.dir d :: is) (two v ++ tail) f = some r := by
  obtain ⟨rest, hl⟩ := dirLens_two e d hd v hv hok tail
  unfold firstMatch matchItems
  rw [hl]
  apply head_flatMap_cons
  have h1 : (two v ++ tail).drop 2 = tail := by simp [two]
  have h2 : (two v ++ tail).take 2 = two v := by simp [two]
  rw [h1, h2]
  exact h

/-- a four-digit year -/
theorem firstMatch_year (e : Env) (ds : Str) (hlen : ds.length = 4) (hdig : AllDigits ds)
    (is : List FItem) (tail : Str) (f : TmF) (r : TmF × Str)
    (h : firstMatch e is tail (f.set e 'Y' ds) = some r) :
    firstMatch e (.dir 'Y' :: is) (ds ++ tail) f = some r := by
  have htake : (ds ++ tail).take 4 = ds := by
    rw [List.take_append_of_le_length (by omega)]
    simp [← hlen]
  have hdrop : (ds ++ tail).drop 4 = tail := by
    rw [← hlen]; simp
  have hall : ((ds ++ tail).take 4).all (fun c => (charClass e c).isD) = true := by
    rw [htake, List.all_eq_true]
    intro c hc
    rw [charClass_digit e c (hdig c hc)]; rfl
  have hcond : (decide ((ds ++ tail).length ≥ 4) && ((ds ++ tail).take 4).all (fun c => (charClass e c).isD)) = true := by
    rw [hall, Bool.and_true, decide_eq_true_eq, List.length_append]; omega
  have hl : dirLens e 'Y' (ds ++ tail) = [4] := by
    show (if 'Y' = 'Y' then (if _ then [4] else []) else _) = [4]
    rw [if_pos rfl, if_pos hcond]
  unfold firstMatch matchItems
  rw [hl]
  apply head_flatMap_cons
  rw [hdrop, htake]
  exact h

/-- `int()` of a zero-padded field -/
theorem pyIntC_two (e : Env) (v : Nat) (hv : v < 100) : pyIntC e (two v) = some (v : Int) := by
  have := pyIntC_signed e [] [] .none (two v) (by intro c h; cases h) (by intro c h; cases h)
    (by simp [two]) (two_digits v hv)
  simpa [Sign.str, Sign.neg, two_value v hv] using this

theorem pyIntC_natStr (e : Env) (n : Nat) : pyIntC e (natStr n) = some (n : Int) := by
  obtain ⟨hd, hne, hv⟩ := natStr_spec n
  have := pyIntC_signed e [] [] .none (natStr n) (by intro c h; cases h) (by intro c h; cases h) hne hd
  simpa [Sign.str, Sign.neg, digitsNat, hv] using this

/-- a zero-padded field of width `w`: `f"{v:0{w}d}"` for `v < 10^w` has exactly `w` ASCII digits
that denote `v` -/
theorem zpad_spec (v w : Nat) (hw : 1 ≤ w) (hv : v < 10 ^ w) :
    (zpadInt (v : Int) w).length = w ∧ AllDigits (zpadInt (v : Int) w) ∧ digitsNat (zpadInt (v : Int) w) = v := by
  have hlen := natStr_length_le w v hv hw
  obtain ⟨hd, _, hval⟩ := natStr_spec v
  have hz : zpadInt (v : Int) w = List.replicate (w - (natStr v).length) '0' ++ natStr v := by
    unfold zpadInt zpad rjust
    have : ¬ ((v : Int) < 0) := by omega
    simp [this]
  rw [hz]
  refine ⟨by simp; omega, allDigits_append _ _ (allDigits_zeros _) hd, ?_⟩
  rw [digitsNat_append, digitsNat_zeros]
  simpa [digitsNat] using hval

theorem pyIntC_zpad (e : Env) (v w : Nat) (hw : 1 ≤ w) (hv : v < 10 ^ w) :
    pyIntC e (zpadInt (v : Int) w) = some (v : Int) := by
  obtain ⟨hl, hd, hval⟩ := zpad_spec v w hw hv
  have hne : zpadInt (v : Int) w ≠ [] := by
    intro h; rw [h] at hl; simp at hl; omega
  have := pyIntC_signed e [] [] .none _ (by intro c h; cases h) (by intro c h; cases h) hne hd
  simpa [Sign.str, Sign.neg, hval] using this

/-- `%f`: six digits are taken whole, whatever follows -/
theorem firstMatch_frac (e : Env) (ds : Str) (hlen : ds.length = 6) (hdig : AllDigits ds)
    (is : List FItem) (tail : Str) (f : TmF) (r : TmF × Str)
    (h : firstMatch e is tail (f.set e 'f' ds) = some r) :
    firstMatch e (.dir 'f' :: is) (ds ++ tail) f = some r := by
  have htw : 6 ≤ ((ds ++ tail).takeWhile isAsciiDigit).length := by
    have : (ds ++ tail).takeWhile isAsciiDigit = ds ++ tail.takeWhile isAsciiDigit := by
      rw [List.takeWhile_append_of_pos]
      intro c hc; exact hdig c hc
    rw [this]; simp; omega
  have hl : ∃ rest, dirLens e 'f' (ds ++ tail) = 6 :: rest := by
    have hmin : min 6 ((ds ++ tail).takeWhile isAsciiDigit).length = 6 := by omega
    refine ⟨countDown 5, ?_⟩
    show (if 'f' = 'Y' then _ else if 'f' = 'f' then countDown (min 6 _) else _) = _
    rw [if_neg (by decide), if_pos rfl, hmin]
    rfl
  obtain ⟨rest, hl⟩ := hl
  unfold firstMatch matchItems
  rw [hl]
  apply head_flatMap_cons
  have h1 : (ds ++ tail).drop 6 = tail := by rw [← hlen]; simp
  have h2 : (ds ++ tail).take 6 = ds := by
    rw [List.take_append_of_le_length (by omega)]; simp [← hlen]
  rw [h1, h2]
  exact h

/-- four-digit years print as four digits -/
theorem natStr_4 : ∀ a, a < 10 → ∀ b, b < 10 → ∀ c, c < 10 → ∀ d, d < 10 → 1 ≤ a →
    (natStr (1000 * a + 100 * b + 10 * c + d)).length = 4 := by decide +kernel

theorem natStr_len4 (n : Nat) (h1 : 1000 ≤ n) (h2 : n < 10000) : (natStr n).length = 4 := by
  have := natStr_4 (n / 1000) (by omega) (n / 100 % 10) (by omega) (n / 10 % 10) (by omega) (n % 10) (by omega)
    (by omega)
  have e : 1000 * (n / 1000) + 100 * (n / 100 % 10) + 10 * (n / 10 % 10) + n % 10 = n := by omega
  rwa [e] at this

/-- what `strptime` returns once the first match is known -/
theorem strptime_of_first (e : Env) (s fmt : Str) (items : List FItem) (f : TmF)
    (hc : compileFmt e fmt false = .ok items) (hn : dirsNodup items = true)
    (hm : firstMatch e items s {} = some (f, [])) :
    strptime e s fmt =
      (if f.year.getD 1900 < 1 || f.second.getD 0 > 59 ||
          !validateDate (f.year.getD 1900) (f.month.getD 1) (f.day.getD 1) then .err
       else .ok ⟨f.year.getD 1900, f.month.getD 1, f.day.getD 1, f.hour.getD 0, f.minute.getD 0,
         f.second.getD 0, f.frac.getD 0⟩) := by
  unfold strptime
  simp only [hc, hn, Bool.not_true, Bool.false_eq_true, if_false]
  unfold firstMatch at hm
  cases hl : matchItems e items s {} with
  | nil => simp [hl] at hm
  | cons x xs =>
    simp only [hl, List.head?_cons, Option.some.injEq] at hm
    subst hm
    simp

theorem dash_colon_T_not_space (e : Env) :
    e.isSpace '-' = false ∧ e.isSpace ':' = false ∧ e.isSpace 'T' = false := by
  refine ⟨?_, ?_, ?_⟩ <;> (rw [isSpace_ascii e _ (by decide)]; decide)

end Xs.Conv
