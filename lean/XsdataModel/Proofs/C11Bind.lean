/- C11 helper lemmas, part 6: the binder of a typed host (`bind_wild_var`, mixed content,
`Attributes` maps) and `convert_value`. -/
import XsdataModel.Proofs.C11Pipeline

namespace Proofs.C11
open Py Xs.Bind Xs.Generic

/-! ### `params` dictionaries -/

theorem params_get_set (p : Params) (k : Str) (v : Val) : (Params.set p k v).get k = some v := by
  unfold Params.set
  by_cases h : p.has k = true
  · simp only [h, if_true]
    unfold Params.has at h
    unfold Params.get
    induction p with
    | nil => simp at h
    | cons kv r ih =>
      obtain ⟨k', w⟩ := kv
      by_cases hk : k' = k
      · simp [hk]
      · have : r.any (·.1 = k) = true := by simpa [hk] using h
        have ih' := ih this
        simp [hk]
        simpa using ih'
  · simp only [h]
    unfold Params.has at h
    unfold Params.get
    have hn : ∀ kv ∈ p, ¬ kv.1 = k := by
      intro kv hkv hh; apply h; simp; exact ⟨kv.2, by rw [← hh]; exact hkv⟩
    simp [List.find?_append]
    have : List.find? (fun x => decide (x.fst = k)) p = none := by
      simp; intro a b hab; exact hn (a, b) hab
    simp [this]

theorem params_get_nil (k : Str) : Params.get [] k = none := rfl

/-! ### `bind_wild_var` over the values of a forest -/

theorem prepareGeneric_anyOf (qn : Option QN) (e : Env) (nil : Bool) (t : Tree) :
    prepareGeneric qn (anyOf e nil t) = .ok (anyOf e nil t) := by
  cases t with
  | node q a n tx c tl =>
    cases qn with
    | none => simp [prepareGeneric]
    | some x => cases x <;> simp [prepareGeneric, anyOf]

abbrev bindStep (var : XmlVar) : Params → Val → Except Err Params :=
  fun p v => bindWildVar p var (some var.qname) v

theorem bind_list_step (var : XmlVar) (hl : var.listElement = true) (e : Env) (nil : Bool) (t : Tree)
    (p : Params) (acc : List Val) (h : p.get var.name = some (.list acc)) :
    bindStep var p (anyOf e nil t) = .ok (p.set var.name (.list (acc ++ [anyOf e nil t]))) := by
  simp [bindStep, bindWildVar, prepareGeneric_anyOf, hl, h, bind, Except.bind, pure, Except.pure]

theorem bind_list_first (var : XmlVar) (hl : var.listElement = true) (e : Env) (nil : Bool) (t : Tree)
    (p : Params) (h : p.get var.name = none) :
    bindStep var p (anyOf e nil t) = .ok (p.set var.name (.list [anyOf e nil t])) := by
  simp [bindStep, bindWildVar, prepareGeneric_anyOf, hl, h, bind, Except.bind, pure, Except.pure]

theorem bind_list_fold (var : XmlVar) (hl : var.listElement = true) (e : Env) (nil : Bool) :
    ∀ (ts : List Tree) (p : Params) (acc : List Val), p.get var.name = some (.list acc) →
      ∃ p', (anyOfList e nil ts).foldlM (bindStep var) p = .ok p' ∧
        p'.get var.name = some (.list (acc ++ anyOfList e nil ts))
  | [], p, acc, h => ⟨p, by simp [anyOfList, pure, Except.pure], by simpa [anyOfList] using h⟩
  | t :: ts, p, acc, h => by
    have h1 := bind_list_step var hl e nil t p acc h
    obtain ⟨p', h2, h3⟩ := bind_list_fold var hl e nil ts _ (acc ++ [anyOf e nil t]) (params_get_set p var.name _)
    refine ⟨p', ?_, ?_⟩
    · simp only [anyOfList]
      rw [foldlM_cons_ok _ _ _ _ _ h1, h2]
    · simpa [anyOfList] using h3

theorem bind_list_all (var : XmlVar) (hl : var.listElement = true) (e : Env) (nil : Bool)
    (t : Tree) (ts : List Tree) :
    ∃ p', (anyOfList e nil (t :: ts)).foldlM (bindStep var) [] = .ok p' ∧
      p'.get var.name = some (.list (anyOfList e nil (t :: ts))) := by
  have h1 := bind_list_first var hl e nil t [] (params_get_nil _)
  obtain ⟨p', h2, h3⟩ := bind_list_fold var hl e nil ts _ [anyOf e nil t] (params_get_set [] var.name _)
  refine ⟨p', ?_, ?_⟩
  · simp only [anyOfList]
    rw [foldlM_cons_ok _ _ _ _ _ h1, h2]
  · simpa [anyOfList] using h3

/-- single wildcard: the values are nested under a synthetic `AnyElement(qname=None)` -/
theorem bind_single_step (var : XmlVar) (hl : var.listElement = false) (e : Env) (nil : Bool) (t : Tree)
    (p : Params) (acc : List Val) (h : p.get var.name = some (.any none none none [] acc)) :
    bindStep var p (anyOf e nil t) = .ok (p.set var.name (.any none none none [] (acc ++ [anyOf e nil t]))) := by
  simp [bindStep, bindWildVar, prepareGeneric_anyOf, hl, h, bind, Except.bind, pure, Except.pure]

theorem bind_single_fold (var : XmlVar) (hl : var.listElement = false) (e : Env) (nil : Bool) :
    ∀ (ts : List Tree) (p : Params) (acc : List Val), p.get var.name = some (.any none none none [] acc) →
      ∃ p', (anyOfList e nil ts).foldlM (bindStep var) p = .ok p' ∧
        p'.get var.name = some (.any none none none [] (acc ++ anyOfList e nil ts))
  | [], p, acc, h => ⟨p, by simp [anyOfList, pure, Except.pure], by simpa [anyOfList] using h⟩
  | t :: ts, p, acc, h => by
    have h1 := bind_single_step var hl e nil t p acc h
    obtain ⟨p', h2, h3⟩ := bind_single_fold var hl e nil ts _ (acc ++ [anyOf e nil t]) (params_get_set p var.name _)
    refine ⟨p', ?_, ?_⟩
    · simp only [anyOfList]
      rw [foldlM_cons_ok _ _ _ _ _ h1, h2]
    · simpa [anyOfList] using h3

theorem bind_single_one (var : XmlVar) (hl : var.listElement = false) (e : Env) (nil : Bool) (t : Tree) :
    bindStep var [] (anyOf e nil t) = .ok (Params.set [] var.name (anyOf e nil t)) := by
  simp [bindStep, bindWildVar, prepareGeneric_anyOf, hl, params_get_nil, bind, Except.bind, pure, Except.pure]

theorem bind_single_two (var : XmlVar) (hl : var.listElement = false) (e : Env) (nil : Bool) (t u : Tree)
    (p : Params) (h : p.get var.name = some (anyOf e nil t)) :
    bindStep var p (anyOf e nil u)
      = .ok (p.set var.name (.any none none none [] [anyOf e nil t, anyOf e nil u])) := by
  cases t with
  | node q a n tx c tl =>
    simp [anyOf] at h
    simp [bindStep, bindWildVar, prepareGeneric_anyOf, hl, h, bind, Except.bind, pure, Except.pure, anyOf]

theorem bind_single_all (var : XmlVar) (hl : var.listElement = false) (e : Env) (nil : Bool)
    (t u : Tree) (ts : List Tree) :
    ∃ p', (anyOfList e nil (t :: u :: ts)).foldlM (bindStep var) [] = .ok p' ∧
      p'.get var.name = some (.any none none none [] (anyOfList e nil (t :: u :: ts))) := by
  have h1 := bind_single_one var hl e nil t
  have h2 := bind_single_two var hl e nil t u _ (params_get_set [] var.name _)
  obtain ⟨p', h3, h4⟩ := bind_single_fold var hl e nil ts _ [anyOf e nil t, anyOf e nil u]
    (params_get_set _ var.name _)
  refine ⟨p', ?_, ?_⟩
  · simp only [anyOfList]
    rw [foldlM_cons_ok _ _ _ _ _ h1, foldlM_cons_ok _ _ _ _ _ h2, h3]
  · simpa [anyOfList] using h4

/-! ### `convert_value` on what the binder built -/

theorem wild_kind (var : XmlVar) (hw : var.isWildcard = true) :
    var.isText = false ∧ var.isElements = false ∧ var.isElement = false := by
  have : var.kind = .wildcard := by simpa [VarCore.isWildcard] using hw
  simp [VarCore.isText, VarCore.isElements, VarCore.isElement, this]

theorem genValue_any (e : BEnv) (Γ : Ctx) (cfg : SerCfg) (var : XmlVar) (hw : var.isWildcard = true)
    (hm : var.mixed = false) (ht : var.tokens = false) (fuel : Nat) (ns : Option Str)
    (q : Option QN) (tx tl : Option Str) (a : List (QN × Str)) (kids : List Val) :
    genValue e Γ cfg (fuel + 1) (.any q tx tl a kids) var ns
      = genAnyType e Γ cfg fuel (.any q tx tl a kids) var ns := by
  obtain ⟨h1, h2, _⟩ := wild_kind var hw
  simp [genValue, hm, h1, ht, h2, Val.isArray]

theorem genValue_anyOf (e : BEnv) (Γ : Ctx) (cfg : SerCfg) (var : XmlVar) (hw : var.isWildcard = true)
    (hm : var.mixed = false) (ht : var.tokens = false) (nil : Bool) (t : Tree) (fuel : Nat) (ns : Option Str)
    (hn : namesOK t = true) (hf : depthTree t ≤ fuel) :
    genValue e Γ cfg (fuel + 1) (anyOf e.py nil t) var ns = .ok (treeEv e.py nil t) := by
  have := genAnyType_anyOf e Γ cfg var nil t fuel ns hn hf
  cases t with
  | node q a n tx c tl =>
    simp only [anyOf] at this ⊢
    rw [genValue_any e Γ cfg var hw hm ht, this]

theorem genValue_forest (e : BEnv) (Γ : Ctx) (cfg : SerCfg) (var : XmlVar) (hw : var.isWildcard = true)
    (hm : var.mixed = false) (ht : var.tokens = false) (nil : Bool) (fuel : Nat) (ns : Option Str) :
    ∀ (ts : List Tree), namesOKList ts = true → depthList ts ≤ fuel →
      (anyOfList e.py nil ts).mapM (fun x => genValue e Γ cfg (fuel + 1) x var ns)
        = .ok (ts.map (treeEv e.py nil))
  | [], _, _ => by simp [anyOfList, pure, Except.pure]
  | t :: ts, hn, hf => by
    simp [namesOKList] at hn
    simp [depthList] at hf
    have h1 := genValue_anyOf e Γ cfg var hw hm ht nil t fuel ns hn.1 (by omega)
    have h2 := genValue_forest e Γ cfg var hw hm ht nil fuel ns ts hn.2 (by omega)
    simp [anyOfList, List.mapM_cons, h1, h2, bind, Except.bind, pure, Except.pure]

theorem genValue_list (e : BEnv) (Γ : Ctx) (cfg : SerCfg) (var : XmlVar) (hw : var.isWildcard = true)
    (hm : var.mixed = false) (ht : var.tokens = false) (hl : var.listElement = true)
    (nil : Bool) (ts : List Tree) (fuel : Nat) (ns : Option Str)
    (hn : namesOKList ts = true) (hf : depthList ts ≤ fuel) :
    genValue e Γ cfg (fuel + 2) (.list (anyOfList e.py nil ts)) var ns = .ok (forestEv e.py nil ts) := by
  obtain ⟨h1, h2, _⟩ := wild_kind var hw
  have h3 := genValue_forest e Γ cfg var hw hm ht nil fuel ns ts hn hf
  rw [show fuel + 2 = (fuel + 1) + 1 from rfl, genValue]
  simp [hm, h1, ht, h2, hl, Val.isArray, h3, bind, Except.bind, pure, Except.pure, forestEv_eq]

theorem genValue_nested (e : BEnv) (Γ : Ctx) (cfg : SerCfg) (var : XmlVar) (hw : var.isWildcard = true)
    (hm : var.mixed = false) (ht : var.tokens = false)
    (nil : Bool) (ts : List Tree) (fuel : Nat) (ns : Option Str)
    (hn : namesOKList ts = true) (hf : depthList ts ≤ fuel) :
    genValue e Γ cfg (fuel + 2) (.any none none none [] (anyOfList e.py nil ts)) var ns
      = .ok ([Ev.data .none] ++ forestEv e.py nil ts) := by
  have h3 := genAnyType_forest e Γ cfg var nil ts fuel ns hn hf
  rw [genValue_any e Γ cfg var hw hm ht]
  simp [genAnyType, h3, bind, Except.bind, pure, Except.pure, forestEv_eq]

/-! ### the binder pipelines -/

theorem eventsTree_host_nodata (e : Env) (isDt : Str → Bool) (nil : Bool) (host : QN) (ts : List Tree)
    (hok : treeOKList isDt ts = true) :
    eventsTree isDt (hostEvents host [] (ts.map (treeEv e nil)))
      = .ok (.node host [] [] none (normList e [] ts) none) := by
  have h3 := eventsTree_of isDt _ _ _
    (hostEvents_uris e nil host [] ts (by simp))
    (eventsSax_host_nodata e [] isDt nil host ts hok)
    (hostSax_tree e [] host [] none ts)
  simpa [normText] using h3

theorem eventsTree_host_data (e : Env) (isDt : Str → Bool) (nil : Bool) (host : QN) (T : Option Str)
    (ts : List Tree) (hok : treeOKList isDt ts = true) :
    eventsTree isDt (hostEvents host [Ev.data (textData T)] (ts.map (treeEv e nil)))
      = .ok (.node host [] [] (normText e false T) (normList e [] ts) none) :=
  eventsTree_of isDt _ _ _
    (hostEvents_uris e nil host [Ev.data (textData T)] ts (by simp [evUris, textData_uris]))
    (eventsSax_host_data e [] isDt nil host T ts hok)
    (hostSax_tree e [] host [] T ts)

theorem hostEvents_single (host : QN) (evs : List Ev) (e : Env) (nil : Bool) (ts : List Tree)
    (h : evs = forestEv e nil ts) :
    hostEvents host [] [evs] = hostEvents host [] (ts.map (treeEv e nil)) := by
  simp [hostEvents, h, forestEv_eq]

theorem hostEvents_nested (host : QN) (e : Env) (nil : Bool) (ts : List Tree) :
    hostEvents host [] [[Ev.data .none] ++ forestEv e nil ts]
      = hostEvents host [Ev.data (textData none)] (ts.map (treeEv e nil)) := by
  simp [hostEvents, forestEv_eq, textData]

theorem fieldRoundtrip_eq (e : BEnv) (Γ : Ctx) (cfg : ParserConfig) (isDt : Str → Bool) (var : XmlVar)
    (host : QN) (ts : List Tree) (hw : var.isWildcard = true) (hm : var.mixed = false)
    (ht : var.tokens = false) (hok : treeOKList isDt ts = true) :
    fieldRoundtrip e Γ cfg isDt var host ts = .ok (.node host [] [] none (normList e.py [] ts) none) := by
  have h1 := wildValue_forest e Γ cfg var hw ts
  have hn := treeOKList_names isDt ts hok
  simp only [fieldRoundtrip, h1, bind, Except.bind]
  cases ts with
  | nil =>
    have := eventsTree_host_nodata e.py isDt var.nillable host [] hok
    simp [anyOfList, pure, Except.pure, params_get_nil]
    simpa [hostEvents] using this
  | cons t rest =>
    by_cases hl : var.listElement = true
    · obtain ⟨p', h2, h3⟩ := bind_list_all var hl e.py var.nillable t rest
      have h4 : genValue e Γ {} (depthList (t :: rest) + 3) (.list (anyOfList e.py var.nillable (t :: rest))) var none
          = .ok (forestEv e.py var.nillable (t :: rest)) :=
        genValue_list e Γ {} var hw hm ht hl var.nillable (t :: rest) (depthList (t :: rest) + 1) none hn (by omega)
      rw [h2]
      simp only [h3, h4]
      rw [hostEvents_single host _ e.py var.nillable (t :: rest) rfl]
      exact eventsTree_host_nodata e.py isDt var.nillable host (t :: rest) hok
    · have hl' : var.listElement = false := by simpa using hl
      cases rest with
      | nil =>
        have h2 := bind_single_one var hl' e.py var.nillable t
        have hn1 : namesOK t = true := by simpa [namesOKList] using hn
        have h4 : genValue e Γ {} (depthList [t] + 3) (anyOf e.py var.nillable t) var none
            = .ok (treeEv e.py var.nillable t) :=
          genValue_anyOf e Γ {} var hw hm ht var.nillable t (depthList [t] + 2) none hn1 (by simp [depthList])
        simp only [bindStep] at h2
        simp only [anyOfList, List.foldlM_cons, List.foldlM_nil, h2, bind, Except.bind, pure, Except.pure,
          params_get_set, h4]
        rw [hostEvents_single host _ e.py var.nillable [t] (by simp [forestEv])]
        exact eventsTree_host_nodata e.py isDt var.nillable host [t] hok
      | cons u rest =>
        obtain ⟨p', h2, h3⟩ := bind_single_all var hl' e.py var.nillable t u rest
        have h4 : genValue e Γ {} (depthList (t :: u :: rest) + 3)
            (.any none none none [] (anyOfList e.py var.nillable (t :: u :: rest))) var none
            = .ok ([Ev.data .none] ++ forestEv e.py var.nillable (t :: u :: rest)) :=
          genValue_nested e Γ {} var hw hm ht var.nillable (t :: u :: rest)
            (depthList (t :: u :: rest) + 1) none hn (by omega)
        rw [h2]
        simp only [h3, h4]
        rw [hostEvents_nested]
        have := eventsTree_host_data e.py isDt var.nillable host none (t :: u :: rest) hok
        simpa [normText] using this

/-! ### mixed content -/

theorem prepareGeneric_forest (qn : Option QN) (e : Env) (nil : Bool) (ts : List Tree) :
    (anyOfList e nil ts).mapM (prepareGeneric qn) = .ok (anyOfList e nil ts) := by
  induction ts with
  | nil => simp [anyOfList, pure, Except.pure]
  | cons t ts ih =>
    simp [anyOfList, List.mapM_cons, prepareGeneric_anyOf, ih, bind, Except.bind, pure, Except.pure]

theorem genAnyType_text (e : BEnv) (Γ : Ctx) (cfg : SerCfg) (var : XmlVar) (hw : var.isWildcard = true)
    (fuel : Nat) (ns : Option Str) (t : Str) :
    genAnyType e Γ cfg (fuel + 1) (.prim (.str t)) var ns = .ok [Ev.data (.prim (.str t))] := by
  obtain ⟨_, _, h3⟩ := wild_kind var hw
  simp [genAnyType, h3, encodePrimitive, bind, Except.bind, pure, Except.pure]

theorem genValue_mixed (e : BEnv) (Γ : Ctx) (cfg : SerCfg) (var : XmlVar) (hm : var.mixed = true)
    (nil : Bool) (ts : List Tree) (fuel : Nat) (ns : Option Str)
    (hn : namesOKList ts = true) (hf : depthList ts ≤ fuel) :
    genValue e Γ cfg (fuel + 1) (.list (anyOfList e.py nil ts)) var ns = .ok (forestEv e.py nil ts) := by
  have h3 := genAnyType_forest e Γ cfg var nil ts fuel ns hn hf
  rw [genValue]
  simp [hm, h3, bind, Except.bind, pure, Except.pure, forestEv_eq]

theorem genValue_mixed_text (e : BEnv) (Γ : Ctx) (cfg : SerCfg) (var : XmlVar) (hw : var.isWildcard = true)
    (hm : var.mixed = true) (nil : Bool) (t : Str) (ts : List Tree) (fuel : Nat) (ns : Option Str)
    (hn : namesOKList ts = true) (hf : depthList ts ≤ fuel) :
    genValue e Γ cfg (fuel + 2) (.list (.prim (.str t) :: anyOfList e.py nil ts)) var ns
      = .ok ([Ev.data (.prim (.str t))] ++ forestEv e.py nil ts) := by
  have h3 := genAnyType_forest e Γ cfg var nil ts (fuel + 1) ns hn (by omega)
  have h4 := genAnyType_text e Γ cfg var hw fuel ns t
  rw [show fuel + 2 = (fuel + 1) + 1 from rfl, genValue]
  simp [hm, h3, h4, List.mapM_cons, bind, Except.bind, pure, Except.pure, forestEv_eq]

theorem hostEvents_text (host : QN) (e : Env) (nil : Bool) (t : Str) (ts : List Tree) :
    hostEvents host [] [[Ev.data (.prim (.str t))] ++ forestEv e nil ts]
      = hostEvents host [Ev.data (textData (some t))] (ts.map (treeEv e nil)) := by
  simp [hostEvents, forestEv_eq, textData]

theorem normalizeContent_none (e : Env) : normalizeContent e none = none := rfl

theorem bindWildText_list (e : BEnv) (var : XmlVar) (params : Params) (text : Option Str) (items : List Val)
    (hl : var.listElement = true) (hg : params.get var.name = some (.list items)) :
    (bindWildText e var [] [] params text none).1 =
      (match normalizeContent e.py text with
       | none => params
       | some t => params.set var.name (.list (.prim (.str t) :: items))) := by
  unfold bindWildText
  simp only [normalizeContent_none]
  cases h : normalizeContent e.py text with
  | none => simp
  | some t => simp [hl, hg]

theorem mixedRoundtrip_eq (e : BEnv) (Γ : Ctx) (cfg : ParserConfig) (isDt : Str → Bool) (var : XmlVar)
    (host : QN) (text : Option Str) (ts : List Tree) (hw : var.isWildcard = true) (hm : var.mixed = true)
    (hl : var.listElement = true) (hok : treeOKList isDt ts = true) :
    mixedRoundtrip e Γ cfg isDt var host text ts
      = .ok (.node host [] [] (normalizeContent e.py text) (normList e.py [] ts) none) := by
  have h1 := wildValue_forest e Γ cfg var hw ts
  have h2 := prepareGeneric_forest (some var.qname) e.py var.nillable ts
  have hn := treeOKList_names isDt ts hok
  simp only [mixedRoundtrip, h1, h2, bind, Except.bind]
  cases htx : normalizeContent e.py text with
  | none =>
    have h4 : genValue e Γ {} (depthList ts + 3) (.list (anyOfList e.py var.nillable ts)) var none
        = .ok (forestEv e.py var.nillable ts) :=
      genValue_mixed e Γ {} var hm var.nillable ts (depthList ts + 2) none hn (by omega)
    rw [bindWildText_list e var _ text _ hl (params_get_set [] var.name _)]
    simp only [htx, params_get_set, h4]
    rw [hostEvents_single host _ e.py var.nillable ts rfl]
    exact eventsTree_host_nodata e.py isDt var.nillable host ts hok
  | some t =>
    have h4 : genValue e Γ {} (depthList ts + 3) (.list (.prim (.str t) :: anyOfList e.py var.nillable ts)) var none
        = .ok ([Ev.data (.prim (.str t))] ++ forestEv e.py var.nillable ts) :=
      genValue_mixed_text e Γ {} var hw hm var.nillable t ts (depthList ts + 1) none hn (by omega)
    rw [bindWildText_list e var _ text _ hl (params_get_set [] var.name _)]
    simp only [htx, params_get_set, h4]
    rw [hostEvents_text]
    have := eventsTree_host_data e.py isDt var.nillable host (some t) ts hok
    rw [normText_false_idem e.py (some t) (fun s hs => by
      injection hs with hs; subst hs; exact normalizeContent_nonempty e.py text t htx)] at this
    exact this

/-! ### `Attributes` maps: `bind_attrs` (any-attribute branch) and `next_attribute` -/

/-- the body of the loop of `ElementNode.bind_attrs` -/
def attrStep (e : BEnv) (cfg : ParserConfig) (m : XmlMeta) (nsmap : NsMap)
    (acc : Params × Nat) (kv : QN × Str) : Except Err (Params × Nat) := do
  let (params, warns) := acc
  let (qname, value) := kv
  let direct := match m.findAttribute qname with
    | some var => if !params.has var.name then some var else none
    | none => none
  match direct with
  | some var =>
    let r ← parseVar e cfg var.toVarCore (some value) nsmap
    let warns := warns + (if r.warned then 1 else 0)
    if var.init then return (params.set var.name r.val, warns)
    else do validateFixed e.py var.toVarCore r.val; return (params, warns)
  | none =>
    if qname = xsiType || qname = xsiNil then return (params, warns) else
    match m.findAnyAttributes qname with
    | some var =>
      let cur := match params.get var.name with
        | some (.attrs a) => a
        | _ => []
      let v' := parseAnyAttribute value nsmap
      let cur' := if cur.any (·.1 = qname) then cur.map (fun (k, w) => if k = qname then (k, v') else (k, w))
                  else cur ++ [(qname, v')]
      return (params.set var.name (.attrs cur'), warns)
    | none =>
      if cfg.failOnUnknownAttributes && targetUri qname ≠ some xsiNs then
        throw (.parser "Unknown attribute")
      else return (params, warns)

theorem bindAttrs_eq (e : BEnv) (cfg : ParserConfig) (m : XmlMeta) (attrs : List (QN × Str)) (nsmap : NsMap) :
    bindAttrs e cfg m attrs nsmap = attrs.foldlM (attrStep e cfg m nsmap) ([], 0) := rfl

theorem params_single_get (n : Str) (x : Val) : Params.get [(n, x)] n = some x := by
  simp [Params.get]

theorem params_single_set (n : Str) (x y : Val) : Params.set [(n, x)] n y = [(n, y)] := by
  simp [Params.set, Params.has]

theorem attrStep_any (e : BEnv) (cfg : ParserConfig) (m : XmlMeta) (av : XmlVar) (nsmap : NsMap)
    (hm : m.attributes = []) (ha : m.anyAttributes = [av]) (hns : av.namespaces = [anyNs])
    (cur : List (QN × Str)) (w : Nat) (k : QN) (v : Str)
    (hv : parseAnyAttribute v nsmap = v) (hk : cur.any (·.1 = k) = false)
    (hctl : k ≠ xsiType ∧ k ≠ xsiNil) :
    attrStep e cfg m nsmap ([(av.name, .attrs cur)], w) (k, v)
      = .ok ([(av.name, .attrs (cur ++ [(k, v)]))], w) := by
  have h1 : m.findAttribute k = none := by simp [XmlMeta.findAttribute, hm]
  have h2 : m.findAnyAttributes k = some av := by
    simp [XmlMeta.findAnyAttributes, findByNamespace, ha, hns, matchNamespace, anyNs]
  simp [attrStep, h1, h2, params_single_get, params_single_set, hv, hk, hctl.1, hctl.2, pure, Except.pure]

theorem attrStep_first (e : BEnv) (cfg : ParserConfig) (m : XmlMeta) (av : XmlVar) (nsmap : NsMap)
    (hm : m.attributes = []) (ha : m.anyAttributes = [av]) (hns : av.namespaces = [anyNs])
    (w : Nat) (k : QN) (v : Str) (hv : parseAnyAttribute v nsmap = v) (hctl : k ≠ xsiType ∧ k ≠ xsiNil) :
    attrStep e cfg m nsmap ([], w) (k, v) = .ok ([(av.name, .attrs [(k, v)])], w) := by
  have h1 : m.findAttribute k = none := by simp [XmlMeta.findAttribute, hm]
  have h2 : m.findAnyAttributes k = some av := by
    simp [XmlMeta.findAnyAttributes, findByNamespace, ha, hns, matchNamespace, anyNs]
  simp [attrStep, h1, h2, params_get_nil, Params.set, Params.has, hv, hctl.1, hctl.2, pure, Except.pure]

theorem attr_fold (e : BEnv) (cfg : ParserConfig) (m : XmlMeta) (av : XmlVar) (nsmap : NsMap)
    (hm : m.attributes = []) (ha : m.anyAttributes = [av]) (hns : av.namespaces = [anyNs]) (w : Nat) :
    ∀ (attrs cur : List (QN × Str)), keysDistinct attrs = true →
      (∀ kv ∈ attrs, parseAnyAttribute kv.2 nsmap = kv.2) →
      (∀ kv ∈ attrs, kv.1 ≠ xsiType ∧ kv.1 ≠ xsiNil) →
      (∀ kv ∈ attrs, cur.any (·.1 = kv.1) = false) →
      attrs.foldlM (attrStep e cfg m nsmap) ([(av.name, .attrs cur)], w)
        = .ok ([(av.name, .attrs (cur ++ attrs))], w)
  | [], cur, _, _, _, _ => by simp [pure, Except.pure]
  | (k, v) :: r, cur, hd, hs, hx, hc => by
    simp [keysDistinct] at hd
    have h1 := attrStep_any e cfg m av nsmap hm ha hns cur w k v (hs (k, v) (by simp)) (hc (k, v) (by simp))
      (hx (k, v) (by simp))
    have ih := attr_fold e cfg m av nsmap hm ha hns w r (cur ++ [(k, v)]) hd.2
      (fun kv h => hs kv (by simp [h])) (fun kv h => hx kv (by simp [h]))
      (fun kv h => by
        have h1 := hc kv (by simp [h])
        have h2 := hd.1 kv.1 kv.2 (by simpa using h)
        simp [h1]
        exact fun h' => h2 h'.symm)
    rw [foldlM_cons_ok _ _ _ _ _ h1, ih]
    simp

theorem bindAttrs_any (e : BEnv) (cfg : ParserConfig) (m : XmlMeta) (av : XmlVar) (nsmap : NsMap)
    (hm : m.attributes = []) (ha : m.anyAttributes = [av]) (hns : av.namespaces = [anyNs])
    (kv : QN × Str) (attrs : List (QN × Str)) (hd : keysDistinct (kv :: attrs) = true)
    (hs : ∀ x ∈ kv :: attrs, parseAnyAttribute x.2 nsmap = x.2)
    (hx : ∀ x ∈ kv :: attrs, x.1 ≠ xsiType ∧ x.1 ≠ xsiNil) :
    bindAttrs e cfg m (kv :: attrs) nsmap = .ok ([(av.name, .attrs (kv :: attrs))], 0) := by
  obtain ⟨k, v⟩ := kv
  rw [bindAttrs_eq]
  have h1 := attrStep_first e cfg m av nsmap hm ha hns 0 k v (hs (k, v) (by simp)) (hx (k, v) (by simp))
  simp [keysDistinct] at hd
  have h2 := attr_fold e cfg m av nsmap hm ha hns 0 attrs [(k, v)] hd.2
    (fun x h => hs x (by simp [h])) (fun x h => hx x (by simp [h]))
    (fun x h => by
      have h2 := hd.1 x.1 x.2 (by simpa using h)
      simp
      exact fun h' => h2 h'.symm)
  rw [foldlM_cons_ok _ _ _ _ _ h1, h2]
  simp

/-- `next_attribute` on a meta whose only attribute var is an `Attributes` map -/
theorem nextAttribute_any (cfg : SerCfg) (m : XmlMeta) (av : XmlVar)
    (hm : m.attributes = []) (ha : m.anyAttributes = [av]) (hk : av.isAttribute = false)
    (attrs : List (QN × Str)) :
    nextAttribute cfg m [(av.name, .attrs attrs)] false none = .ok (attrs.map attrEv) := by
  have h1 : m.attributeVars = [av] := by
    simp [XmlMeta.attributeVars, hm, ha, sortByIndex, insertByIndex]
  simp [nextAttribute, h1, hk, bind, Except.bind, pure, Except.pure, attrEv]

/-- the writer on a start tag carrying only an `Attributes` map -/
theorem eventsTree_attrs (isDt : Str → Bool) (host : QN) (attrs : List (QN × Str))
    (hd : keysDistinct attrs = true) (hp : ∀ kv ∈ attrs, plainAttr isDt kv = true) :
    eventsTree isDt ([Ev.start host] ++ attrs.map attrEv ++ [Ev.end host])
      = .ok (.node host attrs [] none [] none) := by
  have hu : collectUris ([Ev.start host] ++ attrs.map attrEv ++ [Ev.end host]) = [] := by
    rw [collectUris_eq]
    simp only [List.map_append, List.flatten_append, attrEv_uris, List.map_cons, List.map_nil,
      List.flatten_cons, List.flatten_nil, evUris, List.append_nil]
    rfl
  have h1 : WState.step [] isDt {} (Ev.start host) = .ok ⟨[], some host, [], false, none⟩ := by
    simp [WState.step, WState.flush]
  have h2 := attrs_fold [] isDt [] host false none attrs [] hd hp (by simp)
  have hs : eventsSax [] isDt ([Ev.start host] ++ attrs.map attrEv ++ [Ev.end host])
      = .ok [Sax.open host attrs, Sax.close host] := by
    simp only [eventsSax, List.cons_append, List.nil_append]
    rw [foldlM_cons_ok _ _ _ _ _ h1, foldlM_append_ok _ _ _ _ _ h2]
    simp [WState.step, WState.flush, bind, Except.bind, pure, Except.pure]
  exact eventsTree_of isDt _ _ _ hu hs (by simp [saxTree])

/-! ### `eventsTreeQ` (prefixes for `is_xsi_type` strings) agrees with `eventsTree` on `treeOK` content -/

theorem attrEv_urisQ (isDt : Str → Bool) (a : List (QN × Str)) (hp : ∀ kv ∈ a, plainAttr isDt kv = true) :
    ((a.map attrEv).map (evUrisQ isDt)).flatten = [] := by
  induction a with
  | nil => simp
  | cons kv r ih =>
    have h1 := hp kv (by simp)
    have hc : ¬ (kv.2.head? = some '{' ∧ (kv.1 = xsiType ∨ isDt kv.2 = true)) := by
      simp [plainAttr] at h1
      intro ⟨x1, x2⟩
      rcases h1 with h1 | h1
      · exact h1 x1
      · rcases x2 with x2 | x2
        · exact h1.1 x2
        · simp [h1.2] at x2
    have ih' := ih (fun x hx => hp x (by simp [hx]))
    simp only [List.map_cons, List.flatten_cons, ih', List.append_nil]
    simp [attrEv, evUrisQ, hc]

theorem tailEv_urisQ (isDt : Str → Bool) (t : Option Str) : ((tailEv t).map (evUrisQ isDt)).flatten = [] := by
  cases t with
  | none => simp [tailEv]
  | some s => by_cases h : s = [] <;> simp [tailEv, h, evUrisQ, dataUris]

theorem nilFlush_urisQ (isDt : Str → Bool) (a : List (QN × Str)) :
    ((nilFlush a).map (evUrisQ isDt)).flatten = [] := by
  by_cases h : a.any (·.1 = xsiNil) = true
  · simp [nilFlush, h, evUrisQ, dataUris]
  · simp [nilFlush, h]

mutual
theorem treeEv_urisQ (e : Env) (nil : Bool) (isDt : Str → Bool) :
    ∀ t : Tree, treeOK isDt t = true → ((treeEv e nil t).map (evUrisQ isDt)).flatten = []
  | .node q a n tx c tl, hok => by
    obtain ⟨_, hd, hst, hpl, hc⟩ := treeOK_node hok
    have ih := forestEv_urisQ e nil isDt c hc
    have ha := parseAnyAttributes_ok a n hd hst
    simp only [treeEv, ha, List.map_append, List.flatten_append, attrEv_urisQ isDt a hpl, nilFlush_urisQ, ih, tailEv_urisQ,
      List.map_cons, List.map_nil, List.flatten_cons, List.flatten_nil, evUrisQ, textData_uris, List.append_nil]
theorem forestEv_urisQ (e : Env) (nil : Bool) (isDt : Str → Bool) :
    ∀ ts : List Tree, treeOKList isDt ts = true → ((forestEv e nil ts).map (evUrisQ isDt)).flatten = []
  | [], _ => by simp [forestEv]
  | t :: ts, hok => by
    simp [treeOKList] at hok
    have h1 := treeEv_urisQ e nil isDt t hok.1
    have h2 := forestEv_urisQ e nil isDt ts hok.2
    simp [forestEv, h1, h2]
end

theorem eventsTreeQ_eq (isDt : Str → Bool) (evs : List Ev) (h1 : collectUris evs = [])
    (h2 : ((evs.map (evUrisQ isDt)).flatten) = []) : eventsTreeQ isDt evs = eventsTree isDt evs := by
  have h3 : collectUrisQ isDt evs = [] := by simp [collectUrisQ, h2]
  simp only [eventsTreeQ, eventsTree, h1, h3]
  cases eventsSax (prefixMap []) isDt evs with
  | error err => rfl
  | ok sax =>
    simp only [bind, Except.bind]
    cases saxTree (prefixMap []) sax [] none <;> rfl

/-- `any_roundtrip` for the writer with the requested repair of `collectUris` -/
theorem wildRoundtrip1Q_eq (e : BEnv) (Γ : Ctx) (cfg : ParserConfig) (isDt : Str → Bool) (var : XmlVar)
    (t : Tree) (hw : var.isWildcard = true) (hok : treeOK isDt t = true)
    (htl : rootTailBlank e.py t = true) :
    (do let v ← wildValue e Γ cfg var t
        let evs ← genAnyType e Γ {} (depthTree t + 1) v var none
        eventsTreeQ isDt evs) = .ok (normTree e.py [] t) := by
  have h0 := wildRoundtrip1_eq e Γ cfg isDt var t hw hok htl
  have h1 := wildValue_eq e Γ cfg var hw t
  have h2 := genAnyType_anyOf e Γ {} var var.nillable t (depthTree t + 1) none
    (treeOK_names isDt t hok) (by omega)
  have hu : collectUris (treeEv e.py var.nillable t) = [] := by
    rw [collectUris_eq, treeEv_uris]; rfl
  have hq := eventsTreeQ_eq isDt _ hu (treeEv_urisQ e.py var.nillable isDt t hok)
  simp only [wildRoundtrip1, h1, h2, bind, Except.bind] at h0 ⊢
  rw [hq]; exact h0

end Proofs.C11
