"""C16 — generated classes are faithful to the DTD they came from (partial: occurrence
cores modelled and proved, pipeline exercised end to end with the stand-in renderer)."""
import dataclasses
import json
import random

import codegen_run as CG
import gengen as G
from framework import Corr, Oracle, err, ok

PROP_ID = "C16"
DESIGN_REF = "6/C16"
MAXSIZE = G.MAXSIZE


def n_cases(tier, quick, thorough):
    return quick if tier == "quick" else thorough


def E(n, o="once"):
    return {"n": n, "o": o}


HAND = [
    {"k": "seq", "o": "mult", "c": [E("a"), E("b")]},                      # (a,b)*
    {"k": "or", "o": "once", "c": [E("a"), E("b", "plus")]},               # (a|b+)
    {"k": "seq", "o": "once", "c": [{"k": "seq", "o": "mult", "c": [E("a"), E("b")]}, {"k": "or", "o": "once", "c": [E("c"), E("d", "plus")]}, E("e", "opt")]},
    {"k": "or", "o": "mult", "c": [E("a"), E("b")]},                       # (a|b)*
    {"k": "seq", "o": "once", "c": [E("a"), E("b", "opt"), E("c", "mult"), E("d", "plus")]},
    {"k": "seq", "o": "once", "c": [{"k": "or", "o": "once", "c": [E("a"), E("b")]}, {"k": "or", "o": "once", "c": [E("a"), E("c")]}]},
    {"k": "seq", "o": "once", "c": [E("a"), {"k": "or", "o": "plus", "c": [E("b"), E("c")]}]},
]


def restricted(c, in_or=False):
    """the property's own restriction: repetition only on single elements and on choices of single elements"""
    if "n" in c:
        return not in_or or c["o"] == "once"
    if c["k"] == "seq":
        return c["o"] == "once" and not in_or and all(restricted(k) for k in c["c"])
    if in_or:
        return False
    if c["o"] == "once":
        # a choice that does not repeat: an alternative may also be a sequence of single elements, e.g.
        # ((name | (first, last)), email?) — nothing repeats there
        return all(k["o"] == "once" if "n" in k
                   else (k["k"] == "seq" and k["o"] == "once" and all("n" in x and x["o"] == "once" for x in k["c"])) for k in c["c"])
    return all("n" in k and k["o"] == "once" for k in c["c"])


def contents(rng, n, dup_share=0.3):
    for c in HAND:
        yield c
    for _ in range(n):
        if rng.random() < dup_share:
            c = G.gen_dtd_content(rng)
        else:
            c = G.gen_dtd_content(rng, distinct=["a", "b", "c", "d", "e", "f"])
        if c is not None and "n" not in c:
            yield c


def valid_dtd(c):
    from lxml import etree

    try:
        etree.DTD(__import__("io").StringIO(G.dtd_doc(c)))
        return True
    except etree.DTDParseError:
        return False


# ------------------------------------------------------------------ cores
def gen_sites(rng, tier):
    for c in contents(rng, n_cases(tier, 400, 8000)):
        if not valid_dtd(c):
            continue
        try:
            content, _ = G.real_dtd(G.dtd_doc(c))
        except Exception:  # noqa: BLE001
            continue
        yield {"content": content, "dtd": G.dtd_doc(c)}


def impl_sites(a):
    try:
        return ok(G.real_dtd(a["dtd"])[1])
    except Exception as e:  # noqa: BLE001
        return err("HARNESS:" + type(e).__name__)


def canon_sites(o):
    if isinstance(o, dict) and "ok" in o:
        return {"ok": G.renumber(o["ok"])}
    return o


def impl_occurs(a):
    try:
        sites = G.real_dtd(a["dtd"])[1]
        return ok(G.real_stage(sites, "all"))
    except Exception as e:  # noqa: BLE001
        return err("LEAK:" + type(e).__name__)


def canon_occ(o):
    if isinstance(o, dict) and "ok" in o:
        return {"ok": [{k: v for k, v in s.items() if k in ("name", "min", "max")} for s in G.renumber(o["ok"])]}
    return o


def field_shapes(cls):
    out = {}
    for f in dataclasses.fields(cls):
        md = f.metadata
        if md.get("type") != "Element":
            continue
        name = md.get("name", f.name)
        is_list = f.default_factory is not dataclasses.MISSING
        required = f.default is dataclasses.MISSING and f.default_factory is dataclasses.MISSING
        out[name] = [is_list, required]
    return out


def gen_fields(rng, tier):
    for c in contents(rng, n_cases(tier, 60, 800)):
        if not valid_dtd(c):
            continue
        try:
            content, _ = G.real_dtd(G.dtd_doc(c))
        except Exception:  # noqa: BLE001
            continue
        yield {"content": content, "dtd": G.dtd_doc(c)}


def impl_fields(a):
    g = CG.run_pipeline({"s.dtd": a["dtd"]})
    try:
        if g.error is not None:
            return err("GEN:" + type(g.error).__name__)
        return ok(field_shapes(g.classes()["R"]))
    finally:
        g.close()


def canon_fields(o):
    if isinstance(o, dict) and "ok" in o and isinstance(o["ok"], list):
        return {"ok": {s["name"]: [s["max"] > 1, s["min"] >= 1 and s["max"] <= 1] for s in o["ok"]}}
    return o


def gen_nsmap(rng, tier):
    from xsdata.models.enums import Namespace

    base = [[ns.prefix, ns.uri] for ns in Namespace.common()]
    names = ["xmlns", "dc", "ex", "id", "title", "a"]
    for _ in range(n_cases(tier, 600, 20000)):
        attrs = []
        for _ in range(rng.randint(0, 6)):
            r = rng.random()
            if r < 0.45:
                attrs.append({"prefix": "xmlns", "name": rng.choice(["dc", "ex", "p", "dc"]), "default_value": rng.choice(["urn:dc", "urn:ex", "", None, "urn:p"])})
            elif r < 0.6:
                attrs.append({"prefix": None, "name": "xmlns", "default_value": rng.choice(["urn:d", "", None])})
            else:
                attrs.append({"prefix": rng.choice([None, "dc", "ex"]), "name": rng.choice(names[2:]), "default_value": rng.choice([None, "v", ""])})
        yield {"base": base, "prefix": rng.choice([None, "dc", "p"]), "attrs": attrs}


def impl_nsmap(a):
    from xsdata.codegen.parsers.dtd import DtdParser
    from xsdata.models.dtd import DtdAttribute, DtdAttributeDefault, DtdAttributeType

    attrs = [
        DtdAttribute(name=x["name"], prefix=x["prefix"], type=DtdAttributeType.CDATA, default=DtdAttributeDefault.NONE,
                     default_value=x["default_value"], values=[])
        for x in a["attrs"]
    ]
    try:
        m = DtdParser.build_ns_map(a["prefix"], attrs)
    except Exception as e:  # noqa: BLE001
        return err("LEAK:" + type(e).__name__)
    return ok({"ns_map": [[k, v] for k, v in m.items()], "attrs": [[x.prefix, x.name] for x in attrs]})


# ------------------------------------------------------------------ oracle
ATTR_VARIANTS = [
    ('id CDATA #REQUIRED', "id", "req"),
    ('opt CDATA #IMPLIED', "opt", "imp"),
    ('fx CDATA #FIXED "F"', "fx", "fixed"),
    ('df CDATA "D"', "df", "default"),
    ('kind (x|y) "x"', "kind", "enum"),
    ('toks NMTOKENS #IMPLIED', "toks", "tokens"),
    # list-typed attributes with a declared default / #FIXED value: an element that omits them has the declared tokens
    ('tkd NMTOKENS "D1 D2"', "tkd", "tdefault"),
    ('tkf NMTOKENS #FIXED "F1 F2"', "tkf", "tfixed"),
    ('tk1 NMTOKENS "one"', "tk1", "tdefault1"),
    ('ref IDREF #IMPLIED', "ref", "imp"),
    # edge values of a declared default / #FIXED value (EDGE: name -> declared value, a value a document may give):
    # the empty string, a blank, falsy-looking text, markup characters, both kinds of quotes, a keyword-like word
    ('em CDATA ""', "em", "xdefault"),
    ('emf CDATA #FIXED ""', "emf", "xfixed"),
    ('sp CDATA " "', "sp", "xdefault"),
    ('zero CDATA "0"', "zero", "xdefault"),
    ('fls CDATA #FIXED "false"', "fls", "xfixed"),
    ('amp CDATA "a&amp;b &lt;c&gt;"', "amp", "xdefault"),
    ('amp2 CDATA "p&amp;#38;q"', "amp2", "xdefault"),
    # (not #FIXED: libxml2 validates a fixed value against its stored, escaped text and rejects the correct output)
    ('amp3 CDATA "&#38;amp;"', "amp3", "xdefault"),
    ('amp4 CDATA "&#x26;z"', "amp4", "xdefault"),
    ("qt CDATA 'say \"hi\"'", "qt", "xdefault"),
    ('apo CDATA "it\'s"', "apo", "xdefault"),
    ('non CDATA "None"', "non", "xdefault"),
    ('emt NMTOKEN "0"', "emt", "xdefault"),
    # enumerations whose values collide after slugging; the default / fixed value is a member that gets renamed
    ('st (on|ON|off) "ON"', "st", "enumx"),
    ('pt (x-1|x1) "x1"', "pt", "enumx"),
    ('dot (a.b|a_b|ab) #FIXED "a_b"', "dot", "enumx"),
    ('cs (A|a) "a"', "cs", "enumx"),
    ('num (1|2|10) "10"', "num", "enumx"),
    ('kw (True|true|None) #FIXED "true"', "kw", "enumx"),
]
# name -> (a value a document may give, or None for #FIXED; the value of an absent attribute)
EDGE = {"em": ("", "x"), "emf": ("", None), "sp": (" ", ""), "zero": ("0", ""), "fls": ("false", None), "amp": ("a&b <c>", "&"), "amp2": ("p&#38;q", "&#38;"), "amp3": ("&amp;", None), "amp4": ("&z", "&amp;"),
        "qt": ('say "hi"', "'"), "apo": ("it's", "it's"), "non": ("None", "none"), "emt": ("0", "00")}
ENUMX = {"st": ("off", "ON"), "pt": ("x-1", "x1"), "dot": (None, "a_b"), "cs": ("A", "a"), "num": ("2", "10"), "kw": (None, "true")}


def _oracle_docs_failures(a):
    import io

    from lxml import etree
    from xsdata.formats.dataclass.context import XmlContext
    from xsdata.formats.dataclass.parsers import XmlParser
    from xsdata.formats.dataclass.parsers.config import ParserConfig
    from xsdata.formats.dataclass.serializers import XmlSerializer

    c, words, attrs = a["content"], a["words"], a.get("attrs", [])
    ns = a.get("ns")  # {"decls": [prefix...], "first": bool, "split": bool}
    kinds = a.get("kinds") or {}
    dtd_text = G.dtd_doc(c, kinds=kinds)
    plain = "  ".join(ATTR_VARIANTS[i][0] for i in attrs)
    if ns:
        decls = "  ".join(f'xmlns:{p} CDATA #FIXED "urn:{p}"' for p in ns["decls"])
        use = f'{ns["decls"][-1]}:title CDATA #IMPLIED'
        parts = [decls, plain + "  " + use] if ns["first"] else [plain + "  " + use, decls]
        if ns["split"]:
            dtd_text += "".join(f"<!ATTLIST r {x}>\n" for x in parts if x.strip())
        else:
            dtd_text += "<!ATTLIST r " + "  ".join(x for x in parts if x.strip()) + ">\n"
    elif attrs:
        dtd_text += "<!ATTLIST r " + plain + ">\n"
    try:
        dtd = etree.DTD(io.StringIO(dtd_text))
    except etree.DTDParseError:
        return
    passes = [({}, False)]
    if restricted(c):
        passes.append(({"compound_fields": True}, True))
    for opts, ordered in passes:
        g = CG.run_pipeline({"s.dtd": dtd_text}, **opts)
        try:
            if g.error is not None:
                yield f"generation failed ({opts}): {type(g.error).__name__}: {g.error}"
                continue
            R = g.classes()["R"]
            ctx = XmlContext()
            parser = XmlParser(context=ctx, config=ParserConfig(fail_on_unknown_properties=True, fail_on_unknown_attributes=True, fail_on_converter_warnings=True))
            for w in words:
                given = {}
                for i in attrs:
                    _, name, kind = ATTR_VARIANTS[i]
                    if kind == "req":
                        given[name] = "v1"
                    elif kind in ("imp", "default", "enum", "tokens", "tdefault", "tdefault1") and ((len(name) + len(w)) % 2):
                        given[name] = {"imp": "i1", "default": "other", "enum": "y", "tokens": "t1 t2", "tdefault": "o1 o2 o3", "tdefault1": "p q"}[kind]
                    elif kind == "enumx" and ENUMX[name][0] is not None and ((len(name) + len(w)) % 2):
                        given[name] = ENUMX[name][0]
                    elif kind == "xdefault" and EDGE[name][1] is not None and ((len(name) + len(w)) % 2):
                        given[name] = EDGE[name][1]
                at = "".join(f' {k}="{G._xml_attr(v)}"' for k, v in given.items())
                if ns:
                    lastp = ns["decls"][-1]
                    at += "".join(f' xmlns:{p}="urn:{p}"' for p in ns["decls"]) + f' {lastp}:title="T{len(w)}"'
                doc = f"<r{at}>" + "".join(G.dtd_child_xml(n, i, kinds) for i, n in enumerate(w)) + "</r>"
                root = etree.fromstring(doc.encode())
                if not dtd.validate(root):
                    continue
                try:
                    obj = parser.from_string(doc, R)
                except Exception as e:  # noqa: BLE001
                    yield f"DTD-valid document {doc} rejected ({opts}): {type(e).__name__}: {e}"
                    continue
                # "nothing retyped": an enumerated attribute is held as a member of its enumeration, also when it
                # comes from the default / #FIXED value
                import enum as _enum

                fmap = {f.metadata.get("name", f.name): f.name for f in dataclasses.fields(R)}
                bad_type = None
                for i in attrs:
                    _, name, kind = ATTR_VARIANTS[i]
                    if kind in ("enum", "enumx") and name in fmap:
                        v = getattr(obj, fmap[name])
                        if v is not None and not isinstance(v, _enum.Enum):
                            bad_type = f"document {doc}: enumerated attribute {name} is held as {v!r} ({type(v).__name__}), not as a member of its enumeration ({opts})"
                if bad_type:
                    yield bad_type
                    continue
                # DTDs are prefix-sensitive: serialise with the prefixes the DTD declares
                user_map = {p: f"urn:{p}" for p in ns["decls"]} if ns else None
                out = XmlSerializer(context=ctx).render(obj, ns_map=user_map)
                back = etree.fromstring(out.encode())
                got = [(ch.tag, etree.tostring(ch, method="c14n", with_tail=False)) for ch in back]
                exp = [(ch.tag, etree.tostring(ch, method="c14n", with_tail=False)) for ch in root]
                if sorted(got) != sorted(exp):
                    yield f"document {doc} re-serialised with other content ({opts}): {out}"
                    # finding C16-any-drops-text: when the difference is exactly the one the finding describes, the
                    # remaining clauses (attributes, order, validity) are still judged, against what the finding predicts
                    exp = any_predicted(root, kinds)
                    if exp is None or sorted(got) != sorted(exp):
                        continue
                # attribute defaults and fixed values materialised as the DTD prescribes
                exp_attrs = dict(given)
                for i in attrs:
                    _, name, kind = ATTR_VARIANTS[i]
                    if kind == "fixed":
                        exp_attrs[name] = "F"
                    elif kind == "default" and name not in given:
                        exp_attrs[name] = "D"
                    elif kind == "tfixed":
                        exp_attrs[name] = "F1 F2"
                    elif kind == "xfixed" or (kind == "xdefault" and name not in given):
                        exp_attrs[name] = EDGE[name][0]
                    elif kind == "tdefault" and name not in given:
                        exp_attrs[name] = "D1 D2"
                    elif kind == "tdefault1" and name not in given:
                        exp_attrs[name] = "one"
                    elif kind == "enumx" and name not in given:
                        exp_attrs[name] = ENUMX[name][1]
                    elif kind == "enum" and name not in given:
                        exp_attrs[name] = "x"
                if ns:
                    exp_attrs["{urn:%s}title" % ns["decls"][-1]] = f"T{len(w)}"
                if dict(back.attrib) != exp_attrs:
                    yield f"document {doc}: attributes after the round trip {dict(back.attrib)}, the DTD prescribes {exp_attrs}"
                    continue
                if ordered:
                    if got != exp:
                        yield f"document {doc} re-serialised in another element order with compound fields: {out}"
                        continue
                    if not dtd.validate(back):
                        yield f"document {doc} re-serialised as {out}, which is not DTD-valid"
                        continue
        finally:
            g.close()
    return



def oracle_docs(a):
    """the first failure no listed finding covers, else the first failure, else None"""
    first = None
    for msg in _oracle_docs_failures(a):
        if first is None:
            first = msg
        if not covered_docs(a, msg):
            return msg
    return first

def _el(n, o="once"):
    return {"n": n, "o": o}


# repeated choices of three and four single elements (libxml2 hands them over as nested
# binary OR nodes) with documents that interleave the first alternative with the later ones:
# a seeded change split such a group into several compound fields and lost the order
HAND_DOCS = [
    ({"k": "or", "o": "mult", "c": [_el("a"), _el("b"), _el("c")]},
     [["b", "a", "c", "a", "b"], ["c", "b", "a"], ["a", "a"], []]),
    ({"k": "seq", "o": "once", "c": [_el("d"), {"k": "or", "o": "mult", "c": [_el("a"), _el("b"), _el("c")]}]},
     [["d", "b", "a", "c", "a", "b"], ["d"], ["d", "c", "a", "c"]]),
    ({"k": "seq", "o": "once", "c": [{"k": "or", "o": "plus", "c": [_el("a"), _el("b"), _el("c"), _el("d")]}, _el("e", "opt")]},
     [["d", "a", "c", "b", "a", "e"], ["b", "d", "b"], ["c"]]),
    ({"k": "seq", "o": "once", "c": [{"k": "or", "o": "mult", "c": [_el("a"), _el("b")]}, _el("e"), {"k": "or", "o": "mult", "c": [_el("c"), _el("d"), _el("f")]}]},
     [["b", "a", "b", "e", "f", "c", "d", "c"], ["e"], ["e", "d", "f", "d"]]),
]


def choice_of_sequences(rng, n):
    """non-repeating choices with multi-element sequence alternatives, alone, inside a sequence (before / after /
    between single elements, optional or repeating), e.g. ((name | (first, last)), email?), (a, (b | (c, d))),
    ((a, b) | (c, d, e)): with compound fields the alternatives share one field and every branch must survive"""
    for i in range(n):
        pool = ["a", "b", "c", "d", "e", "f", "g"]
        rng.shuffle(pool)
        alts, branches = [], []
        for _ in range(rng.randint(2, 3)):
            k = rng.choice([1, 2, 2, 3])
            if len(pool) < k + 2:
                break
            ns, pool = pool[:k], pool[k:]
            alts.append(_el(ns[0]) if k == 1 else {"k": "seq", "o": "once", "c": [_el(x) for x in ns]})
            branches.append(ns)
        if len(alts) < 2 or all("n" in x for x in alts):
            continue
        ch = {"k": "or", "o": "once", "c": alts}
        shape = i % 4
        if shape == 0:
            c, words = ch, [list(b) for b in branches]
        else:
            x, xo = pool[0], rng.choice(["once", "opt", "mult", "plus"])
            reps = {"once": [1], "opt": [0, 1], "mult": [0, 2], "plus": [1, 3]}[xo]
            kids = [ch, _el(x, xo)] if shape == 1 else [_el(x, xo), ch] if shape == 2 else [_el(x, xo), ch, _el(pool[1], "opt")]
            c = {"k": "seq", "o": "once", "c": kids}
            words = []
            for b in branches:
                for r in reps:
                    w = list(b) + [x] * r if shape == 1 else [x] * r + list(b)
                    words.append(w + ([pool[1]] if shape == 3 and r else []))
        yield c, words


def gen_docs(rng, tier):
    for c, words in HAND_DOCS + list(choice_of_sequences(rng, n_cases(tier, 12, 400))):
        if valid_dtd(c):
            yield {"content": c, "words": words, "attrs": [], "ns": None}
    for c in contents(rng, n_cases(tier, 50, 100000)):
        if not valid_dtd(c):
            continue
        p = G.dtd_particle(c)
        attrs = sorted(rng.sample(range(len(ATTR_VARIANTS)), rng.randint(0, 4)))
        ns = None
        if rng.random() < 0.5:
            ns = {"decls": rng.sample(["dc", "ex", "p3"], rng.randint(1, 3)), "first": rng.random() < 0.5, "split": rng.random() < 0.5}
        kinds = None
        if rng.random() < 0.5:
            kinds = {n: rng.choice(["pcdata", "empty", "any", "mixed", "elems"]) for n in set(G.dtd_names(c))}
        yield {"content": c, "words": [G.sample_word(rng, p) for _ in range(4)], "attrs": attrs, "ns": ns, "kinds": kinds}


def true_max(p, n):
    import props.c02 as c02

    return c02.true_max(p, n)


def any_predicted(root, kinds):
    """what the UNCHANGED code keeps of a document under finding C16-any-drops-text (independent description,
    lxml only): inside every child of `r` that is declared ANY the character data that follows a child element
    (the tails of its children) is gone, everything else is as in the document.  Returns the children of `r`
    as the oracle compares them, or None when the document has no such character data (the finding says nothing
    about it)."""
    import copy

    from lxml import etree

    pred = copy.deepcopy(root)
    hit = False
    for ch in pred:
        if (kinds or {}).get(ch.tag) != "any":
            continue
        for g in ch:
            if (g.tail or "").strip():
                hit = True
            g.tail = None
    if not hit:
        return None
    return [(ch.tag, etree.tostring(ch, method="c14n", with_tail=False)) for ch in pred]


def any_text_after_child(a, msg):
    """the failure is exactly the one of finding C16-any-drops-text: the failing document and its re-serialisation
    (both quoted in the message) differ by the character data after a child inside an element declared ANY, and by
    nothing else (a document of that shape that comes back with any OTHER content is a new violation)"""
    import re

    from lxml import etree

    kinds = a.get("kinds") or {}
    m = re.search(r"document (<r.*?</r>|<r[^>]*/>) re-serialised with other content \([^)]*\): (.*)$", msg, re.S)
    if not m:
        return False
    try:
        root = etree.fromstring(m.group(1).encode())
        back = etree.fromstring(m.group(2).strip().encode())
    except (etree.XMLSyntaxError, ValueError):
        return False
    pred = any_predicted(root, kinds)
    got = [(ch.tag, etree.tostring(ch, method="c14n", with_tail=False)) for ch in back]
    return pred is not None and sorted(got) == sorted(pred)


_MODEL_BOUNDS = {}


def model_bounds(c):
    """name -> (min, max) of the element fields the UNCHANGED code generates for this content model: replay of the
    Lean model (driver op gen.dtd_occurs, the definition the C16 theorems and counterexamples are about).  None when
    the driver cannot be asked."""
    import framework

    dtd = G.dtd_doc(c)
    if dtd not in _MODEL_BOUNDS:
        try:
            content, _ = G.real_dtd(dtd)
            out = framework.Driver().run([{"op": "gen.dtd_occurs", "args": {"content": content, "dtd": dtd}}])[0]
            _MODEL_BOUNDS[dtd] = {s["name"]: (s["min"], s["max"]) for s in out["ok"]}
        except Exception:  # noqa: BLE001
            _MODEL_BOUNDS[dtd] = None
    return _MODEL_BOUNDS[dtd]


def covered_docs(a, msg):
    """a failure belongs to a listed finding only if it is the failure the finding describes:
    C16-any-drops-text         the re-serialised document lacks exactly the character data after a child inside an ANY element;
    C16-duplicate-name-sites   (a) `Unknown property r:n` for a name n declared at several sites that the document carries more
                               often than the single merged field admits (bounds replayed on the model), or (b) with compound
                               fields only the elements with such names lose their place / are dropped: the other children
                               come back unchanged and in order.
    Any other failure on such a DTD (another name, another exception, a changed value, lost attributes) is reported."""
    import re

    from lxml import etree

    c = a["content"]
    if any_text_after_child(a, msg):
        return "C16-any-drops-text"
    names = G.dtd_names(c)
    dups = {n for n in names if names.count(n) > 1}
    if not dups:
        return None
    m = re.search(r"DTD-valid document (<r.*?</r>|<r[^>]*/>) rejected \([^)]*\): ParserError: Unknown property r:([^\s:]+)\s*$", msg, re.S)
    if m:
        n = m.group(2)
        if n not in dups:
            return None
        try:
            count = sum(1 for ch in etree.fromstring(m.group(1).encode()) if ch.tag == n)
        except etree.XMLSyntaxError:
            return None
        bounds = model_bounds(c)
        limit = bounds[n][1] if bounds and n in bounds else 1
        return "C16-duplicate-name-sites" if count > limit else None
    m = re.search(r"document (<r.*?</r>|<r[^>]*/>) re-serialised (?:in another element order with compound fields: |"
                  r"with other content \({'compound_fields': True}\): |as )(<\?xml.*?</r>|<\?xml.*?<r[^>]*/>)(, which is not DTD-valid)?\s*$", msg, re.S)
    if m:
        try:
            root = etree.fromstring(m.group(1).encode())
            back = etree.fromstring(m.group(2).encode())
        except (etree.XMLSyntaxError, ValueError):
            return None

        import props.c02 as c02

        got = [(ch.tag, etree.tostring(ch, method="c14n", with_tail=False)) for ch in back]
        exps = [[(ch.tag, etree.tostring(ch, method="c14n", with_tail=False)) for ch in root], any_predicted(root, a.get("kinds") or {})]
        if any(e is not None and c02.displaced_only_around(G.dtd_particle(c), dups, e, got) for e in exps):
            # one field per element name: two sites of one name cannot both keep their place
            return "C16-duplicate-name-sites"
    return None


def adapt_docs(op, a):
    return None  # correspondence args carry lxml's binary tree, not the n-ary description


ORACLES = [Oracle("c16.valid_docs", gen_docs, oracle_docs, covered=covered_docs)]


def impl_e2e(a):
    """`faithful`, or `finding:<id>` when every failure of the input is one a listed finding describes
    (oracle_docs returns an uncovered failure whenever there is one), else the failure"""
    msg = oracle_docs(a)
    if msg is None:
        return ok("faithful")
    fid = covered_docs(a, msg)
    return ok("finding:" + fid) if fid else {"err": msg[:160]}


def spec_e2e(a):
    """the property itself: every DTD-valid document is accepted by the strict parser and comes back with the same
    content and the prescribed attribute values.  (No region is left unspecified: `compare_e2e` admits the answer
    `finding:C16-duplicate-name-sites` only for a content model with an element name at several sites, and only
    when the coverage predicate recognised the failure itself.)"""
    return ok("faithful")


def compare_e2e(m, i, a):
    if m == i:
        return True
    names = G.dtd_names(a["content"])
    if "any" in (a.get("kinds") or {}).values() and i == ok("finding:C16-any-drops-text"):
        return True
    return len(set(names)) != len(names) and i == ok("finding:C16-duplicate-name-sites")


def gen_restricted(rng):
    """content models inside the property's own restriction, with pairwise distinct names"""
    names = ["a", "b", "c", "d", "e", "f", "g"]
    rng.shuffle(names)
    items = []
    for _ in range(rng.randint(1, 3)):
        if not names:
            break
        if rng.random() < 0.5 and len(names) >= 2:
            k = rng.randint(2, min(3, len(names)))
            kids = [E(names.pop()) for _ in range(k)]
            items.append({"k": "or", "o": rng.choice(["once", "opt", "mult", "plus"]), "c": kids})
        else:
            items.append(E(names.pop(), rng.choice(["once", "opt", "mult", "plus"])))
    if len(items) == 1 and "n" in items[0]:
        items.append(E(names.pop(), "opt"))
    if len(items) == 1:
        return items[0]
    return {"k": "seq", "o": "once", "c": items}


def gen_e2e(rng, tier):
    # the former counterexamples first: (a,b)*, (a|b+), ((a,b)*,(c|d+),e?), (a,b)?
    for c, words in [
        (HAND[0], [[], ["a", "b"], ["a", "b", "a", "b"]]),
        (HAND[1], [["a"], ["b"], ["b", "b", "b"]]),
        (HAND[2], [["c"], ["a", "b", "a", "b", "d", "d", "e"], ["a", "b", "c", "e"]]),
        ({"k": "seq", "o": "opt", "c": [E("a"), E("b")]}, [[], ["a", "b"]]),
    ]:
        yield {"content": c, "words": words, "attrs": [], "ns": None}
    for i in range(n_cases(tier, 40, 1200)):
        # inside the property's own restriction, and arbitrary nesting of indicators (distinct names)
        c = gen_restricted(rng) if i % 2 == 0 else G.gen_dtd_content(rng, distinct=["a", "b", "c", "d", "e", "f", "g"])
        if c is None or "n" in c or not valid_dtd(c):
            continue
        p = G.dtd_particle(c)
        attrs = sorted(rng.sample(range(len(ATTR_VARIANTS)), rng.randint(0, 4)))
        ns = None
        if rng.random() < 0.5:
            ns = {"decls": rng.sample(["dc", "ex", "p3"], rng.randint(1, 3)), "first": rng.random() < 0.5, "split": rng.random() < 0.5}
        yield {"content": c, "words": [G.sample_word(rng, p) for _ in range(4)], "attrs": attrs, "ns": ns}


# ------------------------------------------------------------------ attribute declarations (Gen/DtdAttrs.lean)
EDGE_DEFAULTS = ["", " ", "0", "false", "None", "it's", "  x "]  # (no tab / newline: attribute-value normalisation of the DTD text itself)


def gen_dtd_attr(rng, tier):
    kinds = ["required", "implied", "fixed", "none"]
    yield {"decls": [{"default": k, "value": v, "type": "CDATA"} for k in kinds for v in (None, "D")]}
    for v in EDGE_DEFAULTS:  # edge values of the declared default (the empty string is a default, not "no default")
        yield {"decls": [{"default": k, "value": v, "type": "CDATA"} for k in kinds]}
    for _ in range(n_cases(tier, 100, 2000)):
        yield {"decls": [G.gen_dtd_attr_decl(rng, grammatical=False) for _ in range(rng.randint(1, 6))]}


def impl_dtd_attr(a):
    try:
        return ok(G.real_dtd_attr(a["decls"]))
    except Exception as e:  # noqa: BLE001
        return err("LEAK:" + type(e).__name__)


def gen_dtd_attr_fields(rng, tier):
    kinds = ["required", "implied", "fixed", "none"]
    for tp in ("CDATA", "NMTOKEN", "enum") + G.DTD_LIST_TYPES:
        for dv in (("x",) if tp not in G.DTD_LIST_TYPES else ("x", "t1 t2")):
            yield {"decls": [{"default": k, "value": (dv if k in ("fixed", "none") else None), "type": tp} for k in kinds]}
    for v in EDGE_DEFAULTS:
        yield {"decls": [{"default": k, "value": v, "type": "CDATA"} for k in ("fixed", "none")]}
    for v in ("0", "00", "-"):  # NMTOKEN / NMTOKENS defaults that look falsy
        yield {"decls": [{"default": k, "value": v, "type": tp} for k in ("fixed", "none") for tp in ("NMTOKEN", "NMTOKENS")]}
    for _ in range(n_cases(tier, 60, 800)):
        yield {"decls": [G.gen_dtd_attr_decl(rng) for _ in range(rng.randint(1, 6))]}


def impl_dtd_attr_fields(a):
    dtd = "<!ELEMENT r (#PCDATA)>\n" + G.dtd_attlist(a["decls"])
    g = CG.run_pipeline({"s.dtd": dtd})
    try:
        if g.error is not None:
            return err("GEN:" + type(g.error).__name__)
        fs = {f.metadata.get("name", f.name): f for f in dataclasses.fields(g.classes()["R"])}
        return ok([G.dataclass_field_shape(fs[f"d{i}"]) if f"d{i}" in fs else None for i in range(len(a["decls"]))])
    finally:
        g.close()


def classify_dtd_attr_one(a, out):
    d = a["decl"]
    res = out.get("ok") if isinstance(out, dict) else None
    kinds = sorted({("error" if r == "ParserError" else "none" if r == [None] else "value") for r in (res or [])})
    return d["default"] + ("+v" if d["value"] is not None else "") + "/" + d.get("type", "CDATA") + "/" + "+".join(kinds)


def classify_dtd_attr(a, out):
    ks = sorted({d["default"] + ("+v" if d["value"] is not None else "") for d in a["decls"]})
    return ",".join(ks) + ("/err" if isinstance(out, dict) and "err" in out else "")


# ------------------------------------------------------------------ element declarations (Gen/DtdElem.lean)
def gen_dtd_elem(rng, tier):
    decls = ["EMPTY", "ANY", "(#PCDATA)", "(#PCDATA|a)*", "(#PCDATA|a|b|c)*", "(a)", "(a,b)", "(a|b)+"]
    for d in decls:
        yield {"decl": d}
    for c in contents(rng, n_cases(tier, 150, 3000)):
        if valid_dtd(c):
            body = G.dtd_text_of(c)
            yield {"decl": body if body.startswith("(") else "(" + body + ")"}
    names = ["a", "b", "c", "d"]
    for _ in range(n_cases(tier, 30, 300)):
        k = rng.randint(1, 4)
        yield {"decl": "(#PCDATA|" + "|".join(rng.sample(names, k)) + ")*"}


def _dtd_of_decl(decl):
    return f"<!ELEMENT r {decl}>\n" + "".join(f"<!ELEMENT {n} (#PCDATA)>\n" for n in "abcdef")


def gen_dtd_elem_args(rng, tier):
    for a in gen_dtd_elem(rng, tier):
        try:
            args, _ = G.real_dtd_elem(_dtd_of_decl(a["decl"]))
        except Exception:  # noqa: BLE001
            args = {"type": "undefined", "content": None}
        yield {**args, "decl": a["decl"]}


def impl_dtd_elem(a):
    try:
        return ok(G.real_dtd_elem(_dtd_of_decl(a["decl"]))[1])
    except AssertionError as e:
        return err("SHAPE:" + str(e)[:60])
    except Exception as e:  # noqa: BLE001
        return err("LEAK:" + type(e).__name__)


# ------------------------------------------------------------------ defaults of enumeration-typed fields (Gen/EnumDefault.lean)
def gen_enum_default(rng, tier):
    """every value set x every member as default, pairs of members as token-list default, a non-member"""
    for vs in G.ENUM_SETS:
        try:
            members = G.real_enum_members(vs)[1]
        except Exception:  # noqa: BLE001
            continue
        for v in vs:
            yield {"values": vs, "members": members, "default": v, "tokens": False}
        for v1 in vs:
            for v2 in vs:
                if v1 != v2:
                    yield {"values": vs, "members": members, "default": f"{v1} {v2}", "tokens": True}
        yield {"values": vs, "members": members, "default": "zzz", "tokens": False}
        yield {"values": vs, "members": members, "default": f" {vs[-1]}\t{vs[0]}  nope ", "tokens": True}
    pool = ["a", "A", "a-1", "a1", "a_1", "b.c", "b_c", "bc", "B-C", "1", "01", "class", "Class", "x y"]
    for _ in range(n_cases(tier, 60, 1500)):
        vs = rng.sample(pool, rng.randint(2, 5))
        try:
            members = G.real_enum_members(vs)[1]
        except Exception:  # noqa: BLE001
            continue
        toks = rng.random() < 0.4
        d = " ".join(rng.sample(vs, rng.randint(1, min(3, len(vs))) if toks else 1))
        yield {"values": vs, "members": members, "default": d, "tokens": toks}


def impl_enum_default(a):
    try:
        return ok(G.real_enum_default(a["values"], a["default"], a["tokens"]))
    except AssertionError as e:
        return err("SHAPE:" + str(e)[:60])
    except Exception as e:  # noqa: BLE001
        return err("LEAK:" + type(e).__name__)


def classify_enum_default(a, out):
    renamed = sum(1 for m in a["members"] if m["name"] != m["value"])
    hit = [m for m in a["members"] if m["value"] in a["default"].split() or m["value"] == a["default"]]
    return f"renamed={min(renamed, 3)}/{'tokens' if a['tokens'] else 'single'}/{'default-renamed' if any(m['name'] != m['value'] for m in hit) else 'default-plain' if hit else 'no-member'}"


# ------------------------------------------------------------------ readAttr on DTD attribute declarations
def gen_dtd_read_attr(rng, tier):
    for tp in ("CDATA", "NMTOKEN", "enum"):
        for k in ("required", "implied", "fixed", "none"):
            v = "x" if k in ("fixed", "none") else None
            yield {"decl": {"default": k, "value": v, "type": tp, "values": ["x", "y", "z"]}, "givens": [None, "y", "x"]}
    for tp in G.DTD_LIST_TYPES:  # list-typed attributes: the declared tokens are the default of the field
        for k in ("required", "implied", "fixed", "none"):
            for dv in ("t1 t2", "x"):
                v = dv if k in ("fixed", "none") else None
                yield {"decl": {"default": k, "value": v, "type": tp}, "givens": [None, "y z", dv, "y"]}
    for v in EDGE_DEFAULTS:  # CDATA: the declared text is the default as it stands; another given value replaces it
        for k in ("fixed", "none"):
            # (#FIXED: ParserUtils.validate_fixed_value compares strings after strip(); readAttr compares them as they are, so no
            # given value that differs from the fixed one by surrounding blanks only — such a document is not DTD-valid anyway)
            yield {"decl": {"default": k, "value": v, "type": "CDATA"}, "givens": [None, "y", v] + ([""] if k == "none" or v.strip() else [])}
    for _ in range(n_cases(tier, 15, 300)):
        d = G.gen_dtd_attr_decl(rng)
        pool = d.get("values") or ["v1", "D", "x"]
        yield {"decl": d, "givens": [None, rng.choice(pool), d["value"] or pool[0]]}


def impl_dtd_read_attr(a):
    dtd = "<!ELEMENT r EMPTY>\n" + G.dtd_attlist([a["decl"]])
    try:
        return ok(G.real_read_attr({"s.dtd": dtd}, a["givens"], lambda x: "<r" + (f' d0="{x}"' if x is not None else "") + "/>"))
    except Exception as e:  # noqa: BLE001
        return err("GEN:" + type(e).__name__)


CORRS = [
    Corr("c16.e2e", gen_e2e, impl_e2e, spec=spec_e2e, compare=compare_e2e,
         describe="spec-level: DTD (content model, ATTLIST variants, xmlns declarations) -> real pipeline (default and compound fields) -> strict parse of valid documents -> re-serialise; expected: faithful"),
    Corr("gen.dtd_nsmap", gen_nsmap, impl_nsmap, nontrivial=lambda a, o: len(a["attrs"]) > 1,
         describe="DtdParser.build_ns_map on constructed attribute lists vs model"),
    Corr("gen.enum_default", gen_enum_default, impl_enum_default, classify=classify_enum_default,
         describe="enumerations whose values collide after slugging (renamed by the real RenameDuplicateAttributes): SanitizeAttributesDefaultValue.is_valid_enum_type placeholder and the member values Filters.field_default_enum / constant_name resolve it to vs model"),
    Corr("gen.dtd_read_attr", gen_dtd_read_attr, impl_dtd_read_attr, classify=classify_dtd_attr_one,
         describe="readAttr (the conclusion of dtd_attribute_faithful): whole real pipeline on one ATTLIST declaration, then the real XmlParser (fail_on_unknown_attributes) on documents that omit / give the attribute (valid or not) vs readAttr (dtdAttrField d)"),
    Corr("gen.dtd_attr", gen_dtd_attr, impl_dtd_attr, classify=classify_dtd_attr,
         describe="DtdMapper.build_attribute / build_attribute_restrictions on constructed DtdAttribute objects (also ungrammatical keyword/value combinations) vs model"),
    Corr("gen.dtd_attr_fields", gen_dtd_attr_fields, impl_dtd_attr_fields, classify=classify_dtd_attr,
         describe="ATTLIST declarations (CDATA, NMTOKEN, enumerations x #REQUIRED/#IMPLIED/#FIXED/default): whole real pipeline + stand-in renderer, init and default of every field vs model"),
    Corr("gen.dtd_elem", gen_dtd_elem_args, impl_dtd_elem, classify=lambda a, o: a["type"] + ("/err" if "err" in o else ""),
         describe="<!ELEMENT r …> (EMPTY, ANY, (#PCDATA), mixed, element content): DtdParser + DtdMapper.build_class + FLATTEN handlers + ProcessMixedContentClass: kind and element fields of the class vs model"),
    Corr("gen.dtd_sites", gen_sites, impl_sites, canon=canon_sites, describe="DtdParser + DtdMapper.build_content vs model"),
    Corr("gen.dtd_occurs", gen_sites, impl_occurs, canon=canon_occ, describe="DtdMapper attrs through the three occurrence handlers vs model"),
    Corr("gen.dtd_fields", gen_fields, impl_fields, canon=canon_fields,
         describe="whole real pipeline + stand-in renderer on a DTD: list-ness / requiredness of generated fields vs model"),
]


def finding_dup():
    a = {"content": HAND[5], "words": [["a", "a"]], "attrs": []}
    msg = oracle_docs(a)
    return (msg is not None and "rejected" in msg and covered_docs(a, msg) == "C16-duplicate-name-sites", msg or "the document now parses")


def finding_any_text():
    """<!ELEMENT r (b)> <!ELEMENT b ANY>: <r><b>tx<z>q</z>ty<d>dd</d></b></r> loses `ty`"""
    import io

    from lxml import etree
    from xsdata.formats.dataclass.context import XmlContext
    from xsdata.formats.dataclass.parsers import XmlParser
    from xsdata.formats.dataclass.serializers import XmlSerializer

    dtd_text = "<!ELEMENT r (b)>\n<!ELEMENT b ANY>\n<!ELEMENT z (#PCDATA)>\n<!ELEMENT d (#PCDATA)>\n"
    doc = "<r><b>tx<z>q</z>ty<d>dd</d></b></r>"
    assert etree.DTD(io.StringIO(dtd_text)).validate(etree.fromstring(doc))
    g = CG.run_pipeline({"s.dtd": dtd_text})
    try:
        if g.error is not None:
            return (False, f"generation failed: {g.error}")
        ctx = XmlContext()
        obj = XmlParser(context=ctx).from_string(doc, g.classes()["R"])
        out = XmlSerializer(context=ctx).render(obj)
        back = etree.fromstring(out.encode())
        lost = "ty" not in "".join(back.itertext())
        return (lost, f"{doc} comes back as {out.split('?>')[-1].strip()}")
    finally:
        g.close()


FINDINGS = {
    "C16-any-drops-text": finding_any_text,
    "C16-duplicate-name-sites": finding_dup,
}
TRUSTED = [
    "lxml/libxml2 DTD parser delivers the content tree (DtdParser is a thin reader) and is the independent validator",
    "jinja2/ruff absent: harness/standin_render.py transliterates the templates",
]
ASSUMPTIONS = ["attribute types: the default/fixed logic is modelled for string-valued types (CDATA, NMTOKEN(S), ID/IDREF, enumerations); the token/ID semantics of the types themselves are exercised by the oracle only"]
LEVEL_TEXT = (
    "Partial. Lean theorems (Props/C16.lean) for DtdMapper.build_content (after the repair: occurrence indicators of sequence and choice "
    "nodes go to the restrictions path, as for XSD) and the occurrence handlers: for every content model with distinct element names, wherever "
    "the occurrence indicators sit, a non-list field is never repeated and a required field is always present in a DTD-valid document, and a list "
    "field is needed; the mapper's fields are literally the XSD mapper's sites of the same particle; counterexample theorem for repeated names. "
    "Attribute declarations: whatever a DTD-valid element carries for #REQUIRED / #IMPLIED / #FIXED / defaulted attributes is accepted and read as the value the DTD prescribes "
    "(dtd_attribute_faithful; list-typed attributes NMTOKENS / IDREFS / ENTITIES keep their declared default: dtd_tokens_default_kept). Element declarations: mixed content gives one wildcard list, EMPTY no fields, (#PCDATA) a text field; the choices of a mixed class are exactly the listed elements (dtd_mixed_choices); ANY gives a single wildcard field that drops character data after a child (finding C16-any-drops-text, shown by the replay on the real parser). The conclusion readAttr of dtd_attribute_faithful is tied to the real parser by gen.dtd_read_attr. Tied to /repo by "
    "correspondence of DtdMapper sites, the handlers and the generated field shapes of the whole pipeline; documents and attribute defaults end to end by the oracle."
)
LEVEL_NOTE = "Trusted: Lean kernel, particle language spec, libxml2 DTD reader/validator, stand-in renderer, sampling correspondence."
