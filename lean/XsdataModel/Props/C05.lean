/- C05 — property theorems (only). Helper lemmas live in `Proofs/*`, the XSD
lexical relations in `Spec/Xsd.lean`. -/
import XsdataModel.Conv.Factory
import XsdataModel.Spec.Xsd
import XsdataModel.Proofs.IntL
import XsdataModel.Proofs.Codec
import XsdataModel.Proofs.SortL

namespace Props.C05
open Py Xs.Conv Xs.Spec

/-! ## xs:boolean -/

/-- what `BoolConverter.serialize` writes is an xs:boolean lexical form of the value -/
theorem bool_ser_valid (b : Bool) : XsdBoolean (boolSerialize b) b := by
  cases b <;> (unfold XsdBoolean; decide)

/-- every xs:boolean lexical form, with any XSD white space around it, is read
as the value XSD assigns (for every Unicode environment) -/
theorem bool_accepts (e : Env) (pre post s : Str) (v : Bool)
    (hpre : AllXsdSpace pre) (hpost : AllXsdSpace post) (h : XsdBoolean s v) :
    boolDeserialize e (pre ++ s ++ post) = some v := by
  have ns : ∀ c, isAscii c = true → isAsciiSpace c = false → e.isSpace c = false := by
    intro c h1 h2; rw [isSpace_ascii e c h1]; exact h2
  have ht : Tight e.isSpace s := by
    unfold XsdBoolean boolLex at h
    simp only [List.mem_cons, Prod.mk.injEq, List.mem_nil_iff, or_false] at h
    rcases h with ⟨rfl, _⟩ | ⟨rfl, _⟩ | ⟨rfl, _⟩ | ⟨rfl, _⟩
    · exact Or.inr ⟨⟨'t', _, rfl, ns _ (by decide) (by decide)⟩, ⟨['t', 'r', 'u'], 'e', rfl, ns _ (by decide) (by decide)⟩⟩
    · exact Or.inr ⟨⟨'f', _, rfl, ns _ (by decide) (by decide)⟩, ⟨['f', 'a', 'l', 's'], 'e', rfl, ns _ (by decide) (by decide)⟩⟩
    · exact Or.inr ⟨⟨'1', _, rfl, ns _ (by decide) (by decide)⟩, ⟨[], '1', rfl, ns _ (by decide) (by decide)⟩⟩
    · exact Or.inr ⟨⟨'0', _, rfl, ns _ (by decide) (by decide)⟩, ⟨[], '0', rfl, ns _ (by decide) (by decide)⟩⟩
  unfold boolDeserialize
  rw [strip_xsd_pad e pre s post hpre hpost ht]
  unfold XsdBoolean boolLex at h
  simp only [List.mem_cons, Prod.mk.injEq, List.mem_nil_iff, or_false] at h
  rcases h with ⟨rfl, rfl⟩ | ⟨rfl, rfl⟩ | ⟨rfl, rfl⟩ | ⟨rfl, rfl⟩ <;> decide

/-- bool round trip -/
theorem bool_rt (e : Env) (b : Bool) : boolDeserialize e (boolSerialize b) = some b := by
  have := bool_accepts e [] [] (boolSerialize b) b (by intro c h; cases h) (by intro c h; cases h)
    (bool_ser_valid b)
  simpa using this

/-! ## xs:integer -/

/-- `str(i)` is an xs:integer lexical form denoting `i` -/
theorem int_ser_valid (i : Int) : XsdInteger (intSerialize i) i := by
  obtain ⟨hd, hne, hv⟩ := natStr_spec i.natAbs
  unfold intSerialize intStr
  by_cases h : i < 0
  · refine ⟨.minus, natStr i.natAbs, by simp [h, Sign.str], hne, hd, ?_⟩
    simp only [Sign.neg, if_true, digitsNat, hv, Int.ofNat_eq_natCast]
    omega
  · refine ⟨.none, natStr i.natAbs, by simp [h, Sign.str], hne, hd, ?_⟩
    simp only [Sign.neg, digitsNat, hv, Int.ofNat_eq_natCast]
    simp
    omega

/-- every xs:integer lexical form (`[+-]?[0-9]+`, any number of leading zeros,
any XSD white space around it) is read as the integer it denotes -/
theorem int_accepts (e : Env) (pre post s : Str) (v : Int)
    (hpre : AllXsdSpace pre) (hpost : AllXsdSpace post) (h : XsdInteger s v) :
    intDeserialize e (pre ++ s ++ post) = some v := by
  obtain ⟨sg, ds, rfl, hne, hd, rfl⟩ := h
  exact pyIntC_signed e pre post sg ds hpre hpost hne hd

/-- int round trip, for every integer (no size bound in the model; CPython adds
the 4300-digit limit) -/
theorem int_rt (e : Env) (i : Int) : intDeserialize e (intSerialize i) = some i := by
  have := int_accepts e [] [] (intSerialize i) i (by intro c h; cases h) (by intro c h; cases h)
    (int_ser_valid i)
  simpa using this

/-! ## xs:hexBinary and xs:base64Binary -/

/-- `format="base16"`: the output is an xs:hexBinary lexical form of the octets -/
theorem hex_ser_valid (k : BytesKind) (bs : Bytes) (h : AllBytes bs) :
    ∃ s, bytesSerialize k bs (some Tables.fmtBase16) = some s ∧ XsdHexBinary s bs := by
  refine ⟨hexEncode bs, ?_, hexEncode_valid bs h⟩
  simp [bytesSerialize]

/-- every xs:hexBinary lexical form (either letter case), with white space
anywhere around or inside, is decoded to the octets it denotes -/
theorem hex_accepts (e : Env) (s s' : Str) (bs : Bytes) (h : XsdHexBinary s bs)
    (hws : removeWs e s' = s) :
    bytesDeserialize e s' (some Tables.fmtBase16) = some bs := by
  simp [bytesDeserialize, hws, unhexlify_lex s bs h]

theorem removeWs_noSpace (e : Env) (s : Str) (h : ∀ c ∈ s, e.isSpace c = false) : removeWs e s = s := by
  unfold removeWs
  rw [List.filter_eq_self]
  intro c hc
  simp [h c hc]

/-- base16 round trip for every octet string -/
theorem hex_rt (e : Env) (k : BytesKind) (bs : Bytes) (h : AllBytes bs) :
    ∃ s, bytesSerialize k bs (some Tables.fmtBase16) = some s ∧
      bytesDeserialize e s (some Tables.fmtBase16) = some bs := by
  obtain ⟨s, hs, hv⟩ := hex_ser_valid k bs h
  refine ⟨s, hs, ?_⟩
  have hu := unhexlify_lex s bs hv
  -- the encoder never emits white space: decoding its output directly succeeds, so no
  -- character was dropped by `removeWs`
  have hnospace : ∀ c ∈ s, e.isSpace c = false := by
    have : s = hexEncode bs := by simpa [bytesSerialize] using hs.symm
    subst this
    clear hs hv hu
    induction bs with
    | nil => intro c hc; cases hc
    | cons b bs ih =>
      have hb : b < 256 := h b (by simp)
      have hd : ∀ v, v < 16 → e.isSpace (hexDigit v) = false := by
        intro v hv
        have h1 : isAscii (hexDigit v) = true := by revert v; decide
        have h2 : isAsciiSpace (hexDigit v) = false := by revert v; decide
        rw [isSpace_ascii e _ h1]; exact h2
      intro c hc
      simp only [hexEncode, List.mem_cons] at hc
      rcases hc with rfl | rfl | hc
      · exact hd _ (by omega)
      · exact hd _ (by omega)
      · exact ih (fun x hx => h x (by simp [hx])) c hc
  exact hex_accepts e s s bs hv (removeWs_noSpace e s hnospace)

/-- `format="base64"`: the output is the canonical xs:base64Binary form of the octets -/
theorem b64_ser_valid (bs : Bytes) (h : AllBytes bs) :
    ∃ s, bytesSerialize .plain bs (some Tables.fmtBase64) = some s ∧ XsdBase64 s bs := by
  refine ⟨b64Encode bs, ?_, b64Encode_valid bs h⟩
  have hne : (Tables.fmtBase64 = Tables.fmtBase16) = False := by decide
  simp [bytesSerialize, hne]

/-- every canonical xs:base64Binary form, with line breaks / blanks anywhere
(as MIME encoders insert them), is decoded to the octets it denotes -/
theorem b64_accepts (e : Env) (s s' : Str) (bs : Bytes) (h : XsdBase64 s bs)
    (hws : removeWs e s' = s) :
    bytesDeserialize e s' (some Tables.fmtBase64) = some bs := by
  have hne : (some Tables.fmtBase64 = some Tables.fmtBase16) = False := by decide
  simp [bytesDeserialize, hws, b64Decode_lex s bs h, hne]

/-- base64 round trip for every octet string, also when the written form is
re-wrapped with white space before it is read -/
theorem b64_rt (e : Env) (bs : Bytes) (h : AllBytes bs) (s' : Str)
    (hws : removeWs e s' = b64Encode bs) :
    bytesSerialize .plain bs (some Tables.fmtBase64) = some (b64Encode bs) ∧
      bytesDeserialize e s' (some Tables.fmtBase64) = some bs := by
  obtain ⟨s, hs, hv⟩ := b64_ser_valid bs h
  have : s = b64Encode bs := by
    have h2 : bytesSerialize .plain bs (some Tables.fmtBase64) = some (b64Encode bs) := by
      have hne : (Tables.fmtBase64 = Tables.fmtBase16) = False := by decide
      simp [bytesSerialize, hne]
    rw [h2] at hs; exact (Option.some.inj hs).symm
  subst this
  exact ⟨hs, b64_accepts e _ s' bs hv hws⟩

example : AllBytes [0, 255, 65] := by intro b hb; simp at hb; omega

/-! ## candidate lists: `sort_types` and the priority order -/

/-- `sort_types` returns a permutation of its input -/
theorem sort_types_perm (names : List Str) : (sortTypes names).Perm names := by
  rw [sortTypes_eq]
  split
  · exact List.Perm.refl _
  · exact List.mergeSort_perm names prioLe

/-- … ordered by the priority table (types without entry first) -/
theorem sort_types_sorted (names : List Str) :
    (sortTypes names).Pairwise (fun a b => typePriority a ≤ typePriority b) := by
  rw [sortTypes_eq]
  split
  · exact short_pairwise _ _ ‹_›
  · exact (List.pairwise_mergeSort prioLe_trans prioLe_total names).imp
      (by intro a b h; simpa [prioLe] using h)

/-- … and stable: two candidates that are already in priority order keep their relative order -/
theorem sort_types_stable (names : List Str) (a b : Str)
    (hab : typePriority a ≤ typePriority b) (h : [a, b].Sublist names) :
    [a, b].Sublist (sortTypes names) := by
  rw [sortTypes_eq]
  split
  · exact h
  · exact List.pair_sublist_mergeSort prioLe_trans prioLe_total (by simpa [prioLe] using hab) h

/-- The order in which table types are listed in a union does not matter: two
candidate lists that are permutations of each other are sorted to the same list. -/
theorem sort_order_independent (l₁ l₂ : List Ty) (h : l₁.Perm l₂) (ht : ∀ t ∈ l₁, t.inTable = true) :
    sortTys l₁ = sortTys l₂ := by
  have hp : (sortTys l₁).Perm (sortTys l₂) := (sortTys_perm l₁).trans (h.trans (sortTys_perm l₂).symm)
  refine List.Perm.eq_of_pairwise (le := fun a b => a.prio ≤ b.prio) ?_ (sortTys_pairwise l₁)
    (sortTys_pairwise l₂) hp
  intro a b ha hb h1 h2
  have ha' : a ∈ l₁ := (sortTys_perm l₁).subset ha
  have hb' : b ∈ l₁ := h.symm.subset ((sortTys_perm l₂).subset hb)
  exact prio_injective a b (ht a ha') (ht b hb') (by omega)

/-- **The documented priority order decides.** For a candidate list of table
types (int, bool, float, Decimal, XmlTime, XmlDate, XmlDateTime, QName, str) in
any order: if type `t` accepts the string and every candidate with a smaller
priority number rejects it, the sorted list yields `t`'s value. -/
theorem priority_decides (e : CEnv) (s : Str) (kw : Kw) (tys : List Ty) (t : Ty) (a : Atom)
    (hall : ∀ x ∈ tys, x.inTable = true) (ht : t ∈ tys)
    (hacc : atomDeserialize e t s kw = some a)
    (hlow : ∀ x ∈ tys, x.prio < t.prio → atomDeserialize e x s kw = none) :
    deserialize e s (sortTys tys) kw = some (.atom a) := by
  have hperm := sortTys_perm tys
  exact deserializeFrom_sorted e s kw t a (hall t ht) hacc (sortTys tys) 0 (sortTys_pairwise tys)
    (fun x hx => hall x (hperm.subset hx)) (hperm.symm.subset ht)
    (fun x hx => hlow x (hperm.subset hx))

/-- if no candidate accepts, the result is `ConverterError` -/
theorem deserialize_none (e : CEnv) (s : Str) (kw : Kw) (tys : List Ty)
    (h : ∀ pos, ∀ t ∈ tys, deserializeOne e pos t s kw = none) : deserialize e s tys kw = none := by
  unfold deserialize
  generalize 0 = pos
  induction tys generalizing pos with
  | nil => rfl
  | cons t ts ih =>
    unfold deserializeFrom
    rw [h pos t (by simp)]
    exact ih (fun p x hx => h p x (by simp [hx])) (pos + 1)

example : ∀ x ∈ [Ty.str, Ty.float, Ty.int], x.inTable = true := by decide

/-- the priority numbers the documentation promises for the modelled types:
int < bool < float < Decimal < XmlTime < XmlDate < XmlDateTime < QName < str -/
theorem priority_order :
    Ty.int.prio < Ty.bool.prio ∧ Ty.bool.prio < Ty.float.prio ∧ Ty.float.prio < Ty.decimal.prio ∧
    Ty.decimal.prio < Ty.xmlTime.prio ∧ Ty.xmlTime.prio < Ty.xmlDate.prio ∧
    Ty.xmlDate.prio < Ty.xmlDateTime.prio ∧ Ty.xmlDateTime.prio < Ty.qname.prio ∧
    Ty.qname.prio < Ty.str.prio := by decide

/-! ## registry lookup -/

/-- an exactly registered class uses its own converter -/
theorem type_converter_exact (reg : List Str) (c : Str) (rest : List Str) (h : reg.contains c = true) :
    typeConverter reg (c :: rest) = some c := by
  show (if reg.contains c = true then some c else _) = some c
  rw [if_pos h]

/-- otherwise the nearest registered proper ancestor other than the last MRO entry (`object`) -/
theorem type_converter_mro (reg : List Str) (c : Str) (rest : List Str) (h : reg.contains c = false) :
    typeConverter reg (c :: rest) = rest.dropLast.find? (reg.contains ·) := by
  show (if reg.contains c = true then some c else _) = _
  rw [if_neg (by rw [h]; decide)]

/-- decision table on the registry as it is in the code now: `bool` is not read as `int`,
enum classes reach `EnumConverter`, an `IntEnum` reaches `IntConverter` first, the binary
wrapper classes reach `BytesConverter`, and a plain class has no converter although
`object` is registered. -/
theorem registry_decisions :
    typeConverter Tables.registryTypes [['b','o','o','l'], ['i','n','t'], ['o','b','j','e','c','t']] = some ['b','o','o','l'] ∧
    typeConverter Tables.registryTypes [['E'], ['E','n','u','m'], ['o','b','j','e','c','t']] = some ['E','n','u','m'] ∧
    typeConverter Tables.registryTypes [['E'], ['I','n','t','E','n','u','m'], ['i','n','t'], ['R','e','p','r','E','n','u','m'],
      ['E','n','u','m'], ['o','b','j','e','c','t']] = some ['i','n','t'] ∧
    typeConverter Tables.registryTypes [['X','m','l','H','e','x','B','i','n','a','r','y'], ['b','y','t','e','s'],
      ['o','b','j','e','c','t']] = some ['b','y','t','e','s'] ∧
    typeConverter Tables.registryTypes [['P','l','a','i','n'], ['o','b','j','e','c','t']] = none := by decide

/-! ## `DataType.from_value` for ints -/

/-- `int_datatype` picks the narrowest of xs:short / xs:int / xs:long / xs:integer
whose value space contains the value (bounds written here as powers of two,
compared with the constants extracted from the code) -/
theorem int_datatype_narrowest (v : Int) :
    intDatatype v =
      if -(2 ^ 15) ≤ v ∧ v ≤ 2 ^ 15 - 1 then ['s','h','o','r','t']
      else if -(2 ^ 31) ≤ v ∧ v ≤ 2 ^ 31 - 1 then ['i','n','t']
      else if -(2 ^ 63) ≤ v ∧ v ≤ 2 ^ 63 - 1 then ['l','o','n','g']
      else ['i','n','t','e','g','e','r'] := by
  simp only [intDatatype, Tables.intDatatypeBounds, Tables.intDatatypeCodes, nthCode, List.getD_cons_zero,
    List.getD_cons_succ, Bool.and_eq_true, decide_eq_true_eq]
  rfl

/-! ## `test(strict=True)` -/

/-- a strict test on `int` succeeds only for the canonical spelling `str(int(s))` -/
theorem test_strict_int_sound (e : CEnv) (s : Str) (kw : Kw) (h : test e s [.int] true kw = true) :
    ∃ i, intDeserialize e.toEnv s = some i ∧ e.strip s = intSerialize i := by
  simp only [test, deserialize, deserializeFrom, deserializeOne, atomDeserialize] at h
  cases hd : intDeserialize e.toEnv s with
  | none => simp [hd] at h
  | some i =>
    simp [hd] at h
    exact ⟨i, rfl, h⟩

/-- a strict test on `Decimal` succeeds only when re-serialising gives the input back -/
theorem test_strict_decimal_sound (e : CEnv) (s : Str) (kw : Kw) (h : test e s [.decimal] true kw = true) :
    ∃ d, decimalDeserialize e.toEnv s = some d ∧ e.strip s = decimalSerialize d := by
  simp only [test, deserialize, deserializeFrom, deserializeOne, atomDeserialize] at h
  cases hd : decimalDeserialize e.toEnv s with
  | none => simp [hd] at h
  | some d =>
    simp [hd] at h
    exact ⟨d, rfl, h⟩

/-- `bool` is an `int` subclass, so a strict test rejects the XSD forms `1` and `0` -/
theorem test_strict_bool_rejects_digits (e : CEnv) (kw : Kw) :
    test e ['1'] [.bool] true kw = false ∧ test e ['0'] [.bool] true kw = false ∧
    test e ['1'] [.bool] false kw = true := by
  have h1 : e.toEnv.strip ['1'] = ['1'] := stripBy_tight _ _ (Or.inr ⟨⟨'1', [], rfl, by
    rw [isSpace_ascii _ _ (by decide)]; decide⟩, ⟨[], '1', rfl, by rw [isSpace_ascii _ _ (by decide)]; decide⟩⟩)
  have h0 : e.toEnv.strip ['0'] = ['0'] := stripBy_tight _ _ (Or.inr ⟨⟨'0', [], rfl, by
    rw [isSpace_ascii _ _ (by decide)]; decide⟩, ⟨[], '0', rfl, by rw [isSpace_ascii _ _ (by decide)]; decide⟩⟩)
  simp only [test, deserialize, deserializeFrom, deserializeOne, atomDeserialize, boolDeserialize, h1, h0]
  decide

end Props.C05
