"""C07 — the code generator always produces importable, bindable code.

Modelled: the naming / renaming decision cores (text.py cases, Filters.safe_name
and the five name filters, ClassUtils.rename_duplicate_attributes & friends,
RenameDuplicateClasses, next_available_name).  The oracles evaluate the property
on the real code only: identifier validity of every produced name, uniqueness of
field / class names after the real renaming handlers + real filters, and a small
end-to-end run of the real pipeline (process_sources + analyze_classes +
normalize_packages + Filters) on hostile schemas and samples.
"""
import ast
import itertools
import json
import keyword
import logging
import os
import re
import shutil
import tempfile

from framework import Corr, Oracle, err, ok
from xsdata.codegen.exceptions import CodegenError
from xsdata.codegen.handlers import RenameDuplicateClasses
from xsdata.codegen.handlers.disambiguate_choices import DisambiguateChoices
from xsdata.codegen.container import ClassContainer
from xsdata.codegen.models import Attr, Class
from xsdata.codegen.utils import ClassUtils
from xsdata.formats.dataclass.filters import Filters
from xsdata.models.config import GeneratorConfig, NameCase, StructureStyle
from xsdata.models.enums import Tag
from xsdata.utils import namespaces, text

PROP_ID = "C07"
DESIGN_REF = "6/C07"

CASES = [c.value for c in NameCase]
SPLIT_CASES = [c for c in CASES if c != "originalCase"]
KINDS = ["class", "field", "constant", "module", "package"]
DEFAULT_PREFIXES = ["type", "value", "mod", "pkg"]


def _filters(config=None):
    return Filters(config or GeneratorConfig())


_F = None


def F():
    global _F
    if _F is None:
        _F = _filters()
    return _F


# ----------------------------------------------------------------- impl side


def _guard(fn):
    try:
        return ok(fn())
    except RecursionError:
        return err("RecursionError")
    except IndexError:
        return err("IndexError")
    except Exception as e:  # noqa: BLE001
        return err("LEAK:" + type(e).__name__)


def impl_split_words(a):
    return _guard(lambda: text.split_words(a["s"]))


def impl_alnum(a):
    return _guard(lambda: text.alnum(a["s"]))


def impl_case(a):
    return _guard(lambda: NameCase(a["case"])(a["s"]))


def impl_kebab(a):
    return _guard(lambda: text.kebab_case(a["s"]))


def impl_safe_name(a):
    return _guard(lambda: F().safe_name(a["s"], a["prefix"], NameCase(a["case"])))


def impl_filter(a):
    f = F()
    fn = {
        "class": f.class_name,
        "field": lambda s: f.field_name(s, "cls"),
        "constant": lambda s: f.constant_name(s, "cls"),
        "module": f.module_name,
        "package": f.package_name,
    }[a["kind"]]
    return _guard(lambda: fn(a["s"]))


def impl_filters_init(a):
    def run():
        c = GeneratorConfig()
        cv = c.conventions
        for nc, p in zip((cv.class_name, cv.field_name, cv.constant_name, cv.module_name, cv.package_name), a["prefixes"]):
            nc.safe_prefix = p
        _filters(c)
        return True

    try:
        return ok(run())
    except CodegenError:
        return err("CodegenError")
    except Exception as e:  # noqa: BLE001
        return err("LEAK:" + type(e).__name__)


def gen_filters_init(rng, tier):
    pool = PREFIXES + ["_x", "-a", "é_a", "a é", "1_a", "__", "٣a", "a٣", "A1", " a", "z", "\n", "0", "-", ".", "a.b", "名"]
    yield {"prefixes": ["type", "value", "value", "mod", "pkg"]}
    for p in pool:
        for k in range(5):
            ps = ["type", "value", "value", "mod", "pkg"]
            ps[k] = p
            yield {"prefixes": ps}
    for _ in range(200):
        yield {"prefixes": [rng.choice(pool) for _ in range(5)]}


def impl_clean_uri(a):
    return _guard(lambda: namespaces.clean_uri(a["s"]))


def impl_is_identifier(a):
    return ok(a["s"].isidentifier())


def impl_is_keyword(a):
    return ok(keyword.iskeyword(a["s"]))


def impl_is_word(a):
    return ok([re.match(r"\w", c) is not None for c in a["s"]])


def mk_attrs(spec):
    return [Attr(tag=x["tag"], name=x["name"], namespace=x["ns"]) for x in spec]


def impl_rename_attrs(a):
    def run():
        target = Class(qname="t", tag=Tag.COMPLEX_TYPE, location="l", attrs=mk_attrs(a["attrs"]))
        ClassUtils.rename_duplicate_attributes(target)
        return [x.name for x in target.attrs]

    return _guard(run)


def impl_unique_name(a):
    return _guard(lambda: ClassUtils.unique_name(a["name"], set(a["reserved"])))


def impl_next_qname(a):
    def run():
        h = RenameDuplicateClasses.__new__(RenameDuplicateClasses)
        h.container = []
        h.use_names = a["use_names"]
        h.reserved = set(a["reserved"])
        h.renames = {}
        h.merges = {}
        return h.next_qname(a["ns"], a["name"])

    return _guard(run)


def impl_next_available_name(a):
    def run():
        parent = Class(qname="p", tag=Tag.COMPLEX_TYPE, location="l")
        parent.inner = [Class(qname=n, tag=Tag.COMPLEX_TYPE, location="l") for n in a["inner"]]
        return DisambiguateChoices.next_available_name(parent, a["name"])

    return _guard(run)


def run_rename_classes(a):
    config = GeneratorConfig()
    config.output.structure_style = StructureStyle(a["style"])
    container = ClassContainer(config)
    objs = [
        Class(
            qname=c["qname"],
            tag=Tag.ELEMENT if c["element"] else Tag.COMPLEX_TYPE,
            location=c["location"],
            abstract=c["abstract"],
        )
        for c in a["classes"]
    ]
    container.extend(objs)
    RenameDuplicateClasses(container).run()
    return objs


def impl_rename_classes(a):
    return _guard(lambda: [o.qname for o in run_rename_classes(a)])


# ----------------------------------------------------------------- generators

TOKENS = ["a", "A", "1", "_", "-", ".", "é", "名", "⁰", " ", "class", "None"]
MORE = [
    "b", "B", "Z", "z", "0", "9", "٣", "\n", ":", "/", "#", "{", "}", "@", "[", "`", "type", "value", "Value", "await",
    "ß", "İ", "ǅ", "Ⅷ", "·", "\u0301", "\u200d", "mod", "pkg", "Type", "minus", "async", "Any", "QName", "str", "self",
    "http", "urn", "www", "xsd", "x", "Y", "field", "Field", "match", "\t", "+", "$", "\u2fe0", "𝐀", "_1", "1a", "e3",
]
HAND_NAMES = [
    "", "a", "A", "aB", "AB", "ABc", "aBC", "ABc1d", "abc1d", "a1B2", "fooBar", "FooBar", "foo_bar", "foo-bar", "foo.bar",
    "foo bar", "FOO_BAR", "fooBAR", "fooBARbaz", "HTTPServer", "x2y", "2x", "1", "-1", "-1.5", "-.5", "-1.", "-", "--1",
    "-1\n", "-1\n\n", "-٣", "-1.٣", "-²", "+1", "1-", "-1a", "_", "__", "_a", "a_", "_1", "1_", "é", "éa", "aé", "名", "a名",
    "⁰", "a⁰", "a⁰b", "class", "Class", "CLASS", "cl-ass", "None", "none", "NONE", "True", "true", "await", "Await",
    "a wait", "async", "type", "Type", "value", "Value", "value_1", "Value1", "type_1", "Type1", "NoneType", "None_Type",
    "class_value", "classValue", "mod", "pkg", "QName", "qname", "Q-Name", "Any", "any", "Optional", "Field", "field",
    "self", "validate", "Meta", "meta", "Enum", "enum", "str", "int", "list", "match", "case", "_class", "class_",
    "1class", "class1", "a.b.c", "a..b", ".a", "a.", ".", "..", "http://www.example.com/a.xsd", "https://x.y/z",
    "urn:foo:bar", "urn:", "http:", "http://", "##any", "##", "#", "##other", "a:b", ":a", "a:", "www", "xsd.wsdl.www",
    "www.a.xsd", "a.www", "http://www", "urn:xsd", "ǅ", "ß", "İ", "a\u0301", "·", "a·b", "\u2fe0", "a\u2fe0",
    " a ", "\ta", "a\n", "$a", "a$", "@", "a@b", "{ns}a", "{}a", "{ns}", "a b c d", "A B C D", "aAaA", "AaAa", "a1A1",
    "1a1A", "Aa1", "A1a", "𝐀", "a𝐀", "Ⅷ", "aⅧ", "a٣", "٣a", "٣",
]


def _names(rng, tier, maxlen, n_random):
    seen = set()
    for s in HAND_NAMES:
        if s not in seen:
            seen.add(s)
            yield s
    for k in range(0, maxlen + 1):
        for combo in itertools.product(TOKENS, repeat=k):
            s = "".join(combo)
            if s not in seen:
                seen.add(s)
                yield s
    alpha = TOKENS + MORE
    for _ in range(n_random):
        k = rng.choice([1, 2, 2, 3, 3, 4, 5, 6, 8])
        yield "".join(rng.choice(alpha) for _ in range(k))


def gen_split_words(rng, tier):
    for s in _names(rng, tier, 3 if tier == "quick" else 4, 1500 if tier == "quick" else 30000):
        yield {"s": s}


def gen_alnum(rng, tier):
    for s in _names(rng, tier, 2 if tier == "quick" else 3, 500 if tier == "quick" else 10000):
        yield {"s": s}


def gen_case(rng, tier):
    for s in _names(rng, tier, 3 if tier == "quick" else 4, 800 if tier == "quick" else 20000):
        for c in CASES:
            yield {"case": c, "s": s}


def gen_kebab(rng, tier):
    for s in _names(rng, tier, 2, 300):
        yield {"s": s}


PREFIXES = ["type", "value", "mod", "pkg", "", "_", "1", "class", "A", "é", "x1", "-", "None", "a_b", "Value", "1a", "a1"]


def gen_safe_name(rng, tier):
    # default prefixes x every case x exhaustive names (length <= 3 quick, 4 thorough)
    for s in _names(rng, tier, 2 if tier == "quick" else 3, 300 if tier == "quick" else 5000):
        for c in CASES:
            for p in DEFAULT_PREFIXES:
                yield {"case": c, "prefix": p, "s": s}
    # the five default conventions on the length-3/4 exhaustive set
    defaults = [("pascalCase", "type"), ("snakeCase", "value"), ("screamingSnakeCase", "value"), ("snakeCase", "mod")]
    for k in range(3, (4 if tier == "quick" else 5)):
        for combo in itertools.product(TOKENS, repeat=k):
            s = "".join(combo)
            c, p = defaults[hash(combo) % 4] if k == 4 else defaults[0]
            if k == 3:
                for c, p in defaults:
                    yield {"case": c, "prefix": p, "s": s}
            else:
                yield {"case": c, "prefix": p, "s": s}
    if tier == "quick":
        # length 4 exhaustive for the field convention only
        for combo in itertools.product(TOKENS, repeat=4):
            yield {"case": "snakeCase", "prefix": "value", "s": "".join(combo)}
    # user prefixes, including ones that make the real function recurse forever
    # (a diverging call costs a thousand frames: the quick tier keeps those few)
    bad = [p for p in PREFIXES[4:] if not prefix_ok(p)]
    good = [p for p in PREFIXES[4:] if prefix_ok(p)]
    for s in HAND_NAMES[:120]:
        for p in good:
            yield {"case": rng.choice(CASES), "prefix": p, "s": s}
    for s in (HAND_NAMES[:120] if tier != "quick" else rng.sample(HAND_NAMES[:120], 12)):
        for p in bad:
            yield {"case": rng.choice(CASES), "prefix": p, "s": s}
    alpha = TOKENS + MORE
    for _ in range(1500 if tier == "quick" else 40000):
        s = "".join(rng.choice(alpha) for _ in range(rng.choice([1, 2, 3, 4, 6])))
        yield {"case": rng.choice(CASES), "prefix": rng.choice(PREFIXES[:4] + good if tier == "quick" and rng.random() < 0.9 else PREFIXES), "s": s}


def gen_filter(rng, tier):
    for s in _names(rng, tier, 2 if tier == "quick" else 3, 1200 if tier == "quick" else 20000):
        for k in KINDS:
            yield {"kind": k, "s": s}
    uri_tok = ["http://", "https://", "urn:", "##", "www", ".", "xsd", "wsdl", "a", "B", "1", ":", "/", "-", "_", "é", "class", "#"]
    for _ in range(600 if tier == "quick" else 10000):
        s = "".join(rng.choice(uri_tok) for _ in range(rng.randint(1, 6)))
        yield {"kind": rng.choice(["module", "package"]), "s": s}


def gen_clean_uri(rng, tier):
    uri_tok = ["http://", "https://", "urn:", "##", "www", ".", "xsd", "wsdl", "a", "B", "1", ":", "/", "-", "http", "urn", "h"]
    for s in HAND_NAMES:
        yield {"s": s}
    for k in range(1, 4):
        for combo in itertools.product(uri_tok, repeat=k):
            yield {"s": "".join(combo)}
    for _ in range(500):
        yield {"s": "".join(rng.choice(uri_tok) for _ in range(rng.randint(1, 7)))}


def gen_identifier(rng, tier):
    for s in _names(rng, tier, 3, 1500):
        yield {"s": s}
    for w in keyword.kwlist + keyword.softkwlist + sorted(text.stop_words):
        yield {"s": w}
        yield {"s": w + "_"}
        yield {"s": w.lower()}
    for _ in range(3000 if tier == "quick" else 100000):
        c = chr(rng.choice([rng.randrange(0x80, 0x3000), rng.randrange(0x3000, 0x11000), rng.randrange(0x11000, 0x110000)]))
        if 0xD800 <= ord(c) <= 0xDFFF:
            continue
        yield {"s": rng.choice(["", "a", "_", "1"]) + c + rng.choice(["", "b"])}


def gen_word(rng, tier):
    yield {"s": "".join(chr(i) for i in range(0, 256))}
    blocks = [(0x80, 0x800), (0x800, 0x3000), (0x3000, 0xD800), (0xE000, 0x10000), (0x10000, 0x20000), (0x20000, 0x110000)]
    for _ in range(200 if tier == "quick" else 4000):
        lo, hi = rng.choice(blocks)
        yield {"s": "".join(chr(rng.randrange(lo, hi)) for _ in range(40))}


ATTR_NAMES = [
    "a", "A", "a_", "_a", "a1", "a_1", "a_2", "a-1", "1", "value", "value_1", "Value", "a_Attribute", "a_attribute",
    "aAttribute", "a_Element", "aElement", "x_a", "xa", "xa_1", "b", "é a", "", "class", "class_value", "a_Any", "y_a",
    "a_AnyAttribute", "wwwa", "a_Enumeration", "2", "value_2", "a__1", "A1", "_1", "value__1",
]
ATTR_TAGS = [Tag.ELEMENT, Tag.ATTRIBUTE, Tag.ENUMERATION, Tag.ANY, Tag.ANY_ATTRIBUTE, Tag.EXTENSION, Tag.RESTRICTION]
ATTR_NS = [None, "", "x", "y", "http://www", "urn:x", "http://www.x.com/y", "##any", "http://a.xsd", "."]


def _attr(rng, names=ATTR_NAMES, tags=ATTR_TAGS, nss=ATTR_NS):
    return {"tag": rng.choice(tags), "name": rng.choice(names), "ns": rng.choice(nss)}


def gen_rename_attrs(rng, tier):
    hand = [
        [("Element", "a", None), ("Attribute", "a", None), ("Element", "a_Attribute", None)],
        [("Element", "a", None), ("Attribute", "a", None)],
        [("Attribute", "a", None), ("Element", "a", None)],
        [("Element", "a", None), ("Element", "a", "x")],
        [("Element", "a", "x"), ("Element", "a", None)],
        [("Element", "a", "x"), ("Element", "a", "y")],
        [("Element", "a", None), ("Element", "a", "http://www")],
        [("Element", "a", None), ("Element", "A", None), ("Element", "a_", None)],
        [("Enumeration", "a", None), ("Enumeration", "A", None)],
        [("Enumeration", "1", None), ("Enumeration", "value_1", None)],
        [("Element", "", None), ("Element", "", None), ("Element", "value", None)],
        [("Element", "", None), ("Element", "value", None)],
        [("Element", "xa", None), ("Element", "xa", None), ("Element", "xa", None), ("Element", "a1", None), ("Element", "a1", "x")],
        [("Element", "a", None), ("Element", "a", None), ("Element", "a_1", None), ("Element", "a", None)],
        [],
        [("Element", "a", None)],
    ]
    for h in hand:
        yield {"attrs": [{"tag": t, "name": n, "ns": ns} for t, n, ns in h]}
    small = [
        {"tag": t, "name": n, "ns": ns}
        for n in ["a", "A", "a_Attribute", "a_1", "x_a"]
        for t in [Tag.ELEMENT, Tag.ATTRIBUTE, Tag.ENUMERATION]
        for ns in [None, "x"]
    ]
    for combo in itertools.product(small, repeat=2):
        yield {"attrs": list(combo)}
    tiny = [
        {"tag": t, "name": n, "ns": ns}
        for n in ["a", "a_Attribute", "a_1"]
        for t in [Tag.ELEMENT, Tag.ATTRIBUTE]
        for ns in [None, "x"]
    ]
    for combo in itertools.product(tiny, repeat=3):
        yield {"attrs": list(combo)}
    for _ in range(2500 if tier == "quick" else 60000):
        k = rng.choice([2, 3, 3, 4, 5, 6, 8])
        if rng.random() < 0.5:
            names = rng.sample(ATTR_NAMES, 3)
            yield {"attrs": [_attr(rng, names=names) for _ in range(k)]}
        else:
            yield {"attrs": [_attr(rng) for _ in range(k)]}


def classify_rename(a, out):
    attrs = a["attrs"]
    keys = {}
    for x in attrs:
        keys.setdefault(own_slug(x["name"]) or "value", []).append(x)
    kinds = set()
    for g in keys.values():
        if len(g) == 2 and g[0]["tag"] != "Enumeration":
            kinds.add("pref-ns" if g[0]["tag"] == g[1]["tag"] and (g[0]["ns"] or g[1]["ns"]) else "pref-tag")
        elif len(g) > 1:
            kinds.add("index")
    return "+".join(sorted(kinds)) or "no-duplicates"


def gen_unique_name(rng, tier):
    names = ["a", "A", "a_", "a_1", "a1", "", "_", "é", "a-b", "value", "1"]
    for n in names:
        for k in range(0, 5):
            slug = own_slug(n)
            reserved = [slug] + [slug + str(i) for i in range(1, k + 1)]
            yield {"name": n, "reserved": reserved}
            yield {"name": n, "reserved": reserved[1:]}
            yield {"name": n, "reserved": [slug] + reserved[2:]}
    for _ in range(400):
        n = rng.choice(names)
        slug = own_slug(n)
        pool = [slug] + [slug + str(i) for i in range(1, 14)] + ["b", "", "a"]
        yield {"name": n, "reserved": rng.sample(pool, rng.randint(0, len(pool)))}


def gen_next_qname(rng, tier):
    names = ["a", "A", "a_", "a_1", "a1", "é", "a-b", "1"]
    for _ in range(600):
        n = rng.choice(names)
        ns = rng.choice([None, "", "x", "http://x/1", "1"])
        un = rng.random() < 0.5
        base = own_slug(n) if un else own_slug(("{%s}" % ns if ns else "") + n)
        pool = [base] + [base + str(i) for i in range(1, 13)] + ["b", "x"]
        r = rng.sample(pool, rng.randint(1, len(pool)))
        yield {"name": n, "ns": ns, "use_names": un, "reserved": r}


def gen_next_available_name(rng, tier):
    names = ["a", "A", "a_", "a_1", "a1", "é", "a-b", "1", "_"]
    for _ in range(500):
        n = rng.choice(names)
        pool = [n, n.upper(), n + "_1", n + "1", n + "_2", n + "-3", "b", n + "_4", n + "__3"]
        yield {"name": n, "inner": rng.sample(pool, rng.randint(0, len(pool)))}


CLS_NAMES = ["a", "A", "a_", "a_1", "a1", "A_1", "a_abstract", "aAbstract", "b", "a_2", "B", "a__1", "é"]
CLS_NS = ["", "{x}", "{y}", "{X}"]
STYLES = [s.value for s in StructureStyle]


def _cls(rng, names=CLS_NAMES, nss=CLS_NS, locs=("l1", "l2")):
    return {
        "qname": rng.choice(nss) + rng.choice(names),
        "abstract": rng.random() < 0.3,
        "element": rng.random() < 0.5,
        "location": rng.choice(locs),
    }


def gen_rename_classes(rng, tier):
    def c(q, ab=False, el=False, loc="l"):
        return {"qname": q, "abstract": ab, "element": el, "location": loc}

    hand = [
        [c("a", True, True), c("A"), c("a_abstract")],
        [c("a", True, True), c("A")],
        [c("a", el=True), c("a")],
        [c("a", el=True), c("a", el=True)],
        [c("a"), c("a"), c("a_1")],
        [c("{x}a"), c("{y}a")],
        [c("{x}a", loc="l1"), c("{y}a", loc="l2")],
        [c("{x}a", loc="l1"), c("{x}A", loc="l2"), c("{x}a_1", loc="l2")],
        [c("b"), c("a"), c("B"), c("A")],
        [],
    ]
    for h in hand:
        for st in STYLES:
            yield {"style": st, "classes": h}
    small = [c(q, ab, el) for q in ["a", "A", "a_1"] for ab in (False, True) for el in (False, True)]
    for combo in itertools.product(small, repeat=2):
        yield {"style": "filenames", "classes": list(combo)}
    for combo in itertools.product(small[:8] + [c("a_abstract")], repeat=3):
        yield {"style": "filenames", "classes": list(combo)}
    for _ in range(1500 if tier == "quick" else 40000):
        k = rng.choice([2, 3, 3, 4, 5, 6])
        names = rng.sample(CLS_NAMES, 4) if rng.random() < 0.6 else CLS_NAMES
        locs = ("l1",) if rng.random() < 0.4 else ("l1", "l2")
        nss = [""] if rng.random() < 0.4 else CLS_NS
        yield {"style": rng.choice(STYLES), "classes": [_cls(rng, names, nss, locs) for _ in range(k)]}


E2E_NAMES = [
    "a", "A", "a_", "_a", "a-b", "a.b", "aB", "AB", "class", "Class", "None", "await", "type", "value", "value_1", "_1",
    "a名", "a_Attribute", "a_Element", "class_value", "a1", "a_1", "x-1", "x_1", "x1", "Any", "a⁰", "a_attribute", "self",
    "Value", "_value", "def", "a__1", "A1", "b",
]
E2E_ENUMS = ["1", "value_1", "a", "A", "-1", "1.0", "a b", "a-b", "class", "None", "await", "VALUE_1", "value-1", "1a", "a_1",
             "a1", "A_1", "2", "value_2", "x", "X", " x", "-.5"]


def gen_e2e_fields(rng, tier):
    def el(n):
        return {"tag": "Element", "name": n, "ns": None}

    def at(n):
        return {"tag": "Attribute", "name": n, "ns": None}

    def en(n):
        return {"tag": "Enumeration", "name": n, "ns": None}

    yield {"attrs": [el("a"), el("a_Attribute"), at("a")]}
    yield {"attrs": [el("class"), el("class_value"), el("await")]}
    yield {"attrs": [en("1"), en("value_1"), en("a"), en("A")]}
    for _ in range(220 if tier == "quick" else 5000):
        if rng.random() < 0.7:
            pool = rng.sample(E2E_NAMES, 6) if rng.random() < 0.6 else E2E_NAMES
            els = list(dict.fromkeys(rng.choice(pool) for _ in range(rng.randint(0, 4))))
            ats = list(dict.fromkeys(rng.choice(pool) for _ in range(rng.randint(0, 3))))
            if els or ats:
                yield {"attrs": [el(n) for n in els] + [at(n) for n in ats]}
        else:
            vals = list(dict.fromkeys(rng.choice(E2E_ENUMS) for _ in range(rng.randint(1, 5))))
            yield {"attrs": [en(v) for v in vals]}


def impl_e2e_fields(a):
    """The real generation run on a schema with one complexType / one enumeration; the member names
    are read back from the module file that was written."""
    return _guard(lambda: generated_members(adapt_pipeline("names.e2e_fields", a)))

# ----------------------------------------------------------------- DetectCircularReferences


def _walk_types(node):
    """the AttrType specs of a class spec in `Class.types()` order: extensions, attr types, choice
    types, then the inner classes"""
    for t in node["exts"]:
        yield t
    for at in node["attrs"]:
        yield from at["types"]
        for ch in at["choices"]:
            yield from ch
    for inner in node["inner"]:
        yield from _walk_types(inner)


def _walk_nodes(nodes):
    for n in nodes:
        yield n
        yield from _walk_nodes(n["inner"])


def circ_flatten(a):
    """What the handler is documented to look at, as flat tables for the model: every AttrType
    object once (shared by the cached lists), the cached reference_types lists, and per processed
    class its own attr / choice types in processing order."""
    edge_id = {}
    edges = []
    for root in a["classes"]:
        for t in _walk_types(root):
            edge_id[id(t)] = len(edges)
            edges.append({"tgt": t["ref"], "fwd": t["fwd"], "nat": t["nat"], "circ": t["circ"]})
    ref_types = []
    own = {}
    for n in _walk_nodes(a["classes"]):
        ref_types.append({"ref": n["id"], "ids": [edge_id[id(t)] for t in _walk_types(n) if t["ref"]]})
        ids = []
        for at in n["attrs"]:
            ids += [edge_id[id(t)] for t in at["types"]]
            for ch in at["choices"]:
                ids += [edge_id[id(t)] for t in ch]
        own[n["id"]] = ids
    return {"edges": edges, "ref_types": ref_types, "proc": [{"ref": k, "own": own[k]} for k in a.get("order", [])]}


def with_flat(a):
    """the case as the real objects are built from it (classes, order) plus the flat tables the
    Lean model reads (edges, ref_types, proc)"""
    return {**a, **circ_flatten(a)}


def circ_build(a):
    """real Class / Attr / AttrType / Extension objects for the class forest of the case"""
    from xsdata.codegen.models import AttrType, Extension, Restrictions

    objs = {}
    types = []  # (spec, AttrType) in edge order

    def mk_type(t):
        tp = AttrType(qname=f"c{t['ref']}" if t["ref"] else "{http://www.w3.org/2001/XMLSchema}string",
                      native=t["nat"], forward=t["fwd"], circular=t["circ"])
        types.append((t, tp))
        return tp

    def mk_class(n, parent=None):
        c = Class(qname=f"c{n['id']}", tag=Tag.COMPLEX_TYPE, location="l")
        c.parent = parent
        objs[n["id"]] = c
        c.extensions = [Extension(tag=Tag.EXTENSION, type=mk_type(t), restrictions=Restrictions()) for t in n["exts"]]
        for k, at in enumerate(n["attrs"]):
            attr = Attr(tag=Tag.ELEMENT, name=f"a{k}", types=[mk_type(t) for t in at["types"]])
            attr.choices = [Attr(tag=Tag.ELEMENT, name=f"a{k}_{j}", types=[mk_type(t) for t in ch]) for j, ch in enumerate(at["choices"])]
            c.attrs.append(attr)
        c.inner = [mk_class(i, c) for i in n["inner"]]
        return c

    roots = [mk_class(n) for n in a["classes"]]
    for t, tp in types:
        # a reference to a class that does not exist keeps a number no class has
        tp.reference = id(objs[t["ref"]]) if t["ref"] in objs else (0 if not t["ref"] else t["ref"])
    return roots, objs, types


def run_detect_circular(a):
    from xsdata.codegen.handlers import DetectCircularReferences

    roots, objs, types = circ_build(a)
    container = ClassContainer(GeneratorConfig())
    container.extend(roots)
    h = DetectCircularReferences(container)
    for k in a["order"]:
        h.process(objs[k])
    return [tp.circular for _, tp in types], objs, types


def impl_detect_circular(a):
    try:
        return ok(run_detect_circular(a)[0])
    except KeyError:
        return err("KeyError")
    except Exception as e:  # noqa: BLE001
        return err("LEAK:" + type(e).__name__)


def impl_is_circular(a):
    from xsdata.codegen.handlers import DetectCircularReferences

    try:
        roots, objs, types = circ_build(a)
        container = ClassContainer(GeneratorConfig())
        container.extend(roots)
        h = DetectCircularReferences(container)
        h.build_reference_types()
        ref = lambda k: id(objs[k]) if k in objs else k  # noqa: E731
        return ok(h.is_circular(ref(a["start"]), ref(a["stop"])))
    except KeyError:
        return err("KeyError")
    except Exception as e:  # noqa: BLE001
        return err("LEAK:" + type(e).__name__)


def _rand_forest(rng, n_classes, dangling=False, preflag=False):
    ids = list(range(1, n_classes + 1))
    nodes = {k: {"id": k, "exts": [], "attrs": [], "inner": []} for k in ids}
    roots = []
    parent = {}
    for k in ids:
        if k > 1 and rng.random() < 0.3:
            p = rng.choice([x for x in ids if x < k])
            nodes[p]["inner"].append(nodes[k])
            parent[k] = p
        else:
            roots.append(nodes[k])
    style = rng.choice(["sparse", "dense", "chain", "ring"])

    def mk(ref, owner):
        nat = ref == 0 or rng.random() < 0.03
        fwd = ref != 0 and parent.get(ref) == owner
        return {"ref": ref, "fwd": bool(fwd), "nat": bool(nat), "circ": bool(preflag and rng.random() < 0.15)}

    def pick(owner):
        r = rng.random()
        if r < 0.15:
            return 0
        if dangling and r < 0.2:
            return 90 + rng.randint(0, 3)
        if style == "chain":
            return min(n_classes, owner + 1)
        if style == "ring":
            return owner % n_classes + 1
        return rng.choice(ids)

    for k in ids:
        n = nodes[k]
        n_attrs = rng.randint(0, 1 if style == "sparse" else 3)
        for _ in range(n_attrs):
            at = {"types": [mk(pick(k), k) for _ in range(rng.randint(1, 2))], "choices": []}
            if rng.random() < 0.2:
                at["choices"] = [[mk(pick(k), k)] for _ in range(rng.randint(1, 2))]
            n["attrs"].append(at)
        if rng.random() < 0.25:
            n["exts"].append(mk(pick(k), k))
        for i in n["inner"]:
            # the parent refers to its inner class with a forward type
            n["attrs"].append({"types": [{"ref": i["id"], "fwd": True, "nat": False, "circ": False}], "choices": []})
    return roots, ids


def gen_detect_circular(rng, tier):
    def t(ref, fwd=False, nat=False, circ=False):
        return {"ref": ref, "fwd": fwd, "nat": nat, "circ": circ}

    def c(k, types=(), exts=(), inner=()):
        return {"id": k, "exts": list(exts), "attrs": [{"types": [x], "choices": []} for x in types], "inner": list(inner)}

    hand = [
        ([c(1, [t(1)])], [1]),                                   # self reference
        ([c(1, [t(2)]), c(2, [t(1)])], [1, 2]),                  # 2-cycle: only the first processed is flagged
        ([c(1, [t(2)]), c(2, [t(1)])], [2, 1]),
        ([c(1, [t(2)]), c(2, [t(3)]), c(3, [t(1)])], [1, 2, 3]),
        ([c(1, [t(2)]), c(2, exts=[t(1)])], [1, 2]),             # cycle closed by an extension
        ([c(1, [t(2)]), c(2, exts=[t(1)])], [2, 1]),
        ([c(1, [t(3, fwd=True)], inner=[c(3, [t(2)])]), c(2, [t(1)])], [1, 3, 2]),  # through an inner class
        ([c(1, [t(3, fwd=True)], inner=[c(3, [t(2)])]), c(2, [t(1)])], [2, 1, 3]),
        ([c(1, [t(2), t(0, nat=True)]), c(2, [])], [1, 2]),
        ([c(1, [t(9)])], [1]),                                   # dangling reference: KeyError
        ([c(1, [t(2, circ=True)]), c(2, [t(1)])], [1, 2]),       # already flagged
        ([], []),
    ]
    for classes, order in hand:
        yield with_flat({"classes": classes, "order": order})
    for _ in range(400 if tier == "quick" else 8000):
        n = rng.choice([1, 2, 3, 3, 4, 5, 6, 8])
        roots, ids = _rand_forest(rng, n, dangling=rng.random() < 0.08, preflag=rng.random() < 0.15)
        order = ids[:]
        r = rng.random()
        if r < 0.5:
            rng.shuffle(order)
        elif r < 0.6:
            order = order[: rng.randint(0, len(order))]
        elif r < 0.7:
            order = order + [rng.choice(order) for _ in range(rng.randint(1, 3))]  # a class processed again
        yield with_flat({"classes": roots, "order": order})


def gen_is_circular(rng, tier):
    for _ in range(300 if tier == "quick" else 6000):
        n = rng.choice([1, 2, 3, 4, 5, 6])
        roots, ids = _rand_forest(rng, n, dangling=rng.random() < 0.04, preflag=rng.random() < 0.3)
        yield with_flat({"classes": roots, "start": rng.choice(ids * 4 + [95]), "stop": rng.choice(ids)})


def classify_circular(a, out):
    if "err" in out:
        return "err:" + out["err"]
    n = sum(1 for _ in _walk_nodes(a["classes"]))
    inner = sum(1 for x in _walk_nodes(a["classes"]) if x["inner"])
    flagged = sum(out["ok"]) if isinstance(out["ok"], list) else int(out["ok"])
    return f"classes={min(n, 5)}{'+' if n > 5 else ''} nested={'y' if inner else 'n'} flagged={min(flagged, 3)}{'+' if flagged > 3 else ''}"


def oracle_circular(a):
    """After DetectCircularReferences no remaining (unflagged, non-forward, non-native) attr or choice
    type of a processed class leads back to that class through unflagged types; and a type is only
    flagged when it lies on a cycle of the original graph."""
    try:
        flags, objs, types = run_detect_circular(a)
    except KeyError:
        known = {n["id"] for n in _walk_nodes(a["classes"])}
        if any(t["ref"] and t["ref"] not in known for r in a["classes"] for t in _walk_types(r)):
            return None  # a dangling reference is reported by ValidateReferences, not here
        return "DetectCircularReferences raised KeyError without a dangling reference"
    except Exception as e:  # noqa: BLE001
        return f"DetectCircularReferences raised {type(e).__name__}: {e}"
    # a second pass over the same classes with the same handler (its cache is built once) finds nothing new
    try:
        twice = run_detect_circular({**a, "order": list(a["order"]) + list(a["order"])})[0]
    except Exception as e:  # noqa: BLE001
        return f"processing the classes a second time raised {type(e).__name__}"
    if twice != flags:
        k = [i for i, (x, y) in enumerate(zip(flags, twice)) if x != y][0]
        return f"a second pass over the same classes changes the flag of type object #{k}: the result depends on earlier calls"
    nodes = {n["id"]: n for n in _walk_nodes(a["classes"])}
    flag_of = {id(t): f for (t, _), f in zip(types, flags)}

    def succ(k, use_final):
        out = set()
        for t in _walk_types(nodes[k]):
            if t["ref"] and t["ref"] in nodes and not (flag_of[id(t)] if use_final else t["circ"]):
                out.add(t["ref"])
        return out

    def reach(start, use_final):
        seen, todo = set(), [start]
        while todo:
            x = todo.pop()
            if x in seen or x not in nodes:
                continue
            seen.add(x)
            todo.extend(succ(x, use_final))
        return seen

    for k in a["order"]:
        n = nodes[k]
        own = [t for at in n["attrs"] for t in at["types"] + [x for ch in at["choices"] for x in ch]]
        for t in own:
            if t["fwd"] or t["nat"] or not t["ref"] or t["ref"] not in nodes:
                continue
            if not flag_of[id(t)] and k in reach(t["ref"], True):
                return f"class c{k} keeps a plain reference to c{t['ref']} although c{t['ref']} leads back to c{k}: the module would import itself / use a class before its definition"
            if flag_of[id(t)] and not t["circ"] and k not in reach(t["ref"], False):
                return f"class c{k}: the reference to c{t['ref']} is flagged circular although c{t['ref']} never leads back to c{k}"
    return None


# ----------------------------------------------------------------- wrapper fields (CreateWrapperFields)
#
# input: {"enabled": bool, "attrs": [{tag, name, ns, "src": {tag, name, ns} | None, "raw": {...} | None}]}
# `raw` describes what the class really contains for that attr (the harness builds it); `src` is what
# the DOCUMENTED rules of validate_attr / validate_source make of it (own reading, below): the attr the
# element is swapped with, or None. The model gets `src`, the real handler gets the classes.


def doc_wrapper_source(x):
    """The documented rules: the attr is an element with one non-native type, neither optional nor a
    list; its class has no extensions and exactly one attr, an element, not optional, no forward
    reference, in the namespace of the wrapping attr."""
    raw = x.get("raw")
    if not raw:
        return None
    if x["tag"] != "Element" or raw["optional"] or raw["list"]:
        return None
    if raw["extension"] or len(raw["attrs"]) != 1:
        return None
    s0 = raw["attrs"][0]
    if s0["tag"] != "Element" or s0["optional"] or s0["forward"] or (s0["ns"] or "") != (x["ns"] or ""):
        return None
    return {"tag": s0["tag"], "name": s0["name"], "ns": s0["ns"]}


def run_wrapper_fields(a):
    """the real CreateWrapperFields on a class built from the input; returns the target class"""
    from xsdata.codegen.handlers import CreateWrapperFields
    from xsdata.codegen.models import AttrType, Extension, Restrictions

    cfg = GeneratorConfig()
    cfg.output.wrapper_fields = bool(a["enabled"])
    container = ClassContainer(cfg)
    string = lambda: AttrType(qname="{http://www.w3.org/2001/XMLSchema}string", native=True)  # noqa: E731
    target = Class(qname="t", tag=Tag.COMPLEX_TYPE, location="l")
    roots = []
    for i, x in enumerate(a["attrs"]):
        raw = x.get("raw")
        if not raw:
            target.attrs.append(Attr(tag=x["tag"], name=x["name"], namespace=x["ns"], types=[string()]))
            continue
        q = f"w{i}"
        sattrs = [
            Attr(tag=s0["tag"], name=s0["name"], namespace=s0["ns"],
                 types=[AttrType(qname="t", forward=True)] if s0["forward"] else [string()],
                 restrictions=Restrictions(min_occurs=0 if s0["optional"] else 1, max_occurs=5 if s0["many"] else 1))
            for s0 in raw["attrs"]
        ]
        scls = Class(qname=q, tag=Tag.COMPLEX_TYPE, location="l", attrs=sattrs)
        if raw["extension"]:
            scls.extensions.append(Extension(tag=Tag.EXTENSION, type=string(), restrictions=Restrictions()))
        if raw["inner"]:
            scls.parent = target
            target.inner.append(scls)
        else:
            roots.append(scls)
        target.attrs.append(Attr(tag=x["tag"], name=x["name"], namespace=x["ns"], types=[AttrType(qname=q, forward=raw["inner"])],
                                 restrictions=Restrictions(min_occurs=0 if raw["optional"] else 1, max_occurs=5 if raw["list"] else 1)))
    container.extend([target, *roots])
    CreateWrapperFields(container).process(target)
    return target


def impl_wrapper_fields(a):
    return _guard(lambda: [x.name for x in run_wrapper_fields(a).attrs])


WRAP_NAMES = ["item", "Item", "item_", "i-tem", "items", "a", "A", "a_Element", "item_Element", "item_1", "class", "class_value", "value", "b"]


def _wrap_attr(rng, names, p_raw):
    x = {"tag": rng.choice(["Element", "Element", "Element", "Attribute"]), "name": rng.choice(names), "ns": rng.choice([None, None, "x"]), "raw": None}
    if rng.random() < p_raw:
        k = rng.random()
        n_src = 1 if k < 0.85 else rng.choice([0, 2])
        x["raw"] = {
            "inner": rng.random() < 0.35, "optional": rng.random() < 0.1, "list": rng.random() < 0.1, "extension": rng.random() < 0.07,
            "attrs": [{"tag": "Element" if rng.random() < 0.9 else "Attribute", "name": rng.choice(names),
                       "ns": x["ns"] if rng.random() < 0.9 else "y", "optional": rng.random() < 0.08, "forward": rng.random() < 0.05,
                       "many": rng.random() < 0.5} for _ in range(n_src)],
        }
    x["src"] = doc_wrapper_source(x)
    return x


def gen_wrapper_fields(rng, tier):
    def el(name, ns=None, tag="Element"):
        return {"tag": tag, "name": name, "ns": ns, "raw": None, "src": None}

    def wr(name, inner_name, inner=False, ns=None, many=True, **kw):
        x = {"tag": "Element", "name": name, "ns": ns,
             "raw": {"inner": inner, "optional": kw.get("optional", False), "list": kw.get("list", False), "extension": kw.get("extension", False),
                     "attrs": [{"tag": "Element", "name": inner_name, "ns": ns, "optional": kw.get("src_optional", False),
                                "forward": False, "many": many}]}}
        x["src"] = doc_wrapper_source(x)
        return x

    hand = [
        [wr("items", "item"), el("item")],                       # wrapper of a ROOT-LEVEL class next to its namesake
        [el("item"), wr("items", "item")],
        [wr("items", "item", inner=True), el("item")],           # ... of an inner class
        [wr("items", "item"), wr("things", "item")],             # two wrappers, one inner name
        [wr("items", "item"), wr("things", "Item", inner=True)],
        [wr("items", "item", inner=True), wr("things", "item"), el("item")],
        [wr("things", "item"), el("a"), wr("items", "item", inner=True)],   # the last attr decides nothing
        [wr("items", "item", inner=True), el("a"), wr("things", "b")],
        [wr("items", "item"), el("item", tag="Attribute")],
        [wr("items", "item"), el("item_Element"), el("item")],
        [wr("items", "item", optional=True), el("item")],        # no wrapper candidates: untouched
        [wr("items", "item", src_optional=True), el("item")],
        [wr("items", "item", extension=True), el("item")],
        [wr("items", "class"), el("class_value")],
        [el("a"), el("a")],                                      # nothing wrapped: duplicates are not this handler's business
        [wr("items", "item", ns="x"), el("item", ns="x")],
        [],
    ]
    for h in hand:
        for enabled in (True, False):
            yield {"enabled": enabled, "attrs": h}
    # one wrapper (root-level / inner) against every sibling of the pool, both orders
    for inner in (False, True):
        for inner_name in ("item", "Item", "class"):
            for sib in WRAP_NAMES:
                for tag in ("Element", "Attribute"):
                    yield {"enabled": True, "attrs": [wr("w", inner_name, inner=inner), el(sib, tag=tag)]}
                    yield {"enabled": True, "attrs": [el(sib, tag=tag), wr("w", inner_name, inner=inner)]}
    # two wrappers x {root, inner}^2 x inner names
    for i1, i2 in itertools.product((False, True), repeat=2):
        for n1, n2 in itertools.product(("item", "Item", "i-tem", "b"), repeat=2):
            yield {"enabled": True, "attrs": [wr("w1", n1, inner=i1), wr("w2", n2, inner=i2), el("item")]}
    for _ in range(1500 if tier == "quick" else 20000):
        names = rng.sample(WRAP_NAMES, rng.randint(2, 5))
        yield {"enabled": rng.random() < 0.9, "attrs": [_wrap_attr(rng, names, 0.5) for _ in range(rng.randint(1, 5))]}


def classify_wrapper(a, o):
    n = sum(1 for x in a["attrs"] if x["src"])
    if not a["enabled"]:
        return "option off"
    if not n:
        return "no wrapper"
    kinds = {("inner" if x["raw"]["inner"] else "root") for x in a["attrs"] if x["src"]}
    names = [(x["src"] or x)["name"] for x in a["attrs"]]
    clash = len({own_slug(n_) for n_ in names}) < len(names)
    return f"{'+'.join(sorted(kinds))} wrapper{'s' if n > 1 else ''}, {'slug clash' if clash else 'no clash'}"


def oracle_wrapper(a):
    """PROPERTY (independent of how the handler does it): with wrapper fields on, once the handler
    has replaced at least one element by the element inside it, the class has no two fields of one
    python name (its fields before the handler are the business of the earlier handlers). Also: an attr
    that is no wrapper candidate by the documented rules keeps its type."""
    try:
        target = run_wrapper_fields(a)
    except Exception as e:  # noqa: BLE001
        return f"CreateWrapperFields raised {type(e).__name__}: {e}"
    wrapped = [i for i, x in enumerate(target.attrs) if x.wrapper is not None]
    should = [i for i, x in enumerate(a["attrs"]) if a["enabled"] and x["src"]]
    if wrapped != should:
        return f"attrs {should} are wrapper candidates by the documented rules, the handler wrapped {wrapped}"
    if not wrapped:
        return None
    f = F()
    finals = [f.field_name(x.name, "t") for x in target.attrs]
    seen = {}
    for i, n in enumerate(finals):
        if n in seen:
            j = seen[n]
            return (f"wrapper fields: attrs #{j} and #{i} both become field {n!r} (after the handler: "
                    f"{target.attrs[j].name!r}, {target.attrs[i].name!r})")
        seen[n] = i
    return None


def covered_wrapper(a, msg):
    m = re.search(r"both become field '([^']*)' \(after the handler: ('(?:[^'\\]|\\.)*'), ('(?:[^'\\]|\\.)*')\)$", msg)
    if not m:
        return None
    final, n1, n2 = m.group(1), ast.literal_eval(m.group(2)), ast.literal_eval(m.group(3))
    # only the documented safe_name makes two names of different slugs equal
    if own_slug(n1) != own_slug(n2) and ref_safe_name(n1, "value", "snakeCase") == final == ref_safe_name(n2, "value", "snakeCase"):
        return "C07-safe-prefix-collision"
    return None



# ----------------------------------------------------------------- inner classes / reference classes


def impl_rename_inners(a):
    from xsdata.codegen.handlers import VacuumInnerClasses

    def run():
        ns = a.get("ns")
        q = lambda n: ("{%s}%s" % (ns, n)) if ns else n  # noqa: E731
        target = Class(qname=q("outer"), tag=Tag.COMPLEX_TYPE, location="l")
        inners = [Class(qname=q(n), tag=Tag.COMPLEX_TYPE, location="l") for n in a["names"]]
        for i in inners:
            i.parent = target
        target.inner = list(inners)
        VacuumInnerClasses.rename_duplicate_inners(target)
        return [i.name for i in inners]

    return _guard(run)


INNER_NAMES = ["a", "A", "a_", "x-1", "x1", "x_1", "X1", "a⁰", "a名", "b", "x1_1", "x11", "x-1_1", "é", "_", "value", "Value"]


def gen_rename_inners(rng, tier):
    for h in (["x-1", "x1"], ["a⁰", "a名", "a"], ["a", "b"], ["x1", "x-1", "x1_1", "X1"], [], ["é", "_"]):
        yield {"names": h, "ns": None}
    for combo in itertools.product(["a", "A", "a_1", "a1", "b"], repeat=3):
        yield {"names": list(combo), "ns": "urn:x"}
    for _ in range(300 if tier == "quick" else 6000):
        pool = rng.sample(INNER_NAMES, rng.randint(2, 6))
        yield {"names": [rng.choice(pool) for _ in range(rng.randint(1, 6))], "ns": rng.choice([None, "urn:x"])}


def impl_ref_class_qname(a):
    from xsdata.codegen.models import Restrictions

    def run():
        config = GeneratorConfig()
        config.output.unnest_classes = not a["inner"]
        container = ClassContainer(config)
        source = Class(qname=a["source"], tag=Tag.COMPLEX_TYPE, location="l")
        source.inner = [Class(qname=n, tag=Tag.COMPLEX_TYPE, location="l") for n in a["inner_names"]]
        choice = Attr(tag=Tag.ELEMENT, name=a["name"], namespace=a["choice_ns"], restrictions=Restrictions())
        return DisambiguateChoices(container).create_ref_class(source, choice, inner=a["inner"]).qname

    return _guard(run)


def gen_ref_class_qname(rng, tier):
    srcs = ["t", "{urn:x}t", "{http://a/b}T", "{urn:x}a_b"]
    names = ["a", "A", "a_1", "x-1", "a名"]
    for src in srcs:
        for n in names:
            for cns in (None, "", "urn:x", "urn:other"):
                for inner in (False, True):
                    yield {"source": src, "name": n, "choice_ns": cns, "inner": inner,
                           "inner_names": rng.sample(["a", "A_1", "a1", "b", "x1", "a_2"], rng.randint(0, 4)) if inner else []}


def _idx_suffix(name, out):
    if "err" in out:
        return "err:" + out["err"]
    r = out["ok"]
    if r == name:
        return "unchanged"
    m = re.search(r"_(\d+)$", r)
    k = int(m.group(1)) if m else 0
    return "index=1" if k == 1 else ("index=2..4" if k <= 4 else "index>=5")


def classify_words(a, out):
    if "err" in out:
        return "err"
    n = len(out["ok"])
    s = a["s"]
    feat = ("nonascii" if any(ord(c) > 127 for c in s) else "ascii") + ("+caps-run" if re.search(r"[A-Z]{2}", s) else "")
    return f"words={min(n, 3)}{'+' if n > 3 else ''} {feat}"


def classify_clean_uri(a, out):
    s = a["s"]
    head = "##" if s.startswith("##") else ("urn" if s.startswith("urn:") else ("http(s)" if re.match(r"https?:", s) else ("other-scheme" if ":" in s else "plain")))
    dropped = any(p in ("www", "xsd", "wsdl") for p in s.split("."))
    return head + ("+ignored-part" if dropped else "")


def classify_rename_classes(a, out):
    if "err" in out:
        return "err:" + out["err"]
    cs = a["classes"]
    news = out["ok"]
    kinds = set()
    for c, q in zip(cs, news):
        if q == c["qname"]:
            continue
        if q == c["qname"] + "_abstract":
            kinds.add("abstract-suffix")
        elif c["abstract"] and re.search(r"_\d+$", q):
            kinds.add("numeric(abstract class)")
        else:
            kinds.add("numeric")
    unique = a["style"] in ("single-package", "clusters") or len({c["location"] for c in cs}) == 1
    return ("by-name " if unique else "by-qname ") + ("+".join(sorted(kinds)) or "unchanged")


def classify_e2e(a, o):
    opts = a.get("opts", {})
    feats = [a["kind"], opts.get("style", "filenames")]
    for k in ("compound", "unnest", "relative_imports", "frozen", "slots"):
        if opts.get(k):
            feats.append(k)
    if "err" in o:
        return a["kind"] + ":" + (covered_pipeline(a, o["err"]) or "FAIL")
    return " ".join(feats[:2]) + (" +" + "+".join(feats[2:4]) if feats[2:] else "")


def impl_resolve_conflict(a):
    from xsdata.codegen.handlers import ValidateAttributesOverrides
    from xsdata.utils import collections as xcoll

    def run():
        target = Class(qname="t", tag=Tag.COMPLEX_TYPE, location="l", attrs=mk_attrs(a["target"]))
        base = mk_attrs(a["base"])
        base_map = xcoll.group_by(base, key=lambda x: x.slug)
        ValidateAttributesOverrides.validate_attrs(target, base_map)
        return [[x.name for x in target.attrs], [x.name for x in base]]

    return _guard(run)


def gen_resolve_conflict(rng, tier):
    """one child attr that clashes with a parent attr of the other xml kind (element vs attribute: not an
    override), among other attrs of the class and of the parents that clash with nothing"""
    def at(tag, name, ns=None):
        return {"tag": tag, "name": name, "ns": ns}

    yield {"target": [at("Element", "a")], "base": [at("Attribute", "a_Attribute"), at("Attribute", "A")], "child": 0}
    yield {"target": [at("Attribute", "a"), at("Element", "a_Attribute")], "base": [at("Element", "A")], "child": 0}
    yield {"target": [at("Element", "x"), at("Element", "a", "urn:x")], "base": [at("Attribute", "A")], "child": 1}
    stems = ["a", "b", "x1", "value"]
    for _ in range(300 if tier == "quick" else 6000):
        stem = rng.choice(stems)
        ctag, ptag = rng.choice([("Element", "Attribute"), ("Attribute", "Element")])
        child = at(ctag, rng.choice([stem, stem.upper(), stem + "_"]), rng.choice([None, None, "urn:x"]))
        parent = at(ptag, rng.choice([stem, stem.capitalize(), "_" + stem]), rng.choice([None, None, "urn:y"]))
        # bystanders: names that look like what the rename produces, with slugs that clash with no other attr
        taken = {own_slug(child["name"])}
        def extra(pool, n):
            out = []
            for nm in rng.sample(pool, n):
                if own_slug(nm) not in taken:
                    taken.add(own_slug(nm))
                    out.append(at(rng.choice(["Element", "Attribute"]), nm))
            return out
        pool = [f"{stem}_Attribute", f"{stem}_Element", f"{stem}_attribute_1", f"{stem}Attribute", f"{stem}_Element_1",
                f"x_{stem}", f"y_{stem}", f"{stem}_Attribute_2", "zz", "other"]
        t_others = extra(pool, rng.randint(0, 3))
        b_others = extra(pool, rng.randint(0, 3))
        target = t_others + [child]
        rng.shuffle(target)
        base = b_others + [parent]
        rng.shuffle(base)
        yield {"target": target, "base": base, "child": target.index(child)}


def oracle_inners(a):
    """after the real VacuumInnerClasses.process the inner classes of one class have pairwise different
    class names (under the default naming convention)"""
    from xsdata.codegen.handlers import VacuumInnerClasses

    names = list(dict.fromkeys(a["names"]))  # one inner class per qname
    ns = a.get("ns")
    q = lambda n: ("{%s}%s" % (ns, n)) if ns else n  # noqa: E731
    target = Class(qname=q("outer"), tag=Tag.COMPLEX_TYPE, location="l")
    inners = []
    for n in names:
        c = Class(qname=q(n), tag=Tag.COMPLEX_TYPE, location="l")
        c.attrs = [Attr(tag=Tag.ELEMENT, name="x")]  # a class without attrs is vacuumed
        c.parent = target
        inners.append(c)
    target.inner = list(inners)
    try:
        VacuumInnerClasses().process(target)
    except Exception as e:  # noqa: BLE001
        return f"VacuumInnerClasses raised {type(e).__name__}"
    finals = [F().class_name(i.name) for i in target.inner]
    for i, n in enumerate(finals):
        if n in finals[:i]:
            j = finals.index(n)
            return f"inner classes {names[j]!r} and {names[i]!r} of one class are both rendered as class {n!r}"
    return None


def covered_inners(a, msg):
    m = re.search(r"inner classes ('(?:[^'\\]|\\.)*') and ('(?:[^'\\]|\\.)*') of one class are both rendered as class ('(?:[^'\\]|\\.)*')", msg)
    if not m:
        return None
    n1, n2, final = (ast.literal_eval(x) for x in m.groups())
    # the handler renamed the inner classes as documented (reference `ref_inner_names`) ...
    names = list(dict.fromkeys(a["names"]))
    io = impl_rename_inners({"names": names, "ns": a.get("ns")})
    if "ok" not in io or io["ok"] != ref_inner_names(names, "outer"):
        return None
    # ... and two names with different slugs are mapped to one class name by the documented safe_name: the open finding
    if own_slug(n1) != own_slug(n2) and ref_safe_name(n1, "type", "pascalCase") == ref_safe_name(n2, "type", "pascalCase") == final:
        return "C07-safe-prefix-collision"
    return None


def oracle_conflict(a):
    """after the real ValidateAttributesOverrides.validate_attrs no two attrs of the class and its
    parents share a field name (inputs: one clash between a child attr and a parent attr of the other kind)"""
    io = impl_resolve_conflict(a)
    if "err" in io:
        return f"validate_attrs raised {io['err']}"
    names = io["ok"][0] + io["ok"][1]
    finals = [F().field_name(n, "c") for n in names]
    for i, n in enumerate(finals):
        if n in finals[:i]:
            return f"attrs {names[finals.index(n)]!r} and {names[i]!r} (class and parents of {[x['name'] for x in a['target']]!r} / {[x['name'] for x in a['base']]!r}) both become field {n!r}"
    return None


def ref_conflict(a):
    """Documented ValidateAttributesOverrides.validate_attrs on the names of (class attrs, parent attrs)
    for the inputs of `gen_resolve_conflict` (clashes between attrs of different xml kinds; None when
    an attr of the class overrides a parent attr of the same kind: not what these inputs are about)."""
    tn = [x["name"] for x in a["target"]]
    bn = [x["name"] for x in a["base"]]
    groups = {}
    for j, b in enumerate(a["base"]):
        groups.setdefault(own_slug(b["name"]), []).append(j)
    kind = lambda x: "A" if x["tag"] in ("Attribute", "AnyAttribute") else "E"  # noqa: E731
    for i, x in enumerate(a["target"]):
        grp = groups.get(own_slug(tn[i]))
        if not grp:
            continue
        j = grp[0]
        b = a["base"][j]
        if kind(x) == kind(b) and (x["ns"] or None) == (b["ns"] or None):
            return None
        if x["tag"] == b["tag"] and (x["ns"] or b["ns"]):
            side, k = ("b", j) if b["ns"] else ("t", i)
            spec = b if side == "b" else x
            new = f"{ref_clean_uri(spec['ns'])}_{bn[k] if side == 'b' else tn[k]}"
        else:
            side, k = ("b", j) if b["tag"] == "Attribute" else ("t", i)
            spec = b if side == "b" else x
            new = f"{bn[k] if side == 'b' else tn[k]}_{spec['tag']}"
        reserved = {own_slug(n) for m, n in enumerate(tn) if not (side == "t" and m == k)}
        reserved |= {own_slug(n) for m, n in enumerate(bn) if not (side == "b" and m == k)}
        if own_slug(new) in reserved:
            idx = 1
            while own_slug(f"{new}_{idx}") in reserved:
                idx += 1
            new = f"{new}_{idx}"
        (bn if side == "b" else tn)[k] = new
    return [tn, bn]


def covered_conflict(a, msg):
    m = re.search(r"attrs ('(?:[^'\\]|\\.)*') and ('(?:[^'\\]|\\.)*') \(class.* both become field ('(?:[^'\\]|\\.)*')$", msg, re.S)
    if not m:
        return None
    n1, n2, final = (ast.literal_eval(x) for x in m.groups())
    # the handler did what is documented (reference above) ...
    io = impl_resolve_conflict(a)
    if "ok" not in io or io["ok"] != ref_conflict(a):
        return None
    # ... the two names have different slugs, and the documented safe_name maps both to that field name
    if own_slug(n1) != own_slug(n2) and ref_safe_name(n1, "value", "snakeCase") == ref_safe_name(n2, "value", "snakeCase") == final:
        return "C07-safe-prefix-collision"
    return None



def classify_safe(a, out):
    if "err" in out:
        return "err:" + out["err"]
    s = a["s"]
    if s == "":
        return "empty"
    if re.match(r"^-\d*\.?\d+$", s):
        return "negative-number"
    slug = own_slug(s)
    if not slug or not slug[0].isalpha():
        return "prefixed(no leading letter)"
    if own_slug(out["ok"]) != slug:
        return "suffixed(reserved word)"
    return "plain"


CORRS = [
    Corr("names.split_words", gen_split_words, impl_split_words, nontrivial=lambda a, o: len(a["s"]) > 1,
         describe="text.split_words", classify=classify_words),
    Corr("names.alnum", gen_alnum, impl_alnum, nontrivial=lambda a, o: len(a["s"]) > 0,
         classify=lambda a, o: "empty-slug" if o.get("ok") == "" else ("digit-first" if o.get("ok", "x")[0].isdigit() else "letter-first")),
    Corr("names.case", gen_case, impl_case, nontrivial=lambda a, o: len(a["s"]) > 1,
         describe="NameCase(value)(string) for the eight cases",
         classify=lambda a, o: a["case"] + (":err" if "err" in o else "")),
    Corr("names.kebab", gen_kebab, impl_kebab, classify=lambda a, o: "with-dash" if "-" in o.get("ok", "") else "one-word-or-empty"),
    Corr("names.safe_name", gen_safe_name, impl_safe_name, nontrivial=lambda a, o: len(a["s"]) > 0,
         describe="Filters.safe_name(name, prefix, case)", classify=classify_safe),
    Corr("names.filter", gen_filter, impl_filter, nontrivial=lambda a, o: len(a["s"]) > 0,
         describe="Filters.class_name/field_name/constant_name/module_name/package_name, default config",
         classify=lambda a, o: a["kind"] + (":err" if "err" in o else "")),
    Corr("names.filters_init", gen_filters_init, impl_filters_init,
         describe="Filters(config): safe prefixes accepted / rejected with CodegenError",
         classify=lambda a, o: "rejected" if "err" in o else "accepted"),
    Corr("names.clean_uri", gen_clean_uri, impl_clean_uri, classify=classify_clean_uri),
    Corr("names.is_identifier", gen_identifier, impl_is_identifier, nontrivial=lambda a, o: len(a["s"]) > 0,
         describe="spec: str.isidentifier", classify=lambda a, o: str(o.get("ok"))),
    Corr("names.is_keyword", gen_identifier, impl_is_keyword, classify=lambda a, o: str(o.get("ok"))),
    Corr("names.is_word", gen_word, impl_is_word, describe=r"re \w per character",
         classify=lambda a, o: "latin-1 block" if max(map(ord, a["s"])) < 256 else ("BMP" if max(map(ord, a["s"])) < 0x10000 else "astral")),
    Corr("names.rename_attrs", gen_rename_attrs, impl_rename_attrs, nontrivial=lambda a, o: len(a["attrs"]) > 1,
         describe="ClassUtils.rename_duplicate_attributes", classify=classify_rename),
    Corr("names.unique_name", gen_unique_name, impl_unique_name, classify=lambda a, o: _idx_suffix(a["name"], o)),
    Corr("names.next_qname", gen_next_qname, impl_next_qname,
         classify=lambda a, o: ("by-name " if a["use_names"] else "by-qname ") + ("ns " if a["ns"] else "no-ns ") + _idx_suffix(a["name"], o)),
    Corr("names.next_available_name", gen_next_available_name, impl_next_available_name,
         classify=lambda a, o: _idx_suffix(a["name"], o)),
    Corr("names.e2e_fields", gen_e2e_fields, impl_e2e_fields, nontrivial=lambda a, o: len(a["attrs"]) > 1,
         describe="whole real pipeline on one complexType / enumeration vs model(rename_duplicate_attributes ∘ field/constant_name)",
         classify=lambda a, o: ("enum" if a["attrs"][0]["tag"] == "Enumeration" else "complexType") + (":err" if "err" in o else "")),
    Corr("names.detect_circular", gen_detect_circular, impl_detect_circular,
         describe="DetectCircularReferences.process over a class forest (shared AttrType objects, cached reference_types, any order)",
         classify=classify_circular, nontrivial=lambda a, o: len(a["order"]) > 1),
    Corr("names.is_circular", gen_is_circular, impl_is_circular,
         describe="DetectCircularReferences.is_circular(start, stop)", classify=classify_circular),
    Corr("names.resolve_conflict", gen_resolve_conflict, impl_resolve_conflict,
         describe="ValidateAttributesOverrides.validate_attrs: a child attr clashing with a parent attr of the other xml kind",
         classify=lambda a, o: "err" if "err" in o else (
             ("child" if o["ok"][0] != [x["name"] for x in a["target"]] else "parent") + " renamed" +
             (" +index" if any(re.search(r"_\d+$", n) and n not in [x["name"] for x in a["target"] + a["base"]] for n in o["ok"][0] + o["ok"][1]) else ""))),
    Corr("names.wrapper_fields", gen_wrapper_fields, impl_wrapper_fields,
         nontrivial=lambda a, o: a["enabled"] and any(x["src"] for x in a["attrs"]),
         describe="CreateWrapperFields.process on one class (wrap, then rename_duplicate_attributes)", classify=classify_wrapper),
    Corr("names.rename_inners", gen_rename_inners, impl_rename_inners, nontrivial=lambda a, o: len(a["names"]) > 1,
         describe="VacuumInnerClasses.rename_duplicate_inners: names of the inner classes of one class",
         classify=lambda a, o: "err" if "err" in o else ("renamed" if o["ok"] != a["names"] else "unchanged")),
    Corr("names.ref_class_qname", gen_ref_class_qname, impl_ref_class_qname,
         describe="DisambiguateChoices.create_ref_class: qname of the class created for an ambiguous choice",
         classify=lambda a, o: ("inner" if a["inner"] else "root") + (":err" if "err" in o else "")),
    Corr("names.rename_classes", gen_rename_classes, impl_rename_classes, nontrivial=lambda a, o: len(a["classes"]) > 1,
         describe="RenameDuplicateClasses.run (renames only)",
         classify=classify_rename_classes),
]

# ---- the resolver model the layout theorems (Props/C07Layout.lean: module_imports_sufficient,
# resolver_succeeds) are about is C12's `resolverProcess`; C12's run ties it to the code under forced
# set orders. This property's run ties it too (driver op `gen.resolver`, own small generator), so the
# theorems counted here never rest on another property's check having been run.


def impl_resolver(a):
    from toposort import CircularDependencyError
    from xsdata.codegen.models import AttrType, Status
    from xsdata.codegen.resolver import DependenciesResolver

    objs = [
        Class(qname=c["qname"], tag=Tag.COMPLEX_TYPE, location="mem", status=Status.FINALIZED,
              attrs=[Attr(tag=Tag.ELEMENT, name=f"d{i}", types=[AttrType(qname=d)]) for i, d in enumerate(c["deps"])])
        for c in a["classes"]
    ]
    r = DependenciesResolver({k: v for k, v in a["registry"]})
    try:
        r.process(objs)
        return ok({
            "class_list": list(r.class_list),
            "imports": [[i.qname, i.source, i.alias] for i in r.imports],
            "sorted_imports": [[i.qname, i.source, i.alias] for i in r.sorted_imports()],
            "sorted_classes": [c.qname for c in r.sorted_classes()],
        })
    except CircularDependencyError:
        return err("CircularDependencyError")
    except CodegenError as e:
        msg = getattr(e, "message", str(e))
        return err("CodegenError:" + ("duplicate" if "Duplicate" in msg else "unresolved"))
    except Exception as e:  # noqa: BLE001
        return err("LEAK:" + type(e).__name__)


def gen_resolver(rng, tier):
    def case(classes, registry):
        return {"classes": classes, "registry": registry}

    yield case([], [])
    yield case([{"qname": "A", "deps": ["B"]}], [["B", "pkg.b"]])
    yield case([{"qname": "A", "deps": ["B"]}], [])
    yield case([{"qname": "A", "deps": []}, {"qname": "A", "deps": []}], [])
    yield case([{"qname": "A", "deps": ["B"]}, {"qname": "B", "deps": ["A"]}], [])
    yield case([{"qname": "{urn:m}Main", "deps": ["{urn:a}Item", "{urn:b}Item", "{urn:c}main"]}],
               [["{urn:a}Item", "pkg.a_mod.items"], ["{urn:b}Item", "pkg.b_mod.items"], ["{urn:c}main", "pkg.c.main_mod"]])
    nss = ["", "urn:a", "urn:b", "http://x/y"]
    nms = ["A", "a", "Item", "item", "It-em", "B", "class", "None", "x1", "x_1"]
    srcs = ["pkg.mod_a", "pkg.mod_b", "other.pkg.mod_a", "pkg.sub.mod_a", "x", "pkg.a_b", "pkg.a.b"]
    for _ in range(250 if tier == "quick" else 5000):
        vs = list(dict.fromkeys((f"{{{ns}}}{nm}" if ns else nm) for ns, nm in
                                ((rng.choice(nss), rng.choice(nms)) for _ in range(rng.randint(1, 10)))))
        n = rng.randint(1, len(vs))
        inside, outside = vs[:n], vs[n:]
        classes = []
        for k, v in enumerate(inside):
            cands = inside[:k] if rng.random() < 0.9 else inside
            deps = [w for w in cands if rng.random() < 0.3] + [w for w in outside if rng.random() < 0.5]
            if rng.random() < 0.05:
                deps.append(v)
            rng.shuffle(deps)
            classes.append({"qname": v, "deps": deps})
        if rng.random() < 0.03:
            classes.append(dict(classes[0]))
        rng.shuffle(classes)
        yield case(classes, [[q, rng.choice(srcs)] for q in vs if rng.random() < 0.97])


CORRS.append(
    Corr("gen.resolver", gen_resolver, impl_resolver, nontrivial=lambda a, o: any(c["deps"] for c in a["classes"]),
         describe="DependenciesResolver.process / sorted_imports / sorted_classes on real Class objects (the model of Props/C07Layout's import-sufficiency theorems)",
         classify=lambda a, o: ("err:" + str(o["err"])[:30]) if "err" in o else
         f"imports={min(len(o['ok']['imports']), 3)},aliases={'y' if any(i[2] for i in o['ok']['imports']) else 'n'}")
)

# ----------------------------------------------------------------- oracles
# Everything below states the property on the implementation, with its own
# reference notions (own slug, own word splitter, Python's parser as the judge
# of what an importable name is).

_ASCII_ALNUM = set("0123456789abcdefghijklmnopqrstuvwxyzABCDEFGHIJKLMNOPQRSTUVWXYZ")


def own_slug(s):
    return "".join(c for c in s if c in _ASCII_ALNUM).lower()


def own_words(s):
    s = re.sub(r"[^A-Za-z0-9]", " ", s)
    s = re.sub(r"(?<=[a-z0-9])(?=[A-Z])", " ", s)
    return s.split()


def own_case(case, s):
    """Reference for the plain conversion (no safe-name rewriting)."""
    ws = own_words(s)
    if case == "snakeCase":
        return "_".join(w.lower() for w in ws)
    if case == "screamingSnakeCase":
        return "_".join(w.upper() for w in ws)
    if case == "pascalCase":
        return "".join(w.title() for w in ws)
    if case == "camelCase":
        r = "".join(w.title() for w in ws)
        return r[:1].lower() + r[1:]
    if case == "mixedCase":
        return "".join(ws)
    if case == "mixedSnakeCase":
        return "_".join(ws)
    if case == "mixedPascalCase":
        r = "".join(ws)
        return r[:1].upper() + r[1:]
    return None


# ---- reference of the *documented* behaviour at the pinned commit. It is used only by the
# `covered` predicates: an input lies in a known finding's region iff the documented
# algorithm itself misbehaves on it in the same way. Never used by `check`.
DOC_STOP_WORDS = {
    "", "Any", "Decimal", "Enum", "False", "Meta", "None", "Optional", "QName", "True", "Union", "and", "as", "assert",
    "async", "await", "bool", "break", "class", "continue", "def", "del", "dict", "elif", "else", "except", "field", "Field",
    "finally", "float", "for", "from", "global", "if", "import", "in", "int", "is", "lambda", "list", "nonlocal", "not",
    "object", "or", "pass", "raise", "return", "self", "str", "try", "type", "validate", "while", "with", "yield",
}
DOC_URI_IGNORE = ("www", "xsd", "wsdl")


def ref_case(case, s):
    if case == "originalCase":
        kept = "".join(c for c in re.sub(r"\W", "", s) if ("_" + c).isidentifier())
        # repair c07e-01: a leading run of two or more underscores is collapsed to one (a name that starts
        # with two underscores is mangled inside a class body)
        return re.sub(r"^__+", "_", re.sub(r"^[^a-zA-Z_]+", "", kept))
    return own_case(case, s)


def ref_safe_name(name, prefix, case, depth=0):
    """Documented Filters.safe_name; None = does not terminate."""
    if depth > 40:
        return None
    nxt = lambda n: ref_safe_name(n, prefix, case, depth + 1)  # noqa: E731
    if not name:
        return nxt(prefix)
    if re.fullmatch(r"-\d*\.?\d+\n?", name):
        return nxt(f"{prefix}_minus_{name}")
    slug = own_slug(name)
    if not slug or not slug[0].isalpha():
        return nxt(f"{prefix}_{name}")
    result = ref_case(case, name)
    if result in DOC_STOP_WORDS:
        return nxt(f"{name}_{prefix}")
    return result


def ref_clean_uri(ns):
    if ns[:2] == "##":
        ns = ns[2:]
    left, sep, right = ns.partition(":")
    if not right:
        left, right = None, left
    if left == "urn":
        ns = right
    elif left in ("http", "https"):
        ns = right[2:]
    return "_".join(x for x in ns.split(".") if x not in DOC_URI_IGNORE)


def ref_rename(spec):
    """Documented ClassUtils.rename_duplicate_attributes on [{tag,name,ns}] -> names."""
    names = [x["name"] for x in spec]
    groups = {}
    for i, x in enumerate(spec):
        groups.setdefault(own_slug(x["name"]) or "value", []).append(i)
    for g in groups.values():
        if len(g) == 2 and spec[g[0]]["tag"] != "Enumeration":
            i, j = g
            a, b = spec[i], spec[j]
            if a["tag"] == b["tag"] and (a["ns"] or b["ns"]):
                k = j if b["ns"] else i
                names[k] = f"{ref_clean_uri(spec[k]['ns'])}_{names[k]}"
            else:
                k = j if b["tag"] in ("Attribute", "AnyAttribute") else i
                names[k] = f"{names[k]}_{spec[k]['tag']}"
            reserved = {own_slug(n) for m, n in enumerate(names) if m != k}
            if own_slug(names[k]) in reserved:
                idx = 1
                while own_slug(f"{names[k]}_{idx}") in reserved:
                    idx += 1
                names[k] = f"{names[k]}_{idx}"
        elif len(g) > 1:
            for k in g[1:]:
                reserved = {own_slug(n) for n in names}
                if own_slug(names[k]) in reserved:
                    idx = 1
                    while own_slug(f"{names[k]}_{idx}") in reserved:
                        idx += 1
                    names[k] = f"{names[k]}_{idx}"
    return names


def ref_field_names(spec):
    names = ref_rename(spec)
    return names, [
        ref_safe_name(n, "value", "screamingSnakeCase" if x["tag"] == "Enumeration" else "snakeCase")
        for n, x in zip(names, spec)
    ]


def importable_name(n):
    """Can `n` be used as a class/field/module name in Python source?"""
    if not isinstance(n, str) or not n.isidentifier() or keyword.iskeyword(n):
        return False
    try:
        ast.parse(f"class X:\n    {n}: int = 0\nimport {n}\n")
    except SyntaxError:
        return False
    return True


def nonxid_word_chars(s):
    return [c for c in s if re.match(r"\w", c) and not ("a" + c).isidentifier()]


def prefix_ok(p):
    slug = own_slug(p)
    return bool(slug) and slug[0].isalpha()


KIND_CONV = {
    "class": ("pascalCase", "type"),
    "field": ("snakeCase", "value"),
    "constant": ("screamingSnakeCase", "value"),
    "module": ("snakeCase", "mod"),
    "package": ("snakeCase", "pkg"),
}


def oracle_ident(a):
    s = a["s"]
    try:
        if "kind" in a:
            io = impl_filter(a)
        else:
            # a user convention: through the generator's own entry (Filters(config)), which may
            # reject the convention with its own error type
            c = GeneratorConfig()
            c.conventions.field_name.case = NameCase(a["case"])
            c.conventions.field_name.safe_prefix = a["prefix"]
            try:
                f = _filters(c)
            except CodegenError:
                return None
            io = _guard(lambda: f.field_name(s, "cls"))
    except Exception as e:  # noqa: BLE001
        return f"name filter raised {type(e).__name__}"
    what = a.get("kind") or f"safe_name[{a['case']},{a['prefix']!r}]"
    if "err" in io:
        return f"{what}({s!r}) raised {io['err'].replace('LEAK:', '')}: not the generator's own error type"
    out = io["ok"]
    if a.get("kind") == "package" and s == "":
        return None  # no package: legitimate
    parts = out.split(".") if a.get("kind") == "package" and s else [out]
    for p in parts:
        if not importable_name(p):
            why = "a Python keyword" if keyword.iskeyword(p) else "not an identifier"
            return f"{what}({s!r}) = {out!r}: {p!r} is {why}"
    # names written inside a class body (classes, fields, enum members): a name that starts with two
    # underscores and does not end with two is rewritten by the compiler (`T.__a` -> `T._T__a`)
    if a.get("kind") in (None, "class", "field", "constant") and out.startswith("__") and not out.endswith("__"):
        return f"{what}({s!r}) = {out!r}: name-mangled inside a class body"
    return None


def covered_ident(a, msg):
    return None  # no listed finding concerns a single name any more


def gen_oracle_ident(rng, tier):
    words = keyword.kwlist + keyword.softkwlist + sorted(DOC_STOP_WORDS) + ["print", "exec", "nonlocal_", "Await"]
    for w in words:
        for v in (w, w.lower(), w.upper(), w.capitalize(), "_" + w, w + "-", w[:2] + "-" + w[2:]):
            for k in KINDS:
                yield {"kind": k, "s": v}
            for c in CASES:
                yield {"case": c, "prefix": "value", "s": v}
    for s in _names(rng, tier, 3, 3000):
        for k in KINDS:
            yield {"kind": k, "s": s}
        for c in CASES:
            yield {"case": c, "prefix": rng.choice(DEFAULT_PREFIXES), "s": s}


def final_field_names(spec, config=None):
    f = _filters(config) if config else F()
    target = Class(qname="t", tag=Tag.COMPLEX_TYPE, location="l", attrs=mk_attrs(spec))
    ClassUtils.rename_duplicate_attributes(target)
    out = []
    for x in target.attrs:
        out.append(f.constant_name(x.name, "t") if x.is_enumeration else f.field_name(x.name, "t"))
    return [x.name for x in target.attrs], out


def oracle_fields(a):
    spec = a["attrs"]
    try:
        renamed, finals = final_field_names(spec)
    except Exception as e:  # noqa: BLE001
        return f"renaming/naming raised {type(e).__name__}: {e}"
    for x, n in zip(spec, finals):
        if not importable_name(n):
            return f"attr {x['name']!r} becomes field {n!r}, not an importable name"
    seen = {}
    for i, n in enumerate(finals):
        if n in seen:
            j = seen[n]
            return (f"attrs #{j} {spec[j]['name']!r}({spec[j]['tag']}) and #{i} {spec[i]['name']!r}({spec[i]['tag']}) "
                    f"both become field {n!r} (after renaming: {renamed[j]!r}, {renamed[i]!r})")
        seen[n] = i
    return None


def _collisions(finals):
    by = {}
    for i, n in enumerate(finals):
        by.setdefault(n, []).append(i)
    return [(g[0], j) for g in by.values() if len(g) > 1 for j in g[1:]]


def covered_fields(a, msg):
    spec = a["attrs"]
    try:
        renamed, finals = final_field_names(spec)
    except Exception:  # noqa: BLE001
        return None
    ref_names, ref_finals = ref_field_names(spec)
    if finals != ref_finals:
        return None  # the implementation no longer does what is documented: not a known finding
    if "both become field" not in msg:
        return None
    ids = set()
    for i, j in _collisions(finals):
        if own_slug(ref_names[i]) != own_slug(ref_names[j]):
            # different slugs after the documented renaming: only safe_name's rewriting makes them equal
            ids.add("C07-safe-prefix-collision")
        else:
            return None
    return sorted(ids)[0] if ids else None


def gen_oracle_fields(rng, tier):
    yield from gen_rename_attrs(rng, "quick")


def _own_ns(qname):
    """namespace part of `{ns}name` (own reading of the Clark notation, not xsdata's helper)"""
    return qname[1:qname.index("}")] if qname.startswith("{") and "}" in qname else None


def oracle_classes(a):
    try:
        objs = run_rename_classes(a)
    except Exception as e:  # noqa: BLE001
        return f"RenameDuplicateClasses raised {type(e).__name__}: {e}"
    f = F()
    config_unique = a["style"] in ("single-package", "clusters") or len({c["location"] for c in a["classes"]}) == 1
    finals = []
    for o in objs:
        try:
            finals.append(f.class_name(o.name))
        except Exception as e:  # noqa: BLE001
            return f"class_name({o.name!r}) raised {type(e).__name__}"
    for o, n in zip(objs, finals):
        if not importable_name(n):
            return f"class {o.qname!r} is named {n!r}, not an importable name"
    for i in range(len(objs)):
        for j in range(i):
            same_scope = config_unique or (
                _own_ns(a["classes"][i]["qname"]) == _own_ns(a["classes"][j]["qname"])
            )
            if same_scope and finals[i] == finals[j]:
                return (f"classes #{j} {a['classes'][j]['qname']!r} and #{i} {a['classes'][i]['qname']!r} "
                        f"both end up as class {finals[i]!r} (qnames {objs[j].qname!r}, {objs[i].qname!r})")
    return None


def covered_classes(a, msg):
    return None  # no listed finding about RenameDuplicateClasses any more


def gen_oracle_classes(rng, tier):
    yield from gen_rename_classes(rng, "quick")


def oracle_fresh(a):
    """unique_name / next_qname / next_available_name must return a name whose slug is free."""
    kind = a["fn"]
    try:
        if kind == "unique_name":
            out = ClassUtils.unique_name(a["name"], set(a["reserved"]))
            taken = set(a["reserved"])
            key = own_slug(out)
        elif kind == "next_qname":
            io = impl_next_qname(a)
            if "err" in io:
                return f"next_qname raised {io['err']}"
            out = io["ok"]
            taken = set(a["reserved"])
            key = own_slug(out.split("}")[-1] if a["use_names"] and out.startswith("{") else out)
        else:
            io = impl_next_available_name(a)
            if "err" in io:
                return f"next_available_name raised {io['err']}"
            out = io["ok"]
            taken = {own_slug(n.split("}")[-1] if n.startswith("{") else n) for n in a["inner"]}
            key = own_slug(out)
    except Exception as e:  # noqa: BLE001
        return f"{kind} raised {type(e).__name__}"
    if key in taken:
        return f"{kind}({a['name']!r}) returned {out!r} whose slug {key!r} is already taken"
    return None


def adapt_fresh(op, a):
    return {**a, "fn": op.split(".", 1)[1]}


def gen_oracle_fresh(rng, tier):
    for a in gen_unique_name(rng, tier):
        yield adapt_fresh("names.unique_name", a)
    for a in gen_next_qname(rng, tier):
        yield adapt_fresh("names.next_qname", a)
    for a in gen_next_available_name(rng, tier):
        yield adapt_fresh("names.next_available_name", a)


# ---- end-to-end on the real pipeline (no rendering: jinja2 is absent)

logging.getLogger("xsdata").setLevel(logging.CRITICAL)
XS = "http://www.w3.org/2001/XMLSchema"
XML_NAMES = [
    "a", "A", "a_", "_a", "a-b", "a.b", "aB", "AB", "class", "Class", "None", "await", "type", "Type", "value", "Value",
    "value_1", "_1", "é", "名", "a名", "a_Attribute", "a_Element", "class_value", "type_1", "NoneType", "a1", "a_1",
    "_", "__", "a⁰", "str", "self", "Meta", "QName", "list", "x-1", "x_1", "x1", "Any", "import",
    "def", "field", "Field", "a-Attribute", "yield", "async", "match", "\u2fe0", "__a",
]
ENUM_VALUES = ["1", "value_1", "a", "A", "-1", "1.0", "", " ", "a b", "a-b", "class", "None", "await", "é", "名", "+", "_", "-", "VALUE_1", "value-1", "#", "1a"]


def build_xsd(spec):
    def esc(s):
        return s.replace("&", "&amp;").replace('"', "&quot;").replace("<", "&lt;")

    out = [f'<xs:schema xmlns:xs="{XS}"' + (f' targetNamespace="{esc(spec["tns"])}" xmlns="{esc(spec["tns"])}"' if spec.get("tns") else "") + ">"]
    for t in spec["types"]:
        # elements: a name (xs:string), [name, type] (a complexType of the schema, optional) or
        # [name, None, [inner elements]] (anonymous complexType = inner class);
        # "model": sequence | choice (repeating choice: compound field material); "base": extension
        out.append(f'<xs:complexType name="{esc(t["name"])}"' + (' abstract="true"' if t.get("abstract") else "") + ">")
        if t.get("base"):
            out.append(f'<xs:complexContent><xs:extension base="{esc(t["base"])}">')
        model = t.get("model", "sequence")
        out.append('<xs:choice maxOccurs="unbounded">' if model == "choice" else "<xs:sequence>")
        def emit(e, top):
            # a name (xs:string), [name, type] or [name, None, [elements]] (anonymous complexType, any depth)
            if isinstance(e, str):
                out.append(f'<xs:element name="{esc(e)}" type="xs:string"/>')
            elif len(e) == 4:
                # [name, type | None, [elements] | None, occurrence "1" | "+" | "?" | "*"]: the same three
                # kinds of element with an explicit occurrence (REQUIRED typed / anonymous elements are what
                # CreateWrapperFields looks at; the short forms above make them optional)
                occ = {"1": "", "+": ' maxOccurs="unbounded"', "?": ' minOccurs="0"', "*": ' minOccurs="0" maxOccurs="unbounded"'}[e[3]]
                if e[2] is not None:
                    out.append(f'<xs:element name="{esc(e[0])}"{occ}><xs:complexType><xs:sequence>')
                    for ie in e[2]:
                        emit(ie, False)
                    out.append("</xs:sequence></xs:complexType></xs:element>")
                else:
                    out.append(f'<xs:element name="{esc(e[0])}" type="{esc(e[1]) if e[1] else "xs:string"}"{occ}/>')
            elif len(e) == 2:
                out.append(f'<xs:element name="{esc(e[0])}" type="{esc(e[1])}" minOccurs="0"/>')
            else:
                out.append(f'<xs:element name="{esc(e[0])}" minOccurs="0"><xs:complexType><xs:sequence>')
                for ie in e[2]:
                    emit(ie, False)
                out.append("</xs:sequence></xs:complexType></xs:element>")

        for e in t["elements"]:
            emit(e, True)
        out.append("</xs:choice>" if model == "choice" else "</xs:sequence>")
        for at in t["attributes"]:
            out.append(f'<xs:attribute name="{esc(at)}" type="xs:string"/>')
        if t.get("base"):
            out.append("</xs:extension></xs:complexContent>")
        out.append("</xs:complexType>")
    for el in spec["elements"]:
        out.append(f'<xs:element name="{esc(el["name"])}" type="{esc(el["type"])}"/>')
    for en in spec["enums"]:
        out.append(f'<xs:simpleType name="{esc(en["name"])}"><xs:restriction base="xs:string">')
        for v in en["values"]:
            out.append(f'<xs:enumeration value="{esc(v)}"/>')
        out.append("</xs:restriction></xs:simpleType>")
        out.append(f'<xs:element name="{esc(en["name"])}_el" type="{esc(en["name"])}"/>')
    out.append("</xs:schema>")
    return "\n".join(out)


def build_xsd2(spec):
    """two schema files in two namespaces: a.xsd imports b.xsd, extends its types and has elements of
    its types (cross-module imports, base classes defined in another module)"""
    def esc(s):
        return s.replace("&", "&amp;").replace('"', "&quot;").replace("<", "&lt;")

    b = build_xsd({"tns": spec["tns_b"], "types": spec["b_types"], "elements": [], "enums": spec.get("b_enums", [])})
    out = [f'<xs:schema xmlns:xs="{XS}" targetNamespace="{esc(spec["tns_a"])}" xmlns="{esc(spec["tns_a"])}" '
           f'xmlns:b="{esc(spec["tns_b"])}"><xs:import namespace="{esc(spec["tns_b"])}" schemaLocation="b.xsd"/>']
    for t in spec["a_types"]:
        out.append(f'<xs:complexType name="{esc(t["name"])}">')
        if t.get("base"):
            out.append(f'<xs:complexContent><xs:extension base="b:{esc(t["base"])}">')
        out.append("<xs:sequence>")
        for e in t["elements"]:
            out.append(f'<xs:element name="{esc(e)}" type="xs:string"/>')
        for e, bt in t.get("refs", []):
            out.append(f'<xs:element name="{esc(e)}" type="b:{esc(bt)}" minOccurs="0" maxOccurs="unbounded"/>')
        out.append("</xs:sequence>")
        if t.get("base"):
            out.append("</xs:extension></xs:complexContent>")
        out.append("</xs:complexType>")
        out.append(f'<xs:element name="{esc(t["name"])}_el" type="{esc(t["name"])}"/>')
    out.append("</xs:schema>")
    return {"a.xsd": "\n".join(out), "b.xsd": b}


OPT_KEYS = {"style": "structure_style", "compound": "compound_fields", "unnest": "unnest_classes"}


def generate(a):
    """The REAL generation run (harness/codegen_run.py): transformer.process -> analyzer ->
    CodeWriter with the stand-in for the Jinja2 templates -> files on disk -> validate_imports ->
    import of every generated module. Returns codegen_run.Generated (close() it)."""
    import codegen_run as CG

    opts = a.get("opts", {})
    kw = {}
    for k, v in opts.items():
        if k in ("field_case", "class_case", "wrapper"):
            continue
        kw[OPT_KEYS.get(k, k)] = v
    entry = None
    if a["kind"] == "xsd":
        sources = {"s.xsd": build_xsd(a["spec"])}
    elif a["kind"] == "xsd2":
        sources = build_xsd2(a["spec"])
        entry = ["a.xsd"]
    elif a["kind"] == "json":
        sources = {"s.json": json.dumps(a["doc"], ensure_ascii=False)}
    else:
        sources = {"s.xml": a["doc"]}
    orig = CG.make_config

    def mk(package, **o):
        cfg = orig(package, **o)
        cfg.output.wrapper_fields = bool(opts.get("wrapper"))
        for k, attr in (("field_case", "field_name"), ("class_case", "class_name")):
            if opts.get(k):
                getattr(cfg.conventions, attr).case = NameCase(opts[k])
        return cfg

    CG.make_config = mk
    try:
        return CG.run_pipeline(sources, entry=entry, **kw)
    finally:
        CG.make_config = orig


def _meta_name(node):
    for st in node.body:
        if isinstance(st, ast.ClassDef) and st.name == "Meta":
            for x in st.body:
                if isinstance(x, ast.Assign) and getattr(x.targets[0], "id", None) == "name" and isinstance(x.value, ast.Constant):
                    return x.value.value
    return None


def _field_local_name(st):
    """the XML name of a generated field: metadata["name"] when present, else the field name"""
    v = st.value
    if isinstance(v, ast.Call):
        for kwd in v.keywords:
            if kwd.arg == "metadata" and isinstance(kwd.value, ast.Dict):
                for k, val in zip(kwd.value.keys, kwd.value.values):
                    if isinstance(k, ast.Constant) and k.value == "name" and isinstance(val, ast.Constant):
                        return val.value
    return st.target.id


def _field_refs(st):
    """(XML name, type source) pairs of one generated field: the field itself and, for a compound
    field, every entry of metadata["choices"]"""
    own = [(_field_local_name(st), ast.unparse(st.annotation))]
    out = []
    v = st.value
    if isinstance(v, ast.Call):
        for kwd in v.keywords:
            if kwd.arg == "metadata" and isinstance(kwd.value, ast.Dict):
                for k, val in zip(kwd.value.keys, kwd.value.values):
                    if isinstance(k, ast.Constant) and k.value == "choices" and isinstance(val, (ast.Tuple, ast.List)):
                        for ch in val.elts:
                            if isinstance(ch, ast.Dict):
                                d = {kk.value: vv for kk, vv in zip(ch.keys, ch.values) if isinstance(kk, ast.Constant)}
                                if "type" in d:
                                    nm = d.get("name")
                                    out.append((nm.value if isinstance(nm, ast.Constant) else None, ast.unparse(d["type"])))
    return out or own  # the elements of a compound field are its choices


def scan_class(node):
    is_enum = any(getattr(b, "id", None) == "Enum" for b in node.bases)
    members, inner, refs = [], [], []
    for st in node.body:
        if isinstance(st, ast.AnnAssign) and isinstance(st.target, ast.Name):
            members.append((st.target.id, _field_local_name(st)))
            refs.extend(_field_refs(st))
        elif is_enum and isinstance(st, ast.Assign) and isinstance(st.targets[0], ast.Name):
            val = st.value.value if isinstance(st.value, ast.Constant) else ast.unparse(st.value)
            members.append((st.targets[0].id, val if isinstance(val, str) else repr(val)))
        elif isinstance(st, ast.ClassDef) and st.name != "Meta":
            inner.append(st)
    return {"name": node.name, "local": _meta_name(node) or node.name, "enum": is_enum, "members": members, "inner": inner,
            "refs": refs}


def _refers_to(type_src, dotted):
    return re.search(r"(?<![\w.])" + re.escape(dotted) + r"(?![\w.])", type_src) is not None


def scan_failures(srcs, opts):
    """What the files that were really written contain. Returns (fatal, duplicates): `fatal` = a file
    is not valid Python (nothing else can be looked at); `duplicates` = one message per duplicate
    member name / inner class name / module-level class name, in file and source order."""
    dups = []
    for rel, text_ in sorted(srcs.items()):
        try:
            tree = ast.parse(text_)
        except SyntaxError as e:
            return f"generated module {rel} is not valid Python: SyntaxError: {e.msg}: {(e.text or '').strip()[:60]!r}", dups
        if rel.endswith("__init__.py"):
            continue
        top = {}

        def walk(node, path):
            info = scan_class(node)
            names = [m[0] for m in info["members"]]
            for d in [n for n in dict.fromkeys(names) if names.count(n) > 1]:
                srcs_ = [loc for n, loc in info["members"] if n == d]
                conv = "screamingSnakeCase" if info["enum"] else opts.get("field_case", "snakeCase")
                dups.append(f"class {info['name']} of {[m[1] for m in info['members']]!r}: members {srcs_!r} "
                            f"all become {d!r} ({conv})")
            inames = [i.name for i in info["inner"]]
            for d in [n for n in dict.fromkeys(inames) if inames.count(n) > 1]:
                # the XML names of the fields / choices whose type is the inner class of that name
                users = list(dict.fromkeys(loc for loc, tsrc in info["refs"] if _refers_to(tsrc, path + "." + d)))
                dups.append(f"class {path}: duplicate inner class names {inames!r}: {inames.count(d)} classes {d!r} "
                            f"for the fields {users!r} of {info['local']!r}")
            for i in info["inner"]:
                walk(i, path + "." + i.name)

        for node in tree.body:
            if isinstance(node, ast.ClassDef):
                loc = _meta_name(node) or node.name
                if node.name in top:
                    dups.append(f"module {rel}: classes {top[node.name]!r} and {loc!r} are both named {node.name!r}")
                top[node.name] = loc
                walk(node, node.name)
    return None, dups


def scan_sources(srcs, opts):
    """first failure of `scan_failures` (or None)"""
    fatal, dups = scan_failures(srcs, opts)
    return fatal or (dups[0] if dups else None)


def bind_and_instantiate(g):
    """every generated class: binding metadata + an instance"""
    import dataclasses
    import enum

    from xsdata.formats.dataclass.context import XmlContext

    ctx = XmlContext()
    seen = set()

    def visit(cls):
        if id(cls) in seen:
            return None
        seen.add(id(cls))
        if issubclass(cls, enum.Enum):
            try:
                list(cls)
            except Exception as e:  # noqa: BLE001
                return f"enum {cls.__qualname__} cannot be listed: {type(e).__name__}: {e}"
            return None
        try:
            ctx.build_recursive(cls)
        except Exception as e:  # noqa: BLE001
            return f"class {cls.__qualname__}: XmlContext.build_recursive raised {type(e).__name__}: {str(e)[:100]}"
        try:
            kwargs = {f.name: None for f in dataclasses.fields(cls)
                      if f.init and f.default is dataclasses.MISSING and f.default_factory is dataclasses.MISSING}
            cls(**kwargs)
        except Exception as e:  # noqa: BLE001
            return f"class {cls.__qualname__} cannot be instantiated: {type(e).__name__}: {str(e)[:100]}"
        for v in vars(cls).values():
            if isinstance(v, type) and v.__name__ != "Meta" and (dataclasses.is_dataclass(v) or issubclass(v, enum.Enum)):
                m = visit(v)
                if m:
                    return m
        return None

    for mname, mod in sorted(g.modules.items()):
        for v in list(vars(mod).values()):
            if isinstance(v, type) and getattr(v, "__module__", None) == mname and (
                dataclasses.is_dataclass(v) or issubclass(v, enum.Enum)
            ):
                m = visit(v)
                if m:
                    return m
    return None


def _has_empty_key(o):
    if isinstance(o, dict):
        return any(k == "" or _has_empty_key(v) for k, v in o.items())
    if isinstance(o, list):
        return any(_has_empty_key(v) for v in o)
    return False


def masked_import_error(g, opts, a):
    """`ResourceTransformer.process` reports *every* ImportError of `validate_imports` as
    CodegenError("Circular Dependencies Found"). That is the generator's own error type for the one
    situation these sources can produce that it cannot lay out — a module file next to a package
    directory of the same name — but it must not hide a package that simply does not import."""
    kind = a["kind"]
    cause = g.error.__cause__ or g.error.__context__
    if not isinstance(cause, ImportError):
        # CodegenError is the generator's answer to input it cannot handle; the consistency checks of
        # ValidateReferences / DependenciesResolver / the container failing on a *valid* source is an
        # internal error in disguise
        text_ = str(g.error)
        # the generator's documented answers to input it cannot handle, each only where it applies:
        # a JSON sample with an empty key. (No source of this oracle sets a safe prefix, so "Invalid safe
        # prefix" would be a rejection of the defaults; none has types of two namespaces that need each
        # other, so "Found strongly connected types from different namespaces" has no legitimate cause.)
        if text_.startswith("Json keys can not be empty") and kind == "json" and _has_empty_key(a["doc"]):
            return None
        return f"generation gave up on a valid source with an internal consistency error: CodegenError({text_!r}, {getattr(g.error, 'meta', {})!r})"[:300]
    style = opts.get("style", "filenames")
    what = (f"the generated package does not import ({type(cause).__name__}: {str(cause).split(' (')[0][:110]}), "
            f"reported as CodegenError('{g.error}') under structure style {style}")
    if kind != "xsd2":
        # one schema file / one sample, one namespace: every style has a layout for it (one module, or
        # one module per cluster), so nothing can excuse an ImportError
        return what
    files = set(g.sources())
    # layout limit: module `p/m.py` and package `p/m/` (two namespaces whose package paths nest / a class
    # and a namespace of one name): the import system finds the package where the module was meant.
    # Only an ImportError about that very module is this limit.
    clashing = [f[:-3].replace("/", ".") for f in files
                if f.endswith(".py") and not f.endswith("__init__.py") and f[:-3] + "/__init__.py" in files]
    if any(f"'{m}'" in str(cause) or f"'{m}." in str(cause) for m in clashing):
        return None
    # (The sources of this oracle never make the imported schema refer back to the importing one, and a
    # sample's child elements never refer to their parents: a cycle between modules — "partially
    # initialized module", "Found strongly connected types from different namespaces" — has no
    # legitimate cause here and is reported.)
    return what


def pipeline_failures(a):
    """Every way the real generation run on `a` fails the property, in the order it is looked at:
    files that do not compile; duplicate members / inner classes / module-level classes (all of
    them, read from the written files); an exception other than a justified CodegenError out of the
    generation or out of importing the package; a class that does not bind / instantiate."""
    g = generate(a)
    try:
        opts = a.get("opts", {})
        fatal, msgs = scan_failures(g.sources(), opts)
        if fatal:
            return [fatal]
        msgs = list(msgs)
        if g.error is not None:
            if isinstance(g.error, CodegenError):
                m = masked_import_error(g, opts, a)  # the generator's own error type, unless it hides a defect
                if m:
                    msgs.append(m)
            elif isinstance(g.error, (KeyboardInterrupt, SystemExit)):
                raise g.error
            else:
                msgs.append(f"generation raised {type(g.error).__name__}: {str(g.error)[:80]} (not CodegenError)")
        else:
            m = bind_and_instantiate(g)
            if m:
                m2 = re.search(r"Error on ([\w.]+)::(\w+): Compound field contains ambiguous types", m)
                if m2:
                    m += f"; choice types {_choice_types(g.sources(), m2.group(1), m2.group(2))!r}"
                m = _explain_clash(m, g.sources())
                msgs.append(m)
        return _drop_restatements(msgs)
    finally:
        g.close()


def _choice_types(srcs, qualname, field_name):
    """type sources of the choices of field `field_name` of the generated class `qualname`"""
    for rel, text_ in sorted(srcs.items()):
        if rel.endswith("__init__.py"):
            continue
        body = ast.parse(text_).body
        node = None
        for part in qualname.split("."):
            node = next((x for x in body if isinstance(x, ast.ClassDef) and x.name == part), None)
            if node is None:
                break
            body = node.body
        if node is None:
            continue
        for st in node.body:
            if isinstance(st, ast.AnnAssign) and isinstance(st.target, ast.Name) and st.target.id == field_name:
                return [t for _, t in _field_refs(st)]
    return []


def _find_class(srcs, qualname):
    for rel, text_ in sorted(srcs.items()):
        if rel.endswith("__init__.py"):
            continue
        body = ast.parse(text_).body
        node = None
        for part in qualname.split("."):
            node = next((x for x in body if isinstance(x, ast.ClassDef) and x.name == part), None)
            if node is None:
                break
            body = node.body
        if node is not None:
            return node
    return None


def _field_inner_clashes(srcs):
    """[(class qualname, field name, XML name of the field, kind, XML names of the fields / choices that
    use the class of that name)] for every generated class with a field called like a class its type
    hints refer to: kind "inner" = one of its inner classes (the class statement, which comes after the
    fields, replaces the field's `field(...)` default — its metadata is gone — and under `slots=True`
    the slot descriptor replaces the class in turn); kind "module" = a module-level class (the class
    namespace is searched first when the hints are resolved: the slot / default is found instead)"""
    out = []
    trees = [ast.parse(text_).body for rel, text_ in sorted(srcs.items()) if not rel.endswith("__init__.py")]
    top = {node.name for body in trees for node in body if isinstance(node, ast.ClassDef)}

    def walk(node, path):
        info = scan_class(node)
        inames = [i.name for i in info["inner"]]
        for n, loc in info["members"]:
            if n in inames:
                users = list(dict.fromkeys(l2 for l2, tsrc in info["refs"] if _refers_to(tsrc, path + "." + n)))
                out.append((path, n, loc, "inner", users))
            elif n in top:
                users = list(dict.fromkeys(l2 for l2, tsrc in info["refs"] if _refers_to(tsrc, n)))
                if users:
                    out.append((path, n, loc, "module", users))
        for i in info["inner"]:
            walk(i, path + "." + i.name)

    for body in trees:
        for node in body:
            if isinstance(node, ast.ClassDef):
                walk(node, node.name)
    return out


_CLASH_KINDS = (
    r"XmlContextError: Error on ([\w.]+)::(\w+): Xml \w+ does not support typing",  # the metadata of the field is gone / its type is the slot
    r"TypeError: unsupported operand type\(s\) for \|: '[\w.]+' and 'member_descriptor'",  # slots: `None | T.b` finds the slot
)


def _explain_clash(m, srcs):
    """append what the sources show to a binding failure of the two kinds a field / inner class name
    clash produces"""
    m1 = re.search(_CLASH_KINDS[0], m)
    m2 = re.search(_CLASH_KINDS[1], m)
    if not (m1 or m2):
        return m
    clashes = _field_inner_clashes(srcs)
    if m1:
        # (the class named in the error may have inherited the field from the class with the clash)
        same = [c for c in clashes if c[1] == m1.group(2)]
        # with slots the hint that breaks belongs to ANOTHER field of the class (its type `T.AB` finds the slot member
        # `AB` of the clashing field): fall back to the clashes of the class named in the error
        clashes = [c for c in same if c[0] == m1.group(1)] or same or [c for c in clashes if c[0] == m1.group(1)]
    if not clashes:
        return m
    if m1:  # (the type in the message carries the scratch package name: leave it out)
        m = re.sub(r"(: Xml \w+ does not support typing).*$", r"\1 a collection", m, flags=re.S)
    q, f, loc, kind, users = clashes[0]
    return m + f"; field {f!r} (element {loc!r}) is also the name of the {kind} class that the hints of {q} use for the elements {users!r}"


def _drop_restatements(msgs):
    """The interpreter's own words for a duplicate that is already in the list say nothing new: an
    Enum body that defines member F twice makes the import fail with TypeError `'F' already defined` /
    `Attempted to reuse key: 'F'` — the same failure as `members [..] all become 'F'` of an Enum."""
    enum_dups = {m2.group(1) for x in msgs for m2 in [re.search(r"all become '([^']*)' \(screamingSnakeCase\)$", x)] if m2}
    out = []
    for x in msgs:
        m2 = re.match(r"generation raised TypeError: (?:'([^']*)' already defined as|Attempted to reuse key: '([^']*)')", x)
        if m2 and (m2.group(1) or m2.group(2)) in enum_dups:
            continue
        out.append(x)
    return out


def oracle_pipeline(a):
    """End to end on the real generator: generation ends (only CodegenError may escape), every file
    written is valid Python without duplicate members / classes, every module imports, every class
    yields binding metadata and an instance. Of several failures on one input the first one that no
    listed finding explains is returned (a listed finding suppresses the failure it describes, not
    whatever else goes wrong with a source that happens to contain it)."""
    msgs = pipeline_failures(a)
    for m in msgs:
        if not covered_pipeline(a, m, msgs):
            return m
    return msgs[0] if msgs else None


def generated_members(a, class_local="t"):
    """python member names, in source order (duplicates kept), of the generated class whose XML
    name is `class_local` — read from the files the real writer produced"""
    g = generate(a)
    try:
        srcs = g.sources()
        for rel, text_ in sorted(srcs.items()):
            if rel.endswith("__init__.py"):
                continue
            for node in ast.parse(text_).body:
                if isinstance(node, ast.ClassDef) and class_local in (_meta_name(node), node.name.lower()):
                    return [m[0] for m in scan_class(node)["members"]]
        raise RuntimeError(f"class {class_local!r} not generated: {g.error!r}")
    finally:
        g.close()


def _element_names(elements):
    """names of the elements of a type spec, anonymous types included (any depth)"""
    out = []
    for e in elements:
        out.append(e if isinstance(e, str) else e[0])
        if not isinstance(e, str) and len(e) > 2:
            out += _element_names(e[2] or [])
    return out


def _all_names(a):
    if a["kind"] == "xsd":
        sp = a["spec"]
        out = [seg for seg in re.split(r"[:/.]", sp.get("tns") or "") if seg]
        for t in sp["types"]:
            out += [t["name"], *t["attributes"]]
            out += _element_names(t["elements"])
        out += [e["name"] for e in sp["elements"]]
        for en in sp["enums"]:
            out += [en["name"], *en["values"]]
        return out
    if a["kind"] == "xsd2":
        sp = a["spec"]
        out = [seg for tns in (sp["tns_a"], sp["tns_b"]) for seg in re.split(r"[:/.]", tns) if seg]
        for t in sp["b_types"]:
            out += [t["name"], *t["elements"], *t["attributes"]]
        for en in sp.get("b_enums", []):
            out += [en["name"], en["name"] + "_el", *en["values"]]
        for t in sp["a_types"]:
            out += [t["name"], t["name"] + "_el", *t["elements"], *[r[0] for r in t.get("refs", [])]]
        return out
    if a["kind"] == "json":
        out = []

        def w(o):
            if isinstance(o, dict):
                for k, v in o.items():
                    out.append(k)
                    w(v)
            elif isinstance(o, list):
                for v in o:
                    w(v)

        w(a["doc"])
        return out
    doc = a["doc"]
    return re.findall(r"<([^\s/>!?][^\s/>]*)", doc) + re.findall(r"\s([^\s=<>\"']+)=", doc)


def _class_source_names(a):
    """the source names that can become classes (complex types, global and local elements,
    enumerations; for samples every element / key), as opposed to attribute names, enumeration
    values and namespace segments"""
    if a["kind"] == "xsd":
        sp = a["spec"]
        out = [t["name"] for t in sp["types"]] + [e["name"] for e in sp["elements"]]
        for t in sp["types"]:
            # an element with an anonymous type is an inner class; any element of a repeating choice
            # may get a class of its own (DisambiguateChoices)
            out += _element_names(t["elements"])
        for en in sp["enums"]:
            out += [en["name"], en["name"] + "_el"]
        return out
    if a["kind"] == "xsd2":
        sp = a["spec"]
        out = [t["name"] for t in sp["b_types"]]
        for en in sp.get("b_enums", []):
            out += [en["name"], en["name"] + "_el"]
        for t in sp["b_types"]:
            out += list(t["elements"])
        for t in sp["a_types"]:
            out += [t["name"], t["name"] + "_el", *t["elements"], *[r[0] for r in t.get("refs", [])]]
        return out
    return _all_names(a)


def ref_inner_names(locals_, outer_local):
    """Documented VacuumInnerClasses on the inner classes named after the elements `locals_` of the
    class `outer_local`: an inner class called like its outer class gets `_Inner`, a later one whose
    slug is taken gets the next free index."""
    out, reserved = [], set()
    for n in locals_:
        if n == outer_local:
            n = f"{n}_Inner"
        if own_slug(n) in reserved:
            k = 1
            while own_slug(f"{n}_{k}") in reserved:
                k += 1
            n = f"{n}_{k}"
        reserved.add(own_slug(n))
        out.append(n)
    return out


def _wrapper_on_cycle(a):
    """C07-wrapper-field-drops-circular-flag, read off the SOURCE (xsd kind): some complex type T has a
    required single element whose class (a schema type without attributes / base, or an anonymous type)
    holds exactly one required element of a complex type D, and D leads back to T through element types,
    base types or the type of a global element (a class that extends its type). (Then DetectCircularReferences, which runs before CreateWrapperFields, has judged the
    reference T -> wrapper class; the wrapped field T -> D is a copy of the wrapper's attr, whose flag
    belongs to another class.)"""
    if a.get("kind") != "xsd" or not a.get("opts", {}).get("wrapper"):
        return False
    types = {t["name"]: t for t in a["spec"]["types"]}

    def refs(elements):
        out = set()
        for e in elements:
            if isinstance(e, str):
                continue
            if len(e) > 2 and e[2] is not None:
                out |= refs(e[2])
            elif e[1]:
                out.add(e[1])
        return out

    # a global element is a class of its own that extends its type; when a complexType has the same name, a
    # reference to that name may be resolved to either class (RenameDuplicateClasses tells them apart only
    # afterwards): the references of both count for that name
    el_types = {}
    for e in a["spec"]["elements"]:
        el_types.setdefault(e["name"], set()).add(e["type"])

    def succ(name):
        t = types.get(name)
        out = set(el_types.get(name, ()))
        if t:
            out |= refs(t["elements"]) | ({t["base"]} if t.get("base") else set())
        return out

    def reaches(src, dst):
        seen, todo = set(), [src]
        while todo:
            x = todo.pop()
            if x in seen:
                continue
            seen.add(x)
            todo.extend(succ(x))
        return dst in seen

    def single_required_complex(elements):
        if len(elements) != 1 or isinstance(elements[0], str) or len(elements[0]) != 4:
            return None
        e = elements[0]
        return e[1] if e[3] in ("1", "+") and e[2] is None and e[1] in types else None

    def walk(owner, elements):
        for e in elements:
            if isinstance(e, str) or len(e) != 4:
                continue
            if e[3] == "1":
                if e[2] is not None:
                    d = single_required_complex(e[2])
                else:
                    w = types.get(e[1])
                    d = single_required_complex(w["elements"]) if w and not w["attributes"] and not w.get("base") else None
                if d and reaches(d, owner):
                    return True
            if e[2] is not None and walk(owner, e[2]):
                return True
        return False

    return any(walk(t["name"], t["elements"]) for t in a["spec"]["types"])


def covered_pipeline(a, msg, msgs=None):
    """Is the failure `msg` of the end-to-end run on `a` one of the listed findings? (Returns its id.)
    C07-safe-prefix-collision: only a duplicate-name message can be, and only when the *documented*
    algorithm (reference: de-duplication on slugs, then `safe_name`) yields that very duplicate from
    names with different slugs. `msgs` = all failures of the run: a later failure that merely restates
    such a duplicate in the interpreter's / binding layer's words (a compound field whose choices name
    the duplicated class, an error that names the shadowed class) is the same failure.
    C07-field-named-like-inner-class: one failure kind, and the documented names of the elements involved
    must be the ones of the message. (C07-dunder-inner-class-mangled is repaired, c07e-01: an
    AttributeError for a mangled `T.__a` is a violation again.)"""
    if msg.startswith("generation gave up on a valid source with an internal consistency error: CodegenError('Circular Dependencies Found'"):
        # C07-wrapper-field-drops-circular-flag: the source has a wrapper candidate on a reference cycle, and
        # the very same source generates, imports and binds with wrapper_fields off
        if _wrapper_on_cycle(a):
            off = {**a, "opts": {**a.get("opts", {}), "wrapper": False}}
            if not any("Circular Dependencies Found" in x for x in pipeline_failures(off)):
                return "C07-wrapper-field-drops-circular-flag"
        return None
    m = re.search(r"Compound field contains ambiguous types; choice types (\[.*\])$", msg)
    if m:
        # two choices of one compound field have the same type. The same failure as a duplicate class
        # name iff every type that occurs twice is a class that a covered duplicate message names
        types = ast.literal_eval(m.group(1))
        twice = {t for t in types if types.count(t) > 1}
        dup_classes = []
        for other in msgs or []:
            if other is msg or not covered_pipeline(a, other):
                continue
            mi = re.match(r"class ([\w.]+): duplicate inner class names .*?: \d+ classes '(\w+)' for the fields", other)
            mm = re.search(r"are both named '(\w+)'$", other)
            if mi:
                dup_classes.append(mi.group(1) + "." + mi.group(2))
            elif mm:
                dup_classes.append(mm.group(1))
        if twice and all(any(_refers_to(t, d) for d in dup_classes) for t in twice):
            return "C07-safe-prefix-collision"
        return None
    m = re.search(r"(?:Xml \w+ does not support typing a collection|and 'member_descriptor'); field '(\w+)' \(element ('(?:[^'\\]|\\.)*')\) is also the name of the (inner|module) class that the hints of [\w.]+ use for the elements (\[.*\])$", msg)
    if m:
        # C07-field-named-like-inner-class: user conventions under which the documented field name of one
        # element and the documented class name of another source name coincide (impossible under the
        # default pair: snakeCase has no capital, pascalCase starts with one). An inner class is named
        # after the element that uses it; a module-level class after a type / element of the source.
        fname, local, kind, users = m.group(1), ast.literal_eval(m.group(2)), m.group(3), ast.literal_eval(m.group(4))
        o = a.get("opts", {})
        fcase, ccase = o.get("field_case", "snakeCase"), o.get("class_case", "pascalCase")
        var = lambda n: [n] + [f"{n}_{k}" for k in range(1, 10)]  # noqa: E731  (numeric suffixes of the renaming handlers)
        sources = [u for u in users if isinstance(u, str)] if kind == "inner" else _class_source_names(a)
        if (any(ref_safe_name(x, "value", fcase) == fname for x in var(local))
                and any(ref_safe_name(y, "type", ccase) == fname for u in sources for y in var(u))):
            return "C07-field-named-like-inner-class"
        return None
    m = re.match(r"(?:generation raised \w+: |class [\w.]+: XmlContext\.build_recursive raised |class [\w.]+ cannot be instantiated: |enum [\w.]+ cannot be listed: )(.*)$", msg, re.S)
    if m:
        # two module-level classes under one name: the first is shadowed, whatever refers to it gets the
        # other class (an Enum as base class, a dataclass as field type ...). A failure of the import /
        # binding stage that names that class is the same failure in the interpreter's words.
        for other in msgs or []:
            mm = re.search(r"are both named '(\w+)'$", other)
            if mm and other is not msg and covered_pipeline(a, other) and re.search(r"(?<![\w])" + re.escape(mm.group(1)) + r"(?![\w])", m.group(1)):
                return "C07-safe-prefix-collision"
        return None
    m = re.search(r"of (\[.*\]): members (\[.*\]) all become '([^']*)' \((\w+)\)", msg)
    if m:
        srcs = ast.literal_eval(m.group(2))
        final = m.group(3)
        conv = m.group(4)
        pfx = "value"
        # each colliding member under the name the handlers may have given it (the tag suffix of
        # rename_attribute_by_preference, the numeric suffix of unique_name): different slugs, yet the
        # documented safe_name maps all to `final`
        def variants(s0):
            stems = [s0, f"{s0}_Attribute", f"{s0}_Element"]
            return [v for st in stems for v in [st] + [f"{st}_{k}" for k in range(1, 10)] if ref_safe_name(v, pfx, conv) == final]

        vs = [variants(s0) for s0 in srcs]
        if all(vs) and len(srcs) > 1:
            for combo in itertools.product(*vs):
                slugs = [own_slug(v) for v in combo]
                if len(set(slugs)) == len(slugs):
                    return "C07-safe-prefix-collision"
        return None
    m = re.search(r"duplicate inner class names (\[.*?\]): (\d+) classes ('(?:[^'\\]|\\.)*') for the fields (\[.*\]) of ('(?:[^'\\]|\\.)*')$", msg)
    if m:
        n, dup, users, outer = int(m.group(2)), ast.literal_eval(m.group(3)), ast.literal_eval(m.group(4)), ast.literal_eval(m.group(5))
        ccase = a.get("opts", {}).get("class_case", "pascalCase")
        if any(not isinstance(u, str) for u in users):
            return None
        # the inner classes are named after the elements that use them; replay the documented
        # renaming of inner classes and the documented safe_name: exactly `n` of them (with pairwise
        # different slugs after the renaming) must come out as `dup`
        # (an inner class called like its outer class gets `_Inner` only if it exists when VacuumInnerClasses
        # runs; the classes DisambiguateChoices creates later do not: both replays are the documented behaviour)
        for outer_ in (outer, None):
            predicted = [ref_safe_name(x, "type", ccase) for x in ref_inner_names(users, outer_)]
            if n > 1 and predicted.count(dup) == n:
                return "C07-safe-prefix-collision"
        return None
    m = re.search(r"classes ('(?:[^'\\]|\\.)*') and ('(?:[^'\\]|\\.)*') are both named ('(?:[^'\\]|\\.)*')", msg)
    if m:
        q1, q2, final = (ast.literal_eval(x) for x in m.groups())
        ccase = a.get("opts", {}).get("class_case", "pascalCase")
        names = _class_source_names(a)
        # enumerations carry no Meta.name, so the source names are looked up in the input
        # (a class may first have received a numeric suffix from RenameDuplicateClasses)
        variants = [(n, n) for n in names] + [(f"{n}_{k}", n) for n in names for k in range(1, 10)]
        if a.get("opts", {}).get("unnest"):
            # an unnested inner class is called parent_inner (its Meta carries no name: it shows as the class name)
            variants += [(f"{p}_{n}", final) for p in set(names) for n in set(names)]
        cands = {(v, base) for v, base in variants if ref_safe_name(v, "type", ccase) == final}
        for x, bx in cands:
            for y, by in cands:
                if own_slug(x) != own_slug(y) and {q1, q2} <= {bx, by, final}:
                    # different slugs, and the documented safe_name maps both to the same class name
                    return "C07-safe-prefix-collision"
    return None


def gen_pipeline(rng, tier):
    def xsd(types=(), elements=(), enums=(), tns=None, **opts):
        return {"kind": "xsd", "spec": {"types": list(types), "elements": list(elements), "enums": list(enums), "tns": tns}, "opts": opts}

    def ty(name, elements=(), attributes=(), abstract=False):
        return {"name": name, "elements": list(elements), "attributes": list(attributes), "abstract": abstract}

    yield xsd([ty("t", ["a", "a_Attribute"], ["a"])])
    # inner classes whose names collide after conversion (x-1 / x1, a⁰ / a名)
    yield xsd([ty("t", [["x-1", None, ["p"]], ["x1", None, ["q"]], ["a⁰", None, ["p"]], ["a名", None, ["q"]]])], [{"name": "r", "type": "t"}])
    # a child element clashing with a parent attribute while the parent already has `a_Attribute`
    yield xsd([ty("p", ["a_Attribute"], ["A"]), {**ty("c", ["a"]), "base": "p"}], [{"name": "r", "type": "c"}])
    # an ambiguous choice whose type is an anonymous (inner) class: element `str` next to an xs:string element
    for st in ("filenames", "clusters"):
        yield xsd([{**ty("t", [["str", None, ["x"]], "s"]), "model": "choice"}], [{"name": "r", "type": "t"}], compound=True, style=st)
    # the class created for an ambiguous choice, unqualified local elements, a namespace style
    yield xsd([{**ty("t", [["a", "u"], ["b", "u"]]), "model": "choice"}, ty("u", ["x"])], [{"name": "r", "type": "t"}],
              tns="urn:x", compound=True, unnest=True, style="namespaces")
    yield xsd([ty("t", ["class", "class_value", "await"])])
    # the name of a compound field against the other attrs of the class: the default name (more than
    # max_name_parts elements) next to an attribute `choice`, the joined name next to an attribute `a_Or_b`
    yield xsd([{**ty("t", ["a", "b", "c", "d"], ["choice", "choice_1"]), "model": "choice"}], [{"name": "r", "type": "t"}], compound=True)
    yield xsd([{**ty("t", ["a", "b"], ["a_Or_b", "A_or_B_1"]), "model": "choice"}], [{"name": "r", "type": "t"}], compound=True)
    yield xsd([ty("t", ["a", "A", "a_"], ["a"])])
    # a repeating element with an anonymous type under conventions that give the field and its inner
    # class one name (C07-field-named-like-inner-class)
    yield xsd([{**ty("t", [["b", None, ["p"]]]), "model": "choice"}], [{"name": "r", "type": "t"}], class_case="snakeCase")
    yield xsd([{**ty("t", [["b", None, ["p"]]]), "model": "choice"}], [{"name": "r", "type": "t"}], field_case="pascalCase", compound=True)
    # anonymous types inside anonymous types: inner classes of inner classes (T.A.B in the type hints)
    yield xsd([ty("t", [["a", None, [["b", None, ["c", ["d", "t"]]], "e"]]])], [{"name": "r", "type": "t"}])
    yield xsd([{**ty("t", [["a", None, [["A", None, ["c"]], ["a_", None, ["c"]]]], "s"]), "model": "choice"}], [{"name": "r", "type": "t"}], compound=True)
    # an inner class whose name would keep two leading underscores (class names in originalCase): Python
    # mangles `t.__a` inside the class body (was C07-dunder-inner-class-mangled; repaired by c07e-01, a
    # regression is a violation); same for fields, and for the `_` / `_` pair that is renamed `__Inner`
    yield xsd([ty("t", [["__a", None, ["p"]], "b"])], [{"name": "r", "type": "t"}], class_case="originalCase")
    yield xsd([ty("_", [["_", None, ["p"]]])], [{"name": "r", "type": "_"}], class_case="originalCase")
    yield xsd([ty("t", ["__a", "_a", "b"])], [{"name": "r", "type": "t"}], field_case="originalCase")
    yield xsd([ty("__t", ["a"]), ty("_t", ["a"])], [{"name": "r", "type": "__t"}, {"name": "s", "type": "_t"}], class_case="originalCase")
    # WRAPPER FIELDS: a required element whose class holds exactly one required element is replaced by that
    # element and takes its NAME, which a sibling (or a second wrapper) may already have. The wrapper class is a
    # global complexType, an anonymous type (inner class), or an anonymous type promoted by unnest_classes.
    for sib in ("item", "Item", "item_", "i-tem"):
        for occ in ("+", "1"):
            for sib_first in (False, True):
                sibs = [sib]
                glob = [["items", "ItemsType", None, "1"]]
                anon = [["items", None, [["item", None, None, occ]], "1"]]
                yield xsd([ty("ItemsType", [["item", None, None, occ]]), ty("t", sibs + glob if sib_first else glob + sibs)],
                          [{"name": "r", "type": "t"}], wrapper=True)
                yield xsd([ty("t", sibs + anon if sib_first else anon + sibs)], [{"name": "r", "type": "t"}], wrapper=True)
                yield xsd([ty("t", sibs + anon if sib_first else anon + sibs)], [{"name": "r", "type": "t"}], wrapper=True, unnest=True)
    # two wrappers with one inner name (root + root, root + inner, inner + root), a sibling attribute, a typed inner element
    yield xsd([ty("A", [["item", None, None, "+"]]), ty("B", [["Item", None, None, "+"]]),
               ty("t", [["as", "A", None, "1"], ["bs", "B", None, "1"]])], [{"name": "r", "type": "t"}], wrapper=True)
    yield xsd([ty("A", [["item", None, None, "+"]]),
               ty("t", [["as", "A", None, "1"], ["bs", None, [["item", None, None, "+"]], "1"]])], [{"name": "r", "type": "t"}], wrapper=True)
    yield xsd([ty("A", [["item", None, None, "+"]]),
               ty("t", [["bs", None, [["item", None, None, "+"]], "1"], "x", ["as", "A", None, "1"]])], [{"name": "r", "type": "t"}], wrapper=True)
    yield xsd([ty("A", [["item", None, None, "+"]]), ty("t", [["as", "A", None, "1"]], ["item"])], [{"name": "r", "type": "t"}], wrapper=True)
    yield xsd([ty("U", ["x"]), ty("A", [["item", "U", None, "+"]]), ty("t", [["as", "A", None, "1"], ["item", "U", None, "?"]])],
              [{"name": "r", "type": "t"}], wrapper=True, compound=True)
    yield xsd([ty("A", [["class", None, None, "+"]]), ty("t", [["as", "A", None, "1"], "class_value"])], [{"name": "r", "type": "t"}], wrapper=True)
    # a wrapper on a reference cycle (C07-wrapper-field-drops-circular-flag)
    yield xsd([ty("X", [["a1", None, [["n", "N", None, "+"]], "1"]]), ty("N", [["x", "X"]])], [{"name": "r", "type": "X"}], wrapper=True, unnest=True)
    yield xsd([ty("X", [["a1", None, [["n", "N", None, "+"]], "1"]]), ty("N", [["x", "X"]])], [{"name": "r", "type": "X"}], wrapper=True)
    yield xsd([ty("W", [["n", "N", None, "1"]]), ty("X", [["a1", "W", None, "1"]]), ty("N", [["x", "X", None, "*"]])], [{"name": "r", "type": "X"}], wrapper=True)
    # ... the cycle closes through a global element named like a complexType (the element's class extends `value`)
    yield xsd([ty("value", [["type", None, [["Any", "Node", None, "+"]], "1"]]), ty("Node", [["Any", "é"]]), ty("é", [["type", "é", None, "1"], "str"])],
              [{"name": "é", "type": "value"}], wrapper=True, unnest=True)
    # samples: every element class is a root-level class
    yield {"kind": "xml", "doc": "<root><items><item>a</item><item>b</item></items><item>1</item></root>", "opts": {"wrapper": True}}
    yield {"kind": "xml", "doc": "<root><Item>1</Item><items><item>a</item><item>b</item></items></root>", "opts": {"wrapper": True}}
    yield {"kind": "xml", "doc": "<root><as><item>a</item></as><bs><item>a</item><item>b</item></bs></root>", "opts": {"wrapper": True}}
    yield {"kind": "json", "doc": {"items": {"item": ["a", "b"]}, "item": 1}, "opts": {"wrapper": True}}
    yield {"kind": "json", "doc": {"item_": 1, "items": {"item": ["a", "b"]}}, "opts": {"wrapper": True, "unnest": True}}
    yield xsd([ty("None"), ty("NoneType")], [{"name": "r", "type": "None"}])
    yield xsd([ty("a"), ty("A")], [{"name": "a", "type": "A"}])
    yield xsd(enums=[{"name": "e", "values": ["1", "value_1", "a", "A"]}])
    yield xsd([ty("t", ["a"], ["a"])], tns="http://www.example.com/class/1")
    yield {"kind": "json", "doc": {"1": 3, "value_1": 4}, "opts": {}}
    yield {"kind": "json", "doc": {"": 1}, "opts": {}}
    yield {"kind": "json", "doc": {"a b": 1, "a-b": 2, "aB": 3, "AB": 4, "class": {"None": 1, "await": [1, 2]}}, "opts": {}}
    yield {"kind": "json", "doc": {"a⁰": 1}, "opts": {"field_case": "originalCase"}}
    yield {"kind": "xml", "doc": "<r><\u2fe0>1</\u2fe0></r>", "opts": {}}
    yield {"kind": "xml", "doc": "<r><a x='1'>1</a><a>2</a><A/><class/><_/></r>", "opts": {}}
    # every hand-picked source under a matrix of output options
    hand = [
        xsd([ty("t", ["a", "A", "a_"], ["a"]), ty("T2", ["class", "None", "import"], ["def", "self"])], [{"name": "r", "type": "t"}],
            [{"name": "e", "values": ["a", "A", "-1", "1.0", "class", "None"]}], tns="http://www.example.com/class/1"),
        xsd([ty("a"), ty("A"), ty("class", ["a-b", "a.b", "aB"], ["AB", "type"])], [{"name": "a", "type": "A"}, {"name": "list", "type": "class"}]),
        xsd([ty("Meta", ["Meta", "value", "Value"], ["QName"]), ty("str", ["str", "int"], [])], [{"name": "field", "type": "Meta"}], tns="urn:x"),
        {"kind": "json", "doc": {"a b": 1, "a-b": 2, "aB": 3, "AB": 4, "class": {"None": 1, "await": [1, 2], "x": {"y": [{"z": 1}]}}}},
        {"kind": "json", "doc": [{"é": 1, "名": "x", "_": 2.5, "-": True, "1": None, "2x": [1.5]}]},
        {"kind": "xml", "doc": "<r><a x='1'>1</a><a>2</a><A/><class/><_/><a-b y='2'><c/><c/></a-b></r>"},
        {"kind": "xml", "doc": "<None xmlns='urn:a' xmlns:b='urn:b'><b:None b:import='1'>x</b:None><type>1</type><type>2</type></None>"},
    ]
    matrix = [{}] + [{"style": st} for st in STYLES] + [
        {"compound": True}, {"unnest": True}, {"frozen": True, "slots": True}, {"slots": True, "style": "single-package"},
        {"relative_imports": True, "style": "namespaces"}, {"relative_imports": True, "style": "clusters"},
        {"generic_collections": True}, {"wrapper": True, "compound": True}, {"compound": True, "unnest": True, "frozen": True},
        {"field_case": "camelCase", "class_case": "mixedSnakeCase"}, {"field_case": "mixedCase", "class_case": "snakeCase"},
        {"eq": False}, {"order": True}, {"order": True, "unsafe_hash": True, "frozen": True}, {"eq": False, "slots": True},
    ]
    two = {"kind": "xsd2", "spec": {
        "tns_a": "http://www.example.com/class/1", "tns_b": "urn:x-y:None",
        "b_types": [ty("base", ["a", "A"], ["id"]), ty("class", ["class", "import"], []), ty("Z", [], ["a"])],
        "b_enums": [{"name": "e", "values": ["a", "A", "1"]}],
        "a_types": [{"name": "base", "base": "base", "elements": ["b"], "refs": [["class", "class"], ["z", "Z"]]},
                    {"name": "A", "base": "class", "elements": ["a"], "refs": [["base", "base"]]},
                    {"name": "t", "elements": ["x"], "refs": [["e", "Z"]]}]}}
    hand.append(two)
    for h in hand:
        for o in matrix:
            yield {**h, "opts": dict(o)}
    # complex types that refer to each other: cycles, extension chains, inner classes, repeating
    # choices with equal types (DetectCircularReferences, CreateCompoundFields, DisambiguateChoices,
    # UnnestInnerClasses, VacuumInnerClasses, class order and imports inside / across modules)
    tnames_pool = ["A", "b", "a_b", "class", "None", "T1", "x-y", "a", "Inner", "value", "é", "Node", "node", "a.b"]
    for _ in range(90 if tier == "quick" else 2000):
        names = rng.sample(tnames_pool, rng.randint(2, 5))
        enames = rng.sample(XML_NAMES[:40], 6)
        types = []
        shape = rng.choice(["random", "ring", "tree", "self"])
        for k, nm in enumerate(names):
            els = []
            for j in range(rng.randint(0, 3)):
                r2 = rng.random()
                if shape == "ring":
                    tgt = names[(k + 1) % len(names)]
                elif shape == "self":
                    tgt = nm
                elif shape == "tree":
                    tgt = names[min(len(names) - 1, k + 1 + rng.randint(0, 1))]
                else:
                    tgt = rng.choice(names)
                if r2 < 0.55:
                    if rng.random() < 0.3:
                        # explicit occurrence: required / repeating typed elements (wrapper-field candidates)
                        els.append([rng.choice(enames), tgt, None, rng.choice(["1", "1", "+", "?", "*"])])
                    else:
                        els.append([rng.choice(enames), tgt])
                elif r2 < 0.7:
                    # (sibling elements get different names: one name with two types is not a valid schema)
                    n1, n2, n3, n4, n5 = rng.sample(enames, 5)
                    inner_els = [[n1, rng.choice(names)], n2]
                    if rng.random() < 0.3:
                        inner_els.append([n3, None, [n4, [n5, rng.choice(names)]]])
                    if rng.random() < 0.3:
                        # a required element with an anonymous type of ONE required element: an inner-class wrapper
                        els.append([rng.choice(enames), None, [[n1, rng.choice([None, rng.choice(names)]), None, rng.choice(["1", "+"])]], "1"])
                    else:
                        els.append([rng.choice(enames), None, inner_els])
                else:
                    els.append(rng.choice(enames))
            # the same element name twice in a sequence is legal only with the same type: keep the first
            seen_e, uniq_e = set(), []
            for e in els:
                nm_e = e if isinstance(e, str) else e[0]
                if nm_e not in seen_e:
                    seen_e.add(nm_e)
                    uniq_e.append(e)
            t = {"name": nm, "elements": uniq_e, "attributes": [rng.choice(enames)] if rng.random() < 0.3 else [],
                 "abstract": rng.random() < 0.1, "model": "choice" if rng.random() < 0.35 else "sequence"}
            if k > 0 and rng.random() < 0.3:
                t["base"] = names[rng.randrange(0, k)]
            types.append(t)
        opts = {"style": rng.choice(STYLES), "compound": rng.random() < 0.5, "unnest": rng.random() < 0.4,
                "wrapper": rng.random() < 0.3}
        for k2, pr in (("frozen", 0.2), ("slots", 0.2), ("relative_imports", 0.3), ("generic_collections", 0.2)):
            if rng.random() < pr:
                opts[k2] = True
        # naming conventions meet inner classes, base classes and compound fields here
        if rng.random() < 0.25:
            opts["field_case"] = rng.choice(CASES)
        if rng.random() < 0.25:
            opts["class_case"] = rng.choice(CASES)
        yield xsd(types, [{"name": rng.choice(enames), "type": rng.choice(names)}], [], rng.choice([None, None, "urn:x"]), **opts)
    for _ in range(40 if tier == "quick" else 400):
        pool = rng.sample(XML_NAMES, 8)
        pool = [x for x in pool if x != "\u2fe0"] or ["a"]
        bnames = list(dict.fromkeys(rng.choice(pool) for _ in range(rng.randint(1, 3))))
        spec = {
            "tns_a": rng.choice(["urn:a", "http://www.example.com/class/1", "http://a.b/c/d"]),
            "tns_b": rng.choice(["urn:b", "http://www.example.com/None", "urn:x-y:None", "http://a.b/e"]),
            "b_types": [ty(nm, list(dict.fromkeys(rng.choice(pool) for _ in range(rng.randint(0, 3)))), []) for nm in bnames],
            "a_types": [
                {"name": nm, "base": rng.choice(bnames) if rng.random() < 0.5 else None,
                 "elements": [], "refs": [[rng.choice(pool), rng.choice(bnames)] for _ in range(rng.randint(0, 2))]}
                for nm in dict.fromkeys(rng.choice(pool) for _ in range(rng.randint(1, 3)))
            ],
        }
        opts = {"style": rng.choice(STYLES), "relative_imports": rng.random() < 0.6, "unnest": rng.random() < 0.3,
                "slots": rng.random() < 0.3, "generic_collections": rng.random() < 0.3}
        yield {"kind": "xsd2", "spec": spec, "opts": opts}
    n = 200 if tier == "quick" else 2500
    tnss = [None, None, "urn:x", "http://www.example.com/class/1", "http://1.2/3", "urn:await"]
    for _ in range(n):
        opts = {
            "style": rng.choice(STYLES),
            "compound": rng.random() < 0.3,
            "wrapper": rng.random() < 0.2,
            "unnest": rng.random() < 0.3,
        }
        for k, pr in (("frozen", 0.25), ("slots", 0.25), ("relative_imports", 0.3), ("generic_collections", 0.25),
                      ("order", 0.15), ("unsafe_hash", 0.1)):
            if rng.random() < pr:
                opts[k] = True
        if rng.random() < 0.12 and not opts.get("order"):
            opts["eq"] = False  # (order without eq is reset by OutputFormat.validate: not a configuration of its own)
        if rng.random() < 0.3:
            opts["field_case"] = rng.choice(CASES)
        if rng.random() < 0.3:
            opts["class_case"] = rng.choice(CASES)
        r = rng.random()
        if r < 0.6:
            pool = rng.sample(XML_NAMES, 6)
            types = [
                ty(rng.choice(pool), [rng.choice(pool) for _ in range(rng.randint(0, 4))],
                   list({rng.choice(pool) for _ in range(rng.randint(0, 2))}), rng.random() < 0.2)
                for _ in range(rng.randint(1, 3))
            ]
            tnames = []
            uniq = []
            for t in types:
                if t["name"] not in tnames:
                    tnames.append(t["name"])
                    uniq.append(t)
            els = []
            for nme in {rng.choice(pool) for _ in range(rng.randint(0, 2))}:
                els.append({"name": nme, "type": rng.choice(tnames)})
            enums = []
            if rng.random() < 0.4:
                ename = rng.choice([x for x in pool if x not in tnames] or ["enum_t"])
                enums.append({"name": ename, "values": list(dict.fromkeys(rng.choice(ENUM_VALUES) for _ in range(rng.randint(1, 4))))})
            yield xsd(uniq, els, enums, rng.choice(tnss), **opts)
        elif r < 0.85:
            keys = rng.sample(XML_NAMES + ["1", "2x", "a b", "", "a⁰", "-1", "a.b", "\u0001"], rng.randint(1, 5))
            doc = {}
            for k in keys:
                v = rng.choice([1, "s", 1.5, True, [1, 2], None])
                if rng.random() < 0.25:
                    v = {rng.choice(XML_NAMES): 1, rng.choice(XML_NAMES): "x"}
                doc[k] = v
            yield {"kind": "json", "doc": doc, "opts": opts}
        else:
            pool = [x for x in rng.sample(XML_NAMES, 5) if x]
            body = "".join(f"<{x}>1</{x}>" for x in (rng.choice(pool) for _ in range(rng.randint(1, 4))))
            attr = "".join(f' {x}="1"' for x in {rng.choice(pool) for _ in range(rng.randint(0, 2))})
            yield {"kind": "xml", "doc": f"<{pool[0]}{attr}>{body}</{pool[0]}>", "opts": opts}


def adapt_pipeline(op, a):
    """names.e2e_fields case -> the same schema for the end-to-end oracle"""
    attrs = a["attrs"]
    if attrs and attrs[0]["tag"] == "Enumeration":
        spec = {"types": [], "elements": [], "enums": [{"name": "t", "values": [x["name"] for x in attrs]}], "tns": None}
    else:
        spec = {"types": [{"name": "t", "elements": [x["name"] for x in attrs if x["tag"] == "Element"],
                           "attributes": [x["name"] for x in attrs if x["tag"] == "Attribute"], "abstract": False}],
                "elements": [], "enums": [], "tns": None}
    return {"kind": "xsd", "spec": spec, "opts": {}}


_E2E_CACHE = {}


def _e2e_msg(a):
    k = json.dumps(a, sort_keys=True, ensure_ascii=False)
    if k not in _E2E_CACHE:
        if len(_E2E_CACHE) > 20000:
            _E2E_CACHE.clear()
        _E2E_CACHE[k] = oracle_pipeline(a)
    return _E2E_CACHE[k]


def impl_e2e(a):
    msg = _e2e_msg(a)
    return ok("importable") if msg is None else {"err": msg[:200]}


def spec_e2e(a):
    """The property itself: whatever the source and the options, generation ends, the package imports,
    every class binds and instantiates — except on inputs inside a listed finding (identified by the
    `covered` predicate: the documented algorithm misbehaves there in the same way)."""
    msg = _e2e_msg(a)
    if msg is not None:
        fid = covered_pipeline(a, msg)
        if fid:
            return {"unspecified": fid}
    return ok("importable")


def gen_e2e(rng, tier):
    yield from gen_pipeline(rng, tier)


def adapt_ident(op, a):
    if op == "names.filter":
        return a
    if op == "names.safe_name":
        return a
    return None


ORACLES = [
    Oracle("c07.ident", gen_oracle_ident, oracle_ident, covered_ident, from_ops=("names.filter", "names.safe_name"), adapt=adapt_ident),
    Oracle("c07.fields", gen_oracle_fields, oracle_fields, covered_fields, from_ops=("names.rename_attrs", "names.e2e_fields")),
    Oracle("c07.classes", gen_oracle_classes, oracle_classes, covered_classes, from_ops=("names.rename_classes",)),
    Oracle("c07.fresh", gen_oracle_fresh, oracle_fresh, from_ops=("names.unique_name", "names.next_qname", "names.next_available_name"), adapt=adapt_fresh),
    Oracle("c07.inners", gen_rename_inners, oracle_inners, covered_inners, from_ops=("names.rename_inners",)),
    Oracle("c07.conflict", gen_resolve_conflict, oracle_conflict, covered_conflict, from_ops=("names.resolve_conflict",)),
    Oracle("c07.wrapper", gen_wrapper_fields, oracle_wrapper, covered_wrapper, from_ops=("names.wrapper_fields",)),
    Oracle("c07.circular", gen_detect_circular, oracle_circular, from_ops=("names.detect_circular",)),
    Oracle("c07.pipeline", gen_pipeline, oracle_pipeline, covered_pipeline, from_ops=("c07.e2e", "names.e2e_fields"),
           adapt=lambda op, a: a if op == "c07.e2e" else adapt_pipeline(op, a)),
]

CORRS.append(
    Corr("c07.e2e", gen_e2e, impl_e2e, spec=spec_e2e, classify=classify_e2e,
         describe="spec-level: hostile XSD / JSON / XML sample x structure style x compound/wrapper/unnest x frozen/slots x "
                  "relative imports x generic collections x field/class case -> REAL generation (stand-in for the Jinja2 templates) -> "
                  "files compile, no duplicate members/classes, package imports, build_recursive + instantiation of every class; "
                  "expected: importable (unspecified inside listed findings)")
)

# ----------------------------------------------------------------- findings


def _f_prefix_collision():
    spec = [{"tag": "Enumeration", "name": "1", "ns": None}, {"tag": "Enumeration", "name": "value_1", "ns": None}]
    _, finals = final_field_names(spec)
    spec2 = [{"tag": "Element", "name": "class", "ns": None}, {"tag": "Element", "name": "class_value", "ns": None}]
    _, finals2 = final_field_names(spec2)
    finals3 = [F().class_name(n) for n in ("None", "NoneType")]  # different slugs: RenameDuplicateClasses sees no duplicate
    return (len(set(finals)) < 2 and len(set(finals2)) < 2 and len(set(finals3)) < 2,
            f"enum members {finals}, fields {finals2}, classes {finals3}")


def _f_field_like_inner():
    """complexType t with a repeating element `b` of an anonymous type, class names in snakeCase: field
    `b` and inner class `b` of class `t`; the class statement replaces the field's default, the
    metadata is lost and XmlContext.build_recursive(t) fails"""
    a = {"kind": "xsd", "opts": {"class_case": "snakeCase"}, "spec": {"tns": None, "enums": [], "elements": [{"name": "r", "type": "t"}],
         "types": [{"name": "t", "elements": [["b", None, ["p"]]], "attributes": [], "abstract": False, "model": "choice"}]}}
    msgs = pipeline_failures(a)
    hit = [m for m in msgs if "is also the name of the inner class that the hints of t use" in m]
    return bool(hit) and covered_pipeline(a, hit[0], msgs) == "C07-field-named-like-inner-class", (hit or msgs or ["generation, import and binding succeed"])[0][:200]


def _f_wrapper_cycle():
    """X = { a1: anonymous { n: N, repeating } }, N = { x: X, optional }, wrapper_fields + unnest_classes: the
    generator gives up with 'Circular Dependencies Found'; without wrapper_fields the source generates"""
    a = {"kind": "xsd", "opts": {"wrapper": True, "unnest": True}, "spec": {"tns": None, "enums": [], "elements": [{"name": "r", "type": "X"}],
         "types": [{"name": "X", "elements": [["a1", None, [["n", "N", None, "+"]], "1"]], "attributes": [], "abstract": False},
                   {"name": "N", "elements": [["x", "X"]], "attributes": [], "abstract": False}]}}
    msgs = pipeline_failures(a)
    hit = [m for m in msgs if "Circular Dependencies Found" in m]
    return bool(hit) and covered_pipeline(a, hit[0], msgs) == "C07-wrapper-field-drops-circular-flag", (hit or msgs or ["generation, import and binding succeed"])[0][:200]


FINDINGS = {
    "C07-wrapper-field-drops-circular-flag": _f_wrapper_cycle,
    "C07-safe-prefix-collision": _f_prefix_collision,
    "C07-field-named-like-inner-class": _f_field_like_inner,
}

RULE = (
    "per op: hand-picked names, then bounded-exhaustive words over the hostile alphabet "
    "{a,A,1,_,-,.,é,名,⁰,' ',class,None} (length ≤3 for every op/case, length 4 for the default conventions), "
    "then seeded random words over a wider alphabet; attr/class lists: hand-picked, exhaustive pairs/triples over a small "
    "pool, then random; distinct = distinct canonical (op,args); non-trivial = non-empty name / list of ≥2"
)

LEVEL_TEXT = (
    "Lean theorems over all inputs for the naming, renaming and layout decision cores. Naming (Props/C07.lean): for every convention "
    "Filters accepts and all eight naming cases safe_name terminates (<= 11 calls), never returns a reserved word or Python keyword, "
    "always yields an identifier; slug invariance; unique_name/next_qname/next_available_name terminate with a fresh slug; "
    "rename_duplicate_attributes and RenameDuplicateClasses leave pairwise different slugs / keys for EVERY input (full strength); "
    "no result starts with two underscores (nothing is name-mangled in a class body, repair c07e-01); a field name (snake/camel) never "
    "equals a class name (pascal/mixedPascal/screamingSnake) for ANY two source names, with a counterexample for the other pairs of "
    "conventions (C07-field-named-like-inner-class stays listed); counterexamples remain for safe-prefix collisions. Layout (Props/C07Layout.lean): toposort_flatten emits every item after its "
    "dependencies and fails exactly on cyclic dependencies; after a successful DependenciesResolver run every dependency of every class "
    "is defined earlier in the module or imported from the module the registry names (import sufficiency), and the resolver fails only "
    "for duplicate qnames, cycles or unprovided dependencies; DetectCircularReferences.is_circular decides reachability and always "
    "answers, after the handler no plain reference lies on a cycle (any processing order), flags are only set on real cycles, the "
    "remaining plain references are acyclic; inner classes of one class get different slugs; the class created for an ambiguous choice "
    "lives in its source's namespace; final qnames are unique; after CreateWrapperFields the fields of a class have pairwise different "
    "slugs whenever anything was wrapped, whatever kind of class the wrapper came from (wrapper_fields_slugs_distinct). The model is tied to /repo by a differential check (24 ops, incl. the resolver model of the layout theorems) and the "
    "property itself is evaluated end to end on the REAL generator (transformer.process, all handlers, CodeWriter, validate_imports; "
    "stand-in only for the Jinja2 templates): files compile, no duplicate members / inner / module classes, the package imports (an "
    "ImportError or a consistency error hidden behind CodegenError counts as failure for valid sources), every class binds and "
    "instantiates, for hostile XSD (one/two namespaces, cyclic and inheriting complex types, anonymous inner types, repeating choices) / "
    "JSON / XML sources under structure styles x compound/wrapper/unnest x frozen/slots x relative imports x generic collections x cases."
)
LEVEL_NOTE = (
    "Partial. Modelled in Lean: the naming / renaming cores, toposort_flatten, DependenciesResolver and DetectCircularReferences; "
    "package designation, the other handlers and rendering are covered by the spec-level end-to-end op c07.e2e only (sampling). The "
    "Jinja2 templates are replaced by harness/standin_render.py (line-for-line transliteration, docstrings omitted); ruff formatting "
    "is skipped; WSDL/DTD sources, docstring styles and max line length are not exercised. "
    "THE toposort PACKAGE IS NOT INSTALLED: every `import toposort` of a check (differential ops gen.toposort / gen.resolver, the "
    "end-to-end run) gets harness/shims/toposort, this framework's re-implementation of the package's documented algorithm; the real "
    "package is never executed. Hence `module_imports_sufficient` and `resolver_succeeds` are theorems about `resolverProcess` = the "
    "model of xsdata's own DependenciesResolver.process (tied to the real class by op gen.resolver) CALLING the model of the shim. "
    "Their proofs (Proofs/ResolverSound.lean) use the sorter only through three facts, the `toposort_*` theorems: every emitted item "
    "comes after all its dependencies other than itself; the output has no duplicates and holds every key and nothing but keys and their dependencies; "
    "it succeeds iff the dependencies (self-loops ignored) are acyclic, CircularDependencyError otherwise. So for an installation with "
    "the real package: import sufficiency holds if the real `toposort_flatten(data)` has the first two facts, `resolver_succeeds` "
    "additionally needs the third; neither depends on the order inside one batch (`sorted`). Those three facts are proved for the shim "
    "and NOT established for the real package by anything here (no theorem, no run); a real package that differs from its documentation "
    "is outside this check. The same holds for the end-to-end oracle: a layout defect that only shows with the real sorter is invisible."
)
TRUSTED = [
    "Python identifier rule = str.isidentifier (XID tables taken from the running interpreter, regenerated each run) and not in keyword.kwlist; NFKC normalisation of identifiers by the Python parser is not modelled",
    "re `\\w`/`\\d` semantics on str patterns (Unicode alnum / Nd) are my reading of CPython's sre; compared through ops names.is_word, names.case(originalCase), names.safe_name",
    "harness/standin_render.py stands for templates/*.jinja2 (jinja2 is not installed); everything else in the end-to-end run is xsdata's own code",
    "ASCII case mapping only: split_words drops every non-ASCII character, proved in Proofs/Names.lean (splitWords_ascii)",
    "harness/shims/toposort is this framework's re-implementation of toposort_flatten (the real package is not installed): the toposort_* theorems of Props/C07Layout.lean are about the shim's algorithm; module_imports_sufficient / resolver_succeeds are about xsdata's resolver composed with it (what carries over to the real package: LEVEL_NOTE)",
]
ASSUMPTIONS = [
    "Filters run without user substitutions (GeneratorConfig() default); aliases/substitutions are not modelled",
    "Attr names have a non-empty ASCII-alnum part or are empty (Attr.__post_init__'s unicodedata.name fallback is outside the model; the end-to-end oracle exercises it)",
    "the interpreter's recursion limit is taken as 'never returns' (fuel 64 in the model; every run under an accepted prefix needs ≤ 11 frames, proved)",
]
