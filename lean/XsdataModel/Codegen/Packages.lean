/-
`xsdata/codegen/handlers/designate_class_packages.py` — the two structure
styles that go through sets: `group_by_strong_components` (clusters) and
`group_by_namespace_clusters`, plus `group_by_namespace` and
`group_all_together` for completeness.

What a class contributes is abstracted to `ClassInfo`: its qname, its `name`
(`local_name(qname)`), its target namespace, `dependencies()` and
`list(set(dependencies(True)))` — the latter two as lists *in the order the
interpreter's set iteration produced* (explicit parameter).
-/
import XsdataModel.Codegen.Graphs
import XsdataModel.Codegen.Toposort

namespace Xs.Codegen
open Py

structure ClassInfo where
  qname : Str
  name : Str
  ns : Option Str
  /-- `set(obj.dependencies())` in some order -/
  deps : List Str
  /-- `list(set(obj.dependencies(True)))` -/
  depsAll : List Str
deriving Repr

inductive PkgErr where
  | keyError            -- `edges[v]` / `container.first(qname)`
  | circular            -- toposort `CircularDependencyError`
  | mixedNamespaces     -- `CodegenError("Found strongly connected types from different namespaces")`
deriving Repr, DecidableEq

/-- `container.first(qname)` (the container holds one class per qname at this stage) -/
def firstClass (cs : List ClassInfo) (q : Str) : Option ClassInfo := cs.find? (·.qname == q)

/-- `strongly_connected_classes`: `edges = {obj.qname: list(set(obj.dependencies(True)))}` -/
def classEdges (cs : List ClassInfo) : Graph := cs.map (fun c => (c.qname, c.depsAll))

/-- `sort_classes(qnames)`; `qnames` is the component in set iteration order -/
def sortClasses (cs : List ClassInfo) (qnames : List Str) : Except PkgErr (List ClassInfo) := do
  let edges ← qnames.mapM (fun q =>
    match firstClass cs q with
    | some c => .ok (q, c.deps.filter (qnames.contains ·))
    | none => .error PkgErr.keyError)
  match toposortFlatten edges with
  | none => .error PkgErr.circular
  | some order =>
    order.mapM (fun q => match firstClass cs q with
      | some c => .ok c
      | none => .error PkgErr.keyError)

/-- One `(qname, package, module)` triple per `assign` call target, most recent first. -/
abbrev Assignments := List (Str × Str × Str)

def assign (classes : List ClassInfo) (package module : Str) (acc : Assignments) : Assignments :=
  classes.foldl (fun acc c => (c.qname, package, module) :: acc) acc

/-- the final `(package, module)` of every class in container order (`none` = never assigned) -/
def finalAssignment (cs : List ClassInfo) (acc : Assignments) : List (Str × Option (Str × Str)) :=
  cs.map (fun c => (c.qname, List.lookup c.qname acc))

/-- `group_by_strong_components` given the already computed components -/
def assignClusters (package : Str) (cs : List ClassInfo) (comps : List (List Str)) :
    Except PkgErr Assignments :=
  comps.foldlM (fun acc group => do
    let classes ← sortClasses cs group
    match classes with
    | c0 :: _ => pure (assign classes package c0.name acc)
    | [] => .error PkgErr.keyError   -- `classes[0]` IndexError; components are never empty
  ) []

/-- `group_by_strong_components`.  The component generator is lazy: a component is
sorted and assigned as soon as it is yielded, so an error raised while handling a
yielded component precedes a later `KeyError` of the depth-first search. -/
def groupByStrongComponents (package : Str) (cs : List ClassInfo) (vorder : List Str) :
    Except PkgErr (List (Str × Option (Str × Str))) :=
  let st := sccRun (classEdges cs) vorder
  match assignClusters package cs st.out with
  | .error e => .error e
  | .ok acc => if st.err then .error PkgErr.keyError else .ok (finalAssignment cs acc)

/-- `group_by_namespace_clusters` given the components; `nsPackage ns` stands for
`".".join(combine_ns_package(ns))` (pure string function of the configuration). -/
def assignNsClusters (nsPackage : Option Str → Str) (cs : List ClassInfo)
    (comps : List (List Str)) : Except PkgErr Assignments :=
  comps.foldlM (fun acc group => do
    let classes ← sortClasses cs group
    match classes with
    | c0 :: rest =>
      if rest.any (fun c => c.ns != c0.ns) then .error PkgErr.mixedNamespaces
      else pure (assign classes (nsPackage c0.ns) c0.name acc)
    | [] => .error PkgErr.keyError
  ) []

def groupByNamespaceClusters (nsPackage : Option Str → Str) (cs : List ClassInfo)
    (vorder : List Str) : Except PkgErr (List (Str × Option (Str × Str))) :=
  let st := sccRun (classEdges cs) vorder
  match assignNsClusters nsPackage cs st.out with
  | .error e => .error e
  | .ok acc => if st.err then .error PkgErr.keyError else .ok (finalAssignment cs acc)

end Xs.Codegen
