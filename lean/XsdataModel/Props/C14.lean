/- C14 — property theorems (stub, filled in below). -/
import XsdataModel.Ctx.Context

namespace Props.C14
open Py Xs.Ctx

theorem init_stamp : State.init.sysModules = 0 := rfl

end Props.C14
