/-
Fragment F1 of the binding layer (property C01): the decidable side conditions
under which the model-level round trip `generate → abstract writer → parseRoot`
is proved to be the identity (`Props/C01.lean`).

* `ctxF1 Γ`   : what the exported metadata of every class must look like
                (attributes / primitive elements / a text var / model-typed
                elements; optional, required, list; class and field namespaces)
                and what the parser needs to tell sibling vars apart.
* `valF1 e Γ c v` : the value is an instance of class `c` of that universe and
                avoids the regions where XML (or xsdata) cannot tell two values apart.

Core Lean only: the driver evaluates `ctxF1` on exported real universes (op `bind.ctxF1`).
-/
import XsdataModel.Bind.Write

namespace Xs.Bind.F1
open Py Xs.Bind

/-- `DataType.from_qname(value)` finds a builtin datatype (the writer's `is_xsi_type`) -/
def isDatatype (Γ : Ctx) (s : Str) : Bool := (Γ.datatypes.find? (·.1 = s)).isSome

/-- the metadata both sides use for class `c` under parent namespace `pns` -/
def metaOf (Γ : Ctx) (c : ClassId) (pns : Option Str) : Option XmlMeta :=
  (Γ.find c).bind (·.metaFor pns)

def primHasType : PVal → PT → Bool
  | .str _, .str => true
  | .int _, .int => true
  | .bool _, .bool => true
  | _, _ => false

/-- the primitive types of the fragment -/
def ptOK : PT → Bool
  | .qname => false
  | _ => true

/-- the `default` slot of the var agrees with the dataclass field default -/
def defaultAgrees : DefaultV → Option Val → Bool
  | .none, none => true
  | .none, some .none => true
  | .val p, some (.prim p') => p = p'
  | .listFactory, some (.list []) => true
  | _, _ => false

/-- a scalar default of primitive type `t` (or `None`) -/
def scalarDefault (d : DefaultV) (t : PT) : Bool :=
  match d with
  | .none => true
  | .val p => primHasType p t
  | _ => false

/-- flags every var of the fragment has -/
def varBase (v : XmlVar) : Bool :=
  v.init && !v.mixed && !v.tokens && !v.anyType && !v.nillable && v.sequence.isNone &&
  v.wrapperQName.isNone && !v.isClazzUnion && !v.qname.isEmpty

/-- the dataclass field of a var: constructor argument whose default is the var's default -/
def fieldAgrees (ci : ClassInfo) (v : XmlVar) : Bool :=
  match ci.fields.find? (·.name = v.name) with
  | some f => f.init && defaultAgrees v.default f.default
  | none => false

def attrVarOK (m : XmlMeta) (ci : ClassInfo) (v : XmlVar) : Bool :=
  v.isAttribute && varBase v && !v.listElement &&
  decide (m.findAttribute v.qname = some v) &&
  decide (v.qname ≠ xsiNil) && decide (v.qname ≠ xsiType) &&
  (match v.types with
   | [.prim t] => ptOK t && scalarDefault v.default t
   | _ => false) &&
  fieldAgrees ci v

def textVarOK (ci : ClassInfo) (v : XmlVar) : Bool :=
  v.isText && varBase v && !v.listElement &&
  (match v.types with
   | [.prim t] => ptOK t && scalarDefault v.default t
   | _ => false) &&
  fieldAgrees ci v

/-- `XmlMeta` without its own qname: everything both sides use below the root element -/
def dropQ (m : XmlMeta) : XmlMeta := { m with qname := [] }

/-- the classes of the model-typed element vars of `m` have the same metadata (up to the
class qname, which only names a root element) under the namespace of the element `q`
(which the serializer passes down) and under the namespace of `m` itself (which the parser
passes down) -/
def nsAgree (Γ : Ctx) (m : XmlMeta) (q : QN) : Bool :=
  m.elementVars.all fun w =>
    match w.clazz with
    | none => true
    | some c => decide ((metaOf Γ c (targetUri q)).map dropQ = (metaOf Γ c (targetUri m.qname)).map dropQ)

def elemVarOK (ns : Bool) (Γ : Ctx) (m : XmlMeta) (ci : ClassInfo) (v : XmlVar) : Bool :=
  v.isElement && varBase v && decide (1 ≤ v.index) &&
  decide (m.elements.find? (·.1 = v.qname) = some (v.qname, [v])) &&
  (match v.clazz, v.types with
   | none, [.prim t] =>
     ptOK t && (if v.listElement then decide (v.default = .listFactory) else scalarDefault v.default t)
   | some c, [.cls c'] =>
     decide (c = c') &&
     (if v.listElement then decide (v.default = .listFactory) else decide (v.default = .none)) &&
     (match metaOf Γ c (targetUri m.qname) with
      | some m' => !ns || nsAgree Γ m' v.qname
      | none => false)
   | _, _ => false) &&
  fieldAgrees ci v

/-- one exported `XmlMeta` of class `ci` (`ns = false` drops the `nsAgree` requirement) -/
def metaF1 (ns : Bool) (Γ : Ctx) (ci : ClassInfo) (m : XmlMeta) : Bool :=
  decide (m.clazz = ci.id) && !m.nillable && !m.qname.isEmpty &&
  m.wildcards.isEmpty && m.choices.isEmpty && m.anyAttributes.isEmpty && m.wrappers.isEmpty &&
  m.attributeVars.all (attrVarOK m ci) &&
  decide ((m.attributeVars.map (·.qname)).Nodup) &&
  (match m.text with
   | none => m.elementVars.all (elemVarOK ns Γ m ci)
   | some tv => decide (m.elementVars = [tv]) && textVarOK ci tv) &&
  decide ((m.elementVars.map (·.index)).Nodup) &&
  decide (((m.attributeVars ++ m.elementVars).map (·.name)).Nodup) &&
  decide ((ci.fields.map (·.name)).Nodup) &&
  ci.fields.all (fun f => (m.attributeVars ++ m.elementVars).any (·.name = f.name))

def ctxF1G (ns : Bool) (Γ : Ctx) : Bool :=
  Γ.classes.all fun ci => !ci.metas.isEmpty && ci.metas.all (fun pm => metaF1 ns Γ ci pm.2)

/-- the universe is in fragment F1 -/
def ctxF1 (Γ : Ctx) : Bool := ctxF1G true Γ

/-! ### values -/

/-- `None` is only written where the dataclass default is `None` -/
def fdNone (ci : ClassInfo) (name : Str) : Bool :=
  match ci.fields.find? (·.name = name) with
  | some f => (match f.default with | some .none => true | _ => false)
  | none => false

def fdEmptyStr (ci : ClassInfo) (name : Str) : Bool :=
  match ci.fields.find? (·.name = name) with
  | some f => (match f.default with | some (.prim (.str [])) => true | _ => false)
  | none => false

/-- a `str` attribute value naming a builtin datatype in Clark notation is rewritten by the writer -/
def attrStrOK (Γ : Ctx) : PVal → Bool
  | .str s => !(s.head? = some '{' && isDatatype Γ s)
  | _ => true

def attrValOK (strict : Bool) (Γ : Ctx) (ci : ClassInfo) (var : XmlVar) (x : Val) : Bool :=
  match var.types with
  | [.prim t] =>
    (match x with
     | .none => fdNone ci var.name
     | .prim p => primHasType p t && (!strict || attrStrOK Γ p)
     | _ => false)
  | _ => false

def textValOK (strict : Bool) (ci : ClassInfo) (var : XmlVar) (x : Val) : Bool :=
  match var.types with
  | [.prim t] =>
    (match x with
     | .none => fdNone ci var.name
     | .prim p => primHasType p t && (!strict || decide (p ≠ .str []) || fdEmptyStr ci var.name)
     | _ => false)
  | _ => false

/-- an empty `str` element comes back as the var default -/
def emptyStrOK (var : XmlVar) (p : PVal) : Bool :=
  decide (p ≠ .str []) || decide (var.default = .none) || decide (var.default = .val (.str []))

def elemValOK (strict : Bool) (ci : ClassInfo) (var : XmlVar) (rec : ClassId → Val → Bool) (x : Val) :
    Bool :=
  match var.clazz, var.types with
  | none, [.prim t] =>
    if var.listElement then
      (match x with
       | .list xs => xs.all (fun y => match y with | .prim p => primHasType p t | _ => false)
       | _ => false)
    else
      (match x with
       | .none => fdNone ci var.name
       | .prim p => primHasType p t && (!strict || emptyStrOK var p)
       | _ => false)
  | some c, _ =>
    if var.listElement then
      (match x with
       | .list xs => xs.all (rec c)
       | _ => false)
    else
      (match x with
       | .none => fdNone ci var.name
       | .obj .. => rec c x
       | _ => false)
  | _, _ => false

def look (fields : List (Str × Val)) (name : Str) : Val :=
  match fields.find? (·.1 = name) with
  | some (_, x) => x
  | none => .none

/-- `v` is an instance of class `c` (metadata built under `pns`): every field holds a value of
its type, `None` only where the dataclass default is `None`; with `strict` the value also avoids
the three regions that do not survive the round trip (`attrStrOK`, `emptyStrOK`, empty text).
The `Nat` argument bounds the nesting depth. -/
def valObjG (strict : Bool) (Γ : Ctx) : Nat → Option Str → ClassId → Val → Bool
  | 0, _, _, _ => false
  | n + 1, pns, c, .obj cls fields =>
    decide (cls = c) &&
    (match Γ.find c with
     | none => false
     | some ci =>
       match ci.metaFor pns with
       | none => false
       | some m =>
         decide (fields.map (·.1) = ci.fields.map (·.name)) &&
         m.attributeVars.all (fun var => attrValOK strict Γ ci var (look fields var.name)) &&
         (match m.text with
          | some tv => textValOK strict ci tv (look fields tv.name)
          | none => m.elementVars.all (fun var =>
              elemValOK strict ci var (valObjG strict Γ n (targetUri m.qname)) (look fields var.name))))
  | _ + 1, _, _, _ => false

/-- instance of class `c` inside the fragment -/
def valObjN (Γ : Ctx) : Nat → Option Str → ClassId → Val → Bool := valObjG true Γ

/-- the value-level side of fragment F1 (`v.size` bounds the nesting depth of `v`) -/
def valF1 (_e : BEnv) (Γ : Ctx) (c : ClassId) (v : Val) : Bool := valObjN Γ v.size none c v

/-- `v` is a type-correct instance of class `c` (no value-level exclusion) -/
def instF1 (Γ : Ctx) (c : ClassId) (v : Val) : Bool := valObjG false Γ v.size none c v

end Xs.Bind.F1
