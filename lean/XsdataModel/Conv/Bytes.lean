/-
L1 — BytesConverter: `re.sub(r"\s+", "", value)`, `binascii.unhexlify`,
`base64.b64decode(value, validate=True)` (= `binascii.a2b_base64(s, strict_mode=True)`
in CPython ≥ 3.11), `base64.b16encode`, `base64.b64encode`.

A byte is a `Nat` (< 256 for real inputs; the codecs are total anyway).
The shift/or expressions of the C decoder are written as arithmetic:
`(leftchar << 2) | (c >> 4)` = `leftchar * 4 + c / 16` because the operands
do not overlap.
-/
import XsdataModel.Conv.Basic

namespace Xs.Conv
open Py

abbrev Bytes := List Nat

/-! ### base16 -/

def hexDigit (v : Nat) : Char := if v < 10 then Char.ofNat (48 + v) else Char.ofNat (55 + v)

/-- `base64.b16encode(bs).decode()` -/
def hexEncode : Bytes → Str
  | [] => []
  | b :: bs => hexDigit (b / 16) :: hexDigit (b % 16) :: hexEncode bs

/-- `binascii`'s `table_hex` -/
def hexVal (c : Char) : Option Nat :=
  let n := c.toNat
  if 48 ≤ n && n ≤ 57 then some (n - 48)
  else if 65 ≤ n && n ≤ 70 then some (n - 55)
  else if 97 ≤ n && n ≤ 102 then some (n - 87)
  else none

/-- `binascii.unhexlify(s)` for a `str`; `none` = `ValueError`/`binascii.Error` -/
def unhexlify : Str → Option Bytes
  | [] => some []
  | [_] => none
  | a :: b :: rest =>
    match hexVal a, hexVal b with
    | some x, some y => (unhexlify rest).map ((x * 16 + y) :: ·)
    | _, _ => none

/-! ### base64 -/

/-- `table_b2a_base64` -/
def b64Char (v : Nat) : Char :=
  if v < 26 then Char.ofNat (65 + v)
  else if v < 52 then Char.ofNat (71 + v)
  else if v < 62 then Char.ofNat (v - 4)
  else if v = 62 then '+' else '/'

/-- `table_a2b_base64` -/
def b64Val (c : Char) : Option Nat :=
  let n := c.toNat
  if 65 ≤ n && n ≤ 90 then some (n - 65)
  else if 97 ≤ n && n ≤ 122 then some (n - 71)
  else if 48 ≤ n && n ≤ 57 then some (n + 4)
  else if c = '+' then some 62
  else if c = '/' then some 63
  else none

/-- `base64.b64encode(bs).decode()` -/
def b64Encode : Bytes → Str
  | [] => []
  | [a] => [b64Char (a / 4), b64Char (a % 4 * 16), '=', '=']
  | [a, b] => [b64Char (a / 4), b64Char (a % 4 * 16 + b / 16), b64Char (b % 16 * 4), '=']
  | a :: b :: c :: rest =>
    b64Char (a / 4) :: b64Char (a % 4 * 16 + b / 16) :: b64Char (b % 16 * 4 + c / 64)
      :: b64Char (c % 64) :: b64Encode rest

/-- main loop of `binascii.a2b_base64(..., strict_mode=True)`:
`q` = `quad_pos`, `left` = `leftchar`, `pads`, `ps` = `padding_started`. -/
def b64Loop : Str → Nat → Nat → Nat → Bool → Option Bytes
  | [], q, _, _, _ => if q = 0 then some [] else none
  | c :: cs, q, left, pads, ps =>
    if c = '=' then
      if q ≥ 2 && q + (pads + 1) ≥ 4 then (if cs.isEmpty then some [] else none)
      else b64Loop cs q left (if q ≥ 2 then pads + 1 else pads) true
    else
      match b64Val c with
      | none => none
      | some v =>
        if ps then none
        else if q = 0 then b64Loop cs 1 v 0 false
        else if q = 1 then (b64Loop cs 2 (v % 16) 0 false).map ((left * 4 + v / 16) :: ·)
        else if q = 2 then (b64Loop cs 3 (v % 4) 0 false).map ((left * 16 + v / 4) :: ·)
        else (b64Loop cs 0 0 0 false).map ((left * 64 + v) :: ·)

/-- `base64.b64decode(s, validate=True)` for a `str` -/
def b64Decode (s : Str) : Option Bytes :=
  match s with
  | '=' :: _ => none
  | _ => b64Loop s 0 0 0 false

/-! ### the converter -/

/-- which `bytes` class the value is an instance of -/
inductive BytesKind | plain | hex | b64
deriving DecidableEq, Repr

/-- `BytesConverter.deserialize(value: str, format=fmt)`; `none` = `ConverterError` -/
def bytesDeserialize (e : Env) (s : Str) (fmt : Option Str) : Option Bytes :=
  let v := removeWs e s
  if fmt = some Tables.fmtBase16 then unhexlify v
  else if fmt = some Tables.fmtBase64 then b64Decode v
  else none

/-- `BytesConverter.serialize(value, format=fmt)` -/
def bytesSerialize (k : BytesKind) (bs : Bytes) (fmt : Option Str) : Option Str :=
  if k = .hex || fmt = some Tables.fmtBase16 then some (hexEncode bs)
  else if k = .b64 || fmt = some Tables.fmtBase64 then some (b64Encode bs)
  else none

end Xs.Conv
