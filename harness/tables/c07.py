"""More sections for Tables.lean. Each function gets the line writer `w`."""
import extract_tables as T
from extract_tables import chars, extra, lean_bool, nats, strs  # noqa: F401


def _ranges(pred):
    """Maximal runs [lo, hi] of non-ASCII, non-surrogate code points with pred."""
    out = []
    start = None
    for cp in range(128, 0x110000):
        good = False if 0xD800 <= cp <= 0xDFFF else bool(pred(chr(cp)))
        if good and start is None:
            start = cp
        if not good and start is not None:
            out.append((start, cp - 1))
            start = None
    if start is not None:
        out.append((start, 0x10FFFF))
    return out


def _pairs(xs):
    return "[" + ", ".join(f"({a}, {b})" for a, b in xs) + "]"


@extra
def c07_naming(w):
    """C07: naming conventions, reserved words, identifier character classes."""
    import keyword
    import re

    from xsdata.models.config import GeneratorConfig
    from xsdata.models.enums import Tag
    from xsdata.utils import constants, namespaces, text

    conv = GeneratorConfig().conventions
    w("-- C07: xsdata/utils/text.py stop_words (sorted), keyword.kwlist of the running interpreter")
    w(f"def stopWords : List (List Char) := {strs(sorted(text.stop_words))}")
    w(f"def kwlist : List (List Char) := {strs(keyword.kwlist)}")
    w(f"def softkwlist : List (List Char) := {strs(keyword.softkwlist)}")
    w("-- C07: xsdata/models/config.py GeneratorConventions defaults (case value, safe_prefix)")
    for lean_name, attr in [
        ("class", "class_name"),
        ("field", "field_name"),
        ("constant", "constant_name"),
        ("module", "module_name"),
        ("package", "package_name"),
    ]:
        nc = getattr(conv, attr)
        w(f"def {lean_name}Case : List Char := {chars(nc.case.value)}")
        w(f"def {lean_name}SafePrefix : List Char := {chars(nc.safe_prefix)}")
    w("-- C07: constants used by the renaming handlers")
    w(f"def defaultAttrName : List Char := {chars(constants.DEFAULT_ATTR_NAME)}")
    w(f"def uriIgnore : List (List Char) := {strs(namespaces.__uri_ignore__)}")
    w(f"def tagAttribute : List Char := {chars(Tag.ATTRIBUTE)}")
    w(f"def tagAnyAttribute : List Char := {chars(Tag.ANY_ATTRIBUTE)}")
    w(f"def tagElement : List Char := {chars(Tag.ELEMENT)}")
    w(f"def tagEnumeration : List Char := {chars(Tag.ENUMERATION)}")
    w(f"def alnumAscii : List Char := {chars(''.join(sorted(text.__alnum_ascii__)))}")
    w("-- C07: non-ASCII character classes of the running interpreter, as inclusive ranges")
    w("--   wordNA: re `\\w` on str patterns (== str.isalnum); xidStartNA/xidContinueNA: str.isidentifier")
    word = _ranges(lambda c: re.match(r"\w", c) is not None)
    w(f"def wordNA : List (Nat × Nat) := {_pairs(word)}")
    w(f"def xidStartNA : List (Nat × Nat) := {_pairs(_ranges(str.isidentifier))}")
    w(f"def xidContinueNA : List (Nat × Nat) := {_pairs(_ranges(lambda c: ('a' + c).isidentifier()))}")
    w("")


@extra
def c07_classes(w):
    from xsdata.codegen.handlers import rename_duplicate_classes as rdc

    w("-- C07: handlers/rename_duplicate_classes.py REQUIRE_UNIQUE_NAMES (StructureStyle values)")
    w(f"def requireUniqueNames : List (List Char) := {strs([s.value for s in rdc.REQUIRE_UNIQUE_NAMES])}")
    w("")
