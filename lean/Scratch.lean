import XsdataModel.Code.Pycode
open Xs.Code
#eval String.ofList (jsonDumps (cs!"a\"b\\c\n\r\t" ++ [Char.ofNat 8, Char.ofNat 12, Char.ofNat 0, Char.ofNat 31, Char.ofNat 127] ++ cs!"€"))
#eval (decodeDq false (jsonBody (cs!"a\"b\\c\n\r\t" ++ [Char.ofNat 8, Char.ofNat 12, Char.ofNat 0, Char.ofNat 31, Char.ofNat 127] ++ cs!"€"))) == some (cs!"a\"b\\c\n\r\t" ++ [Char.ofNat 8, Char.ofNat 12, Char.ofNat 0, Char.ofNat 31, Char.ofNat 127] ++ cs!"€")
