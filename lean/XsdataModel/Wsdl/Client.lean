/-
C17 — `xsdata/formats/dataclass/client.py`: `Config.from_service`,
`Client.prepare_headers`, `Client.prepare_payload`, `Client.send`; and
`ProcessAttributeTypes.detect_lazy_namespace` with the branch of
`process_dependency_type` that decides whether it runs
(`xsdata/codegen/handlers/process_attributes_types.py`).

The serializer, the parser and the transport are parameters of `Client`; `send`
is modelled as the sequence of calls it makes on them (`Event`), which is what
the correspondence check records on the real `Client` with recording stand-ins.
-/
import XsdataModel.Wsdl.Defs

namespace Xs.Wsdl
open Py

/-! ## Config.from_service -/

/-- a class attribute / keyword value: `None` or a string (classes are named by a string) -/
abbrev Val := Option Str

/-- `Config.from_service(obj, **kwargs)`: for every dataclass field of `Config`,
`kwargs[f] if f in kwargs else getattr(obj, f, None)` -/
def fromService (fields : List Str) (obj kwargs : List (Str × Val)) : List (Str × Val) :=
  fields.map (fun f => (f, if ahas kwargs f then (aget kwargs f).join else (aget obj f).join))

/-! ## prepare_headers -/

structure ClientConfig where
  style : Val
  location : Val
  transport : Val
  soapAction : Val
  input : Val
  output : Val
  encoding : Val
  deriving Repr, DecidableEq

def ClientConfig.ofParams (p : List (Str × Val)) : ClientConfig :=
  let g := fun k => (aget p k).join
  ⟨g ws!"style", g ws!"location", g ws!"transport", g ws!"soap_action", g ws!"input", g ws!"output", g ws!"encoding"⟩

/-- `Client.prepare_headers(headers)`; `none` = `ClientValueError` -/
def prepareHeaders (cfg : ClientConfig) (headers : Dict) : Option Dict :=
  if cfg.transport == some Tables.c17ClientSoapTransport then
    let r := aupdate headers Tables.c17ClientBaseHeaders
    match cfg.soapAction with
    | some a => if a.isEmpty then some r else some (aset r Tables.c17ActionHeader a)
    | none => some r
  else none

/-! ## send -/

/-- what the caller hands to `send` -/
inductive Request
  /-- an instance of class `cls` -/
  | instance (cls : Str) (id : Str)
  /-- a dict that `DictDecoder.decode(obj, config.input)` turns into an instance of `config.input` -/
  | dict (id : Str)
  deriving Repr, DecidableEq

/-- body handed to the transport: the rendered text, encoded if `config.encoding` is truthy -/
structure Data where
  rendered : Str
  encoding : Option Str
  deriving Repr, DecidableEq

inductive Event
  | decode (id : Str) (cls : Val)
  | render (id : Str)
  | post (url : Val) (data : Data) (headers : Dict)
  | parse (response : Str) (cls : Val)
  deriving Repr, DecidableEq

/-- outcome of `send`: the calls made, and whether it returned (the value is
whatever `parser.from_bytes(response, config.output)` returned) or raised
`ClientValueError` -/
structure SendResult where
  events : List Event
  ok : Bool
  deriving Repr, DecidableEq

/-- `Client.prepare_payload` as events + the instance id that gets rendered
(`none` = ClientValueError: not an instance of `config.input`) -/
def preparePayload (cfg : ClientConfig) (req : Request) : List Event × Option Str :=
  match req with
  | .dict id => ([.decode id cfg.input, .render id], some id)
  | .instance cls id => if some cls == cfg.input then ([.render id], some id) else ([], none)

def encodingOf (cfg : ClientConfig) : Option Str :=
  match cfg.encoding with
  | some e => if e.isEmpty then none else some e
  | none => none

/-- `Client.send(obj, headers)` with a transport answering `response`;
`render id` stands for the serializer's output for the instance `id` -/
def send (cfg : ClientConfig) (render : Str → Str) (req : Request) (headers : Dict) (response : Str) : SendResult :=
  match preparePayload cfg req with
  | (ev, none) => ⟨ev, false⟩
  | (ev, some id) =>
    match prepareHeaders cfg headers with
    | none => ⟨ev, false⟩
    | some h =>
      ⟨ev ++ [.post cfg.location ⟨render id, encodingOf cfg⟩ h, .parse response cfg.output], true⟩

/-! ## DefaultTransport.handle_response -/

/-- `requests.Response.raise_for_status` raises `HTTPError` (trusted, documented behaviour of requests) -/
def raiseForStatus (status : Nat) : Bool := 400 ≤ status && status < 600

/-- `DefaultTransport.handle_response`: `true` = the response content is returned
(and goes to the parser), `false` = `HTTPError` -/
def handleResponse (status : Nat) : Bool :=
  if status == 200 || status == 500 then true else !raiseForStatus status

/-! ## detect_lazy_namespace -/

/-- `ProcessAttributeTypes.detect_lazy_namespace(source, target, attr)`: the new `attr.namespace` -/
def detectLazyNamespace (attrNs sourceNs targetNs : Option Str) : Option Str :=
  if attrNs == some Tables.c17LazyMarker then
    (if truthyNs sourceNs then sourceNs
     else if truthyNs targetNs then some [] else none)
  else attrNs
where
  truthyNs : Option Str → Bool
    | some s => !s.isEmpty
    | none => false

/-- what `process_dependency_type` finds for the type of an attr -/
inductive SourceKind
  | absent            -- "Reset absent type": becomes xs:string
  | enumeration
  | simple            -- not a complex type: copy_attribute_properties
  | abstractElement   -- the attr is removed
  | complex           -- reference set, detect_lazy_namespace runs
  deriving Repr, DecidableEq

/-- namespace of the attr after `process_dependency_type` (`none` = attr removed) -/
def resolveNamespace (k : SourceKind) (attrNs sourceNs targetNs : Option Str) : Option (Option Str) :=
  match k with
  | .abstractElement => none
  | .complex => some (detectLazyNamespace attrNs sourceNs targetNs)
  -- absent type, enumeration, simple type: `detect_lazy_namespace(None, target, attr)`
  | _ => some (detectLazyNamespace attrNs none targetNs)

end Xs.Wsdl
