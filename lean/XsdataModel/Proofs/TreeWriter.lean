/-
Proof device: a recursive ("tree-shaped") description of what the
EventHandler state machine sends to its SAX handler for a well-nested event
sequence, and the theorem that the state machine agrees with it (L1).
Nothing here is about namespaces being right; it is only about the pending
tag / flush / tail mechanics.
-/
import XsdataModel.Spec.EventTree
import XsdataModel.Proofs.DictLemmas

namespace Proofs.TreeWriter
open Py Xs.Ns Xs.Sax Xs.Writer Spec.EventTree

abbrev Attrs := List (EName × Option Str)

/-- the ATTR events of one element applied to (`ns_map`, `attrs`); `none` on any exception -/
def attrsRun (env : NsEnv) : List (Str × Val) → NsMap → Attrs → Option (NsMap × Attrs)
  | [], m, a => some (m, a)
  | (q, v) :: r, m, a =>
    match splitQName q with
    | .error _ => none
    | .ok name =>
      match encodeData env (xsiTypeValue env q v) m with
      | .error _ => none
      | .ok (val, m') => attrsRun env r m' (dset a name val)

/-- what `flush_start(is_nil)` does with a pending element -/
structure Flushed where
  calls : List Call
  map : NsMap
  prefixes : List Pfx

def flushed (env : NsEnv) (isNil : Bool) (base : NsMap) (tag : EName) (A : Attrs) (M : NsMap) : Flushed :=
  let A' := if !isNil then dpop A (some env.xsiNil.1, env.xsiNil.2) else A
  let Mf := resetDefaultNamespace tag (addAttrNamespaces env A' M)
  let decls := newPrefixes base Mf
  ⟨decls.map (fun d => Call.startPrefix d.1 d.2) ++ [Call.startElem tag A'], Mf, decls.map (·.1)⟩

def charsCalls : Option Str → List Call
  | some x => if x.isEmpty then [] else [Call.chars x]
  | none => []

def closing (tag : EName) (f : Flushed) : List Call :=
  Call.endElem tag :: f.prefixes.map Call.endPrefix

inductive Job
  /-- content of an open, flushed element whose map is `M`; `inTail` as in the handler -/
  | content (M : NsMap) (inTail : Bool)
  /-- content of an element that is still pending (START and ATTRs seen) -/
  | body (base : NsMap) (tag : EName) (A : Attrs) (M2 : NsMap)

/-- the SAX calls for a forest; `none` when an exception would be raised or
the handler would take its defective path (prefix generated after the
declarations were written) -/
def calls (env : NsEnv) : Job → Content → Option (List Call)
  | .content _ _, .nil => some []
  | .content M _, .data v rest =>
    match encodeData env v M with
    | .error _ => none
    | .ok (val, M') =>
      if M' ≠ M then none
      else match val with
        | none => calls env (.content M true) rest
        | some x =>
          if x.isEmpty then calls env (.content M true) rest
          else (calls env (.content M true) rest).map (Call.chars x :: ·)
  | .content M _, .child q attrs kids rest =>
    match splitQName q with
    | .error _ => none
    | .ok tag =>
      match attrsRun env attrs (addNamespace env tag.1 M) [] with
      | none => none
      | some (M2, A) =>
        match calls env (.body M tag A M2) kids, calls env (.content M false) rest with
        | some b, some r => some (b ++ r)
        | _, _ => none
  | .body base tag A M2, .nil =>
    let f := flushed env true base tag A M2
    some (f.calls ++ closing tag f)
  | .body base tag A M2, .data v k' =>
    match encodeData env v M2 with
    | .error _ => none
    | .ok (val, M3) =>
      let f := flushed env val.isNone base tag A M3
      (calls env (.content f.map true) k').map fun r => f.calls ++ (charsCalls val ++ (r ++ closing tag f))
  | .body base tag A M2, .child q attrs kids rest =>
    let f := flushed env false base tag A M2
    -- the content of the now flushed element, starting with this child
    match splitQName q with
    | .error _ => none
    | .ok tag' =>
      match attrsRun env attrs (addNamespace env tag'.1 f.map) [] with
      | none => none
      | some (M2', A') =>
        match calls env (.body f.map tag' A' M2') kids, calls env (.content f.map false) rest with
        | some b, some r => some (f.calls ++ ((b ++ r) ++ closing tag f))
        | _, _ => none

end Proofs.TreeWriter

namespace Proofs.TreeWriter
open Py Xs.Ns Xs.Sax Xs.Writer Spec.EventTree

/-! ### L1: the state machine agrees with `calls` -/

def prepend (cs : List Call) (r : List Call × Option Err) : List Call × Option Err := (cs ++ r.1, r.2)

@[simp] theorem prepend_nil (r : List Call × Option Err) : prepend [] r = r := by
  cases r; simp [prepend]

theorem prepend_prepend (a b : List Call) (r : List Call × Option Err) :
    prepend a (prepend b r) = prepend (a ++ b) r := by
  cases r; simp [prepend]

theorem hLoop_cons_ok (env : NsEnv) (cfg : Cfg) (s s1 : HState) (e : Ev) (r : List Ev) (c : List Call)
    (h : hStep env cfg false s e = (c, .ok s1)) :
    hLoop env cfg false s (e :: r) = prepend c (hLoop env cfg false s1 r) := by
  simp [hLoop, h, prepend]

def tailAfter : Bool → Content → Bool
  | it, .nil => it
  | _, .data _ rest => tailAfter true rest
  | _, .child _ _ _ rest => tailAfter false rest

/-- ATTR events on a pending element -/
theorem hLoop_attrs (env : NsEnv) (cfg : Cfg) (attrs : List (Str × Val)) :
    ∀ (M : NsMap) (A : Attrs) (M2 : NsMap) (A2 : Attrs), attrsRun env attrs M A = some (M2, A2) →
    ∀ (par : Option (List NsMap)) (tag : EName) (it : Bool) (tl : Option Str) (pp : List (List Pfx)) (lv : Int) (pe : Bool) (ac : Bool)
      (rest : List Ev),
    hLoop env cfg false ⟨M, par, some tag, A, it, tl, pp, lv, pe, ac⟩ (attrEvents attrs ++ rest)
      = hLoop env cfg false ⟨M2, par, some tag, A2, it, tl, pp, lv, pe, ac⟩ rest := by
  induction attrs with
  | nil =>
    intro M A M2 A2 h
    simp [attrsRun] at h
    obtain ⟨rfl, rfl⟩ := h
    intros; rfl
  | cons a r ih =>
    obtain ⟨q, v⟩ := a
    intro M A M2 A2 h par tag it tl pp lv pe ac rest
    simp only [attrsRun] at h
    split at h
    · cases h
    · rename_i name hq
      split at h
      · cases h
      · rename_i val m' he
        have hs : hStep env cfg false ⟨M, par, some tag, A, it, tl, pp, lv, pe, ac⟩ (Ev.attr q v)
            = ([], .ok ⟨m', par, some tag, dset A name val, it, tl, pp, lv, pe, ac⟩) := by
          simp [hStep, hAddAttribute, hq, he]
        simp only [attrEvents, List.map_cons, List.cons_append]
        rw [hLoop_cons_ok env cfg _ _ _ _ _ hs]
        simp only [prepend_nil]
        exact ih m' (dset A name val) M2 A2 h par tag it tl pp lv pe ac rest

end Proofs.TreeWriter

namespace Proofs.TreeWriter
open Py Xs.Ns Xs.Sax Xs.Writer Spec.EventTree

def baseOf : List NsMap → NsMap
  | p :: _ => p
  | [] => []

theorem flushStart_pending (env : NsEnv) (isNil : Bool) (M2 : NsMap) (pl : List NsMap) (tag : EName)
    (A : Attrs) (it : Bool) (tl : Option Str) (pp : List (List Pfx)) (lv : Int) (pe : Bool) (ac : Bool) :
    flushStart env isNil ⟨M2, some pl, some tag, A, it, tl, pp, lv, pe, ac⟩
      = ((flushed env isNil (baseOf pl) tag A M2).calls,
         ⟨(flushed env isNil (baseOf pl) tag A M2).map, some pl, none, [], false, tl,
          (flushed env isNil (baseOf pl) tag A M2).prefixes :: pp, lv, pe, ac⟩) := by
  cases pl <;> simp [flushStart, flushed, baseOf]

theorem flushStart_idle (env : NsEnv) (isNil : Bool) (M : NsMap) (par : Option (List NsMap))
    (A : Attrs) (it : Bool) (tl : Option Str) (pp : List (List Pfx)) (lv : Int) (pe : Bool) (ac : Bool) :
    flushStart env isNil ⟨M, par, none, A, it, tl, pp, lv, pe, ac⟩ = ([], ⟨M, par, none, A, it, tl, pp, lv, pe, ac⟩) := by
  simp [flushStart]

def endMap : List NsMap → NsMap → NsMap
  | p :: _, _ => p
  | [], m => m

def endParents : List NsMap → Option (List NsMap)
  | _ :: r => some r
  | [] => none

/-- END on a flushed element -/
theorem hEndTag_idle (env : NsEnv) (q : Str) (tag : EName) (hq : splitQName q = .ok tag) (M : NsMap) (pl : List NsMap)
    (it : Bool) (pre : List Pfx) (pp : List (List Pfx)) (lv : Int) (pe : Bool) (ac : Bool) :
    hEndTag env q ⟨M, some pl, none, [], it, none, pre :: pp, lv, pe, ac⟩
      = (Call.endElem tag :: pre.map Call.endPrefix,
         .ok ⟨endMap pl M, endParents pl, none, [], false, none, pp, lv, pe, ac⟩) := by
  cases pl <;> simp [hEndTag, flushStart, hq, endMap, endParents]

end Proofs.TreeWriter

namespace Proofs.TreeWriter
open Py Xs.Ns Xs.Sax Xs.Writer Spec.EventTree

/-- END on a pending element -/
theorem hEndTag_pending (env : NsEnv) (q : Str) (tag : EName) (hq : splitQName q = .ok tag) (M2 : NsMap)
    (pl : List NsMap) (A : Attrs) (it : Bool) (pp : List (List Pfx)) (lv : Int) (pe : Bool) (ac : Bool) :
    hEndTag env q ⟨M2, some pl, some tag, A, it, none, pp, lv, pe, ac⟩
      = ((flushed env true (baseOf pl) tag A M2).calls ++ closing tag (flushed env true (baseOf pl) tag A M2),
         .ok ⟨endMap pl (flushed env true (baseOf pl) tag A M2).map, endParents pl, none, [], false, none, pp, lv, pe, ac⟩) := by
  unfold hEndTag
  rw [flushStart_pending]
  cases pl <;> simp [hq, endMap, endParents, closing]

/-- START while the parent is still pending: the parent is flushed first -/
theorem hStartTag_pending (env : NsEnv) (q : Str) (M2 : NsMap) (pl : List NsMap) (tag : EName)
    (A : Attrs) (it : Bool) (pp : List (List Pfx)) (lv : Int) (pe : Bool) (ac : Bool) :
    hStartTag env q ⟨M2, some pl, some tag, A, it, none, pp, lv, pe, ac⟩
      = ((flushed env false (baseOf pl) tag A M2).calls ++
          (hStartTag env q ⟨(flushed env false (baseOf pl) tag A M2).map, some pl, none, [], false, none,
            (flushed env false (baseOf pl) tag A M2).prefixes :: pp, lv, pe, ac⟩).1,
         (hStartTag env q ⟨(flushed env false (baseOf pl) tag A M2).map, some pl, none, [], false, none,
            (flushed env false (baseOf pl) tag A M2).prefixes :: pp, lv, pe, ac⟩).2) := by
  unfold hStartTag
  rw [flushStart_pending]
  simp only [flushStart_idle]
  cases splitQName q <;> simp

theorem hLoop_start_pending (env : NsEnv) (cfg : Cfg) (q : Str) (M2 : NsMap) (pl : List NsMap) (tag : EName)
    (A : Attrs) (it : Bool) (pp : List (List Pfx)) (lv : Int) (pe : Bool) (ac : Bool) (r : List Ev) :
    hLoop env cfg false ⟨M2, some pl, some tag, A, it, none, pp, lv, pe, ac⟩ (Ev.start q :: r)
      = prepend (flushed env false (baseOf pl) tag A M2).calls
          (hLoop env cfg false ⟨(flushed env false (baseOf pl) tag A M2).map, some pl, none, [], false, none,
            (flushed env false (baseOf pl) tag A M2).prefixes :: pp, lv, pe, ac⟩ (Ev.start q :: r)) := by
  simp only [hLoop, hStep]
  rw [hStartTag_pending]
  generalize hStartTag env q _ = res
  obtain ⟨c, e⟩ := res
  cases e <;> simp [prepend]

end Proofs.TreeWriter

namespace Proofs.TreeWriter
open Py Xs.Ns Xs.Sax Xs.Writer Spec.EventTree

/-- the two halves of L1 for one forest -/
def L1 (env : NsEnv) (cfg : Cfg) (c : Content) : Prop :=
  (∀ M it cs, calls env (.content M it) c = some cs →
    ∀ (ps : List NsMap) (pre : List Pfx) (pp : List (List Pfx)) (lv : Int) (pe : Bool) (ac : Bool) (rest : List Ev),
     hLoop env cfg false ⟨M, some ps, none, [], it, none, pre :: pp, lv, pe, ac⟩ (flatten c ++ rest)
     = prepend cs (hLoop env cfg false ⟨M, some ps, none, [], tailAfter it c, none, pre :: pp, lv, pe, ac⟩ rest))
  ∧
  (∀ base tag A M2 cs, calls env (.body base tag A M2) c = some cs →
    ∀ (pl : List NsMap) (pp : List (List Pfx)) (it : Bool) (lv : Int) (pe : Bool) (ac : Bool) (q : Str) (rest : List Ev),
     splitQName q = .ok tag → base = baseOf pl →
     ∃ mfin, hLoop env cfg false ⟨M2, some pl, some tag, A, it, none, pp, lv, pe, ac⟩ (flatten c ++ Ev.end_ q :: rest)
       = prepend cs (hLoop env cfg false ⟨endMap pl mfin, endParents pl, none, [], false, none, pp, lv, pe, ac⟩ rest))

theorem hSetData_idle (env : NsEnv) (v : Val) (M : NsMap) (val : Option Str)
    (he : encodeData env v M = .ok (val, M)) (par : Option (List NsMap)) (it : Bool) (pp : List (List Pfx))
    (lv : Int) (pe : Bool) (ac : Bool) :
    hSetData env v ⟨M, par, none, [], it, none, pp, lv, pe, ac⟩
      = (charsCalls val, .ok ⟨M, par, none, [], true, none, pp, lv, pe, ac⟩) := by
  unfold hSetData
  rw [he]
  simp only [flushStart_idle]
  cases val with
  | none => simp [charsCalls]
  | some x =>
    by_cases hx : x.isEmpty = true
    · simp [charsCalls, hx]
    · simp [charsCalls, hx]

theorem hSetData_pending (env : NsEnv) (v : Val) (M2 M3 : NsMap) (val : Option Str)
    (he : encodeData env v M2 = .ok (val, M3)) (pl : List NsMap) (tag : EName) (A : Attrs) (it : Bool)
    (pp : List (List Pfx)) (lv : Int) (pe : Bool) (ac : Bool) :
    hSetData env v ⟨M2, some pl, some tag, A, it, none, pp, lv, pe, ac⟩
      = ((flushed env val.isNone (baseOf pl) tag A M3).calls ++ charsCalls val,
         .ok ⟨(flushed env val.isNone (baseOf pl) tag A M3).map, some pl, none, [], true, none,
              (flushed env val.isNone (baseOf pl) tag A M3).prefixes :: pp, lv, pe, ac⟩) := by
  unfold hSetData
  rw [he]
  simp only [flushStart_pending]
  cases val with
  | none => simp [charsCalls]
  | some x =>
    by_cases hx : x.isEmpty = true
    · simp [charsCalls, hx]
    · simp [charsCalls, hx]

theorem l1_all (env : NsEnv) (cfg : Cfg) (c : Content) : L1 env cfg c := by
  induction c with
  | nil =>
    refine ⟨?_, ?_⟩
    · intro M it cs h ps pre pp lv pe ac rest
      simp [calls] at h
      subst h
      simp [flatten, tailAfter]
    · intro base tag A M2 cs h pl pp it lv pe ac q rest hq hb
      simp [calls] at h
      subst h; subst hb
      refine ⟨(flushed env true (baseOf pl) tag A M2).map, ?_⟩
      simp only [flatten, List.nil_append]
      exact hLoop_cons_ok env cfg _ _ _ _ _ (by simp [hStep]; exact hEndTag_pending env q tag hq M2 pl A it pp lv pe ac)
  | data v k ih =>
    refine ⟨?_, ?_⟩
    · intro M it cs h ps pre pp lv pe ac rest
      simp only [calls] at h
      split at h
      · cases h
      · rename_i val M' he
        split at h
        · cases h
        · rename_i hM
          have hM' : M' = M := by simpa using hM
          subst hM'
          simp only [flatten, List.cons_append, tailAfter]
          cases val with
          | none =>
            simp only [] at h
            rw [hLoop_cons_ok env cfg _ _ _ _ _ (by simp [hStep]; exact hSetData_idle env v M' none he (some ps) it (pre :: pp) lv pe ac)]
            rw [ih.1 M' true cs h ps pre pp lv pe ac rest]
            simp [charsCalls]
          | some x =>
            simp only [] at h
            by_cases hx : x.isEmpty = true
            · simp only [hx, if_true] at h
              rw [hLoop_cons_ok env cfg _ _ _ _ _ (by simp [hStep]; exact hSetData_idle env v M' (some x) he (some ps) it (pre :: pp) lv pe ac)]
              rw [ih.1 M' true cs h ps pre pp lv pe ac rest]
              simp [charsCalls, hx]
            · simp only [hx] at h
              simp at h
              obtain ⟨r, hr, rfl⟩ := h
              rw [hLoop_cons_ok env cfg _ _ _ _ _ (by simp [hStep]; exact hSetData_idle env v M' (some x) he (some ps) it (pre :: pp) lv pe ac)]
              rw [ih.1 M' true r hr ps pre pp lv pe ac rest]
              simp [charsCalls, hx, prepend_prepend]
    · intro base tag A M2 cs h pl pp it lv pe ac q rest hq hb
      subst hb
      simp only [calls] at h
      split at h
      · cases h
      · rename_i val M3 he
        simp at h
        obtain ⟨r, hr, rfl⟩ := h
        refine ⟨(flushed env val.isNone (baseOf pl) tag A M3).map, ?_⟩
        simp only [flatten, List.cons_append]
        rw [hLoop_cons_ok env cfg _ _ _ _ _ (by simp [hStep]; exact hSetData_pending env v M2 M3 val he pl tag A it pp lv pe ac)]
        rw [ih.1 _ true r hr pl _ pp lv pe ac (Ev.end_ q :: rest)]
        rw [hLoop_cons_ok env cfg _ _ _ _ _ (by simp [hStep]; exact hEndTag_idle env q tag hq _ pl _ _ pp lv pe ac)]
        simp [prepend_prepend, closing]
  | child q0 attrs kids rest0 ihk ihr =>
    have hcontent : ∀ M it cs, calls env (.content M it) (.child q0 attrs kids rest0) = some cs →
        ∀ (ps : List NsMap) (pre : List Pfx) (pp : List (List Pfx)) (lv : Int) (pe : Bool) (ac : Bool) (rest : List Ev),
        hLoop env cfg false ⟨M, some ps, none, [], it, none, pre :: pp, lv, pe, ac⟩ (flatten (.child q0 attrs kids rest0) ++ rest)
        = prepend cs (hLoop env cfg false ⟨M, some ps, none, [], tailAfter it (.child q0 attrs kids rest0), none, pre :: pp, lv, pe, ac⟩ rest) := by
      intro M it cs h ps pre pp lv pe ac rest
      simp only [calls] at h
      split at h
      · cases h
      · rename_i tag hq
        split at h
        · cases h
        · rename_i M2 A ha
          split at h
          · rename_i b r hb hr
            cases h
            simp only [flatten, List.cons_append, List.append_assoc, tailAfter]
            have hs : hStep env cfg false ⟨M, some ps, none, [], it, none, pre :: pp, lv, pe, ac⟩ (Ev.start q0)
                = ([], .ok ⟨addNamespace env tag.1 M, some (M :: ps), some tag, [], it, none, pre :: pp, lv, pe, ac⟩) := by
              simp [hStep, hStartTag, flushStart_idle, hq]
            rw [hLoop_cons_ok env cfg _ _ _ _ _ hs, prepend_nil]
            rw [hLoop_attrs env cfg attrs _ _ _ _ ha]
            obtain ⟨mfin, hbody⟩ := ihk.2 M tag A M2 b hb (M :: ps) (pre :: pp) it lv pe ac q0 (flatten rest0 ++ rest) hq rfl
            rw [hbody]
            simp only [endMap, endParents]
            rw [ihr.1 M false r hr ps pre pp lv pe ac rest]
            simp [prepend_prepend]
          · cases h
    refine ⟨hcontent, ?_⟩
    intro base tag A M2 cs h pl pp it lv pe ac q rest hq hb
    subst hb
    -- unfold the body definition and fold it back into the content definition at the flushed map
    have hc : ∃ inner, calls env (.content (flushed env false (baseOf pl) tag A M2).map false) (.child q0 attrs kids rest0) = some inner
        ∧ cs = (flushed env false (baseOf pl) tag A M2).calls ++ (inner ++ closing tag (flushed env false (baseOf pl) tag A M2)) := by
      simp only [calls] at h ⊢
      split at h
      · cases h
      · rename_i tag' hq'
        split at h
        · cases h
        · rename_i M2' A' ha
          split at h
          · rename_i b r hb hr
            cases h
            exact ⟨b ++ r, by simp, rfl⟩
          · cases h
    obtain ⟨inner, hinner, rfl⟩ := hc
    refine ⟨(flushed env false (baseOf pl) tag A M2).map, ?_⟩
    have hfl : flatten (.child q0 attrs kids rest0) ++ Ev.end_ q :: rest
        = Ev.start q0 :: (attrEvents attrs ++ (flatten kids ++ Ev.end_ q0 :: (flatten rest0 ++ Ev.end_ q :: rest))) := by
      simp [flatten]
    rw [hfl, hLoop_start_pending, ← hfl]
    rw [hcontent _ false inner hinner pl _ pp lv pe ac (Ev.end_ q :: rest)]
    rw [hLoop_cons_ok env cfg _ _ _ _ _ (by simp [hStep]; exact hEndTag_idle env q tag hq _ pl _ _ pp lv pe ac)]
    simp [prepend_prepend, closing]

end Proofs.TreeWriter

namespace Proofs.TreeWriter
open Py Xs.Ns Xs.Sax Xs.Writer Spec.EventTree

/-! ### documents -/

theorem hStep_native_noindent (env : NsEnv) (cfg : Cfg) (hi : cfg.indent = none) (s : HState) (e : Ev) :
    hStep env cfg true s e = hStep env cfg false s e := by
  cases e <;> simp [hStep, nStartTag, nEndTag, nSetData, hi]
  rename_i q
  generalize hStartTag env q s = r
  obtain ⟨c, x⟩ := r
  cases x <;> rfl

theorem hLoop_native_noindent (env : NsEnv) (cfg : Cfg) (hi : cfg.indent = none) (es : List Ev) :
    ∀ s, hLoop env cfg true s es = hLoop env cfg false s es := by
  induction es with
  | nil => intro s; rfl
  | cons e r ih =>
    intro s
    simp only [hLoop, hStep_native_noindent env cfg hi, ih]

theorem hAddAttribute_root_shape (env : NsEnv) (q : Str) (v : Val) (M : NsMap) (A : Attrs) (s' : HState)
    (h : (hAddAttribute env q v true ⟨M, none, none, A, false, none, [], 0, false, false⟩).2 = .ok s') :
    s' = ⟨s'.nsMap, none, none, s'.attrs, false, none, [], 0, false, false⟩ := by
  unfold hAddAttribute at h
  cases hq : splitQName q with
  | error e => simp [hq] at h
  | ok name =>
    cases he : encodeData env (xsiTypeValue env q v) M with
    | error e => simp [hq, he] at h
    | ok r =>
      obtain ⟨val, m'⟩ := r
      simp [hq, he] at h
      subst h; rfl

theorem rootAttr1_shape (env : NsEnv) (o : Option Str) (qn : Str) (s s' : HState)
    (hs : s = ⟨s.nsMap, none, none, s.attrs, false, none, [], 0, false, false⟩)
    (h : rootAttr1 env o qn s = .ok s') :
    s' = ⟨s'.nsMap, none, none, s'.attrs, false, none, [], 0, false, false⟩ := by
  unfold rootAttr1 at h
  cases o with
  | none => cases h; exact hs
  | some loc =>
    by_cases hl : loc.isEmpty = true
    · simp [hl] at h; cases h; exact hs
    · simp [hl] at h
      rw [hs] at h
      exact hAddAttribute_root_shape env qn _ _ _ s' h

theorem rootAttrs_shape (env : NsEnv) (cfg : Cfg) (M0 : NsMap) (s0 : HState)
    (h : rootAttrs env cfg (HState.init M0) = .ok s0) :
    s0 = ⟨s0.nsMap, none, none, s0.attrs, false, none, [], 0, false, false⟩ := by
  unfold rootAttrs at h
  cases h1 : rootAttr1 env cfg.schemaLocation env.xsiSchemaLocation (HState.init M0) with
  | error e => simp [h1] at h
  | ok s1 =>
    simp [h1] at h
    exact rootAttr1_shape env _ _ s1 s0 (rootAttr1_shape env _ _ _ s1 rfl h1) h

/-- the SAX calls for a whole document (one element), or `none` -/
def docCalls (env : NsEnv) (cfg : Cfg) (m : List (Pfx × Str)) (q : Str) (attrs : List (Str × Val))
    (kids : Content) : Option (List Call) :=
  match rootAttrs env cfg (HState.init (serializerNsMap m)), splitQName q with
  | .ok s0, .ok tag =>
    match attrsRun env attrs (addNamespace env tag.1 s0.nsMap) s0.attrs with
    | some (M2, A) => calls env (.body [] tag A M2) kids
    | none => none
  | _, _ => none

theorem handlerRun_document (env : NsEnv) (cfg : Cfg) (m : List (Pfx × Str)) (q : Str)
    (attrs : List (Str × Val)) (kids : Content) (cs : List Call)
    (hv : prefixesValid env (serializerNsMap m) = true)
    (h : docCalls env cfg m q attrs kids = some cs) :
    handlerRun env cfg false m (document q attrs kids) = (cs, none) := by
  unfold docCalls at h
  split at h
  · rename_i s0 tag hr hq
    split at h
    · rename_i M2 A ha
      have hshape := rootAttrs_shape env cfg _ s0 hr
      unfold handlerRun
      simp only [hv, Bool.not_true, Bool.false_eq_true, if_false]
      rw [hr]
      simp only [document, flatten]
      rw [hshape]
      have hs : hStep env cfg false ⟨s0.nsMap, none, none, s0.attrs, false, none, [], 0, false, false⟩ (Ev.start q)
          = ([], .ok ⟨addNamespace env tag.1 s0.nsMap, some [], some tag, s0.attrs, false, none, [], 0, false, false⟩) := by
        simp [hStep, hStartTag, flushStart_idle, hq]
      rw [hLoop_cons_ok env cfg _ _ _ _ _ hs, prepend_nil]
      rw [hLoop_attrs env cfg attrs _ _ _ _ ha]
      obtain ⟨mfin, hbody⟩ := (l1_all env cfg kids).2 [] tag A M2 cs h [] [] false 0 false false q [] hq rfl
      rw [hbody]
      simp [hLoop, prepend]
    · cases h
  · cases h

theorem handlerRun_native_document (env : NsEnv) (cfg : Cfg) (hi : cfg.indent = none) (m : List (Pfx × Str))
    (q : Str) (attrs : List (Str × Val)) (kids : Content) (cs : List Call)
    (hv : prefixesValid env (serializerNsMap m) = true)
    (h : docCalls env cfg m q attrs kids = some cs) :
    handlerRun env cfg true m (document q attrs kids) = (cs, none) := by
  rw [← handlerRun_document env cfg m q attrs kids cs hv h]
  unfold handlerRun
  simp only [hv, Bool.not_true, Bool.false_eq_true, if_false]
  split
  · rfl
  · exact hLoop_native_noindent env cfg hi _ _

end Proofs.TreeWriter
