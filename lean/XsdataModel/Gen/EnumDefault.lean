/-
L8 — default / fixed values of enumeration-typed fields (C02, C16):

* `SanitizeAttributesDefaultValue.is_valid_enum_type`: the string default of an attr whose type is an
  enumeration class becomes the placeholder `@enum@{qname}::{member names}`; the names are the
  `name`s of the member attrs — which `RenameDuplicateAttributes` may have changed when two values
  collide after slugging (`on` / `ON` → `on`, `ON_1`; `x-1` / `x1` → `x-1`, `x1_1`) — looked up by
  the member's *value* (`x.default`), for the whole default first, then token by token;
* `Filters.field_default_enum`: the placeholder is rendered as `Class.MEMBER` (one member) or as a
  list of members (tokens), through `constant_name` of each referenced name: the default of the
  dataclass field is the enum member of that name.

Python's `str.split()` is modelled for the ASCII white space characters.
-/
import XsdataModel.Py.Basic

namespace Xs.Gen
open Py

/-- a member attr of the enumeration class: `default` = the value, `name` = the member's name after
`RenameDuplicateAttributes` -/
structure EnumMember where
  value : Str
  name : Str
deriving DecidableEq, Repr

def isAsciiWs (c : Char) : Bool :=
  c = ' ' || c = '\t' || c = '\n' || c = '\r' || c = '\x0b' || c = '\x0c'

/-- `str.split()` -/
def splitWs (s : Str) : List Str :=
  go s [] []
where
  go : Str → Str → List Str → List Str
    | [], cur, acc => (if cur.isEmpty then acc else acc ++ [cur])
    | c :: cs, cur, acc =>
      if isAsciiWs c then go cs [] (if cur.isEmpty then acc else acc ++ [cur])
      else go cs (cur ++ [c]) acc

/-- `value_members = {x.default: x.name for x in source.attrs}` then `.get(v)`: the last member with
that value wins -/
def memberNameOf (members : List EnumMember) (v : Str) : Option Str :=
  (members.reverse.find? (·.value = v)).map (·.name)

/-- `is_valid_enum_type`: the member names the placeholder refers to (`none`: no member matches, the
default value is then tested against the native types) -/
def enumPlaceholder (members : List EnumMember) (default : Str) : Option (List Str) :=
  match memberNameOf members default with
  | some (c :: cs) => some [c :: cs]
  | _ =>
    let names := (splitWs default).filterMap (memberNameOf members)
    if names.isEmpty then none else some names

/-- `field_default_enum` + the generated `Enum`: the value of the member a referenced name stands for -/
def memberValueOf (members : List EnumMember) (name : Str) : Option Str :=
  (members.find? (·.name = name)).map (·.value)

/-- the values the default of the generated field holds (`none`: no enum default; an inner `none`: the
rendered reference names no member of the generated `Enum` — `AttributeError` on import) -/
def enumDefaultValues (members : List EnumMember) (default : Str) : Option (List (Option Str)) :=
  (enumPlaceholder members default).map fun names => names.map (memberValueOf members)

end Xs.Gen
