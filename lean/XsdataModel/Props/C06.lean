/- C06 — property theorems (only). -/
import XsdataModel.Lex.Dates
import XsdataModel.Lex.Period
import XsdataModel.Proofs.Timeline
import XsdataModel.Spec.XsdDate

namespace Props.C06
open Py Xs.Dates Proofs.Timeline

/-- `validateDate` accepts exactly the real calendar dates (month 1..12, day within the month). -/
def realDate (y m d : Int) : Prop :=
  1 ≤ m ∧ m ≤ 12 ∧ 1 ≤ d ∧ ∃ md, monthlen y m.toNat = some md ∧ d ≤ (md : Int)

/-- A time of day is real when h:m:s.f is in range, 24 only as 24:00:00. -/
def realTime (h mi s f : Int) : Prop :=
  0 ≤ mi ∧ mi ≤ 59 ∧ 0 ≤ s ∧ s ≤ 59 ∧ 0 ≤ f ∧ f ≤ 999999999 ∧
  ((0 ≤ h ∧ h ≤ 23) ∨ (h = 24 ∧ mi = 0 ∧ s = 0 ∧ f = 0))

theorem validateDate_real (y m d : Int) (h : validateDate y m d = true) : realDate y m d := by
  unfold validateDate at h
  split at h
  · simp at h
  · rename_i hm
    simp at hm
    split at h
    · simp at h
    · rename_i md hmd
      simp at h
      exact ⟨hm.1, hm.2, h.1, md, hmd, h.2⟩

theorem validateTime_real (h mi s f : Int) (hv : validateTime h mi s f = true) : realTime h mi s f := by
  unfold validateTime at hv
  unfold realTime
  split at hv; · simp at hv
  split at hv; · simp at hv
  split at hv; · simp at hv
  split at hv; · simp at hv
  split at hv; · simp at hv
  rename_i h1 h2 h3 h4 h5
  simp at h1 h2 h3 h4 h5
  omega

/-- **reject_unreal (date)**: for every environment and *every* string, what
`XmlDate.from_string` accepts is a real calendar date. -/
theorem reject_unreal_date (e : Env) (s : Str) (v : XmlDate)
    (h : XmlDate.fromString e s = some v) : realDate v.year v.month v.day := by
  unfold XmlDate.fromString at h
  split at h
  · split at h
    · rename_i hv
      cases h
      exact validateDate_real _ _ _ hv
    · cases h
  · cases h

/-- **reject_unreal (time)** -/
theorem reject_unreal_time (e : Env) (s : Str) (v : XmlTime)
    (h : XmlTime.fromString e s = some v) : realTime v.hour v.minute v.second v.frac := by
  unfold XmlTime.fromString at h
  split at h
  · split at h
    · rename_i hv
      cases h
      exact validateTime_real _ _ _ _ hv
    · cases h
  · cases h

/-- **reject_unreal (dateTime)** -/
theorem reject_unreal_datetime (e : Env) (s : Str) (v : XmlDateTime)
    (h : XmlDateTime.fromString e s = some v) :
    realDate v.year v.month v.day ∧ realTime v.hour v.minute v.second v.frac := by
  unfold XmlDateTime.fromString at h
  split at h
  · split at h
    · rename_i hv
      cases h
      simp at hv
      exact ⟨validateDate_real _ _ _ hv.1, validateTime_real _ _ _ _ hv.2⟩
    · cases h
  · cases h


/-- **reject_unreal (g\* periods)**: what `XmlPeriod` accepts has month 1..12 and a
day that exists (in the given month of a leap year, or 1..31 without a month). -/
theorem reject_unreal_period (e : Env) (s : Str) (p : TimePeriod)
    (h : parsePeriod e s = some p) : realDate 0 (p.month.getD 1) (p.day.getD 1) := by
  unfold parsePeriod at h
  simp only at h
  split at h
  · cases h
  · split at h
    · rename_i hv
      cases h
      exact validateDate_real _ _ _ hv
    · cases h

/-! ### the comparison key agrees with the timeline

`days_from_civil` is characterised independently of its closed form: it is 0 at
the epoch 0000-03-01 and grows by exactly one from each real calendar day to the
next one (month lengths and leap years from `monthlen`). -/

theorem days_from_civil_epoch : daysFromCivil 0 3 1 = 0 := by decide

theorem days_from_civil_succ (y m d : Int) (h : realDate y m d) :
    daysFromCivil (nextDay y m d).1 (nextDay y m d).2.1 (nextDay y m d).2.2
      = daysFromCivil y m d + 1 := by
  obtain ⟨h1, h2, _, md, hm, hd⟩ := h
  exact dfc_succ y m d h1 h2 md hm hd

/-- the day number orders real dates exactly as the calendar does -/
theorem days_from_civil_lt_iff (y m d y' m' d' : Int) (h : realDate y m d) (h' : realDate y' m' d') :
    daysFromCivil y m d < daysFromCivil y' m' d' ↔ dateLt y m d y' m' d' := by
  obtain ⟨h1, h2, h3, md, hm, hd⟩ := h
  obtain ⟨h1', h2', h3', md', hm', hd'⟩ := h'
  constructor
  · intro hlt
    by_cases hc : dateLt y m d y' m' d'
    · exact hc
    · exfalso
      by_cases heq : y = y' ∧ m = m' ∧ d = d'
      · obtain ⟨rfl, rfl, rfl⟩ := heq; omega
      · have : dateLt y' m' d' y m d := by
          unfold dateLt at hc ⊢; omega
        have := dfc_lt_of_dateLt y' m' d' y m d h1' h2' md' hm' hd' h1 h2 h3 this
        omega
  · exact dfc_lt_of_dateLt y m d y' m' d' h1 h2 md hm hd h1' h2' h3'

/-- 24:00:00 is the first instant of the next day -/
theorem timeline_end_of_day (y m d : Int) (o : Option Int) (h : realDate y m d) :
    XmlDateTime.timeline ⟨y, m, d, 24, 0, 0, 0, o⟩
      = XmlDateTime.timeline ⟨(nextDay y m d).1, (nextDay y m d).2.1, (nextDay y m d).2.2, 0, 0, 0, 0, o⟩ := by
  have := days_from_civil_succ y m d h
  simp only [XmlDateTime.timeline, this]
  omega

/-- a value with offset `o` is the same instant as the UTC value `o` minutes earlier -/
theorem timeline_offset (v : XmlDateTime) (o : Int) :
    XmlDateTime.timeline { v with offset := some o }
      = XmlDateTime.timeline { v with minute := v.minute - o, offset := some 0 } := by
  simp only [XmlDateTime.timeline, Option.getD_some]
  omega

/-- time-of-day components in range (hour ≤ 23) -/
def todOK (h mi s f : Int) : Prop :=
  0 ≤ h ∧ h ≤ 23 ∧ 0 ≤ mi ∧ mi ≤ 59 ∧ 0 ≤ s ∧ s ≤ 59 ∧ 0 ≤ f ∧ f ≤ 999999999

/-- lexicographic order on (date, hour, minute, second, fraction) -/
def dtLt (a b : XmlDateTime) : Prop :=
  dateLt a.year a.month a.day b.year b.month b.day ∨
  (a.year = b.year ∧ a.month = b.month ∧ a.day = b.day ∧
    (a.hour < b.hour ∨ (a.hour = b.hour ∧ (a.minute < b.minute ∨ (a.minute = b.minute ∧
      (a.second < b.second ∨ (a.second = b.second ∧ a.frac < b.frac)))))))

/-- **cmp_timeline (dateTime)**: for real values in the same timezone the key
orders exactly as calendar + clock order; with `timeline_offset` and
`timeline_end_of_day` this extends to all offsets and to 24:00:00. -/
theorem datetime_key_lt_iff (a b : XmlDateTime)
    (ha : realDate a.year a.month a.day) (hb : realDate b.year b.month b.day)
    (hta : todOK a.hour a.minute a.second a.frac) (htb : todOK b.hour b.minute b.second b.frac)
    (ho : a.offset.getD 0 = b.offset.getD 0) :
    a.timeline < b.timeline ↔ dtLt a b := by
  have key := days_from_civil_lt_iff a.year a.month a.day b.year b.month b.day ha hb
  have key' := days_from_civil_lt_iff b.year b.month b.day a.year a.month a.day hb ha
  unfold todOK at hta htb
  simp only [XmlDateTime.timeline, dtLt, ho]
  generalize hA : daysFromCivil a.year a.month a.day = A at *
  generalize hB : daysFromCivil b.year b.month b.day = B at *
  by_cases hlt : A < B
  · have := key.mp hlt
    constructor
    · intro _; exact Or.inl this
    · intro _; omega
  · by_cases hgt : B < A
    · have hd := key'.mp hgt
      constructor
      · intro h; exfalso; omega
      · intro h
        exfalso
        rcases h with h | h
        · exact hlt (key.mpr h)
        · unfold dateLt at hd; omega
    · have hAB : A = B := by omega
      have hnd : ¬ dateLt a.year a.month a.day b.year b.month b.day := fun h => hlt (key.mpr h)
      have hnd' : ¬ dateLt b.year b.month b.day a.year a.month a.day := fun h => hgt (key'.mpr h)
      have hsame : a.year = b.year ∧ a.month = b.month ∧ a.day = b.day := by
        unfold dateLt at hnd hnd'; omega
      subst hAB
      constructor
      · intro h; right; refine ⟨hsame.1, hsame.2.1, hsame.2.2, ?_⟩; omega
      · intro h
        rcases h with h | h
        · exact absurd h hnd
        · omega

/-- **cmp_timeline (time)**: same statement for `XmlTime`. -/
theorem time_key_lt_iff (a b : XmlTime)
    (hta : todOK a.hour a.minute a.second a.frac) (htb : todOK b.hour b.minute b.second b.frac)
    (ho : a.offset.getD 0 = b.offset.getD 0) :
    a.timeline < b.timeline ↔
      (a.hour < b.hour ∨ (a.hour = b.hour ∧ (a.minute < b.minute ∨ (a.minute = b.minute ∧
        (a.second < b.second ∨ (a.second = b.second ∧ a.frac < b.frac)))))) := by
  unfold todOK at hta htb
  simp only [XmlTime.timeline, ho]
  omega

/-- equal keys of real same-offset values mean equal values (no two distinct
instants are identified, unlike the former float `duration`) -/
theorem datetime_key_inj (a b : XmlDateTime)
    (ha : realDate a.year a.month a.day) (hb : realDate b.year b.month b.day)
    (hta : todOK a.hour a.minute a.second a.frac) (htb : todOK b.hour b.minute b.second b.frac)
    (ho : a.offset = b.offset) (hk : a.timeline = b.timeline) : a = b := by
  have ho' : a.offset.getD 0 = b.offset.getD 0 := by rw [ho]
  have h1 := datetime_key_lt_iff a b ha hb hta htb ho'
  have h2 := datetime_key_lt_iff b a hb ha htb hta ho'.symm
  have n1 : ¬ dtLt a b := fun h => by have := h1.mpr h; omega
  have n2 : ¬ dtLt b a := fun h => by have := h2.mpr h; omega
  unfold dtLt dateLt at n1 n2
  obtain ⟨ay, am, ad, ah, ami, as, af, ao⟩ := a
  obtain ⟨bY, bm, bd, bh, bmi, bs, bf, bo⟩ := b
  simp only at n1 n2 ho
  simp only [XmlDateTime.mk.injEq]
  refine ⟨by omega, by omega, by omega, by omega, by omega, by omega, by omega, ho⟩

/-- the same for `XmlTime`: equal keys of in-range same-offset times mean equal times -/
theorem time_key_inj (a b : XmlTime)
    (hta : todOK a.hour a.minute a.second a.frac) (htb : todOK b.hour b.minute b.second b.frac)
    (ho : a.offset = b.offset) (hk : a.timeline = b.timeline) : a = b := by
  unfold todOK at hta htb
  obtain ⟨ah, ami, as, af, ao⟩ := a
  obtain ⟨bh, bmi, bs, bf, bo⟩ := b
  simp only at ho hta htb
  subst ho
  simp only [XmlTime.timeline] at hk
  simp only [XmlTime.mk.injEq]
  refine ⟨by omega, by omega, by omega, by omega, trivial⟩

/-- the calendar + clock order is total on real same-offset values: of `a` before `b`,
`a = b`, `b` before `a` one holds (and by `datetime_key_lt_iff` / `datetime_key_inj`
the key decides which), so `_cmp` never leaves two distinct instants unordered -/
theorem datetime_key_trichotomy (a b : XmlDateTime)
    (ha : realDate a.year a.month a.day) (hb : realDate b.year b.month b.day)
    (hta : todOK a.hour a.minute a.second a.frac) (htb : todOK b.hour b.minute b.second b.frac)
    (ho : a.offset = b.offset) :
    dtLt a b ∨ a = b ∨ dtLt b a := by
  have ho' : a.offset.getD 0 = b.offset.getD 0 := by rw [ho]
  have h1 := datetime_key_lt_iff a b ha hb hta htb ho'
  have h2 := datetime_key_lt_iff b a hb ha htb hta ho'.symm
  by_cases c1 : a.timeline < b.timeline
  · exact Or.inl (h1.mp c1)
  · by_cases c2 : b.timeline < a.timeline
    · exact Or.inr (Or.inr (h2.mp c2))
    · exact Or.inr (Or.inl (datetime_key_inj a b ha hb hta htb ho (by omega)))

/-- the calendar + clock order on real same-offset values is a strict order: irreflexive and
transitive (with `datetime_key_trichotomy`: a strict total order, the one `_cmp` computes) -/
theorem datetime_order_strict (a b c : XmlDateTime)
    (ha : realDate a.year a.month a.day) (hb : realDate b.year b.month b.day)
    (hc : realDate c.year c.month c.day)
    (hta : todOK a.hour a.minute a.second a.frac) (htb : todOK b.hour b.minute b.second b.frac)
    (htc : todOK c.hour c.minute c.second c.frac)
    (hab : a.offset = b.offset) (hbc : b.offset = c.offset) :
    ¬ dtLt a a ∧ (dtLt a b → dtLt b c → dtLt a c) := by
  have oab : a.offset.getD 0 = b.offset.getD 0 := by rw [hab]
  have obc : b.offset.getD 0 = c.offset.getD 0 := by rw [hbc]
  have oac : a.offset.getD 0 = c.offset.getD 0 := by rw [hab, hbc]
  have haa := datetime_key_lt_iff a a ha ha hta hta rfl
  have h1 := datetime_key_lt_iff a b ha hb hta htb oab
  have h2 := datetime_key_lt_iff b c hb hc htb htc obc
  have h3 := datetime_key_lt_iff a c ha hc hta htc oac
  refine ⟨fun h => ?_, fun x y => ?_⟩
  · have := haa.mpr h; omega
  · have := h1.mpr x; have := h2.mpr y; exact h3.mp (by omega)
/-- **offsets move the instant the right way**: the same wall-clock reading in two timezones —
the one further east (larger offset) is the earlier instant, whatever the fields are
(`2000-01-01T12:00:00+01:00 < 2000-01-01T12:00:00Z`); a missing timezone counts as UTC -/
theorem datetime_offset_order (v : XmlDateTime) (oa ob : Option Int) :
    ({ v with offset := oa } : XmlDateTime).timeline < ({ v with offset := ob } : XmlDateTime).timeline
      ↔ ob.getD 0 < oa.getD 0 := by
  simp only [XmlDateTime.timeline]
  omega

/-- the same for `XmlTime` -/
theorem time_offset_order (v : XmlTime) (oa ob : Option Int) :
    ({ v with offset := oa } : XmlTime).timeline < ({ v with offset := ob } : XmlTime).timeline
      ↔ ob.getD 0 < oa.getD 0 := by
  simp only [XmlTime.timeline]
  omega

example : (⟨2000, 1, 1, 12, 0, 0, 0, some 60⟩ : XmlDateTime).timeline
    < (⟨2000, 1, 1, 12, 0, 0, 0, none⟩ : XmlDateTime).timeline := by decide
/-- `XmlTime`: of two in-range same-offset times one has the smaller key (by `time_key_lt_iff`:
is earlier on the clock) or they are the same value -/
theorem time_key_trichotomy (a b : XmlTime)
    (hta : todOK a.hour a.minute a.second a.frac) (htb : todOK b.hour b.minute b.second b.frac)
    (ho : a.offset = b.offset) :
    a.timeline < b.timeline ∨ a = b ∨ b.timeline < a.timeline := by
  by_cases c1 : a.timeline < b.timeline
  · exact Or.inl c1
  · by_cases c2 : b.timeline < a.timeline
    · exact Or.inr (Or.inr c2)
    · exact Or.inr (Or.inl (time_key_inj a b hta htb ho (by omega)))

example : todOK 23 59 59 5 ∧ (⟨23, 59, 59, 5, some 60⟩ : XmlTime).offset = some 60 := by
  unfold todOK; exact ⟨by omega, rfl⟩

example : realDate 2024 2 29 ∧ (nextDay 2024 2 29 = (2024, 3, 1)) := by
  refine ⟨⟨by decide, by decide, by decide, 29, by decide, by decide⟩, by decide⟩
example : todOK 23 59 59 999999999 := by unfold todOK; omega

/-! ## the hypotheses of the theorems above are satisfiable (concrete non-trivial instances) -/

-- after validateDate_real
example : validateDate 2024 2 29 = true ∧ validateDate 1900 2 29 = false := by decide
-- after validateTime_real
example : validateTime 24 0 0 0 = true ∧ validateTime 24 0 0 1 = false := by decide
-- after reject_unreal_date
example : XmlDate.fromString Env.ascii "-0004-02-29+14:00".toList = some ⟨-4, 2, 29, some 840⟩ := by decide
-- after reject_unreal_time
example : XmlTime.fromString Env.ascii "24:00:00.000Z".toList = some ⟨24, 0, 0, 0, some 0⟩ := by decide
-- after reject_unreal_datetime
example : XmlDateTime.fromString Env.ascii "12345-12-31T23:59:59.5-05:30".toList
    = some ⟨12345, 12, 31, 23, 59, 59, 500000000, some (-330)⟩ := by decide
-- after reject_unreal_period
example : parsePeriod Env.ascii "--02-29Z".toList = some ⟨none, some 2, some 29, some 0⟩ := by decide

-- after datetime_key_lt_iff : all five hypotheses at once, different offset spellings
example : let a : XmlDateTime := ⟨2024, 2, 29, 23, 59, 59, 999999999, none⟩
    let b : XmlDateTime := ⟨2024, 3, 1, 0, 0, 0, 0, some 0⟩
    realDate a.year a.month a.day ∧ realDate b.year b.month b.day ∧
    todOK a.hour a.minute a.second a.frac ∧ todOK b.hour b.minute b.second b.frac ∧
    a.offset.getD 0 = b.offset.getD 0 ∧ a.timeline < b.timeline := by
  refine ⟨⟨by decide, by decide, by decide, 29, by decide, by decide⟩,
    ⟨by decide, by decide, by decide, 31, by decide, by decide⟩, ?_, ?_, by decide, by decide⟩
  · unfold todOK; decide
  · unfold todOK; decide

-- after time_key_lt_iff
example : let a : XmlTime := ⟨0, 0, 0, 1, some 60⟩
    let b : XmlTime := ⟨0, 0, 1, 0, some 60⟩
    todOK a.hour a.minute a.second a.frac ∧ todOK b.hour b.minute b.second b.frac ∧
    a.offset.getD 0 = b.offset.getD 0 ∧ a.timeline < b.timeline := by
  refine ⟨?_, ?_, by decide, by decide⟩ <;> (unfold todOK; decide)


/-! ## `realDate` is the calendar of the independent specification, not only the model's own table -/

/-- `realDate` restated with the XSD specification's own day-in-month table (Spec/XsdDate.lean) -/
theorem realDate_iff_spec (y m d : Int) :
    realDate y m d ↔ 1 ≤ m ∧ m ≤ 12 ∧ 1 ≤ d ∧ d ≤ (Xs.Spec.daysInMonth y m.toNat : Int) := by
  unfold realDate
  have key : ∀ (h1 : 1 ≤ m) (h2 : m ≤ 12), monthlen y m.toNat = some (Xs.Spec.daysInMonth y m.toNat) := by
    intro h1 h2
    rw [monthlen_cases y m h1 h2]
    unfold Xs.Spec.daysInMonth isLeap
    have hm : (m.toNat : Int) = m := by omega
    by_cases a : m = 2
    · simp [a]
      by_cases l4 : y % 4 = 0 <;> by_cases l100 : y % 100 = 0 <;> by_cases l400 : y % 400 = 0 <;> simp [l4, l100, l400] <;> omega
    · have : m.toNat ≠ 2 := by omega
      simp only [a, this, if_false]
      by_cases b : m = 4 ∨ m = 6 ∨ m = 9 ∨ m = 11
      · have : m.toNat = 4 ∨ m.toNat = 6 ∨ m.toNat = 9 ∨ m.toNat = 11 := by omega
        simp [b, this]
      · have : ¬ (m.toNat = 4 ∨ m.toNat = 6 ∨ m.toNat = 9 ∨ m.toNat = 11) := by omega
        simp [b, this]
  constructor
  · rintro ⟨h1, h2, h3, md, hm, hd⟩
    rw [key h1 h2] at hm
    cases hm
    exact ⟨h1, h2, h3, hd⟩
  · rintro ⟨h1, h2, h3, hd⟩
    exact ⟨h1, h2, h3, _, key h1 h2, hd⟩

end Props.C06
