"""C12 — code generation is reproducible.

Correspondence ops compare the Lean model (lean/XsdataModel/Codegen/*) with the
real xsdata functions; the iteration order of every `set` involved is made an
explicit input (ShuffledSet injection / forced vertex order) and the same calls
are repeated in worker processes started with different PYTHONHASHSEED values.
The oracles state the property on the implementation alone: same sources, same
configuration => same bytes, whatever the set order, the hash seed, the route
(API / CLI flags / CLI + config file) or the run number.
"""
from __future__ import annotations

import atexit
import itertools
import json
import os
import re
import subprocess
import sys
import warnings

HERE = os.path.dirname(os.path.abspath(__file__))
HARNESS = os.path.dirname(HERE)
if HARNESS not in sys.path:
    sys.path.insert(0, HARNESS)

import c12_support as S  # noqa: E402
from framework import Corr, Oracle, err, ok  # noqa: E402

S.install_fake_click()

PROP_ID = "C12"
DESIGN_REF = "6/C12"
LEVEL_TEXT = (
    "Lean theorems for all inputs: the exact path-based SCC algorithm of utils/graphs.py raises nothing and yields the "
    "mutual-reachability classes for every iteration order (scc_spec), hence the cluster styles and the whole package layout "
    "are independent of set(edges)' order (layout_clusters_order_independent); the styles namespaces / single-package / "
    "filenames (group_common_paths over the sorted location set) designate every class independently of the container order "
    "(namespaces/single_package/filenames_perm_equivariant); toposort_flatten / sort_classes / the whole DependenciesResolver "
    "run are functions of the dependency relation; sort_types is order-free on the native types; sequence numbers / occurrence "
    "bounds / choice grouping are invariant under injective relabelling of id() along inheritance chains; "
    "DetectCircularReferences only flags references on a cycle and flags nothing on acyclic graphs whatever the visiting "
    "order, while on cycles the flags provably depend on the order (finding C12-F6: the API is sensitive to the list order of "
    "the source URIs); the --cache route is transparent iff the key determines the mapped classes (repaired: package in the "
    "key); CLI source order is listing-order free; CLI-flag / config-file / API configurations coincide at full strength. "
    "The model is tied to /repo by differential runs with the set iteration order forced (ShuffledSet, forced vertex order), "
    "under 3 extra PYTHONHASHSEED worker processes, and by end-to-end generations in all five structure styles "
    "(3 routes x set orders x hash seeds x repeated runs) whose layout the model predicts"
)
LEVEL_NOTE = (
    "proved: order/id independence of every modelled set- or id()-dependent step incl. SCC correctness and all structure "
    "styles; not proved: the template layer, click's parser, ruff and the XSD->class mapping (stand-ins / end-to-end byte "
    "comparison only), so the verdict for the whole property is partial; two violations stay listed (header timestamp, "
    "API URI order)"
)
TRUSTED = [
    "harness/shims/toposort is this framework's re-implementation of toposort_flatten (the real package is not installed); the model follows the shim",
    "click is replaced by a 150-line stand-in (c12_support.py) that follows click's option-name/destination rules; click's own parsing is not exercised",
    "Jinja2 templates are replaced by a Python transcription on top of the real Filters; ruff formatting and validate_imports are switched off",
    "ShuffledSet (set subclass with seeded iteration order) is injected as the global `set` of the xsdata modules that call set(...); set literals/comprehensions keep the interpreter's order (covered by the PYTHONHASHSEED workers only)",
    "combine_ns_package / to_package_name / module+package name normalisation are pure string functions and are taken from the implementation (uninterpreted in the theorems)",
]
ASSUMPTIONS = [
    "for the programmatic API the list order of the URIs matters (finding C12-F6); every other axis is compared on the sorted list",
    "container holds one class per qname when DesignateClassPackages runs (RenameDuplicateClasses ran before)",
    "id() values are positive and distinct for live objects",
]
RULE = (
    "per op: hand-picked, bounded-exhaustive (all digraphs on <=3 vertices x all vertex orders), seeded random, malformed "
    "(dangling dependencies, cycles, duplicate qnames); each case additionally replayed in PYTHONHASHSEED workers; "
    "non-trivial = at least one edge / two types / one path step"
)

# ----------------------------------------------------------------------------
# worker processes with fixed hash seeds
# ----------------------------------------------------------------------------
WORKER_SEEDS = [int(x) for x in os.environ.get("C12_WORKER_SEEDS", "1,2,3").split(",") if x]
IS_WORKER = os.environ.get("C12_IS_WORKER") == "1"


class Worker:
    def __init__(self, seed):
        env = dict(os.environ)
        env["PYTHONHASHSEED"] = str(seed)
        env["C12_IS_WORKER"] = "1"
        self.seed = seed
        self.p = subprocess.Popen(
            [sys.executable, os.path.join(HARNESS, "c12_worker.py")],
            stdin=subprocess.PIPE,
            stdout=subprocess.PIPE,
            stderr=subprocess.DEVNULL,
            env=env,
            text=True,
            bufsize=1,
        )

    def call(self, req):
        self.p.stdin.write(json.dumps(req) + "\n")
        self.p.stdin.flush()
        line = self.p.stdout.readline()
        if not line:
            raise RuntimeError(f"worker seed={self.seed} died")
        return json.loads(line)

    def close(self):
        try:
            self.p.stdin.close()
            self.p.wait(timeout=5)
        except Exception:  # noqa: BLE001
            self.p.kill()


_WORKERS: list[Worker] = []


def workers():
    if IS_WORKER:
        return []
    if not _WORKERS:
        for s in WORKER_SEEDS:
            _WORKERS.append(Worker(s))
        atexit.register(lambda: [w.close() for w in _WORKERS])
    return _WORKERS


def across_seeds(op, a, local):
    """run the local impl, then the same impl in every hash-seed worker; any
    difference is reported as an error value (=> disagreement with the model)"""
    out = local(a)
    if a.get("_nw"):
        return out
    for w in workers():
        r = w.call({"cmd": "impl", "op": op, "args": a})
        if r != json.loads(json.dumps(out)):
            return err(f"HASHSEED-DEPENDENT seed={w.seed}: {json.dumps(r)[:160]} vs {json.dumps(out)[:160]}")
    return out


# ----------------------------------------------------------------------------
# small helpers
# ----------------------------------------------------------------------------
def split_q(q):
    m = re.match(r"^\{([^}]+)\}(.+)$", q, re.S)
    return (m.group(1), m.group(2)) if m else (None, q)


NAMES = ["A", "B", "C", "a", "Node", "node", "No_de", "Item1", "item-1", "Zed", "AB", "Ab", "b", "Q9", "_x", "É"]
NSS = [None, "urn:a", "urn:b", "http://x.org/y"]


def qname_pool(rng, n):
    pool = []
    tries = 0
    while len(pool) < n and tries < 200:
        tries += 1
        ns = rng.choice(NSS)
        nm = rng.choice(NAMES)
        q = f"{{{ns}}}{nm}" if ns else nm
        if q not in pool:
            pool.append(q)
    return pool


def rand_edges(rng, vs, p, dangling=0.0):
    edges = []
    for v in vs:
        ws = [w for w in vs if rng.random() < p]
        if dangling and rng.random() < dangling:
            ws.append("missing" + str(rng.randrange(3)))
        rng.shuffle(ws)
        edges.append([v, ws])
    return edges


def perm(rng, xs):
    xs = list(xs)
    rng.shuffle(xs)
    return xs


# ----------------------------------------------------------------------------
# gen.scc
# ----------------------------------------------------------------------------
def local_scc(a):
    from xsdata.utils import graphs

    edges = {k: list(v) for k, v in a["edges"]}
    vorder = list(a["vorder"])

    class forced_set:
        """`set(edges)` -> the requested iteration order; every other set is a real one"""

        def __class_getitem__(cls, item):  # `set[str]` in dfs's signature
            return cls

        def __new__(cls, x=()):
            return list(vorder) if x is edges else set(x)

    graphs.__dict__["set"] = forced_set
    try:
        comps = [sorted(c) for c in graphs.strongly_connected_components(edges)]
    except KeyError:
        return err("KeyError")
    except IndexError:
        return err("IndexError")
    finally:
        graphs.__dict__.pop("set", None)
    try:
        natural = sorted(sorted(c) for c in graphs.strongly_connected_components(edges))
    except KeyError:
        return err("KeyError")
    if natural != sorted(comps):
        return err(f"ORDER-DEPENDENT {natural} vs {sorted(comps)}")
    return ok(comps)


def impl_scc(a):
    return across_seeds("gen.scc", a, local_scc)


def canon_scc(o):
    if isinstance(o, dict) and "ok" in o:
        return {"ok": [sorted(c) for c in o["ok"]]}
    return o


def all_digraphs(n, loops):
    vs = ["v%d" % i for i in range(n)]
    pairs = [(a, b) for a in vs for b in vs if loops or a != b]
    for bits in range(1 << len(pairs)):
        adj = {v: [] for v in vs}
        for k, (x, y) in enumerate(pairs):
            if bits >> k & 1:
                adj[x].append(y)
        yield vs, [[v, adj[v]] for v in vs]


def gen_scc(rng, tier):
    hand = [
        ([], []),
        ([["a", []]], ["a"]),
        ([["a", ["a"]]], ["a"]),
        ([["a", ["b"]], ["b", ["a"]]], ["a", "b"]),
        ([["a", ["b"]], ["b", ["a"]]], ["b", "a"]),
        ([["a", ["b"]], ["b", ["c"]], ["c", ["a"]], ["d", ["a"]]], ["d", "c", "b", "a"]),
        ([["a", ["b", "c"]], ["b", ["d"]], ["c", ["d"]], ["d", ["a"]], ["e", ["e", "a"]]], ["e", "a", "b", "c", "d"]),
        ([["a", ["zz"]]], ["a"]),
        ([["a", ["b"]], ["b", ["zz", "a"]]], ["b", "a"]),
    ]
    for e, vo in hand:
        yield {"edges": e, "vorder": vo}
    # bounded exhaustive: every digraph on <= 3 vertices (with self loops for n <= 2), every vertex order
    for n, loops in ((1, True), (2, True), (3, False)):
        for vs, e in all_digraphs(n, loops):
            for vo in itertools.permutations(vs):
                yield {"edges": e, "vorder": list(vo), "_nw": True}
    if tier != "quick":
        # every loop-free digraph on 4 vertices under three vertex orders
        for vs, e in all_digraphs(4, False):
            for _k in range(3):
                yield {"edges": e, "vorder": perm(rng, vs), "_nw": True}
    n_rand = 250 if tier == "quick" else 6000
    for i in range(n_rand):
        n = rng.randint(2, 9)
        vs = qname_pool(rng, n)
        p = rng.choice([0.1, 0.2, 0.35, 0.6])
        e = rand_edges(rng, vs, p, dangling=0.04)
        if rng.random() < 0.5:
            e = perm(rng, e)
        yield {"edges": e, "vorder": perm(rng, vs), "_nw": i % 3 != 0}
        # the same graph under another order of vertices and of every adjacency list
        if rng.random() < 0.5:
            yield {"edges": [[k, perm(rng, ws)] for k, ws in perm(rng, e)], "vorder": perm(rng, vs), "_nw": True}


def classify_scc(a, o):
    if "err" in o:
        return "err:" + str(o["err"])[:20]
    sizes = sorted(len(c) for c in o["ok"])
    big = sizes[-1] if sizes else 0
    return f"maxcomp={min(big, 4)}{'+' if big > 4 else ''}"


# ----------------------------------------------------------------------------
# gen.toposort
# ----------------------------------------------------------------------------
def local_toposort(a):
    import toposort

    data = {k: set(v) for k, v in a["data"]}
    try:
        return ok(toposort.toposort_flatten(data))
    except toposort.CircularDependencyError:
        return err("CircularDependencyError")


def impl_toposort(a):
    return across_seeds("gen.toposort", a, local_toposort)


def gen_toposort(rng, tier):
    hand = [
        [],
        [["a", []]],
        [["a", ["a"]]],
        [["a", ["b"]]],
        [["b", ["a"]], ["a", []]],
        [["a", ["b"]], ["b", ["a"]]],
        [["a", ["b", "c"]], ["b", ["c"]], ["c", []]],
        [["B", ["a"]], ["a", []], ["A", ["a"]], ["{urn:x}a", ["B", "A"]]],
        [["a", ["b", "b", "c"]], ["d", ["c"]]],
    ]
    for d in hand:
        yield {"data": d}
    for n in (1, 2, 3):
        for vs, e in all_digraphs(n, n < 3):
            yield {"data": e, "_nw": True}
    for i in range(250 if tier == "quick" else 6000):
        vs = qname_pool(rng, rng.randint(2, 9))
        # mostly acyclic: edges only towards earlier vertices, sometimes arbitrary
        acyclic = rng.random() < 0.7
        data = []
        for k, v in enumerate(vs):
            cands = vs[:k] if acyclic else vs
            ws = [w for w in cands if rng.random() < 0.35]
            if rng.random() < 0.15:
                ws.append("extra" + str(rng.randrange(3)))
            if rng.random() < 0.1:
                ws.append(v)
            data.append([v, perm(rng, ws)])
        yield {"data": perm(rng, data), "_nw": i % 3 != 0}


# ----------------------------------------------------------------------------
# real Class objects from a dependency description
# ----------------------------------------------------------------------------
def mk_class(qname, deps, circ=()):
    """deps: non-circular user types; circ: user types flagged circular"""
    from xsdata.codegen.models import Attr, AttrType, Class, Status
    from xsdata.models.enums import Tag

    attrs = []
    for i, d in enumerate(deps):
        attrs.append(Attr(tag=Tag.ELEMENT, name=f"d{i}", types=[AttrType(qname=d)]))
    for i, d in enumerate(circ):
        attrs.append(Attr(tag=Tag.ELEMENT, name=f"c{i}", types=[AttrType(qname=d, circular=True)]))
    return Class(qname=qname, tag=Tag.COMPLEX_TYPE, location="mem", attrs=attrs, status=Status.FINALIZED)


def class_args(rng, n, p, seed, dangling=0.0, acyclic_plain=True):
    """random classes: `deps` (plain, kept acyclic when asked) and extra circular-flagged ones"""
    vs = qname_pool(rng, n)
    classes = []
    for k, v in enumerate(vs):
        cands = vs[:k] if acyclic_plain else vs
        deps = [w for w in cands if rng.random() < p]
        circ = [w for w in vs if rng.random() < p * 0.8]
        if dangling and rng.random() < dangling:
            (deps if rng.random() < 0.5 else circ).append("{urn:gone}Missing")
        ns, name = split_q(v)
        classes.append(
            {
                "qname": v,
                "name": name,
                "ns": ns,
                "deps": perm(rng, deps),
                "circ": perm(rng, circ),
                # list(set(dependencies(True))) under ShuffledSet(seed)
                "depsAll": S.shuffle_order(seed, deps + circ),
            }
        )
    classes = perm(rng, classes)
    return classes


def nspkg_for(classes, package):
    from xsdata.codegen.container import ClassContainer
    from xsdata.codegen.handlers import DesignateClassPackages
    from xsdata.models.config import GeneratorConfig

    cfg = GeneratorConfig()
    cfg.output.package = package
    h = DesignateClassPackages(ClassContainer(cfg))
    out = []
    for c in classes:
        if c["ns"] not in [x[0] for x in out]:
            out.append([c["ns"], ".".join(h.combine_ns_package(c["ns"]))])
    return out


# ----------------------------------------------------------------------------
# gen.clusters : DesignateClassPackages (clusters / namespace clusters)
# ----------------------------------------------------------------------------
def local_clusters(a):
    from toposort import CircularDependencyError
    from xsdata.codegen.container import ClassContainer
    from xsdata.codegen.exceptions import CodegenError
    from xsdata.codegen.handlers import DesignateClassPackages
    from xsdata.models.config import GeneratorConfig, StructureStyle

    cfg = GeneratorConfig()
    cfg.output.package = a["package"]
    cfg.output.structure_style = (
        StructureStyle.CLUSTERS if a["style"] == "clusters" else StructureStyle.NAMESPACE_CLUSTERS
    )
    container = ClassContainer(cfg)
    objs = [mk_class(c["qname"], c["deps"], c["circ"]) for c in a["classes"]]
    for o in objs:
        container.add(o)
    S.set_shuffle(a["seed"])
    try:
        DesignateClassPackages(container).run()
    except KeyError:
        return err("KeyError")
    except CircularDependencyError:
        return err("CircularDependencyError")
    except CodegenError:
        return err("CodegenError")
    finally:
        S.set_shuffle(None)
    return ok([[o.qname, [o.package, o.module] if o.module is not None else None] for o in objs])


def impl_clusters(a):
    return across_seeds("gen.clusters", a, local_clusters)


def gen_clusters(rng, tier):
    def case(classes, style, package, seed, nw=False):
        return {
            "classes": classes,
            "style": style,
            "package": package,
            "seed": seed,
            "vorder": S.shuffle_order(seed, [c["qname"] for c in classes]),
            "nspkg": nspkg_for(classes, package),
            "_nw": nw,
        }

    def cls(q, deps=(), circ=(), seed=0):
        ns, name = split_q(q)
        return {
            "qname": q,
            "name": name,
            "ns": ns,
            "deps": list(deps),
            "circ": list(circ),
            "depsAll": S.shuffle_order(seed, list(deps) + list(circ)),
        }

    hand = [
        [cls("A")],
        [cls("A", circ=["B"]), cls("B", ["A"])],
        [cls("B", ["A"]), cls("A", circ=["B"])],
        [cls("{urn:a}A", circ=["{urn:b}B"]), cls("{urn:b}B", ["{urn:a}A"])],  # mixed namespaces
        [cls("{urn:a}A", ["{urn:a}B"]), cls("{urn:a}B", ["{urn:a}A"])],  # plain cycle -> circular error
        [cls("A", ["Gone"])],
        [cls("Z", circ=["Y"]), cls("Y", circ=["X"]), cls("X", ["Z"]), cls("W", ["X"])],
    ]
    for classes in hand:
        for style in ("clusters", "namespace_clusters"):
            for seed in (0, 1, 2):
                cs = [dict(c, depsAll=S.shuffle_order(seed, c["deps"] + c["circ"])) for c in classes]
                yield case(cs, style, "pkg.out", seed)
    for i in range(220 if tier == "quick" else 5000):
        seed = rng.randrange(10**6)
        n = rng.randint(2, 8)
        r = rng.random()
        classes = class_args(
            rng, n, rng.choice([0.15, 0.3, 0.5]), seed, dangling=0.03 if r < 0.3 else 0.0, acyclic_plain=r < 0.9
        )
        style = rng.choice(["clusters", "clusters", "namespace_clusters"])
        yield case(classes, style, rng.choice(["generated", "a.b", "x"]), seed, nw=i % 4 != 0)
        if rng.random() < 0.4:
            # the same classes, container order and set order changed
            seed2 = seed + 1
            cs2 = [dict(c, depsAll=S.shuffle_order(seed2, c["deps"] + c["circ"])) for c in classes]
            yield case(cs2, style, "generated", seed2, nw=True)


def classify_clusters(a, o):
    if "err" in o:
        return a["style"] + ":err:" + str(o["err"])[:24]
    mods = {}
    for q, pm in o["ok"]:
        mods.setdefault(tuple(pm) if pm else None, []).append(q)
    big = max(len(v) for v in mods.values()) if mods else 0
    return f"{a['style']}:maxcluster={min(big, 3)}{'+' if big > 3 else ''}"


# ----------------------------------------------------------------------------
# gen.resolver : DependenciesResolver
# ----------------------------------------------------------------------------
def local_resolver(a):
    from toposort import CircularDependencyError
    from xsdata.codegen.exceptions import CodegenError
    from xsdata.codegen.resolver import DependenciesResolver

    registry = {k: v for k, v in a["registry"]}
    objs = [mk_class(c["qname"], c["deps"]) for c in a["classes"]]
    r = DependenciesResolver(registry)
    S.set_shuffle(a.get("seed"))
    try:
        r.process(objs)
        out = {
            "class_list": list(r.class_list),
            "imports": [[i.qname, i.source, i.alias] for i in r.imports],
            "sorted_imports": [[i.qname, i.source, i.alias] for i in r.sorted_imports()],
            "sorted_classes": [c.qname for c in r.sorted_classes()],
        }
    except CircularDependencyError:
        return err("CircularDependencyError")
    except CodegenError as e:
        msg = getattr(e, "message", str(e))
        return err("CodegenError:" + ("duplicate" if "Duplicate" in msg else "unresolved"))
    finally:
        S.set_shuffle(None)
    return ok(out)


def impl_resolver(a):
    return across_seeds("gen.resolver", a, local_resolver)


SOURCES = ["pkg.mod_a", "pkg.mod_b", "other.pkg.mod_a", "pkg.sub.mod_a", "a.b_c.d", "x", "pkg.a_b", "pkg.a.b"]


def gen_resolver(rng, tier):
    def case(classes, registry, seed=None, nw=False):
        return {"classes": classes, "registry": registry, "seed": seed, "_nw": nw}

    yield case([], [])
    yield case([{"qname": "A", "deps": []}], [])
    yield case([{"qname": "A", "deps": ["B"]}], [["B", "pkg.b"]])
    yield case([{"qname": "A", "deps": ["B"]}], [])  # unresolved
    yield case([{"qname": "A", "deps": []}, {"qname": "A", "deps": []}], [])  # duplicate
    yield case([{"qname": "A", "deps": ["B"]}, {"qname": "B", "deps": ["A"]}], [])  # circular
    # same local name from two namespaces, and a name clash with a class of the module
    yield case(
        [{"qname": "{urn:m}Main", "deps": ["{urn:a}Item", "{urn:b}Item", "{urn:c}main"]}],
        [["{urn:a}Item", "pkg.a_mod.items"], ["{urn:b}Item", "pkg.b_mod.items"], ["{urn:c}main", "pkg.c.main_mod"]],
    )
    yield case(
        [{"qname": "{urn:m}Main", "deps": ["{urn:a}It-em", "{urn:b}item", "{urn:c}ITEM"]}],
        [["{urn:a}It-em", "p.x_y.z"], ["{urn:b}item", "p.x.z"], ["{urn:c}ITEM", "q.x_y"]],
    )
    for i in range(300 if tier == "quick" else 6000):
        n = rng.randint(1, 6)
        vs = qname_pool(rng, n + rng.randint(0, 5))
        inside, outside = vs[:n], vs[n:]
        classes = []
        for k, v in enumerate(inside):
            cands = inside[:k] if rng.random() < 0.9 else inside
            deps = [w for w in cands if rng.random() < 0.3] + [w for w in outside if rng.random() < 0.5]
            if rng.random() < 0.05:
                deps.append(v)
            classes.append({"qname": v, "deps": perm(rng, deps)})
        if rng.random() < 0.03 and classes:
            classes.append(dict(classes[0]))
        registry = [[q, rng.choice(SOURCES)] for q in vs if rng.random() < 0.97]
        yield case(perm(rng, classes), perm(rng, registry), seed=rng.randrange(1000), nw=i % 3 != 0)


def classify_resolver(a, o):
    if "err" in o:
        return "err:" + str(o["err"])[:30]
    n_alias = sum(1 for i in o["ok"]["imports"] if i[2])
    return f"imports={min(len(o['ok']['imports']), 3)}{'+' if len(o['ok']['imports']) > 3 else ''},aliases={'y' if n_alias else 'n'}"


# ----------------------------------------------------------------------------
# gen.layout : DesignateClassPackages + render()'s per-module resolver runs
# (synthetic classes; the end-to-end variant with real schemas is gen.e2e)
# ----------------------------------------------------------------------------
def local_layout(a):
    from toposort import CircularDependencyError
    from xsdata.codegen.container import ClassContainer
    from xsdata.codegen.exceptions import CodegenError
    from xsdata.codegen.handlers import DesignateClassPackages
    from xsdata.codegen.resolver import DependenciesResolver
    from xsdata.formats.mixins import AbstractGenerator
    from xsdata.models.config import GeneratorConfig, StructureStyle

    cfg = GeneratorConfig()
    cfg.output.package = a["package"]
    cfg.output.structure_style = (
        StructureStyle.CLUSTERS if a["style"] == "clusters" else StructureStyle.NAMESPACE_CLUSTERS
    )
    container = ClassContainer(cfg)
    objs = [mk_class(c["qname"], c["deps"], c["circ"]) for c in a["classes"]]
    for o in objs:
        container.add(o)
    S.set_shuffle(a["seed"])
    try:
        DesignateClassPackages(container).run()
        assign = [[o.qname, [o.package, o.module] if o.module is not None else None] for o in objs]
        classes = list(container)
        registry = {o.qname: o.target_module for o in classes}
        resolver = DependenciesResolver(registry=registry)
        modules = []
        # DataclassGenerator.render: group_by_module, then render_module -> resolver.process
        for _path, cluster in AbstractGenerator.group_by_module(classes).items():
            resolver.process(cluster)
            modules.append(
                [
                    cluster[0].target_module,
                    [c.qname for c in resolver.sorted_classes()],
                    [i.qname for i in resolver.sorted_imports()],
                ]
            )
    except KeyError:
        return err("KeyError")
    except CircularDependencyError:
        return err("CircularDependencyError")
    except CodegenError as e:
        msg = getattr(e, "message", str(e))
        if "Duplicate" in msg:
            return err("CodegenError:duplicate")
        if "resolve dependency" in msg:
            return err("CodegenError:unresolved")
        if "not been assigned" in msg:
            return err("CodegenError:unassigned")
        return err("CodegenError")
    finally:
        S.set_shuffle(None)
    return ok({"assign": assign, "modules": modules})


def impl_layout(a):
    return across_seeds("gen.layout", a, local_layout)


def gen_layout(rng, tier):
    for a in gen_clusters(rng, tier):
        # module paths are compared as strings; empty packages etc. are left to gen.clusters
        yield a


# ----------------------------------------------------------------------------
# gen.sort_types
# ----------------------------------------------------------------------------
def type_by_name():
    from xsdata.models.enums import DataType

    return {d.type.__name__: d.type for d in DataType}


def qname_by_type_name():
    from xsdata.models.enums import DataType

    out = {}
    for d in DataType:
        out.setdefault(d.type.__name__, []).append(str(d))
    return out


def local_sort_types(a):
    from xsdata.formats import converter as C

    tb = type_by_name()
    if a.get("via") == "attr":
        from xsdata.codegen.models import Attr, AttrType
        from xsdata.models.enums import Tag

        attr = Attr(tag=Tag.ELEMENT, name="x", types=[AttrType(qname=q, native=True) for q in a["attr_types"]])
        S.set_shuffle(a["seed"])
        try:
            native = attr.native_types
        finally:
            S.set_shuffle(None)
        if [t.__name__ for t in native] != a["types"]:
            return err(f"HARNESS: native_types order {[t.__name__ for t in native]} not the predicted {a['types']}")
        types = native
    else:
        types = [tb[n] for n in a["types"]]
    out = C.converter.sort_types(types)
    # the documented key: table priority, `object` after the other untabled types
    prio = [2 * C.__PYTHON_TYPES_SORTED__.get(t, 0) + (1 if t is object else 0) for t in out]
    return ok({"sorted": [t.__name__ for t in out], "prio": prio})


def impl_sort_types(a):
    return across_seeds("gen.sort_types", a, local_sort_types)


def gen_sort_types(rng, tier):
    names = sorted(type_by_name())
    qn = qname_by_type_name()
    for n in names:
        yield {"types": [n]}
    for x in names:
        for y in names:
            yield {"types": [x, y], "_nw": True}
    for i in range(200 if tier == "quick" else 4000):
        k = rng.randint(2, 6)
        yield {"types": [rng.choice(names) for _ in range(k)], "_nw": i % 3 != 0}
    # through Attr.native_types = list(set(...)) with an explicit set order
    for i in range(150 if tier == "quick" else 3000):
        k = rng.randint(1, 5)
        tn = [rng.choice(names) for _ in range(k)]
        seed = rng.randrange(10**6)
        tb = type_by_name()
        order = [t.__name__ for t in S.shuffle_order(seed, [tb[n] for n in tn])]
        yield {
            "types": order,
            "via": "attr",
            "seed": seed,
            "attr_types": [rng.choice(qn[n]) for n in tn],
            "_nw": i % 3 != 0,
        }


def classify_sort_types(a, o):
    if "err" in o:
        return "err"
    p = o["ok"]["prio"]
    ties = len(p) != len(set(p)) and len(set(o["ok"]["sorted"])) > len(set(p))
    return ("attr:" if a.get("via") == "attr" else "direct:") + ("tie" if ties else "distinct")


# ----------------------------------------------------------------------------
# gen.seqnum : CalculateAttributePaths + ResetAttributeSequences + ResetAttributeSequenceNumbers
# ----------------------------------------------------------------------------
def first_seen_labels(keys):
    seen = []
    out = []
    for k in keys:
        if not k:
            out.append(None)
            continue
        if k not in seen:
            seen.append(k)
        out.append(seen.index(k))
    return out


def local_seqnum(a):
    from xsdata.codegen.container import ClassContainer
    from xsdata.codegen.handlers import (
        CalculateAttributePaths,
        ResetAttributeSequenceNumbers,
        ResetAttributeSequences,
    )
    from xsdata.codegen.models import Attr, AttrType, Class, Extension, Restrictions, Status
    from xsdata.models.config import GeneratorConfig
    from xsdata.models.enums import Tag

    attrs = []
    for i, x in enumerate(a["attrs"]):
        r = Restrictions(
            min_occurs=x["min"],
            max_occurs=x["max"],
            sequence=x["sequence"],
            choice=x["choice"],
            group=x["group"],
            path=[tuple(p) for p in x["path"]],
        )
        attrs.append(
            Attr(
                tag=Tag.ATTRIBUTE if x["skip"] else Tag.ELEMENT,
                name=f"a{i}",
                types=[AttrType(qname="{http://www.w3.org/2001/XMLSchema}string", native=True)],
                restrictions=r,
            )
        )
    container = ClassContainer(GeneratorConfig())
    base_attrs = [
        Attr(
            tag=Tag.ELEMENT,
            name=f"b{i}",
            types=[AttrType(qname="{http://www.w3.org/2001/XMLSchema}string", native=True)],
            restrictions=Restrictions(sequence=s),
        )
        for i, s in enumerate(a["base"])
    ]
    base = Class(qname="Base", tag=Tag.COMPLEX_TYPE, location="mem", attrs=base_attrs, status=Status.FINALIZED)
    container.add(base)
    target = Class(
        qname="T",
        tag=Tag.COMPLEX_TYPE,
        location="mem",
        attrs=attrs,
        status=Status.FINALIZED,
        extensions=[Extension(tag=Tag.EXTENSION, type=AttrType(qname="Base"), restrictions=Restrictions())]
        if a["base"] is not None and len(a["base"]) > 0
        else [],
    )
    container.add(target)
    CalculateAttributePaths.process(target)
    ResetAttributeSequences().process(target)
    ResetAttributeSequenceNumbers(container).process(target)
    labels = first_seen_labels([x.restrictions.choice for x in target.attrs])
    return ok(
        [
            [x.restrictions.min_occurs, x.restrictions.max_occurs, x.restrictions.sequence, lab]
            for x, lab in zip(target.attrs, labels)
        ]
    )


def local_seqchain(a):
    """an inheritance chain (root first): the two preparing handlers on every
    class, then ResetAttributeSequenceNumbers on the last class only — it has to
    bring the numbers of its bases in order itself"""
    from xsdata.codegen.container import ClassContainer
    from xsdata.codegen.handlers import (
        CalculateAttributePaths,
        ResetAttributeSequenceNumbers,
        ResetAttributeSequences,
    )
    from xsdata.codegen.models import Attr, AttrType, Class, Extension, Restrictions, Status
    from xsdata.models.config import GeneratorConfig
    from xsdata.models.enums import Tag

    container = ClassContainer(GeneratorConfig())
    objs = []
    for n, cls in enumerate(a["chain"]):
        attrs = []
        for i, x in enumerate(cls):
            r = Restrictions(
                min_occurs=x["min"], max_occurs=x["max"], sequence=x["sequence"], choice=x["choice"],
                group=x["group"], path=[tuple(p) for p in x["path"]],
            )
            attrs.append(
                Attr(
                    tag=Tag.ATTRIBUTE if x["skip"] else Tag.ELEMENT,
                    name=f"a{n}_{i}",
                    types=[AttrType(qname="{http://www.w3.org/2001/XMLSchema}string", native=True)],
                    restrictions=r,
                )
            )
        obj = Class(
            qname=f"C{n}", tag=Tag.COMPLEX_TYPE, location="mem", attrs=attrs, status=Status.FINALIZED,
            extensions=[Extension(tag=Tag.EXTENSION, type=AttrType(qname=f"C{n - 1}"), restrictions=Restrictions())]
            if n else [],
        )
        container.add(obj)
        objs.append(obj)
    for obj in objs:
        CalculateAttributePaths.process(obj)
        ResetAttributeSequences().process(obj)
    if objs:
        ResetAttributeSequenceNumbers(container).process(objs[-1])
    out = []
    for obj in objs:
        labels = first_seen_labels([x.restrictions.choice for x in obj.attrs])
        out.append(
            [[x.restrictions.min_occurs, x.restrictions.max_occurs, x.restrictions.sequence, lab]
             for x, lab in zip(obj.attrs, labels)]
        )
    return ok(out)


def impl_seqchain(a):
    return across_seeds("gen.seqchain", a, local_seqchain)


def gen_seqchain(rng, tier):
    def attr(path):
        return {"skip": False, "path": [list(p) for p in path], "min": 1, "max": 1, "sequence": None, "choice": None, "group": None}

    s1, s2, s3 = 140000000160, 140000000320, 140000000480
    two = lambda s: [attr([("s", s, 1, 5)]), attr([("s", s, 1, 5)])]  # noqa: E731
    yield {"chain": []}
    yield {"chain": [two(s1)]}
    yield {"chain": [two(s1), two(s2)]}  # the shape of the former id() leak
    yield {"chain": [two(s1), [attr([("s", s2, 1, 1)])], two(s3)]}
    yield {"chain": [two(s2) + two(s1), two(s3)]}
    for i in range(200 if tier == "quick" else 5000):
        ids = [140000000000 + 16 * k for k in range(1, 120)]
        rng.shuffle(ids)
        chain = [rand_paths(rng, ids) for _ in range(rng.randint(1, 4))]
        yield {"chain": chain, "_nw": i % 4 != 0}
        if rng.random() < 0.5:
            off = rng.randrange(1, 10**6) * 16
            yield {"chain": [relabel(c, lambda x: x + off) for c in chain], "_nw": True}


def classify_seqchain(a, o):
    if "err" in o:
        return "err"
    groups = [len({r[2] for r in c if r[2]}) for c in o["ok"]]
    return f"classes={len(groups)},numbered={sum(1 for g in groups if g)}"


def impl_seqnum(a):
    return across_seeds("gen.seqnum", a, local_seqnum)


def rand_paths(rng, ids):
    """a class body: nested containers with ids drawn from `ids`; returns the attrs"""
    import sys as _sys

    attrs = []

    def container(path, depth):
        n = rng.randint(1, 3)
        for _ in range(n):
            r = rng.random()
            if r < 0.55 or depth >= 3:
                attrs.append(
                    {
                        "skip": rng.random() < 0.08,
                        "path": [list(p) for p in path],
                        "min": rng.choice([0, 1, 1, 2]),
                        "max": rng.choice([1, 1, 2, 5, _sys.maxsize]),
                        "sequence": None,
                        "choice": None,
                        "group": None,
                    }
                )
            else:
                tag = rng.choice(["s", "s", "c", "g", "a"])
                mi = rng.choice([0, 1, 1, 2])
                ma = rng.choice([1, 1, 1, 3, _sys.maxsize])
                container(path + [(tag, ids.pop(), mi, max(ma, mi))], depth + 1)

    tag = rng.choice(["s", "s", "c", "a"])
    mi = rng.choice([0, 1, 1])
    ma = rng.choice([1, 1, 4, _sys.maxsize])
    container([(tag, ids.pop(), mi, max(mi, ma))], 1)
    return attrs


def relabel(attrs, f):
    out = []
    for x in attrs:
        y = dict(x)
        y["path"] = [[p[0], f(p[1]), p[2], p[3]] for p in x["path"]]
        for k in ("sequence", "choice", "group"):
            if x[k]:
                y[k] = f(x[k])
        out.append(y)
    return out


def gen_seqnum(rng, tier):
    def attr(path, mn=1, mx=1, skip=False, sequence=None, choice=None, group=None):
        return {
            "skip": skip,
            "path": [list(p) for p in path],
            "min": mn,
            "max": mx,
            "sequence": sequence,
            "choice": choice,
            "group": group,
        }

    s1, s2, c1 = 140001, 140002, 140003
    hand = [
        ([], []),
        ([attr([("s", s1, 1, 1)])], []),
        ([attr([("s", s1, 1, 5)]), attr([("s", s1, 1, 5)])], []),
        ([attr([("s", s1, 1, 5)]), attr([("s", s1, 1, 5)])], [3, None, 1]),
        ([attr([("s", s2, 1, 5)]), attr([("s", s1, 1, 5)]), attr([("s", s2, 1, 5)]), attr([("s", s1, 1, 5)])], []),
        ([attr([("s", s1, 1, 1), ("c", c1, 0, 3)]), attr([("s", s1, 1, 1), ("c", c1, 0, 3)])], []),
        ([attr([("s", s1, 1, 9)], skip=True), attr([("s", s1, 1, 9)]), attr([("s", s1, 1, 9)])], []),
        ([attr([("g", 7, 1, 1), ("s", s1, 2, 2)]), attr([("g", 7, 1, 1), ("s", s1, 2, 2)])], [None]),
        ([attr([], sequence=5, mx=3), attr([], sequence=5, mx=3), attr([], sequence=0)], []),
    ]
    for attrs, base in hand:
        yield {"attrs": attrs, "base": base}
    for i in range(300 if tier == "quick" else 6000):
        ids = [140000000000 + 16 * k for k in range(1, 60)]
        rng.shuffle(ids)
        attrs = rand_paths(rng, ids)
        if rng.random() < 0.5:
            attrs += rand_paths(rng, ids)
        base = [rng.choice([None, 1, 2, 3, 7]) for _ in range(rng.randint(0, 3))]
        yield {"attrs": attrs, "base": base, "_nw": i % 4 != 0}
        if rng.random() < 0.5:
            # the same class after an injective relabelling of the ids (another process' id() values)
            off = rng.randrange(1, 10**6) * 16
            mul = rng.choice([1, -1])
            yield {"attrs": relabel(attrs, lambda x: mul * x + off + (10**15 if mul < 0 else 0)), "base": base, "_nw": True}


def classify_seqnum(a, o):
    if "err" in o:
        return "err"
    seqs = {r[2] for r in o["ok"] if r[2]}
    ch = {r[3] for r in o["ok"] if r[3] is not None}
    return f"seqgroups={min(len(seqs), 3)},choicegroups={min(len(ch), 3)},base={'y' if a['base'] else 'n'}"


# ----------------------------------------------------------------------------
# gen.process_order : cli.generate's sorted(resolve_source) + process_sources' buckets
# ----------------------------------------------------------------------------
def local_process_order(a):
    import shutil
    import tempfile

    import xsdata.cli as C
    from xsdata.codegen.transformer import ResourceTransformer

    d = tempfile.mkdtemp(prefix="c12ord")
    try:
        names = {}
        for name, _t in a["uris"]:
            p = os.path.join(d, name)
            open(p, "w").write("")
            names[name] = p
        log = []
        shuffle = list(a["glob_order"])

        class Rec(ResourceTransformer):
            def parse_schema(self, uri, namespace):
                log.append(uri)

            def parse_definitions(self, uri, namespace):
                log.append(uri)

            def load_resource(self, uri):
                log.append(uri)
                return None

            def process_classes(self):
                pass

        real_rs = C.resolve_source

        def forced_glob(source, recursive, extensions=()):
            found = list(real_rs(source, recursive=recursive, extensions=extensions))
            rank = {n: k for k, n in enumerate(shuffle)}
            found.sort(key=lambda u: rank.get(u.rsplit("/", 1)[-1], 0))
            return iter(found)

        real_rt = C.ResourceTransformer
        C.ResourceTransformer = Rec
        C.resolve_source = forced_glob
        try:
            with warnings.catch_warnings():
                warnings.simplefilter("ignore")
                C.cli.commands["generate"].main([d, "-c", os.path.join(d, "none.cfg")])
        finally:
            C.ResourceTransformer = real_rt
            C.resolve_source = real_rs
        return ok([u.rsplit("/", 1)[-1] for u in log])
    finally:
        shutil.rmtree(d, ignore_errors=True)


def impl_process_order(a):
    return local_process_order(a)


def gen_process_order(rng, tier):
    stems = ["a", "b", "B", "a1", "a_1", "z", "Z9", "m-m", "a.b", "_"]
    exts = ["xsd", "wsdl", "dtd", "xml", "json"]
    for i in range(40 if tier == "quick" else 600):
        k = rng.randint(1, 7)
        names = []
        while len(names) < k:
            n = rng.choice(stems) + "." + rng.choice(exts if i % 3 else ["xsd"])
            if n not in names:
                names.append(n)
        yield {"uris": [[n, n.rsplit(".", 1)[1]] for n in names], "glob_order": perm(rng, names)}


def canon_process_order(o):
    return o


# ----------------------------------------------------------------------------
# gen.config_routes
# ----------------------------------------------------------------------------
def local_config_routes(a):
    options = {d: v for d, _k, v in a["options"] if v is not None}
    out = {}
    for route in ("api", "cli", "file"):
        cfg = S.route_config(route, options)
        out[route] = {k: str(v) for k, v in S.config_summary(cfg).items()}
    return ok(out)


def impl_config_routes(a):
    return local_config_routes(a)


def rand_options(rng, density=0.4):
    from xsdata.models.config import DocstringStyle, StructureStyle

    opts = []
    for dest, kind, _o, _s in S.cli_options():
        if rng.random() > density:
            opts.append([dest, kind, None])
            continue
        if kind == "bool":
            v = rng.random() < 0.5
        elif kind == "int":
            v = rng.choice([79, 80, 100, 120, 1])
        elif dest == "structure_style":
            v = rng.choice([e.value for e in StructureStyle])
        elif dest == "docstring_style":
            v = rng.choice([e.value for e in DocstringStyle])
        elif dest == "format__value":
            v = "dataclasses"
        else:
            v = rng.choice(["generated", "a.b.c", "x_y", "pkg"])
        opts.append([dest, kind, v])
    return opts


def gen_config_routes(rng, tier):
    cli = S.cli_options()
    yield {"options": [[d, k, None] for d, k, _o, _s in cli]}
    # every single boolean flag on and off
    for d, k, _o, _s in cli:
        if k == "bool":
            for v in (True, False):
                yield {"options": [[d2, k2, (v if d2 == d else None)] for d2, k2, _o2, _s2 in cli]}
    # every pair of boolean flags switched on
    bools = [d for d, k, _o, _s in cli if k == "bool"]
    for x, y in itertools.combinations(bools, 2):
        if tier == "quick" and not ({x, y} & {"format__frozen", "format__order", "format__eq", "generic_collections"}):
            continue
        yield {"options": [[d, k, (True if d in (x, y) else None)] for d, k, _o, _s in cli]}
    yield {"options": [[d, k, (False if d == "format__eq" else True if d == "format__order" else None)] for d, k, _o, _s in cli]}
    for _ in range(25 if tier == "quick" else 800):
        yield {"options": rand_options(rng, rng.choice([0.2, 0.5, 0.9]))}


def classify_config_routes(a, o):
    if "err" in o:
        return "err"
    r = o["ok"]
    opts = {d: v for d, _k, v in a["options"]}
    corner = []
    if opts.get("generic_collections") and opts.get("format__frozen"):
        corner.append("generic+frozen")
    if opts.get("format__order") and opts.get("format__eq") is False:
        corner.append("order+noeq")
    given = sum(1 for v in opts.values() if v is not None)
    tag = "+".join(corner) or ("none" if given == 0 else "few" if given < 6 else "many")
    return ("routes-agree:" if r["api"] == r["cli"] == r["file"] else "routes-differ:") + tag


def classify_toposort(a, o):
    if "err" in o:
        return "err:" + str(o["err"])
    keys = {k for k, _ in a["data"]}
    extra = any(w not in keys for _k, ws in a["data"] for w in ws)
    selfdep = any(k in ws for k, ws in a["data"])
    return f"items={min(len(o['ok']), 4)}{'+' if len(o['ok']) > 4 else ''},extra={'y' if extra else 'n'},self={'y' if selfdep else 'n'}"


def classify_process_order(a, o):
    kinds = {t for _n, t in a["uris"]}
    return f"files={min(len(a['uris']), 4)}{'+' if len(a['uris']) > 4 else ''},kinds={len(kinds)}"


# ----------------------------------------------------------------------------
# gen.e2e : real schemas through the whole pipeline; the model predicts the
# layout (module of every class, class order and imports per module) from the
# classes that enter DesignateClassPackages
# ----------------------------------------------------------------------------
XS = "http://www.w3.org/2001/XMLSchema"


def make_schema_set(rng, n_ns=None, n_types=None, ambiguous_subclass=False):
    """A random set of XSD files: `n_ns` target namespaces (0 = one file without
    namespace), complex types with extension bases, (repeated) sequences, nested
    choices and references that form cycles."""
    n_ns = rng.choice([0, 1, 2, 3]) if n_ns is None else n_ns
    n_types = rng.randint(2, 8) if n_types is None else n_types
    files = max(1, n_ns)
    uris = [f"urn:t{i}" for i in range(files)] if n_ns else [None]
    pool = ["Alpha", "Beta", "Gamma", "Node", "Item", "item", "Leaf", "Tree", "Part", "Whole", "Zed", "Unit"]
    types = []
    used = [set() for _ in range(files)]
    for j in range(n_types):
        f = rng.randrange(files)
        nm = rng.choice(pool)
        while nm.lower() in used[f]:
            nm = rng.choice(pool) + str(rng.randint(1, 9))
        used[f].add(nm.lower())
        types.append({"file": f, "name": nm})
    simple = ["xs:string", "xs:int", "xs:boolean", "xs:date", "xs:decimal", "xs:base64Binary", "xs:anySimpleType"]
    for j, t in enumerate(types):
        t["base"] = rng.randrange(j) if j and rng.random() < 0.3 else None
        t["seq_max"] = rng.choice(["1", "1", "3", "unbounded"])
        els = []
        for k in range(rng.randint(1, 4)):
            if rng.random() < 0.55:
                ref = rng.randrange(n_types)
                els.append((f"e{k}", ("user", ref), rng.choice([0, 1]), rng.choice(["1", "1", "unbounded"])))
            else:
                els.append((f"e{k}", ("simple", rng.choice(simple)), rng.choice([0, 1]), rng.choice(["1", "1", "2"])))
        t["els"] = els
        ch = []
        if rng.random() < 0.35:
            cand = list(range(n_types))
            rng.shuffle(cand)
            for k, ref in enumerate(cand[: rng.randint(2, 3)]):  # distinct user types: never ambiguous
                ch.append((f"c{k}", ("user", ref)))
        t["choice"] = ch
        t["choice_max"] = rng.choice(["1", "unbounded"])

    def tref(f, kind):
        if kind[0] == "simple":
            return kind[1]
        tt = types[kind[1]]
        return (f"n{tt['file']}:" if n_ns else "") + tt["name"]

    out = {}
    for f in range(files):
        needed = set()
        body = []
        for t in types:
            if t["file"] != f:
                continue
            inner = []
            for nm, kind, mi, ma in t["els"]:
                if kind[0] == "user":
                    needed.add(types[kind[1]]["file"])
                inner.append(f'<xs:element name="{nm}" type="{tref(f, kind)}" minOccurs="{mi}" maxOccurs="{ma}"/>')
            if t["choice"]:
                inner.append(f'<xs:choice maxOccurs="{t["choice_max"]}">')
                for nm, kind in t["choice"]:
                    needed.add(types[kind[1]]["file"])
                    inner.append(f'<xs:element name="{nm}" type="{tref(f, kind)}"/>')
                inner.append("</xs:choice>")
            seq = f'<xs:sequence maxOccurs="{t["seq_max"]}">' + "".join(inner) + "</xs:sequence>"
            if t["base"] is not None:
                b = types[t["base"]]
                needed.add(b["file"])
                seq = (
                    f'<xs:complexContent><xs:extension base="{tref(f, ("user", t["base"]))}">'
                    + seq
                    + "</xs:extension></xs:complexContent>"
                )
            body.append(f'<xs:complexType name="{t["name"]}">{seq}</xs:complexType>')
        mine = [t for t in types if t["file"] == f]
        if mine:
            r = rng.choice(mine)
            body.append(f'<xs:element name="Root{f}" type="{tref(f, ("user", types.index(r)))}"/>')
        head = f'<xs:schema xmlns:xs="{XS}"'
        if n_ns:
            for g in range(files):
                head += f' xmlns:n{g}="{uris[g]}"'
            head += f' targetNamespace="{uris[f]}" elementFormDefault="qualified"'
        head += ">"
        imports = "".join(
            f'<xs:import namespace="{uris[g]}" schemaLocation="f{g}.xsd"/>' for g in sorted(needed) if g != f and n_ns
        )
        out[f"f{f}.xsd"] = head + imports + "".join(body) + "</xs:schema>"
    return out


SEQLEAK_SCHEMA = {
    "leak.xsd": (
        f'<xs:schema xmlns:xs="{XS}">'
        '<xs:complexType name="A"><xs:sequence maxOccurs="unbounded">'
        '<xs:element name="x" type="xs:string"/><xs:element name="w" type="xs:string"/>'
        '<xs:choice maxOccurs="unbounded"><xs:element name="p" type="B"/><xs:element name="q" type="B"/></xs:choice>'
        "</xs:sequence></xs:complexType>"
        '<xs:complexType name="B"><xs:complexContent><xs:extension base="A"><xs:sequence maxOccurs="unbounded">'
        '<xs:element name="y" type="xs:string"/><xs:element name="z" type="xs:string"/>'
        "</xs:sequence></xs:extension></xs:complexContent></xs:complexType>"
        "</xs:schema>"
    )
}
SEQLEAK_OPTIONS = {"compound_fields__enabled": True, "structure_style": "single-package", "package": "gen"}


E2E_STYLES = ["clusters", "namespace-clusters", "namespaces", "single-package", "filenames"]


def e2e_options(rng, style=None):
    o = {"structure_style": style or rng.choice(E2E_STYLES), "package": rng.choice(["gen", "gen.out"])}
    if rng.random() < 0.4:
        o["compound_fields__enabled"] = True
    if rng.random() < 0.3:
        o["unnest_classes"] = True
    if rng.random() < 0.2:
        o["format__frozen"] = True
    if rng.random() < 0.2:
        o["relative_imports"] = True
    if rng.random() < 0.25:
        o["generic_collections"] = True  # with format__frozen: reverted by validate() on every route
    # the rest of the configuration space, thinly: every CLI-settable option occurs
    if rng.random() < 0.35:
        from xsdata.models.config import DocstringStyle

        extra = {
            "docstring_style": rng.choice([e.value for e in DocstringStyle]),
            "format__slots": True,
            "format__order": True,
            "format__eq": False,
            "format__repr": False,
            "format__unsafe_hash": True,
            "wrapper_fields": True,
            "ignore_patterns": True,
            "max_line_length": rng.choice([60, 100]),
        }
        for k in rng.sample(sorted(extra), rng.randint(1, 3)):
            o[k] = extra[k]
    return o


def trace_to_model_args(trace, options, seed):
    classes = []
    for c in trace["classes"]:
        circ = [d for d in c["depsAll"] if d not in c["deps"]]
        classes.append(
            {
                "qname": c["qname"],
                "name": c["name"],
                "ns": c["ns"],
                "deps": c["deps"],
                "circ": circ,
                "depsAll": S.shuffle_order(seed, c["depsAll"]),
                "location": c.get("location", ""),
            }
        )
    style = options["structure_style"]
    return {
        "classes": classes,
        "style": "namespace_clusters" if style == "namespace-clusters" else style,
        "package": options.get("package", "generated"),
        "nspkg": trace.get("nspkg", []),
        "nsparts": trace.get("nsparts", []),
        "common_dir": trace.get("common_dir", ""),
        "vorder": S.shuffle_order(seed, [c["qname"] for c in classes]),
    }


def local_e2e(a):
    """one full generation (API route, set order a['seed']) -> layout as the model states it"""
    r = S.generate_full("api", a["schemas"], a["options"], a["seed"])
    if "err" in r:
        name = r["err"]
        msg = r.get("msg", "")
        if name == "CodegenError":
            if "Circular" in msg:
                return err("CircularDependencyError")
            if "different namespaces" in msg:
                return err("CodegenError")
        return err(name + ":" + msg[:60])
    t = r["trace"]
    return ok({"assign": t["assign"], "modules": t.get("modules", []), "digest": r["digest"]})


def impl_e2e(a):
    out = local_e2e(a)
    if "err" in out:
        return out
    d0 = out["ok"].pop("digest")
    # the other routes, other set orders, a repeated run, other hash seeds: same bytes
    runs = [("cli", a["seed"]), ("file", None), ("api", a["seed"] + 7), ("api", a["seed"])]
    for route, sh in runs:
        r = S.generate_full(route, a["schemas"], a["options"], sh)
        if r.get("digest") != d0:
            return err(f"NONREPRODUCIBLE route={route} shuffle={sh}: {r.get('err', r.get('digest'))}")
    if len(a["schemas"]) > 1:
        # the same source set in another list order: the same generation up to what the listed
        # findings C12-F6 / C12-F7 describe (c12_explain.py), nothing else
        import c12_explain as X

        r0 = S.generate_full("api", a["schemas"], a["options"], None)
        r = S.generate_full("api", a["schemas"], a["options"], None, "reversed")
        if r.get("digest") != r0.get("digest"):
            if "files" not in r or "files" not in r0:
                if X.uri_order_error_explained(r0, r, a["schemas"], a["options"])[0]:
                    return out
                return err(f"NONREPRODUCIBLE uris-reversed: {r0.get('err')} vs {r.get('err')}")
            fid, why = X.uri_order_explains(r0["files"], r["files"], a["schemas"], a["options"])
            if not fid:
                return err(f"NONREPRODUCIBLE uris-reversed: {why}")
    if not a.get("_nw"):
        for w in workers():
            r = w.call({"cmd": "generate", "route": "api", "schemas": a["schemas"], "options": a["options"], "shuffle": None})
            if r.get("digest") != d0:
                return err(f"NONREPRODUCIBLE hashseed={w.seed}: {r.get('err', r.get('digest'))}")
    return out


def canon_e2e(o):
    if isinstance(o, dict) and "ok" in o:
        v = o["ok"]
        return {"ok": {"assign": v["assign"], "modules": sorted(v["modules"])}}
    if isinstance(o, dict) and "err" in o and str(o["err"]).startswith("CodegenError:"):
        return o
    return o


SUBST_NAMES = ["vehicle", "building", "Animal", "item", "Zeta", "alpha", "b", "a"]


def make_subst_schema(rng, n_ns=1):
    """Substitution groups whose *heads* are referenced from xs:choice / xs:sequence particles:
    2-4 heads (simple or complex typed, sometimes abstract), 1-3 members each, a root type whose
    choice refers to 2-4 different heads (all refs substituted -> the compound field may be named
    after the groups), optionally mixed with a plain element or a second choice."""
    heads = rng.sample(SUBST_NAMES, rng.randint(2, 4))
    tns = "urn:sg"
    body = []
    if rng.random() < 0.5:
        body.append('<xs:complexType name="Base"><xs:sequence><xs:element name="v" type="xs:string" minOccurs="0"/></xs:sequence></xs:complexType>')
        ctype = "sg:Base"
    else:
        ctype = None
    for h in heads:
        t = ctype if ctype and rng.random() < 0.4 else rng.choice(["xs:string", "xs:int", "xs:date"])
        abstract = ' abstract="true"' if rng.random() < 0.2 else ""
        body.append(f'<xs:element name="{h}" type="{t}"{abstract}/>')
        for k in range(rng.randint(1, 3)):
            body.append(f'<xs:element name="{h}M{k}" type="{t}" substitutionGroup="sg:{h}"/>')

    def choice(refs, extra):
        mx = rng.choice(["1", "unbounded", "3"])
        parts = [f'<xs:element ref="sg:{r}"/>' for r in refs]
        if extra:
            parts.insert(rng.randrange(len(parts) + 1), '<xs:element name="plain" type="xs:string"/>')
        return f'<xs:choice maxOccurs="{mx}">' + "".join(parts) + "</xs:choice>"

    refs = rng.sample(heads, rng.randint(2, len(heads)))
    inner = choice(refs, rng.random() < 0.25)
    if rng.random() < 0.3:
        inner = "<xs:sequence>" + inner + choice(rng.sample(heads, 2), False) + "</xs:sequence>"
    elif rng.random() < 0.3:
        inner = '<xs:sequence maxOccurs="unbounded">' + "".join(f'<xs:element ref="sg:{r}"/>' for r in refs) + "</xs:sequence>"
    body.append(f'<xs:element name="root"><xs:complexType>{inner}</xs:complexType></xs:element>')
    text = (
        f'<xs:schema xmlns:xs="{XS}" xmlns:sg="{tns}" targetNamespace="{tns}" elementFormDefault="qualified">'
        + "".join(body)
        + "</xs:schema>"
    )
    return {"sg.xsd": text}


def compound_options(rng, style=None):
    """compound fields with the options that have no command line flag (project file / API only)"""
    o = {"structure_style": style or rng.choice(E2E_STYLES), "package": rng.choice(["gen", "gen.out"]),
         "compound_fields__enabled": True}
    if rng.random() < 0.75:
        o["compound_fields__use_substitution_groups"] = True
    r = rng.random()
    if r < 0.2:
        o["compound_fields__force_default_name"] = True
    elif r < 0.45:
        o["compound_fields__max_name_parts"] = rng.choice([1, 2, 4])
    if rng.random() < 0.25:
        o["compound_fields__default_name"] = rng.choice(["choice", "value", "any_of"])
    if rng.random() < 0.3:
        o["unnest_classes"] = True
    return o


def gen_e2e(rng, tier):
    n = 24 if tier == "quick" else 800
    k = 0
    tries = 0
    while k < n and tries < n * 4:
        tries += 1
        if k == 0:
            # a base class that is looked up while it is being finalised (fixed C12-F1)
            schemas, options = SEQLEAK_SCHEMA, dict(SEQLEAK_OPTIONS, structure_style="clusters")
        elif k % 4 == 1:
            # substitution group heads in choices, compound fields with the file-only options
            schemas, options = make_subst_schema(rng), compound_options(rng)
        else:
            schemas = make_schema_set(rng)
            options = e2e_options(rng)
        seed = rng.randrange(10**6)
        first = S.generate_full("api", schemas, options, seed)
        if "classes" not in first.get("trace", {}):
            continue  # generation failed before the designation step (not this property's business)
        a = trace_to_model_args(first["trace"], options, seed)
        a.update({"schemas": schemas, "options": options, "seed": seed, "_nw": k % 3 != 0})
        k += 1
        yield a


def classify_e2e(a, o):
    if "err" in o:
        return a["style"] + ":err:" + str(o["err"])[:24]
    mods = o["ok"]["modules"]
    big = max((len(m[1]) for m in mods), default=0)
    imp = any(m[2] for m in mods)
    return f"{a['style']}:files={len(a['schemas'])},maxmodule={min(big, 3)}{'+' if big > 3 else ''},imports={'y' if imp else 'n'}"


# ----------------------------------------------------------------------------
# ----------------------------------------------------------------------------
# gen.circular : DetectCircularReferences
# ----------------------------------------------------------------------------
def local_circular(a):
    """real Class objects: own types are attr types, the others extension types;
    the handler is run on the classes in the given order"""
    from xsdata.codegen.container import ClassContainer
    from xsdata.codegen.handlers import DetectCircularReferences
    from xsdata.codegen.models import Attr, AttrType, Class, Extension, Restrictions, Status
    from xsdata.models.config import GeneratorConfig
    from xsdata.models.enums import Tag

    container = ClassContainer(GeneratorConfig())
    objs = {}
    for c in a["classes"]:
        objs[c["ref"]] = Class(qname=f"C{c['ref']}", tag=Tag.COMPLEX_TYPE, location="mem", status=Status.FINALIZED)
    handles = {}
    for c in a["classes"]:
        obj = objs[c["ref"]]
        tps = []
        for k, t in enumerate(c["types"]):
            tp = AttrType(qname=f"C{t['target']}", reference=id(objs[t["target"]]), circular=t["circular"])
            tps.append(tp)
            if t["own"]:
                obj.attrs.append(Attr(tag=Tag.ELEMENT, name=f"a{k}", types=[tp]))
            else:
                obj.extensions.append(Extension(tag=Tag.EXTENSION, type=tp, restrictions=Restrictions()))
        handles[c["ref"]] = tps
        container.add(obj)
    h = DetectCircularReferences(container)
    for r in a["order"]:
        h.process(objs[r])
    return ok([[c["ref"], [tp.circular for tp in handles[c["ref"]]]] for c in a["classes"]])


def impl_circular(a):
    return across_seeds("gen.circular", a, local_circular)


def norm_circular_classes(classes):
    """`Class.types()` lists the extension types first: keep that order in the args"""
    out = []
    for c in classes:
        tys = [t for t in c["types"] if not t["own"]] + [t for t in c["types"] if t["own"]]
        out.append({"ref": c["ref"], "types": tys})
    return out


def gen_circular(rng, tier):
    def ty(t, own=True, circ=False):
        return {"target": t, "circular": circ, "own": own}

    hand = [
        ([{"ref": 0, "types": []}], [0]),
        ([{"ref": 0, "types": [ty(0)]}], [0]),  # self reference
        ([{"ref": 0, "types": [ty(1)]}, {"ref": 1, "types": [ty(0)]}], [0, 1]),
        ([{"ref": 0, "types": [ty(1)]}, {"ref": 1, "types": [ty(0)]}], [1, 0]),
        ([{"ref": 0, "types": [ty(1)]}, {"ref": 1, "types": [ty(2)]}, {"ref": 2, "types": [ty(0)]}], [2, 0, 1]),
        ([{"ref": 0, "types": [ty(1), ty(1)]}, {"ref": 1, "types": [ty(0, own=False)]}], [1, 0]),  # cycle through an extension
        ([{"ref": 0, "types": [ty(1, circ=True)]}, {"ref": 1, "types": [ty(0)]}], [1, 0]),  # already flagged
    ]
    for classes, order in hand:
        yield {"classes": norm_circular_classes(classes), "order": order}
    # bounded exhaustive: every digraph on <= 3 classes (own edges), every visiting order
    for n, loops in ((2, True), (3, False)):
        for vs, e in all_digraphs(n, loops):
            classes = [{"ref": int(v[1:]), "types": [ty(int(w[1:])) for w in ws]} for v, ws in e]
            for order in itertools.permutations(range(n)):
                yield {"classes": classes, "order": list(order), "_nw": True}
    for i in range(250 if tier == "quick" else 5000):
        n = rng.randint(2, 7)
        p = rng.choice([0.15, 0.3, 0.5])
        classes = []
        for r in range(n):
            tys = [ty(t, own=rng.random() < 0.8, circ=rng.random() < 0.05) for t in range(n) if rng.random() < p]
            rng.shuffle(tys)
            classes.append({"ref": r, "types": tys})
        order = list(range(n))
        rng.shuffle(order)
        if rng.random() < 0.2:
            order = order[: rng.randint(1, n)]  # lazily processed subsets
        yield {"classes": norm_circular_classes(classes), "order": order, "_nw": i % 4 != 0}


def classify_circular(a, o):
    if "err" in o:
        return "err:" + str(o["err"])[:16]
    flagged = sum(1 for _r, fl in o["ok"] for f in fl if f)
    ext = any(not t["own"] for c in a["classes"] for t in c["types"])
    return f"flagged={min(flagged, 3)}{'+' if flagged > 3 else ''},ext={'y' if ext else 'n'}"


def cycle_edges(classes):
    """edges (class, index) that lie on a reference cycle — independent reachability"""
    adj = {c["ref"]: {t["target"] for t in c["types"]} for c in classes}
    reach = {r: set(ts) for r, ts in adj.items()}
    changed = True
    while changed:
        changed = False
        for r in reach:
            new = set(reach[r])
            for u in list(reach[r]):
                new |= reach.get(u, set())
            if new != reach[r]:
                reach[r] = new
                changed = True
    return {(c["ref"], k) for c in classes for k, t in enumerate(c["types"]) if c["ref"] in reach.get(t["target"], set()) or t["target"] == c["ref"]}


def check_circular(a):
    """a reference is only flagged when it lies on a reference cycle; without cycles
    nothing is flagged and the visiting order is irrelevant; the same input gives the
    same flags however often the handler was used before in this process"""
    try:
        o = local_circular(a)
        again = local_circular(a)
    except Exception as e:  # noqa: BLE001
        return f"DetectCircularReferences raised {type(e).__name__}: {e} (state shared between handler instances / earlier runs?)"
    if again != o:
        return f"the same classes processed twice in one process give different flags: {o} vs {again}"
    on_cycle = cycle_edges(a["classes"])
    for c, (_r, flags) in zip(a["classes"], o["ok"]):
        for k, (t, f) in enumerate(zip(c["types"], flags)):
            if f and not t["circular"] and (c["ref"], k) not in on_cycle:
                return f"class {c['ref']} type {k} -> {t['target']} flagged circular but lies on no reference cycle"
    if not on_cycle:
        o2 = local_circular(dict(a, order=list(reversed(a["order"]))))
        if o2 != o:
            return f"acyclic references, yet the flags depend on the visiting order: {o} vs {o2}"
    return None


# ----------------------------------------------------------------------------
# gen.styles : DesignateClassPackages for namespaces / single-package / filenames
# ----------------------------------------------------------------------------
def local_styles(a):
    from xsdata.codegen.container import ClassContainer
    from xsdata.codegen.handlers import DesignateClassPackages
    from xsdata.codegen.models import Class, Status
    from xsdata.models.config import GeneratorConfig, StructureStyle
    from xsdata.models.enums import Tag

    cfg = GeneratorConfig()
    cfg.output.package = a["package"]
    cfg.output.structure_style = StructureStyle(a["style"])
    container = ClassContainer(cfg)
    objs = [
        Class(qname=c["qname"], tag=Tag.COMPLEX_TYPE, location=c["location"], status=Status.FINALIZED)
        for c in a["classes"]
    ]
    for o in objs:
        container.add(o)
    import logging

    from xsdata.logger import logger

    logger.setLevel(logging.CRITICAL)
    try:
        DesignateClassPackages(container).run()
    except IndexError:
        return err("IndexError")
    except ValueError:
        return err("ValueError")
    return ok([[o.qname, [o.package, o.module]] for o in objs])


def impl_styles(a):
    return across_seeds("gen.styles", a, local_styles)


LOC_ROOTS = ["file:///s", "file:///s/sub", "file:///s/sub/deep", "file:///other/x", "http://h.org/a", "http://h.org/a/b", "http://k.org", "urn:weird"]
LOC_FILES = ["a.xsd", "b.xsd", "a.b.xsd", "c.wsdl", "d.json", "e.txt", ".xsd", "f", "G.XSD", "x.y/z.xsd", "./h.xsd"]


def styles_case(rng, classes, style, package):
    from xsdata.codegen.container import ClassContainer
    from xsdata.codegen.handlers import DesignateClassPackages
    from xsdata.models.config import GeneratorConfig
    from xsdata.models.enums import COMMON_SCHEMA_DIR

    cfg = GeneratorConfig()
    cfg.output.package = package
    h = DesignateClassPackages(ClassContainer(cfg))
    nss = []
    for c in classes:
        if c["ns"] not in nss:
            nss.append(c["ns"])
    return {
        "classes": classes,
        "style": style,
        "package": package,
        "nsparts": [[ns, list(h.combine_ns_package(ns))] for ns in nss],
        "common_dir": COMMON_SCHEMA_DIR.as_uri(),
    }


def gen_styles(rng, tier):
    from xsdata.models.enums import COMMON_SCHEMA_DIR

    common = COMMON_SCHEMA_DIR.as_uri()

    def cls(q, loc):
        ns, _ = split_q(q)
        return {"qname": q, "ns": ns, "location": loc}

    hand = [
        [],
        [cls("A", "file:///s/a.xsd")],
        [cls("A", "file:///s/a.xsd"), cls("{urn:x}B", "file:///s/t/b.xsd")],
        [cls("{urn:x}B", "file:///s/t/b.xsd"), cls("A", "file:///s/a.xsd")],
        [cls("A", "file:///s/a.xsd"), cls("B", "http://h.org/x/b.xsd"), cls("C", "http://h.org/x/y/c.xsd")],
        [cls("A", common + "/xml.xsd"), cls("B", "file:///s/b.xsd"), cls("C", common + "/xlink.xsd")],
        [cls("{http://www.w3.org/XML/1998/namespace}lang", common + "/xml.xsd"), cls("{urn:a-b:c}D", "file:///s/d.xsd")],
        [cls("A", "a.xsd"), cls("B", "sub/b.xsd")],
        [cls("A", "file:///s/a"), cls("B", "file:///s/a/b.xsd")],  # relative_to raises ValueError
        [cls("A", "file:///s/x/a.xsd"), cls("B", "file:///s/x/a.xsd"), cls("C", "file:///s/y/a.xsd")],  # same module name twice
    ]
    for classes in hand:
        for style in ("namespaces", "single-package", "filenames"):
            for package in ("generated", "a.b"):
                yield styles_case(rng, classes, style, package)
    for i in range(300 if tier == "quick" else 5000):
        n = rng.randint(1, 7)
        roots = rng.sample(LOC_ROOTS, rng.randint(1, 3))
        if rng.random() < 0.15:
            roots.append(common)
        locs = [rng.choice(roots) + "/" + rng.choice(LOC_FILES) for _ in range(rng.randint(1, 4))]
        qs = qname_pool(rng, n)
        classes = [cls(q, rng.choice(locs)) for q in qs]
        style = rng.choice(["namespaces", "single-package", "filenames", "filenames"])
        package = rng.choice(["generated", "a.b", "x", ""])
        yield dict(styles_case(rng, classes, style, package), _nw=i % 4 != 0)


def classify_styles(a, o):
    if "err" in o:
        return a["style"] + ":err:" + str(o["err"])
    targets = {tuple(pm) for _q, pm in o["ok"]}
    pk = {pm[0] for _q, pm in o["ok"]}
    return f"{a['style']}:modules={min(len(targets), 3)}{'+' if len(targets) > 3 else ''},packages={min(len(pk), 2)}{'+' if len(pk) > 2 else ''}"


def check_styles(a):
    """the designation of every class does not depend on the container order nor on
    what was designated before in this process; `namespaces`: every class lands in
    the module named by its *own* namespace, `single-package`: in the one module"""
    import random as _r

    ref = local_styles(a)
    if "ok" in ref:
        parts_of = {ns: parts for ns, parts in a["nsparts"]}
        for c, (q, pm) in zip(a["classes"], ref["ok"]):
            if a["style"] == "namespaces":
                parts = parts_of[c["ns"]]
                exp = [".".join(parts[:-1]), parts[-1]]
            elif a["style"] == "single-package":
                parts = a["package"].split(".")
                exp = [".".join(parts[:-1]), parts[-1]]
            else:
                continue
            if pm != exp:
                return f"class {q} (namespace {c['ns']}) designated to {pm}, its own namespace/package gives {exp}"
    for k in (1, 2):
        cs = list(a["classes"])
        _r.Random(k).shuffle(cs)
        got = local_styles(dict(a, classes=cs))
        if ("err" in ref) != ("err" in got):
            return f"container order decides whether designation fails: {ref} vs {got}"
        if "ok" in ref and sorted(map(json.dumps, ref["ok"])) != sorted(map(json.dumps, got["ok"])):
            return f"designation depends on the container order: {ref['ok']} vs {got['ok']}"
    # another container in between must not change the result
    other = [dict(c, ns="urn:other:" + str(i), qname="{urn:other:%d}X%d" % (i, i), location=c["location"] + ".other/x.xsd")
             for i, c in enumerate(a["classes"][:2])]
    if other:
        try:
            local_styles(dict(a, classes=other, nsparts=[]))
        except Exception:  # noqa: BLE001
            pass
        again = local_styles(a)
        if again != ref:
            return f"designation depends on an earlier designation in the same process: {ref} vs {again}"
    return None


# ----------------------------------------------------------------------------
# gen.cache : ResourceTransformer.process(uris, cache=True)
# ----------------------------------------------------------------------------
CACHE_DOCS = {"a.json": '{"x": 1, "inner": {"y": "t"}}', "b.json": '{"z": [1, 2]}', "c.json": '{"x": "other"}'}


def run_cache_history(runs):
    """the runs of one history share a temp directory (the cache lives there);
    returns for every run the classes its analysis started from, as a digest"""
    import shutil
    import tempfile
    import warnings as _w
    from pathlib import Path

    from xsdata.codegen.transformer import ResourceTransformer
    from xsdata.models.config import GeneratorConfig

    class T(ResourceTransformer):
        def process_classes(self):
            pass

    d = os.path.realpath(tempfile.mkdtemp(prefix="c12cache"))
    src = os.path.join(d, "src")
    os.makedirs(src)
    for n, text in CACHE_DOCS.items():
        open(os.path.join(src, n), "w").write(text)
    old = tempfile.tempdir
    tempfile.tempdir = os.path.join(d, "tmp")
    os.makedirs(tempfile.tempdir)
    out = []
    try:
        with _w.catch_warnings():
            _w.simplefilter("ignore")
            for r in runs:
                cfg = GeneratorConfig()
                cfg.output.package = r["package"]
                t = T(config=cfg)
                t.process([Path(src, n).as_uri() for n in r["uris"]], cache=r.get("cache", True))
                out.append(sorted(repr((c.qname, [a.name for a in c.attrs])) for c in t.classes))
    finally:
        tempfile.tempdir = old
        shutil.rmtree(d, ignore_errors=True)
    return out


def local_cache(a):
    cached = run_cache_history(a["runs"])
    # what every (uris, package) maps to without any cache
    fresh = [run_cache_history([dict(r, cache=False)])[0] for r in a["runs"]]
    out = []
    for i, got in enumerate(cached):
        if got == fresh[i]:
            j = i
        else:
            j = next((k for k in range(i) if fresh[k] == got), None)
        out.append(None if j is None else [*a["runs"][j]["uris"], a["runs"][j]["package"]])
    return ok(out)


def impl_cache(a):
    return local_cache(a)


def gen_cache(rng, tier):
    yield {"runs": [{"uris": ["a.json"], "package": "pk.foo"}, {"uris": ["a.json"], "package": "pk.bar"}]}
    yield {"runs": [{"uris": ["a.json"], "package": "pk.foo"}, {"uris": ["a.json"], "package": "pk.foo"}]}
    yield {"runs": [{"uris": ["a.json", "b.json"], "package": "p"}, {"uris": ["b.json", "a.json"], "package": "p"}, {"uris": ["a.json"], "package": "p"}]}
    names = sorted(CACHE_DOCS)
    for _ in range(12 if tier == "quick" else 150):
        runs = []
        for _k in range(rng.randint(2, 4)):
            us = rng.sample(names, rng.randint(1, 2))
            runs.append({"uris": us, "package": rng.choice(["pk.foo", "pk.bar", "foo", "q.foo"])})
        yield {"runs": runs}


def classify_cache(a, o):
    if "err" in o:
        return "err"
    runs = a["runs"]
    hits = sum(1 for i, r in enumerate(runs) if any(r["uris"] == q["uris"] and r["package"] == q["package"] for q in runs[:i]))
    same_uris_other_pkg = any(r["uris"] == q["uris"] and r["package"] != q["package"] for i, r in enumerate(runs) for q in runs[:i])
    return f"hits={min(hits, 2)},same-uris-other-package={'y' if same_uris_other_pkg else 'n'}"


def check_cache(a):
    o = local_cache(a)["ok"]
    for i, (r, got) in enumerate(zip(a["runs"], o)):
        exp = [*r["uris"], r["package"]]
        if got != exp:
            return f"run {i} ({exp}) with --cache started from the classes of {got}: the result depends on earlier runs"
    return None


# ----------------------------------------------------------------------------
# gen.overrides : ValidateAttributesOverrides over a class hierarchy in a given container order
# ----------------------------------------------------------------------------
def local_overrides(a):
    """real classes; the RESOLVE step of a real container whose only processor at that
    step is the real ValidateAttributesOverrides; classes visited in `order`"""
    import logging

    from xsdata.codegen.container import ClassContainer, Steps
    from xsdata.codegen.handlers import ValidateAttributesOverrides
    from xsdata.codegen.models import Attr, AttrType, Class, Extension, Restrictions, Status
    from xsdata.logger import logger
    from xsdata.models.config import GeneratorConfig
    from xsdata.models.enums import DataType, Tag

    logger.setLevel(logging.CRITICAL)
    container = ClassContainer(GeneratorConfig())
    objs = []
    for n, c in enumerate(a["classes"]):
        attrs = []
        for x in c["attrs"]:
            tp = DataType.ANY_TYPE if x["any"] else DataType.STRING
            attrs.append(
                Attr(
                    tag=Tag.ATTRIBUTE if x["attribute"] else Tag.ELEMENT,
                    name=x["name"],
                    namespace=x["ns"],
                    default=str(x["sig"]) if x["sig"] else None,
                    types=[AttrType(qname=str(tp), native=True)],
                    restrictions=Restrictions(min_occurs=x["min"], max_occurs=x["max"]),
                )
            )
        obj = Class(
            qname=f"C{n}", tag=Tag.COMPLEX_TYPE, location="mem", attrs=attrs, status=Status.SANITIZED,
            extensions=[Extension(tag=Tag.EXTENSION, type=AttrType(qname=f"C{c['base']}"), restrictions=Restrictions())]
            if c["base"] is not None else [],
        )
        objs.append(obj)
        container.add(obj)
    container.processors = {Steps.RESOLVE: [ValidateAttributesOverrides(container)]}
    container.step = Steps.RESOLVE
    for t in a["order"]:
        if objs[t].status < Steps.RESOLVE:
            container.process_class(objs[t], Steps.RESOLVE)
    return ok([[[x.name, x.restrictions.min_occurs, x.restrictions.max_occurs] for x in o.attrs] for o in objs])


def impl_overrides(a):
    return across_seeds("gen.overrides", a, local_overrides)


OV_NAMES = ["e", "E", "e_", "f", "value", "t1_e", "e_Attribute", "e_1"]
OV_NS = [None, "urn:t0", "urn:t1", "http://x.org/y"]


def overrides_case(classes, order):
    from xsdata.utils.namespaces import clean_uri

    nss = sorted({x["ns"] for c in classes for x in c["attrs"] if x["ns"]})
    return {"classes": classes, "order": order, "clean_uri": [[ns, clean_uri(ns)] for ns in nss]}


def gen_overrides(rng, tier):
    import sys as _sys

    def at(name, ns=None, attribute=False, mn=0, mx=1, sig=0, any_=False):
        return {"name": name, "ns": ns, "attribute": attribute, "min": mn, "max": mx, "sig": sig, "any": any_}

    # the witness of C12-F7: B{e}, D1 extends B {e in another namespace}, D2 extends B {e, same namespace}
    w = [
        {"attrs": [at("e", "urn:t1")], "base": None},
        {"attrs": [at("e", "urn:t0")], "base": 0},
        {"attrs": [at("e", "urn:t1")], "base": 0},
    ]
    for order in ([0, 1, 2], [0, 2, 1], [2, 1, 0], [1]):
        yield overrides_case(w, order)
    # the parent becomes a list for one derived class
    l = [
        {"attrs": [at("e")], "base": None},
        {"attrs": [at("e", mx=5, sig=1)], "base": 0},
        {"attrs": [at("e", sig=2)], "base": 0},
    ]
    for order in ([1, 2], [2, 1]):
        yield overrides_case(l, order)
    hand = [
        [{"attrs": [at("e", attribute=True), at("f")], "base": None}, {"attrs": [at("e"), at("f", mx=0)], "base": 0}],
        [{"attrs": [at("e", any_=True)], "base": None}, {"attrs": [at("e", sig=3)], "base": 0}],
        [{"attrs": [at("e", mx=0)], "base": None}, {"attrs": [at("e", mx=3)], "base": 0}, {"attrs": [at("E", "urn:t0"), at("x", mx=0)], "base": 1}],
        [{"attrs": [at("e", "urn:t1"), at("t1_e")], "base": None}, {"attrs": [at("e", "urn:t0")], "base": 0}],
    ]
    for classes in hand:
        n = len(classes)
        for order in itertools.permutations(range(n)):
            yield overrides_case(classes, list(order))
    for i in range(300 if tier == "quick" else 6000):
        n = rng.randint(2, 5)
        pool = rng.sample(OV_NAMES, rng.randint(1, 4))
        classes = []
        for k in range(n):
            base = None if k == 0 else (0 if rng.random() < 0.6 else rng.randrange(k))
            names = rng.sample(pool, rng.randint(1, len(pool)))
            attrs = [
                at(
                    nm,
                    rng.choice(OV_NS) if rng.random() < 0.6 else None,
                    rng.random() < 0.25,
                    rng.choice([0, 0, 1]),
                    rng.choice([0, 1, 1, 1, 4, _sys.maxsize]),
                    rng.choice([0, 0, 0, 1, 2]),
                    rng.random() < 0.08,
                )
                for nm in names
            ]
            # a class holds one attr per slug (RenameDuplicateAttributes ran before)
            seen, uniq = set(), []
            for x in attrs:
                sl = "".join(ch for ch in x["name"] if ch.isascii() and ch.isalnum()).lower()
                if sl not in seen:
                    seen.add(sl)
                    uniq.append(x)
            classes.append({"attrs": uniq, "base": base})
        order = list(range(n))
        rng.shuffle(order)
        yield dict(overrides_case(classes, order), _nw=i % 4 != 0)


def classify_overrides(a, o):
    if "err" in o:
        return "err:" + str(o["err"])[:20]
    before = [[x["name"] for x in c["attrs"]] for c in a["classes"]]
    after = [[x[0] for x in c] for c in o["ok"]]
    parent_renamed = any(
        set(after[k]) - set(before[k]) and any(c["base"] == k for c in a["classes"]) for k in range(len(before))
    )
    removed = any(len(after[k]) < len(before[k]) for k in range(len(before)))
    listed = any(x[2] > 1 and y["max"] <= 1 for c, d in zip(o["ok"], a["classes"]) for x, y in zip(c, d["attrs"]) if len(c) == len(d["attrs"]))
    return f"renamed-in-base={'y' if parent_renamed else 'n'},removed={'y' if removed else 'n'},to-list={'y' if listed else 'n'}"


def _ov_slug(name):
    return "".join(ch for ch in name if ch.isascii() and ch.isalnum()).lower()


def overrides_contested(a):
    """[(ancestor, slug, family)]: a class `ancestor` has an attr filed under `slug`, at least
    two classes derived from it declare an attr under that slug, and for one of them the handler
    changes the ancestor's attr (the child attr is not an override -> the ancestor's attr is
    renamed; or the child is a list and the ancestor's attr is not -> it becomes a list); the
    other derived class may also declare its attr under a renamed form of the slug.
    family = the ancestor and every class derived from it."""
    cls = a["classes"]

    def ancestors(k):
        out = []
        b = cls[k]["base"]
        while b is not None and b not in out:
            out.append(b)
            b = cls[b]["base"]
        return out

    out = []
    for anc in range(len(cls)):
        desc = [j for j in range(len(cls)) if anc in ancestors(j)]
        for p in cls[anc]["attrs"]:
            sl = _ov_slug(p["name"])
            # derived classes whose validation changes the ancestor's attr
            mutators = {
                j
                for j in desc
                for x in cls[j]["attrs"]
                if _ov_slug(x["name"]) == sl
                and (not (x["attribute"] == p["attribute"] and x["ns"] == p["ns"]) or (x["max"] > 1 and p["max"] == 1))
            }
            # derived classes with an attr filed under that slug or under a renamed form of it
            interested = {j for j in desc for x in cls[j]["attrs"] if sl in _ov_slug(x["name"])}
            if mutators and len(interested | mutators) >= 2:
                out.append((anc, sl, {anc, *desc}))
    return out


def overrides_mutating(a):
    return bool(overrides_contested(a))


def overrides_orders(a):
    import random as _r

    full = list(range(len(a["classes"])))
    yield full
    for k in (1, 2, 3):
        order = list(full)
        _r.Random(k).shuffle(order)
        yield order


def check_overrides(a):
    """which fields a class gets does not depend on the order in which the container visits the classes"""
    runs = [(o, local_overrides(dict(a, order=o))) for o in overrides_orders(a)]
    for o, got in runs[1:]:
        if got != runs[0][1]:
            return f"fields depend on the visiting order: {runs[0][0]} -> {runs[0][1]['ok']}, {o} -> {got['ok']}"
    return None


def covered_overrides(a, msg):
    """C12-F7 exactly: every class whose fields differ between two visiting orders belongs to the
    family of a contested base attr, and every field that differs is one filed under the contested
    slug or a renamed form of it (`<ns>_<name>`, `<name>_<Tag>`, `<name>_<index>`)."""
    contested = overrides_contested(a)
    if not contested:
        return None
    runs = [local_overrides(dict(a, order=o))["ok"] for o in overrides_orders(a)]
    for got in runs[1:]:
        for k, (fa, fb) in enumerate(zip(runs[0], got)):
            if fa == fb:
                continue
            fams = [(anc, sl) for anc, sl, fam in contested if k in fam]
            if not fams:
                return None
            diff = [x for x in fa if x not in fb] + [x for x in fb if x not in fa]
            for name, _mn, _mx in diff:
                if not any(sl in _ov_slug(name) for _anc, sl in fams):
                    return None
    return "C12-F7"


# ----------------------------------------------------------------------------
# gen.choose_name : CreateCompoundFields.choose_name
# ----------------------------------------------------------------------------
def local_choose_name(a):
    from xsdata.codegen.container import ClassContainer
    from xsdata.codegen.handlers import CreateCompoundFields
    from xsdata.codegen.models import Attr, AttrType, Class, Status
    from xsdata.models.config import CompoundFields, GeneratorConfig
    from xsdata.models.enums import Tag

    cfg = GeneratorConfig()
    cfg.output.compound_fields = CompoundFields(
        enabled=True, default_name=a["default_name"], use_substitution_groups=a["use_substitution_groups"],
        force_default_name=a["force_default_name"], max_name_parts=a["max_name_parts"],
    )
    container = ClassContainer(cfg)
    st = "{http://www.w3.org/2001/XMLSchema}string"
    target = Class(
        qname="T", tag=Tag.COMPLEX_TYPE, location="mem", status=Status.FINALIZED,
        attrs=[Attr(tag=Tag.ELEMENT, name=n, types=[AttrType(qname=st, native=True)]) for n in a["reserved"]],
    )
    container.add(target)
    S.set_shuffle(a.get("seed"))
    try:
        return ok(CreateCompoundFields(container).choose_name(target, list(a["names"]), list(a["substitutions"])))
    finally:
        S.set_shuffle(None)


def impl_choose_name(a):
    return across_seeds("gen.choose_name", a, local_choose_name)


CN_NAMES = ["a", "b", "vehicle", "building", "Zeta", "a_Or_b", "choice", "b_Or_a", "x1"]


def gen_choose_name(rng, tier):
    def case(names, subs, reserved=(), seed=None, **cfg):
        base = {"default_name": "choice", "use_substitution_groups": False, "force_default_name": False, "max_name_parts": 3}
        base.update(cfg)
        return dict(base, names=list(names), substitutions=list(subs), reserved=list(reserved), seed=seed)

    yield case(["a", "b"], [])
    yield case(["x", "y"], ["vehicle", "building"], use_substitution_groups=True)
    yield case(["x", "y"], ["building", "vehicle"], use_substitution_groups=True)
    yield case(["x", "y", "z"], ["vehicle", "building", "vehicle"], use_substitution_groups=True)
    yield case(["x", "y"], ["vehicle"], use_substitution_groups=True)  # not every attr substituted
    yield case(["a", "b"], [], ["a_Or_b", "a_Or_b_1"])
    yield case(["a", "b", "c", "d"], [])
    yield case(["a", "b"], [], force_default_name=True, default_name="value", reserved=["value"])
    for i in range(250 if tier == "quick" else 5000):
        k = rng.randint(1, 5)
        names = [rng.choice(CN_NAMES) for _ in range(k)]
        r = rng.random()
        subs = [rng.choice(CN_NAMES[:5]) for _ in range(k)] if r < 0.5 else ([rng.choice(CN_NAMES[:5])] if r < 0.65 else [])
        yield dict(
            case(names, subs, rng.sample(CN_NAMES, rng.randint(0, 3)), rng.randrange(10**6),
                 use_substitution_groups=rng.random() < 0.6, force_default_name=rng.random() < 0.15,
                 max_name_parts=rng.choice([1, 2, 3, 3, 5]), default_name=rng.choice(["choice", "value"])),
            _nw=i % 4 != 0,
        )


def classify_choose_name(a, o):
    if "err" in o:
        return "err"
    by_group = a["use_substitution_groups"] and len(a["names"]) == len(a["substitutions"])
    default = o["ok"].startswith(a["default_name"]) and "_Or_" not in o["ok"]
    return f"parts={'groups' if by_group else 'names'},default={'y' if default else 'n'},indexed={'y' if o['ok'][-1:].isdigit() else 'n'}"


def check_choose_name(a):
    """the name is a function of the arguments: the same under every set iteration order, and
    its parts come in the order of the arguments (document order)"""
    outs = {json.dumps(local_choose_name(dict(a, seed=sd))) for sd in (None, 1, 2, 3, 4, 5)}
    if len(outs) > 1:
        return f"the compound field name depends on the set iteration order: {sorted(outs)}"
    got = local_choose_name(a)["ok"]
    parts = a["substitutions"] if a["use_substitution_groups"] and len(a["names"]) == len(a["substitutions"]) else a["names"]
    uniq = []
    for x in parts:
        if x not in uniq:
            uniq.append(x)
    if not a["force_default_name"] and len(uniq) <= a["max_name_parts"]:
        exp = "_Or_".join(uniq)
        if got != exp and not re.fullmatch(re.escape(exp) + r"_\d+", got):
            return f"name {got!r}, the parts in document order give {exp!r}"
    return None


IMPLS_LOCAL = {
    "gen.scc": local_scc,
    "gen.toposort": local_toposort,
    "gen.clusters": local_clusters,
    "gen.resolver": local_resolver,
    "gen.layout": local_layout,
    "gen.sort_types": local_sort_types,
    "gen.seqnum": local_seqnum,
    "gen.seqchain": local_seqchain,
    "gen.circular": local_circular,
    "gen.styles": local_styles,
    "gen.overrides": local_overrides,
    "gen.choose_name": local_choose_name,
}


def nt_graph(a, o):
    return any(ws for _k, ws in a.get("edges", a.get("data", [])))


CORRS = [
    Corr("gen.scc", gen_scc, impl_scc, nontrivial=nt_graph, canon=canon_scc, classify=classify_scc,
         describe="graphs.strongly_connected_components with the iteration order of set(edges) forced"),
    Corr("gen.toposort", gen_toposort, impl_toposort, nontrivial=nt_graph, classify=classify_toposort,
         describe="toposort_flatten (shim) vs model"),
    Corr("gen.clusters", gen_clusters, impl_clusters, classify=classify_clusters,
         nontrivial=lambda a, o: any(c["deps"] or c["circ"] for c in a["classes"]),
         describe="DesignateClassPackages.run (clusters / namespace clusters) on real Class objects under ShuffledSet"),
    Corr("gen.resolver", gen_resolver, impl_resolver, classify=classify_resolver,
         nontrivial=lambda a, o: any(c["deps"] for c in a["classes"]),
         describe="DependenciesResolver.process/sorted_imports/sorted_classes"),
    Corr("gen.layout", gen_layout, impl_layout,
         classify=lambda a, o: classify_clusters(a, {"ok": o["ok"]["assign"]} if "ok" in o else o),
         nontrivial=lambda a, o: any(c["deps"] or c["circ"] for c in a["classes"]),
         describe="designation + per-module resolver runs (render's group_by_module loop)"),
    Corr("gen.sort_types", gen_sort_types, impl_sort_types, classify=classify_sort_types,
         nontrivial=lambda a, o: len(a["types"]) > 1,
         describe="ConverterFactory.sort_types, directly and through Attr.native_types"),
    Corr("gen.seqnum", gen_seqnum, impl_seqnum, classify=classify_seqnum,
         nontrivial=lambda a, o: any(x["path"] for x in a["attrs"]),
         describe="CalculateAttributePaths + ResetAttributeSequences + ResetAttributeSequenceNumbers"),
    Corr("gen.seqchain", gen_seqchain, impl_seqchain, classify=classify_seqchain,
         nontrivial=lambda a, o: len(a["chain"]) > 1,
         describe="the three handlers along an inheritance chain; ResetAttributeSequenceNumbers called on the last class only"),
    Corr("gen.circular", gen_circular, impl_circular, classify=classify_circular,
         nontrivial=lambda a, o: any(c["types"] for c in a["classes"]),
         describe="DetectCircularReferences.process over real classes in a given visiting order"),
    Corr("gen.choose_name", gen_choose_name, impl_choose_name, classify=classify_choose_name,
         nontrivial=lambda a, o: len(a["names"]) > 1,
         describe="CreateCompoundFields.choose_name on a real class, every CompoundFields option varied, under ShuffledSet"),
    Corr("gen.overrides", gen_overrides, impl_overrides, classify=classify_overrides,
         nontrivial=lambda a, o: len(a["classes"]) > 1,
         describe="ValidateAttributesOverrides through the real container's RESOLVE step, classes visited in a given order"),
    Corr("gen.styles", gen_styles, impl_styles, classify=classify_styles,
         nontrivial=lambda a, o: len(a["classes"]) > 1,
         describe="DesignateClassPackages.run for the styles namespaces / single-package / filenames"),
    Corr("gen.cache", gen_cache, impl_cache, classify=classify_cache,
         describe="histories of ResourceTransformer.process(uris, cache=True) sharing one temp directory"),
    Corr("gen.process_order", gen_process_order, impl_process_order, classify=classify_process_order,
         nontrivial=lambda a, o: len(a["uris"]) > 1,
         describe="cli.generate source order with the glob order forced"),
    Corr("gen.config_routes", gen_config_routes, impl_config_routes, classify=classify_config_routes,
         nontrivial=lambda a, o: any(v is not None for _d, _k, v in a["options"]),
         describe="GeneratorOutput as it reaches the transformer via API / CLI flags / config file"),
    Corr("gen.e2e", gen_e2e, impl_e2e, canon=canon_e2e, classify=classify_e2e,
         describe="real XSD sets through the whole pipeline (3 routes, 2 set orders, repeated run, hash-seed workers); "
         "the model predicts the layout from the classes entering DesignateClassPackages"),
]


# ----------------------------------------------------------------------------
# ORACLES — the property on the implementation alone
# ----------------------------------------------------------------------------
def first_diff(fa, fb):
    for k in sorted(set(fa) | set(fb)):
        if fa.get(k) != fb.get(k):
            la, lb = (fa.get(k) or "").split("\n"), (fb.get(k) or "").split("\n")
            for n, (x, y) in enumerate(itertools.zip_longest(la, lb)):
                if x != y:
                    return f"{k}:{n + 1}: {x!r} != {y!r}"
            return f"{k}: differs"
    return "same"


def e2e_runs(a, tier="quick"):
    """(label, result) of the same generation along every axis of the property"""
    schemas, options = a["schemas"], a["options"]
    yield "api/run1", S.generate_full("api", schemas, options, None)
    yield "api/run2-after-chdir", S.generate_full("api", schemas, options, None)
    for sh in (11, 12, 13):
        yield f"api/setorder{sh}", S.generate_full("api", schemas, options, sh)
    yield "cli-flags", S.generate_full("cli", schemas, options, None)
    yield "cli-config-file", S.generate_full("file", schemas, options, None)
    if len(schemas) > 1:
        # the same source *set*, handed to the programmatic API in another list order
        yield "api/uris-reversed", S.generate_full("api", schemas, options, None, "reversed")
    for w in workers():
        r = w.call({"cmd": "generate", "route": "api", "schemas": schemas, "options": options, "shuffle": None, "files": True})
        yield f"api/hashseed{w.seed}", r


_E2E_CLASSIFIED: dict[str, list] = {}


def _e2e_key(a):
    from framework import canon_hash

    return canon_hash([a["schemas"], a["options"]])


def e2e_diffs(a):
    """Every axis on which the generation differs from the first run, each classified:
    [(message, finding id or None)].  A listed finding covers a difference only when the
    difference is exactly of the kind the finding describes (c12_explain.py):
      C12-F3  include_header is on and nothing but the timestamp of the header line differs;
      C12-F6 / C12-F7  the axis is api/uris-reversed and the two outputs are the same generation
              presented differently (class order / imports / cluster name / duplicate numbering;
              F7: plus the fields a base type and two derived types declare under one name).
    With include_header on, the timestamps are masked before anything else is compared, so the
    header never hides another difference of the same file."""
    import c12_explain as X

    header = bool(a["options"].get("include_header"))
    out = []
    ref = None
    for label, r in e2e_runs(a):
        if ref is None:
            ref = (label, r)
            continue
        r0 = ref[1]
        if r.get("digest") == r0.get("digest") and r.get("err") == r0.get("err"):
            continue
        if "files" not in r or "files" not in r0:
            fid, why = (None, "")
            if label == "api/uris-reversed":
                fid, why = X.uri_order_error_explained(r0, r, a["schemas"], a["options"])
                why = f" [{why}]"
            out.append((f"generation differs between {ref[0]} and {label}: {r0.get('err')} vs {r.get('err')}: {(r.get('msg') or r0.get('msg') or '')[:80]}{why}", fid))
            continue
        fa, fb = r0["files"], r["files"]
        fid = None
        if header:
            ma, mb = X.strip_timestamps(fa), X.strip_timestamps(fb)
            if ma == mb:
                fid = "C12-F3" if X.only_timestamp_differs(fa, fb) else None
                out.append((f"generation differs between {ref[0]} and {label}: {first_diff(fa, fb)}", fid))
                continue
            fa, fb = ma, mb
        why = ""
        if label == "api/uris-reversed" and len(a["schemas"]) > 1:
            fid, why = X.uri_order_explains(fa, fb, a["schemas"], a["options"])
            why = f" [{'same generation up to' if fid else 'not explained by the URI order'}: {why}]"
        out.append((f"generation differs between {ref[0]} and {label}: {first_diff(fa, fb)}{why}", fid))
    return out


def check_e2e(a):
    diffs = e2e_diffs(a)
    _E2E_CLASSIFIED[_e2e_key(a)] = diffs
    for msg, fid in diffs:
        if fid is None:
            return msg  # a difference no listed finding describes comes first
    return diffs[0][0] if diffs else None


def covered_e2e(a, msg):
    """the finding that covers `msg` -- only if *every* difference seen on this input is covered"""
    diffs = _E2E_CLASSIFIED.get(_e2e_key(a))
    if diffs is None or not any(m == msg for m, _f in diffs):
        return None
    if any(fid is None for _m, fid in diffs):
        return None
    return next(fid for m, fid in diffs if m == msg)


def gen_oracle_e2e(rng, tier):
    yield {"schemas": SEQLEAK_SCHEMA, "options": SEQLEAK_OPTIONS}
    # the header route (C12-F3 covers the timestamp, and only the timestamp)
    yield {"schemas": URI_ORDER_SCHEMAS, "options": {"structure_style": "filenames", "package": "gen", "include_header": True}}
    # the witnesses of the listed findings on the URI order, in the styles they show up differently
    for style in ("single-package", "filenames", "clusters"):
        yield {"schemas": URI_ORDER_SCHEMAS, "options": {"structure_style": style, "package": "gen"}}
    yield {"schemas": OVERRIDE_ORDER_SCHEMAS, "options": {"structure_style": "namespaces", "package": "gen"}}
    # compound fields named after substitution groups (options without a command line flag)
    for _k in range(4 if tier == "quick" else 60):
        yield {"schemas": make_subst_schema(rng), "options": compound_options(rng, rng.choice(["single-package", "filenames", "clusters"]))}
    for i in range(12 if tier == "quick" else 300):
        # several files more often than not: most axes only bite there
        schemas = make_schema_set(rng, n_ns=rng.choice([0, 1, 2, 3, 2, 3]))
        options = e2e_options(rng, rng.choice(["clusters", "namespace-clusters", "filenames", "namespaces", "single-package"]))
        if rng.random() < 0.15:
            options["generic_collections"] = True
        if rng.random() < 0.15:
            options["include_header"] = True  # C12-F3: covered only when nothing but the timestamp differs
        yield {"schemas": schemas, "options": options}


def reference_scc(edges):
    """mutual reachability classes by transitive closure (independent of xsdata)"""
    vs = [k for k, _ in edges]
    adj = {k: set(ws) for k, ws in edges}
    reach = {v: {v} for v in vs}
    changed = True
    while changed:
        changed = False
        for v in vs:
            new = set(reach[v])
            for u in list(reach[v]):
                new |= adj.get(u, set())
            if new != reach[v]:
                reach[v] = new
                changed = True
    comps = []
    for v in vs:
        c = sorted(u for u in vs if u in reach[v] and v in reach.get(u, ()))
        if c not in comps:
            comps.append(c)
    return sorted(comps)


def check_scc(a):
    import random as _r

    keys = [k for k, _ in a["edges"]]
    if any(w not in keys for _k, ws in a["edges"] for w in ws):
        return None  # dangling edge: KeyError for every order, nothing to compare
    ref = reference_scc(a["edges"])
    rr = _r.Random(len(keys))
    for t in range(4):
        vo = list(keys)
        rr.shuffle(vo)
        e = [[k, rr.sample(ws, len(ws))] for k, ws in a["edges"]]
        o = local_scc({"edges": e, "vorder": vo})
        if "err" in o:
            return f"strongly_connected_components raised {o['err']} for vertex order {vo}"
        got = sorted(sorted(c) for c in o["ok"])
        if got != ref:
            return f"components {got} for vertex order {vo}, mutual reachability classes are {ref}"
    return None


def vary_classes(a, k):
    """the same classes presented in another order, under another set order"""
    import random as _r

    rr = _r.Random(k)
    b = dict(a)
    cs = [dict(c) for c in a["classes"]]
    rr.shuffle(cs)
    for c in cs:
        c["deps"] = rr.sample(c["deps"], len(c["deps"]))
        if "circ" in c:
            c["circ"] = rr.sample(c["circ"], len(c["circ"]))
    b["classes"] = cs
    b["seed"] = (a.get("seed") or 0) + 101 * k
    if "registry" in a:
        b["registry"] = rr.sample(a["registry"], len(a["registry"]))
    return b


def as_map(o):
    if "err" in o:
        return o
    v = o["ok"]
    if isinstance(v, list):
        return {"ok": sorted(map(json.dumps, v))}
    if "assign" in v:
        return {"ok": {"assign": sorted(map(json.dumps, v["assign"])), "modules": sorted(map(json.dumps, v["modules"]))}}
    return o


def check_variants(local):
    def check(a):
        ref = as_map(local(a))
        for k in (1, 2, 3):
            b = vary_classes(a, k)
            got = as_map(local(b))
            if got != ref:
                if "err" in got and "err" in ref:
                    continue  # which of several errors is raised first may depend on the order
                return f"result changes with class/set order (variant {k}): {json.dumps(ref)[:200]} vs {json.dumps(got)[:200]}"
        return None

    return check


def check_sort_types(a):
    """sort_types(native_types) must not depend on the set order of native_types"""
    tb = type_by_name()
    qn = qname_by_type_name()
    names = []
    for n in a["types"]:
        if n not in names:
            names.append(n)
    outs = set()
    for seed in (1, 2, 3, 4, 5, 6):
        order = [t.__name__ for t in S.shuffle_order(seed, [tb[n] for n in names])]
        o = local_sort_types({"types": order, "via": "attr", "seed": seed, "attr_types": [qn[n][0] for n in names]})
        outs.add(json.dumps(o.get("ok", o)))
    if len(outs) > 1:
        return f"sort_types(native_types) depends on the set order: {sorted(outs)[:2]}"
    return None


def check_seqnum(a):
    """relabel every id of the class *and* of its base class: same output"""
    ref = local_seqnum(a)
    for off, mul in ((16 * 977, 1), (16 * 31337, 3)):
        b = dict(a)
        b["attrs"] = relabel(a["attrs"], lambda x: mul * x + off)
        b["base"] = [None if not s else mul * s + off for s in a["base"]]
        got = local_seqnum(b)
        if got != ref:
            return f"sequence numbers depend on id(): {json.dumps(ref)[:160]} vs {json.dumps(got)[:160]}"
    return None


def gen_oracle_seqnum(rng, tier):
    for a in gen_seqnum(rng, tier):
        yield a


def check_seqchain(a):
    ref = local_seqchain(a)
    for off, mul in ((16 * 977, 1), (16 * 31337, 3)):
        b = {"chain": [relabel(c, lambda x: mul * x + off) for c in a["chain"]]}
        got = local_seqchain(b)
        if got != ref:
            return f"sequence numbers of an inheritance chain depend on id(): {json.dumps(ref)[:160]} vs {json.dumps(got)[:160]}"
    return None


def check_process_order(a):
    import random as _r

    ref = local_process_order(a)
    names = [n for n, _t in a["uris"]]
    for k in (1, 2, 3):
        b = dict(a)
        b["glob_order"] = _r.Random(k).sample(names, len(names))
        got = local_process_order(b)
        if got != ref:
            return f"processing order depends on the directory listing order: {ref} vs {got} (listing {b['glob_order']})"
    return None


def check_config_routes(a):
    o = local_config_routes(a)
    if "err" in o:
        return None
    r = o["ok"]
    for x, y in (("api", "cli"), ("api", "file")):
        if r[x] != r[y]:
            d = {k: (r[x][k], r[y][k]) for k in r[x] if r[x][k] != r[y][k]}
            return f"configuration differs between routes {x} and {y}: {d}"
    return None


def check_cwd(a):
    """package_path / module_path must follow the *current* working directory: a
    second generation in the same process after a chdir writes under the new one."""
    import tempfile

    from xsdata.utils.package import module_path, package_path

    cwd = os.getcwd()
    dirs = [os.path.realpath(tempfile.mkdtemp(prefix="c12cwd")) for _ in range(2)]
    try:
        for d in dirs:
            os.chdir(d)
            for fn in (module_path, package_path):
                p = str(fn(a["module"]))
                if not p.startswith(d + os.sep) and p != d:
                    return f"{fn.__name__}({a['module']!r}) in {d} -> {p} (a directory of an earlier call)"
    finally:
        os.chdir(cwd)
        for d in dirs:
            os.rmdir(d)
    return None


def gen_cwd(rng, tier):
    for m in ("generated.a", "gen.out.mod", "x", "pkg.sub.deep.mod_1"):
        yield {"module": m}


ORACLES = [
    Oracle("scc-is-mutual-reachability", gen_scc, check_scc, from_ops=("gen.scc",)),
    Oracle("toposort-order-independent", gen_toposort,
           lambda a: (lambda r, q: None if r == q else f"toposort_flatten depends on dict order: {r} vs {q}")(
               local_toposort(a), local_toposort({"data": list(reversed([[k, list(reversed(v))] for k, v in a["data"]]))})),
           from_ops=("gen.toposort",)),
    Oracle("clusters-order-independent", gen_clusters, check_variants(local_clusters), from_ops=("gen.clusters",)),
    Oracle("layout-order-independent", gen_layout, check_variants(local_layout), from_ops=("gen.layout",)),
    Oracle("resolver-order-independent", gen_resolver, check_variants(local_resolver), from_ops=("gen.resolver",)),
    Oracle("sort-types-set-order-independent", gen_sort_types, check_sort_types,
           from_ops=("gen.sort_types",)),
    Oracle("sequence-numbers-id-independent", gen_oracle_seqnum, check_seqnum, from_ops=("gen.seqnum",)),
    Oracle("chain-sequence-numbers-id-independent", gen_seqchain, check_seqchain, from_ops=("gen.seqchain",)),
    Oracle("source-order-listing-independent", gen_process_order, check_process_order, from_ops=("gen.process_order",)),
    Oracle("config-routes-agree", gen_config_routes, check_config_routes, from_ops=("gen.config_routes",)),
    Oracle("paths-follow-cwd", gen_cwd, check_cwd),
    Oracle("circular-flags-only-on-cycles", gen_circular, check_circular, from_ops=("gen.circular",)),
    Oracle("styles-container-order-independent", gen_styles, check_styles, from_ops=("gen.styles",)),
    Oracle("compound-name-document-order", gen_choose_name, check_choose_name, from_ops=("gen.choose_name",)),
    Oracle("overrides-visiting-order-independent", gen_overrides, check_overrides, covered=covered_overrides,
           from_ops=("gen.overrides",)),
    Oracle("cache-history-independent", gen_cache, check_cache, from_ops=("gen.cache",)),
    Oracle("generation-byte-identical", gen_oracle_e2e, check_e2e, covered=covered_e2e, from_ops=("gen.e2e",),
           adapt=lambda op, a: {"schemas": a["schemas"], "options": a["options"]}),
]


# ----------------------------------------------------------------------------
# FINDINGS — replay of known defects on the real code
# ----------------------------------------------------------------------------
def finding_header_timestamp():
    import datetime

    from xsdata.formats.dataclass.generator import DataclassGenerator
    from xsdata.models.config import GeneratorConfig

    S.install_pipeline_patches()
    cfg = GeneratorConfig()
    cfg.output.include_header = True
    h = DataclassGenerator(cfg).render_header()
    m = re.search(r"on (\d{4}-\d\d-\d\d \d\d:\d\d:\d\d)", h)
    if not m:
        return False, f"no timestamp in header: {h!r}"
    t = datetime.datetime.fromisoformat(m.group(1))
    close = abs((datetime.datetime.now() - t).total_seconds()) < 5
    return close, f"header embeds the wall clock: {m.group(1)}"


URI_ORDER_SCHEMAS = {
    "f0.xsd": (
        f'<xs:schema xmlns:xs="{XS}" xmlns:n1="urn:t1" targetNamespace="urn:t0" elementFormDefault="qualified">'
        '<xs:import namespace="urn:t1" schemaLocation="f1.xsd"/>'
        '<xs:complexType name="A"><xs:sequence><xs:element name="b" type="n1:B" minOccurs="0"/></xs:sequence></xs:complexType>'
        "</xs:schema>"
    ),
    "f1.xsd": (
        f'<xs:schema xmlns:xs="{XS}" xmlns:n0="urn:t0" targetNamespace="urn:t1" elementFormDefault="qualified">'
        '<xs:import namespace="urn:t0" schemaLocation="f0.xsd"/>'
        '<xs:complexType name="B"><xs:sequence><xs:element name="a" type="n0:A" minOccurs="0"/></xs:sequence></xs:complexType>'
        "</xs:schema>"
    ),
}


def finding_uri_order():
    o = {"structure_style": "single-package", "package": "gen"}
    a = S.generate_full("api", URI_ORDER_SCHEMAS, o, None)
    b = S.generate_full("api", URI_ORDER_SCHEMAS, o, None, "reversed")
    if "files" not in a or "files" not in b:
        return False, f"generation failed: {a.get('err')} {b.get('err')}"
    return a["digest"] != b["digest"], "process([f0, f1]) vs process([f1, f0]): " + first_diff(a["files"], b["files"])


OVERRIDE_ORDER_SCHEMAS = {
    "f0.xsd": (
        f'<xs:schema xmlns:xs="{XS}" xmlns:n1="urn:t1" targetNamespace="urn:t0" elementFormDefault="qualified">'
        '<xs:import namespace="urn:t1" schemaLocation="f1.xsd"/>'
        '<xs:complexType name="D1"><xs:complexContent><xs:extension base="n1:B"><xs:sequence>'
        '<xs:element name="e" type="xs:int" minOccurs="0"/></xs:sequence></xs:extension></xs:complexContent></xs:complexType>'
        "</xs:schema>"
    ),
    "f1.xsd": (
        f'<xs:schema xmlns:xs="{XS}" targetNamespace="urn:t1" elementFormDefault="qualified">'
        '<xs:complexType name="B"><xs:sequence><xs:element name="e" type="xs:string" minOccurs="0"/></xs:sequence></xs:complexType>'
        "</xs:schema>"
    ),
    "f2.xsd": (
        f'<xs:schema xmlns:xs="{XS}" xmlns:n1="urn:t1" targetNamespace="urn:t1" elementFormDefault="qualified">'
        '<xs:include schemaLocation="f1.xsd"/>'
        '<xs:complexType name="D2"><xs:complexContent><xs:extension base="n1:B"><xs:sequence>'
        '<xs:element name="e" type="xs:date" minOccurs="0"/></xs:sequence></xs:extension></xs:complexContent></xs:complexType>'
        "</xs:schema>"
    ),
}


def finding_override_order():
    """B{e}, D1 extends B {e} (another namespace: ValidateAttributesOverrides renames B.e to t1_e),
    D2 extends B {e} (same namespace: an override of B.e, removed -- unless B.e was renamed before)."""
    import c12_explain as X

    o = {"structure_style": "single-package", "package": "gen"}
    a = S.generate_full("api", OVERRIDE_ORDER_SCHEMAS, o, None)
    b = S.generate_full("api", OVERRIDE_ORDER_SCHEMAS, o, None, "reversed")
    if "files" not in a or "files" not in b:
        return False, f"generation failed: {a.get('err')} {b.get('err')}"
    fid, why = X.uri_order_explains(a["files"], b["files"], OVERRIDE_ORDER_SCHEMAS, o)
    has = ["    e: None | XmlDate" in r["files"].get("gen.py", "") for r in (a, b)]
    return has == [True, False] and fid == "C12-F7", f"field D2.e present for [f0, f1, f2]: {has[0]}, for [f2, f1, f0]: {has[1]} ({why})"


def finding_uri_order_explained():
    still, detail = finding_uri_order()
    if not still:
        return still, detail
    import c12_explain as X

    o = {"structure_style": "single-package", "package": "gen"}
    a = S.generate_full("api", URI_ORDER_SCHEMAS, o, None)
    b = S.generate_full("api", URI_ORDER_SCHEMAS, o, None, "reversed")
    fid, why = X.uri_order_explains(a["files"], b["files"], URI_ORDER_SCHEMAS, o)
    return fid == "C12-F6", detail + f" ({why})"


FINDINGS = {
    "C12-F3": finding_header_timestamp,
    "C12-F6": finding_uri_order_explained,
    "C12-F7": finding_override_order,  # replayed once known_findings.json lists it
}
