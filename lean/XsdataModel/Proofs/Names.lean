/- C07 — helper lemmas about characters, split_words, alnum and the naming cases. -/
import XsdataModel.Names.RenameClasses

namespace Proofs.Names
open Py Xs.Text Xs.Filters

/-! ### characters -/

theorem ascii_cases (P : Char → Prop) (c : Char) (hc : c.toNat < 128)
    (h : ∀ n, n < 128 → P (Char.ofNat n)) : P c := by
  have := h c.toNat hc; simpa using this

theorem lowerA_of_ge (c : Char) (h : ¬ c.toNat < 128) : lowerA c = c := by
  unfold lowerA isAsciiUpper
  have : ¬ (c.toNat ≤ 90) := by omega
  simp [this]

theorem upperA_of_ge (c : Char) (h : ¬ c.toNat < 128) : upperA c = c := by
  unfold upperA isAsciiLower
  have : ¬ (c.toNat ≤ 122) := by omega
  simp [this]

theorem isAsciiAlpha_lowerA (c : Char) : isAsciiAlpha (lowerA c) = isAsciiAlpha c := by
  by_cases hc : c.toNat < 128
  · exact ascii_cases (fun c => isAsciiAlpha (lowerA c) = isAsciiAlpha c) c hc (by decide +kernel)
  · rw [lowerA_of_ge c hc]

theorem isAsciiAlpha_upperA (c : Char) : isAsciiAlpha (upperA c) = isAsciiAlpha c := by
  by_cases hc : c.toNat < 128
  · exact ascii_cases (fun c => isAsciiAlpha (upperA c) = isAsciiAlpha c) c hc (by decide +kernel)
  · rw [upperA_of_ge c hc]

theorem isAsciiAlnum_lowerA (c : Char) : isAsciiAlnum (lowerA c) = isAsciiAlnum c := by
  by_cases hc : c.toNat < 128
  · exact ascii_cases (fun c => isAsciiAlnum (lowerA c) = isAsciiAlnum c) c hc (by decide +kernel)
  · rw [lowerA_of_ge c hc]

theorem isAsciiAlnum_upperA (c : Char) : isAsciiAlnum (upperA c) = isAsciiAlnum c := by
  by_cases hc : c.toNat < 128
  · exact ascii_cases (fun c => isAsciiAlnum (upperA c) = isAsciiAlnum c) c hc (by decide +kernel)
  · rw [upperA_of_ge c hc]

theorem lowerA_upperA (c : Char) : lowerA (upperA c) = lowerA c := by
  by_cases hc : c.toNat < 128
  · exact ascii_cases (fun c => lowerA (upperA c) = lowerA c) c hc (by decide +kernel)
  · rw [upperA_of_ge c hc]

theorem lowerA_lowerA (c : Char) : lowerA (lowerA c) = lowerA c := by
  by_cases hc : c.toNat < 128
  · exact ascii_cases (fun c => lowerA (lowerA c) = lowerA c) c hc (by decide +kernel)
  · rw [lowerA_of_ge c hc, lowerA_of_ge c hc]

theorem upperA_underscore : upperA '_' = '_' := by decide
theorem lowerA_underscore : lowerA '_' = '_' := by decide
theorem underscore_not_alnum : isAsciiAlnum '_' = false := by decide

theorem lowerA_of_lower (c : Char) (h : isAsciiLower c = true) : lowerA c = c := by
  unfold lowerA isAsciiUpper
  unfold isAsciiLower at h
  simp at h
  have : ¬ (c.toNat ≤ 90) := by omega
  simp [this]

theorem alpha_of_lower (c : Char) (h : isAsciiLower c = true) : isAsciiAlpha c = true := by
  simp [isAsciiAlpha, h]

theorem alnum_of_alpha (c : Char) (h : isAsciiAlpha c = true) : isAsciiAlnum c = true := by
  simp [isAsciiAlnum, h]

theorem ascii_of_alnum (c : Char) (h : isAsciiAlnum c = true) : isAscii c = true := by
  unfold isAsciiAlnum isAsciiAlpha isAsciiUpper isAsciiLower isAsciiDigit at h
  unfold isAscii
  simp at h ⊢
  omega

theorem classify_other_iff (c : Char) : classify c = .other ↔ isAsciiAlnum c = false := by
  unfold classify isAsciiAlnum isAsciiAlpha isAsciiUpper isAsciiLower isAsciiDigit
  simp only []
  split
  · rename_i h; simp at h; simp; omega
  · split
    · rename_i h1 h; simp at h h1; simp; omega
    · split
      · rename_i h2 h1 h; simp at h h1 h2; simp; omega
      · rename_i h2 h1 h; simp at h h1 h2; simp; omega

theorem classify_lower (c : Char) (h : isAsciiLower c = true) : classify c = .lower := by
  unfold classify
  unfold isAsciiLower at h
  simp at h
  have h1 : ¬ (c.toNat < 91) := by omega
  have h2 : 96 < c.toNat := by omega
  have h3 : c.toNat < 123 := by omega
  simp [h1, h2, h3]

/-! ### split_words -/

theorem flushW_flatten (buf : Str) : (flushW buf).flatten = buf := by
  unfold flushW
  cases buf <;> simp

theorem swGo_flatten : ∀ (cs buf : Str) (prev : Option CharType),
    (swGo buf prev cs).flatten = buf ++ cs.filter isAsciiAlnum := by
  intro cs
  induction cs with
  | nil => intro buf prev; simp [swGo, flushW_flatten]
  | cons c cs ih =>
    intro buf prev
    rw [swGo]
    by_cases h1 : classify c = .other
    · have hc : isAsciiAlnum c = false := (classify_other_iff c).1 h1
      simp [h1, ih, flushW_flatten, hc]
    · have hc : isAsciiAlnum c = true := by
        cases h : isAsciiAlnum c
        · exact absurd ((classify_other_iff c).2 h) h1
        · rfl
      simp only [h1, if_false]
      split
      · simp [ih, hc]
      · split
        · simp [ih, hc, flushW_flatten]
        · simp [ih, hc]

theorem splitWords_flatten (v : Str) : (splitWords v).flatten = v.filter isAsciiAlnum := by
  simp [splitWords, swGo_flatten]

/-- every word is a non-empty run of ASCII letters and digits -/
def WordsOk (ws : List Str) : Prop := ∀ w ∈ ws, w ≠ [] ∧ ∀ x ∈ w, isAsciiAlnum x = true

theorem flushW_ok (buf : Str) (h : ∀ x ∈ buf, isAsciiAlnum x = true) : WordsOk (flushW buf) := by
  unfold flushW WordsOk
  cases buf with
  | nil => simp
  | cons a b => simp; exact ⟨h a (by simp), fun x hx => h x (by simp [hx])⟩

theorem WordsOk.append {a b : List Str} (ha : WordsOk a) (hb : WordsOk b) : WordsOk (a ++ b) := by
  intro w hw
  rcases List.mem_append.1 hw with h | h
  · exact ha w h
  · exact hb w h

theorem swGo_ok : ∀ (cs buf : Str) (prev : Option CharType),
    (∀ x ∈ buf, isAsciiAlnum x = true) → WordsOk (swGo buf prev cs) := by
  intro cs
  induction cs with
  | nil => intro buf prev hb; simpa [swGo] using flushW_ok buf hb
  | cons c cs ih =>
    intro buf prev hb
    rw [swGo]
    by_cases h1 : classify c = .other
    · simp only [h1, if_true]
      exact (flushW_ok buf hb).append (ih [] _ (by simp))
    · have hc : isAsciiAlnum c = true := by
        cases h : isAsciiAlnum c
        · exact absurd ((classify_other_iff c).2 h) h1
        · rfl
      have hbc : ∀ x ∈ buf ++ [c], isAsciiAlnum x = true := by
        intro x hx
        rcases List.mem_append.1 hx with h | h
        · exact hb x h
        · simp at h; simpa [h] using hc
      simp only [h1, if_false]
      split
      · exact ih _ _ hbc
      · split
        · exact (flushW_ok buf hb).append (ih [c] _ (by simpa using hc))
        · exact ih _ _ hbc

theorem splitWords_ok (v : Str) : WordsOk (splitWords v) := swGo_ok v [] none (by simp)

theorem swGo_append_other (c : Char) (hc : classify c = .other) (b : Str) :
    ∀ (a buf : Str) (prev : Option CharType),
      swGo buf prev (a ++ c :: b) = swGo buf prev a ++ swGo [] (some .other) b := by
  intro a
  induction a with
  | nil => intro buf prev; simp [swGo, hc]
  | cons x a ih =>
    intro buf prev
    simp only [List.cons_append]
    rw [swGo, swGo]
    split
    · simp [ih]
    · split
      · exact ih _ _
      · split
        · simp [ih]
        · exact ih _ _

theorem swGo_other_none (b : Str) : swGo [] (some .other) b = swGo [] none b := by
  cases b with
  | nil => simp [swGo]
  | cons x b =>
    rw [swGo, swGo]
    by_cases h1 : classify x = .other
    · simp [h1]
    · simp only [h1, if_false]
      have h2 : ¬ (CharType.other = classify x) := fun h => h1 h.symm
      simp [h2, flushW]

theorem splitWords_append_sep (a b : Str) (c : Char) (hc : classify c = .other) :
    splitWords (a ++ c :: b) = splitWords a ++ splitWords b := by
  unfold splitWords
  rw [swGo_append_other c hc b a [] none, swGo_other_none]

theorem swGo_lower : ∀ (p buf : Str) (prev : Option CharType),
    (∀ x ∈ p, isAsciiLower x = true) → (prev = none ∨ prev = some .lower) →
    swGo buf prev p = flushW (buf ++ p) := by
  intro p
  induction p with
  | nil => intro buf prev _ _; simp [swGo]
  | cons x p ih =>
    intro buf prev hp hprev
    have hx : classify x = .lower := classify_lower x (hp x (by simp))
    rw [swGo]
    simp only [hx]
    have : (prev = none || prev = some CharType.lower) = true := by
      rcases hprev with h | h <;> simp [h]
    simp [this]
    rw [ih _ _ (fun y hy => hp y (by simp [hy])) (Or.inr rfl)]
    simp

theorem splitWords_lower (p : Str) (hne : p ≠ []) (hp : ∀ x ∈ p, isAsciiLower x = true) :
    splitWords p = [p] := by
  unfold splitWords
  rw [swGo_lower p [] none hp (Or.inl rfl)]
  cases p with
  | nil => exact absurd rfl hne
  | cons a b => simp [flushW]

/-! ### alnum -/

theorem alnum_nil : alnum [] = [] := rfl

theorem alnum_cons (c : Char) (cs : Str) :
    alnum (c :: cs) = if isAsciiAlnum c then lowerA c :: alnum cs else alnum cs := by
  unfold alnum
  by_cases h : isAsciiAlnum c = true <;> simp [h]

theorem alnum_append (a b : Str) : alnum (a ++ b) = alnum a ++ alnum b := by
  simp [alnum]

theorem alnum_flatten (l : List Str) : alnum l.flatten = (l.map alnum).flatten := by
  induction l with
  | nil => rfl
  | cons a l ih => simp [alnum_append, ih]

theorem alnum_filter (v : Str) : alnum (v.filter isAsciiAlnum) = alnum v := by
  simp [alnum]

theorem alnum_words (v : Str) : alnum (splitWords v).flatten = alnum v := by
  rw [splitWords_flatten, alnum_filter]

theorem alnum_map_lowerA (w : Str) : alnum (w.map lowerA) = alnum w := by
  induction w with
  | nil => rfl
  | cons c w ih => simp [alnum_cons, isAsciiAlnum_lowerA, lowerA_lowerA, ih]

theorem alnum_map_upperA (w : Str) : alnum (w.map upperA) = alnum w := by
  induction w with
  | nil => rfl
  | cons c w ih => simp [alnum_cons, isAsciiAlnum_upperA, lowerA_upperA, ih]

theorem alnum_titleGo (b : Bool) (w : Str) : alnum (titleGo b w) = alnum w := by
  induction w generalizing b with
  | nil => rfl
  | cons c w ih =>
    unfold titleGo
    split
    · split <;> simp [alnum_cons, isAsciiAlnum_lowerA, isAsciiAlnum_upperA, lowerA_lowerA, lowerA_upperA, ih]
    · simp [alnum_cons, ih]

theorem alnum_titleA (w : Str) : alnum (titleA w) = alnum w := alnum_titleGo false w

theorem alnum_join_us (ws : List Str) : alnum (join ['_'] ws) = (ws.map alnum).flatten := by
  induction ws with
  | nil => rfl
  | cons a ws ih =>
    cases ws with
    | nil => simp [join]
    | cons b ws =>
      rw [join, alnum_append, alnum_append, ih]
      simp [alnum_cons, underscore_not_alnum, alnum_nil]

theorem alnum_of_ok (w : Str) (h : ∀ x ∈ w, isAsciiAlnum x = true) : alnum w = w.map lowerA := by
  induction w with
  | nil => rfl
  | cons c w ih =>
    rw [alnum_cons, h c (by simp), ih (fun x hx => h x (by simp [hx]))]
    simp

/-- **the slug is invariant under every word-splitting case**: this is why
de-duplicating on `alnum` is enough whatever naming convention is configured. -/
theorem alnum_applyCase (u : UEnv) (c : NameCase) (hc : c ≠ .original) (v r : Str)
    (h : applyCase u c v = some r) : alnum r = alnum v := by
  have hmap : ∀ (f : Str → Str), (∀ w, alnum (f w) = alnum w) →
      alnum ((splitWords v).map f).flatten = alnum v := by
    intro f hf
    rw [alnum_flatten, List.map_map]
    have : (alnum ∘ f) = alnum := funext hf
    rw [this, ← alnum_flatten, alnum_words]
  cases c with
  | original => exact absurd rfl hc
  | pascal =>
    simp only [applyCase, Option.some.injEq] at h
    subst h
    exact hmap titleA alnum_titleA
  | camel =>
    simp only [applyCase, camelCase] at h
    split at h
    · cases h
    · rename_i c cs hp
      cases h
      have : alnum (pascalCase v) = alnum v := hmap titleA alnum_titleA
      rw [hp] at this
      rw [← this]
      simp [alnum_cons, isAsciiAlnum_lowerA, lowerA_lowerA]
  | snake =>
    simp only [applyCase, Option.some.injEq] at h
    subst h
    unfold snakeCase
    rw [alnum_join_us, ← alnum_flatten]
    exact hmap (·.map lowerA) alnum_map_lowerA
  | screamingSnake =>
    simp only [applyCase, Option.some.injEq] at h
    subst h
    unfold screamingSnakeCase snakeCase
    rw [alnum_map_upperA, alnum_join_us, ← alnum_flatten]
    exact hmap (·.map lowerA) alnum_map_lowerA
  | mixed =>
    simp only [applyCase, Option.some.injEq] at h
    subst h
    exact alnum_words v
  | mixedSnake =>
    simp only [applyCase, Option.some.injEq] at h
    subst h
    unfold mixedSnakeCase
    rw [alnum_join_us, ← alnum_flatten, alnum_words]
  | mixedPascal =>
    simp only [applyCase, mixedPascalCase, capitalizeA] at h
    split at h
    · cases h
    · rename_i c cs hp
      cases h
      have : alnum (mixedCase v) = alnum v := alnum_words v
      rw [hp] at this
      rw [← this]
      simp [alnum_cons, isAsciiAlnum_upperA, lowerA_upperA]

/-! ### identifier shape -/

def okChars (s : Str) : Bool := s.all (fun c => isAsciiAlnum c || c == '_')

def headAlpha : Str → Bool
  | c :: _ => isAsciiAlpha c
  | [] => false

theorem headAlpha_append (a b : Str) (h : headAlpha a = true) : headAlpha (a ++ b) = true := by
  cases a with
  | nil => simp [headAlpha] at h
  | cons c a => simpa [headAlpha] using h

theorem ne_nil_of_headAlpha (a : Str) (h : headAlpha a = true) : a ≠ [] := by
  cases a with
  | nil => simp [headAlpha] at h
  | cons c a => simp

theorem isIdentifier_of_shape (u : UEnv) (s : Str) (h1 : headAlpha s = true) (h2 : okChars s = true) :
    u.isIdentifier s = true := by
  cases s with
  | nil => simp [headAlpha] at h1
  | cons c cs =>
    simp only [headAlpha] at h1
    simp only [okChars, List.all_cons, Bool.and_eq_true] at h2
    simp only [UEnv.isIdentifier, Bool.and_eq_true]
    constructor
    · simp [UEnv.isXidStart, ascii_of_alnum c (alnum_of_alpha c h1), h1]
    · rw [List.all_eq_true]
      intro x hx
      have := (List.all_eq_true.1 h2.2) x hx
      have hx' : isAsciiAlnum x = true ∨ x = '_' := by simpa using this
      rcases hx' with h | h
      · simp [UEnv.isXidContinue, ascii_of_alnum x h, h]
      · subst h; simp [UEnv.isXidContinue, isAscii]

def headAlphaOrUnderscore : Str → Bool
  | c :: _ => isAsciiAlpha c || c == '_'
  | [] => false

theorem isIdentifier_of_shape' (u : UEnv) (s : Str) (h1 : headAlphaOrUnderscore s = true)
    (h2 : okChars s = true) : u.isIdentifier s = true := by
  cases s with
  | nil => simp [headAlphaOrUnderscore] at h1
  | cons c cs =>
    simp only [headAlphaOrUnderscore, Bool.or_eq_true, beq_iff_eq] at h1
    simp only [okChars, List.all_cons, Bool.and_eq_true] at h2
    simp only [UEnv.isIdentifier, Bool.and_eq_true]
    constructor
    · rcases h1 with h1 | rfl
      · simp [UEnv.isXidStart, ascii_of_alnum c (alnum_of_alpha c h1), h1]
      · simp [UEnv.isXidStart, isAscii]
    · rw [List.all_eq_true]
      intro x hx
      have := (List.all_eq_true.1 h2.2) x hx
      have hx' : isAsciiAlnum x = true ∨ x = '_' := by simpa using this
      rcases hx' with h | h
      · simp [UEnv.isXidContinue, ascii_of_alnum x h, h]
      · subst h; simp [UEnv.isXidContinue, isAscii]

theorem okChars_append (a b : Str) : okChars (a ++ b) = (okChars a && okChars b) := by
  simp [okChars]

theorem okChars_of_alnum (w : Str) (h : ∀ x ∈ w, isAsciiAlnum x = true) : okChars w = true := by
  simp only [okChars, List.all_eq_true]
  intro x hx
  simp [h x hx]

theorem okChars_flatten (ws : List Str) (h : ∀ w ∈ ws, okChars w = true) : okChars ws.flatten = true := by
  induction ws with
  | nil => rfl
  | cons a ws ih =>
    simp only [List.flatten_cons, okChars_append, Bool.and_eq_true]
    exact ⟨h a (by simp), ih (fun w hw => h w (by simp [hw]))⟩

theorem okChars_join (ws : List Str) (h : ∀ w ∈ ws, okChars w = true) : okChars (join ['_'] ws) = true := by
  induction ws with
  | nil => rfl
  | cons a ws ih =>
    cases ws with
    | nil => simpa [join] using h a (by simp)
    | cons b ws =>
      rw [join, okChars_append, okChars_append, ih (fun w hw => h w (by simp [hw])), h a (by simp)]
      rfl

theorem okChar_upperA (c : Char) :
    (isAsciiAlnum (upperA c) || upperA c == '_') = (isAsciiAlnum c || c == '_') := by
  by_cases hc : c.toNat < 128
  · exact ascii_cases (fun c => (isAsciiAlnum (upperA c) || upperA c == '_') = (isAsciiAlnum c || c == '_'))
      c hc (by decide +kernel)
  · rw [upperA_of_ge c hc]

theorem okChar_lowerA (c : Char) :
    (isAsciiAlnum (lowerA c) || lowerA c == '_') = (isAsciiAlnum c || c == '_') := by
  by_cases hc : c.toNat < 128
  · exact ascii_cases (fun c => (isAsciiAlnum (lowerA c) || lowerA c == '_') = (isAsciiAlnum c || c == '_'))
      c hc (by decide +kernel)
  · rw [lowerA_of_ge c hc]

theorem okChars_map_upperA (w : Str) : okChars (w.map upperA) = okChars w := by
  induction w with
  | nil => rfl
  | cons c w ih =>
    simp only [okChars, List.map_cons, List.all_cons] at ih ⊢
    rw [okChar_upperA, ih]

theorem okChars_map_lowerA (w : Str) : okChars (w.map lowerA) = okChars w := by
  induction w with
  | nil => rfl
  | cons c w ih =>
    simp only [okChars, List.map_cons, List.all_cons] at ih ⊢
    rw [okChar_lowerA, ih]

theorem okChars_titleGo (b : Bool) (w : Str) : okChars (titleGo b w) = okChars w := by
  induction w generalizing b with
  | nil => rfl
  | cons c w ih =>
    unfold titleGo
    split
    · split
      · simp only [okChars, List.all_cons] at ih ⊢; rw [okChar_lowerA, ih]
      · simp only [okChars, List.all_cons] at ih ⊢; rw [okChar_upperA, ih]
    · simp only [okChars, List.all_cons] at ih ⊢; rw [ih]

theorem WordsOk.okChars {ws : List Str} (h : WordsOk ws) : ∀ w ∈ ws, okChars w = true :=
  fun w hw => okChars_of_alnum w (h w hw).2

/-- the first word starts with a letter when the slug does -/
theorem words_head (v : Str) (h : headAlpha (alnum v) = true) :
    ∃ x w1 rest, splitWords v = (x :: w1) :: rest ∧ isAsciiAlpha x = true := by
  have hok := splitWords_ok v
  have hfl : alnum v = ((splitWords v).flatten).map lowerA := by
    rw [← alnum_words v]
    apply alnum_of_ok
    intro x hx
    rcases List.mem_flatten.1 hx with ⟨w, hw, hxw⟩
    exact (hok w hw).2 x hxw
  cases hws : splitWords v with
  | nil => rw [hfl, hws] at h; simp [headAlpha] at h
  | cons w rest =>
    have hw := hok w (by simp [hws])
    cases w with
    | nil => exact absurd rfl hw.1
    | cons x w1 =>
      refine ⟨x, w1, rest, rfl, ?_⟩
      rw [hfl, hws] at h
      simpa [headAlpha, isAsciiAlpha_lowerA] using h

theorem join_cons_head (sep : Str) (x : Char) (w : Str) (rest : List Str) :
    ∃ t, join sep ((x :: w) :: rest) = x :: t := by
  cases rest with
  | nil => exact ⟨w, rfl⟩
  | cons b rest => exact ⟨w ++ sep ++ join sep (b :: rest), by simp [join]⟩

theorem titleA_cons_alpha (x : Char) (w : Str) (hx : isAsciiAlpha x = true) :
    titleA (x :: w) = upperA x :: titleGo true w := by
  simp [titleA, titleGo, hx]

/-- shape of the result of every word-splitting case on a name whose slug starts with a letter -/
theorem applyCase_shape (u : UEnv) (c : NameCase) (hc : c ≠ .original) (v : Str)
    (h : headAlpha (alnum v) = true) :
    ∃ r, applyCase u c v = some r ∧ headAlpha r = true ∧ okChars r = true := by
  obtain ⟨x, w1, rest, hws, hx⟩ := words_head v h
  have hok := splitWords_ok v
  have hokc := hok.okChars
  have hT : ∀ w ∈ (splitWords v).map titleA, okChars w = true := by
    intro w hw
    rcases List.mem_map.1 hw with ⟨w0, hw0, rfl⟩
    simpa [titleA, okChars_titleGo] using hokc w0 hw0
  have hL : ∀ w ∈ (splitWords v).map (·.map lowerA), okChars w = true := by
    intro w hw
    rcases List.mem_map.1 hw with ⟨w0, hw0, rfl⟩
    simpa [okChars_map_lowerA] using hokc w0 hw0
  have hpas : pascalCase v = upperA x :: (titleGo true w1 ++ (rest.map titleA).flatten) := by
    simp [pascalCase, hws, titleA_cons_alpha x w1 hx]
  have hpasok : okChars (pascalCase v) = true := okChars_flatten _ hT
  have hmix : mixedCase v = x :: (w1 ++ rest.flatten) := by simp [mixedCase, hws]
  have hmixok : okChars (mixedCase v) = true := okChars_flatten _ hokc
  cases c with
  | original => exact absurd rfl hc
  | pascal =>
    refine ⟨_, rfl, ?_, hpasok⟩
    rw [hpas]; simpa [headAlpha, isAsciiAlpha_upperA] using hx
  | camel =>
    refine ⟨lowerA (upperA x) :: (titleGo true w1 ++ (rest.map titleA).flatten), ?_, ?_, ?_⟩
    · simp [applyCase, camelCase, hpas]
    · simpa [headAlpha, isAsciiAlpha_lowerA, isAsciiAlpha_upperA] using hx
    · rw [hpas] at hpasok
      simp only [okChars, List.all_cons] at hpasok ⊢
      rw [okChar_lowerA]; exact hpasok
  | snake =>
    refine ⟨_, rfl, ?_, okChars_join _ hL⟩
    obtain ⟨t, ht⟩ := join_cons_head ['_'] (lowerA x) (w1.map lowerA) (rest.map (·.map lowerA))
    have : snakeCase v = lowerA x :: t := by simpa [snakeCase, hws] using ht
    rw [this]; simpa [headAlpha, isAsciiAlpha_lowerA] using hx
  | screamingSnake =>
    refine ⟨_, rfl, ?_, ?_⟩
    · obtain ⟨t, ht⟩ := join_cons_head ['_'] (lowerA x) (w1.map lowerA) (rest.map (·.map lowerA))
      have : snakeCase v = lowerA x :: t := by simpa [snakeCase, hws] using ht
      simp only [screamingSnakeCase, this, List.map_cons, headAlpha]
      simpa [isAsciiAlpha_lowerA, isAsciiAlpha_upperA] using hx
    · simp only [screamingSnakeCase, okChars_map_upperA]
      exact okChars_join _ hL
  | mixed =>
    refine ⟨_, rfl, ?_, hmixok⟩
    rw [hmix]; simpa [headAlpha] using hx
  | mixedSnake =>
    refine ⟨_, rfl, ?_, okChars_join _ hokc⟩
    obtain ⟨t, ht⟩ := join_cons_head ['_'] x w1 rest
    have : mixedSnakeCase v = x :: t := by simpa [mixedSnakeCase, hws] using ht
    rw [this]; simpa [headAlpha] using hx
  | mixedPascal =>
    refine ⟨upperA x :: (w1 ++ rest.flatten), ?_, ?_, ?_⟩
    · simp [applyCase, mixedPascalCase, capitalizeA, hmix]
    · simpa [headAlpha, isAsciiAlpha_upperA] using hx
    · rw [hmix] at hmixok
      simp only [okChars, List.all_cons] at hmixok ⊢
      rw [okChar_upperA]; exact hmixok

/-- the cases that always start with a capital / with a lower-case letter -/
def startsUpper : NameCase → Bool
  | .pascal | .mixedPascal | .screamingSnake => true
  | _ => false

def startsLower : NameCase → Bool
  | .snake | .camel => true
  | _ => false

def headUpper : Str → Bool
  | c :: _ => isAsciiUpper c
  | [] => false

def headLower : Str → Bool
  | c :: _ => isAsciiLower c
  | [] => false

theorem upper_of_alpha_upperA (x : Char) (h : isAsciiAlpha x = true) : isAsciiUpper (upperA x) = true := by
  revert h
  by_cases hc : x.toNat < 128
  · exact ascii_cases (fun x => isAsciiAlpha x = true → isAsciiUpper (upperA x) = true) x hc (by decide +kernel)
  · intro h
    have := ascii_of_alnum x (alnum_of_alpha x h)
    simp [isAscii] at this
    exact absurd this hc

theorem lower_of_alpha_lowerA (x : Char) (h : isAsciiAlpha x = true) : isAsciiLower (lowerA x) = true := by
  revert h
  by_cases hc : x.toNat < 128
  · exact ascii_cases (fun x => isAsciiAlpha x = true → isAsciiLower (lowerA x) = true) x hc (by decide +kernel)
  · intro h
    have := ascii_of_alnum x (alnum_of_alpha x h)
    simp [isAscii] at this
    exact absurd this hc

/-- first character of the result, by case -/
theorem applyCase_head (u : UEnv) (c : NameCase) (v r : Str) (h : headAlpha (alnum v) = true)
    (hr : applyCase u c v = some r) :
    (startsUpper c = true → headUpper r = true) ∧ (startsLower c = true → headLower r = true) := by
  obtain ⟨x, w1, rest, hws, hx⟩ := words_head v h
  have hpas : pascalCase v = upperA x :: (titleGo true w1 ++ (rest.map titleA).flatten) := by
    simp [pascalCase, hws, titleA_cons_alpha x w1 hx]
  have hmix : mixedCase v = x :: (w1 ++ rest.flatten) := by simp [mixedCase, hws]
  have hsn : ∃ t, snakeCase v = lowerA x :: t := by
    obtain ⟨t, ht⟩ := join_cons_head ['_'] (lowerA x) (w1.map lowerA) (rest.map (·.map lowerA))
    exact ⟨t, by simpa [snakeCase, hws] using ht⟩
  cases c with
  | pascal =>
    simp only [applyCase, Option.some.injEq] at hr
    subst hr
    refine ⟨fun _ => ?_, fun h0 => by simp [startsLower] at h0⟩
    rw [hpas]; exact upper_of_alpha_upperA x hx
  | mixedPascal =>
    simp only [applyCase, mixedPascalCase, capitalizeA, hmix, Option.some.injEq] at hr
    subst hr
    exact ⟨fun _ => upper_of_alpha_upperA x hx, fun h0 => by simp [startsLower] at h0⟩
  | screamingSnake =>
    obtain ⟨t, ht⟩ := hsn
    simp only [applyCase, screamingSnakeCase, ht, List.map_cons, Option.some.injEq] at hr
    subst hr
    refine ⟨fun _ => ?_, fun h0 => by simp [startsLower] at h0⟩
    exact upper_of_alpha_upperA _ (by rw [isAsciiAlpha_lowerA]; exact hx)
  | snake =>
    obtain ⟨t, ht⟩ := hsn
    simp only [applyCase, ht, Option.some.injEq] at hr
    subst hr
    exact ⟨fun h0 => by simp [startsUpper] at h0, fun _ => lower_of_alpha_lowerA x hx⟩
  | camel =>
    simp only [applyCase, camelCase, hpas, Option.some.injEq] at hr
    subst hr
    refine ⟨fun h0 => by simp [startsUpper] at h0, fun _ => ?_⟩
    exact lower_of_alpha_lowerA _ (by rw [isAsciiAlpha_upperA]; exact hx)
  | original => exact ⟨fun h0 => by simp [startsUpper] at h0, fun h0 => by simp [startsLower] at h0⟩
  | mixed => exact ⟨fun h0 => by simp [startsUpper] at h0, fun h0 => by simp [startsLower] at h0⟩
  | mixedSnake => exact ⟨fun h0 => by simp [startsUpper] at h0, fun h0 => by simp [startsLower] at h0⟩

theorem upper_lower_disjoint (c : Char) (h1 : isAsciiUpper c = true) (h2 : isAsciiLower c = true) : False := by
  unfold isAsciiUpper at h1
  unfold isAsciiLower at h2
  simp at h1 h2
  omega

/-! ### what a second pass through `safe_name` appends -/

/-- the text the case function appends when `"_" + prefix` is appended to a name -/
def caseSuffix : NameCase → Str → Str
  | .original, p => '_' :: p
  | .pascal, p => titleA p
  | .camel, p => titleA p
  | .snake, p => '_' :: p.map lowerA
  | .screamingSnake, p => ('_' :: p.map lowerA).map upperA
  | .mixed, p => p
  | .mixedSnake, p => '_' :: p
  | .mixedPascal, p => p

def isProperSuffix (s w : Str) : Bool := s.isSuffixOf w && decide (s.length < w.length)

/-- a safe prefix the termination argument works for: a non-empty word of ASCII
lower-case letters such that no reserved word ends (properly) in what the case
function makes of it. Decidable; holds for the five defaults. -/
def goodPrefix (cv : Conv) : Bool :=
  !cv.pfx.isEmpty && cv.pfx.all isAsciiLower &&
  Tables.stopWords.all (fun w => !isProperSuffix (caseSuffix cv.case cv.pfx) w)

theorem not_reserved_of_suffix (Y sfx : Str) (hY : Y ≠ [])
    (h : Tables.stopWords.all (fun w => !isProperSuffix sfx w) = true) :
    isReserved (Y ++ sfx) = false := by
  cases hr : isReserved (Y ++ sfx)
  · rfl
  · exfalso
    unfold isReserved at hr
    have hmem : (Y ++ sfx) ∈ Tables.stopWords := by simpa using hr
    have := (List.all_eq_true.1 h) _ hmem
    have hlen : 0 < Y.length := List.length_pos_iff.2 hY
    simp [isProperSuffix, hlen] at this
    have hs : List.isSuffixOf sfx (Y ++ sfx) = true :=
      List.isSuffixOf_iff_suffix.2 (List.suffix_append Y sfx)
    rw [hs] at this
    cases this

theorem join_append_singleton (sep : Str) (ws : List Str) (x : Str) (h : ws ≠ []) :
    join sep (ws ++ [x]) = join sep ws ++ sep ++ x := by
  induction ws with
  | nil => exact absurd rfl h
  | cons a ws ih =>
    cases ws with
    | nil => simp [join]
    | cons b ws =>
      have := ih (by simp)
      simp only [List.cons_append] at this ⊢
      rw [join, this, join]
      simp [List.append_assoc]

theorem classify_underscore : classify '_' = .other := by decide

theorem splitWords_suffixed (v p : Str) (hne : p ≠ []) (hp : ∀ x ∈ p, isAsciiLower x = true) :
    splitWords (v ++ '_' :: p) = splitWords v ++ [p] := by
  rw [splitWords_append_sep v p '_' classify_underscore, splitWords_lower p hne hp]

theorem isWord_of_lower (u : UEnv) (x : Char) (h : isAsciiLower x = true) : u.isWord x = true := by
  have ha := alnum_of_alpha x (alpha_of_lower x h)
  simp [UEnv.isWord, ascii_of_alnum x ha, ha]

theorem isXid_of_alnum (u : UEnv) (x : Char) (h : isAsciiAlnum x = true) : u.isXidContinue x = true := by
  simp [UEnv.isXidContinue, ascii_of_alnum x h, h]

theorem isWord_of_alnum (u : UEnv) (x : Char) (h : isAsciiAlnum x = true) : u.isWord x = true := by
  simp [UEnv.isWord, ascii_of_alnum x h, h]

theorem dropWhile_append_of_ne_nil {α} (f : α → Bool) (a b : List α) (h : a.dropWhile f ≠ []) :
    (a ++ b).dropWhile f = a.dropWhile f ++ b := by
  induction a with
  | nil => simp at h
  | cons x a ih =>
    simp only [List.cons_append, List.dropWhile_cons] at h ⊢
    split
    · rename_i hx; simp only [hx, if_true] at h; exact ih h
    · rfl

/-! ### collapsing leading underscores -/

theorem collapseLead_head (c : Char) (t : Str) : ∃ t', collapseLead (c :: t) = c :: t' := by
  unfold collapseLead
  cases t with
  | nil => exact ⟨[], rfl⟩
  | cons b rest =>
    simp only []
    split
    · rename_i h; exact ⟨_, by rw [h.1]⟩
    · exact ⟨_, rfl⟩

theorem collapseLead_ne_nil (s : Str) (h : s ≠ []) : collapseLead s ≠ [] := by
  cases s with
  | nil => exact absurd rfl h
  | cons c t => obtain ⟨t', ht⟩ := collapseLead_head c t; rw [ht]; simp

theorem mem_dropWhile_of_not {α} (f : α → Bool) (l : List α) (x : α) (hx : x ∈ l) (hf : f x = false) :
    x ∈ l.dropWhile f := by
  induction l with
  | nil => cases hx
  | cons a l ih =>
    rw [List.dropWhile_cons]
    by_cases ha : f a = true
    · simp only [ha, if_true]
      rcases List.mem_cons.1 hx with rfl | hx
      · rw [ha] at hf; cases hf
      · exact ih hx
    · simp only [ha]; exact hx

theorem mem_collapseLead_of_ne (s : Str) (x : Char) (hx : x ∈ s) (hne : x ≠ '_') : x ∈ collapseLead s := by
  unfold collapseLead
  match s, hx with
  | [], hx => cases hx
  | [a], hx => exact hx
  | a :: b :: rest, hx =>
    simp only []
    split
    · rename_i h
      rcases List.mem_cons.1 hx with rfl | hx
      · exact absurd h.1 hne
      · rcases List.mem_cons.1 hx with rfl | hx
        · exact absurd h.2 hne
        · exact List.mem_cons_of_mem _ (mem_dropWhile_of_not _ _ x hx (by simpa using hne))
    · exact hx

theorem collapseLead_subset (s : Str) (x : Char) (hx : x ∈ collapseLead s) : x ∈ s := by
  unfold collapseLead at hx
  match s, hx with
  | [], hx => exact hx
  | [a], hx => exact hx
  | a :: b :: rest, hx =>
    simp only [] at hx
    split at hx
    · rename_i h
      rcases List.mem_cons.1 hx with rfl | hx
      · rw [h.1]; simp
      · exact List.mem_cons_of_mem _ (List.mem_cons_of_mem _ ((List.dropWhile_sublist _).subset hx))
    · exact hx

theorem collapseLead_append (A B : Str) (hA : ∃ c ∈ A, c ≠ '_') :
    collapseLead (A ++ B) = collapseLead A ++ B := by
  obtain ⟨c, hc, hne⟩ := hA
  match A, hc with
  | [a], hc =>
    simp at hc; subst hc
    unfold collapseLead
    cases B with
    | nil => rfl
    | cons b B' =>
      simp only [List.cons_append, List.nil_append]
      have : ¬ (c = '_' ∧ b = '_') := fun h => hne h.1
      simp [this]
  | a :: b :: rest, hc =>
    unfold collapseLead
    simp only [List.cons_append]
    by_cases hab : a = '_' ∧ b = '_'
    · simp only [hab, and_self, if_true, List.cons_append, List.cons.injEq, true_and]
      have hcr : c ∈ rest := by
        rcases List.mem_cons.1 hc with rfl | hc
        · exact absurd hab.1 hne
        · rcases List.mem_cons.1 hc with rfl | hc
          · exact absurd hab.2 hne
          · exact hc
      have hdn : rest.dropWhile (· = '_') ≠ [] := by
        intro h0
        have := mem_dropWhile_of_not (· = '_') rest c hcr (by simpa using hne)
        rw [h0] at this; cases this
      exact dropWhile_append_of_ne_nil _ _ _ hdn
    · simp [hab]

theorem alnum_dropWhile_underscore (s : Str) : alnum (s.dropWhile (· = '_')) = alnum s := by
  induction s with
  | nil => rfl
  | cons a s ih =>
    rw [List.dropWhile_cons]
    by_cases ha : a = '_'
    · subst ha
      simp only [decide_true, if_true]
      rw [ih, alnum_cons, underscore_not_alnum]
      simp
    · simp [ha]

theorem alnum_collapseLead (s : Str) : alnum (collapseLead s) = alnum s := by
  unfold collapseLead
  match s with
  | [] => rfl
  | [a] => rfl
  | a :: b :: rest =>
    simp only []
    split
    · rename_i h
      rw [h.1, h.2]
      simp only [alnum_cons, underscore_not_alnum, Bool.false_eq_true, if_false]
      exact alnum_dropWhile_underscore rest
    · rfl

/-- the result never starts with two underscores -/
theorem collapseLead_not_dunder (s t : Str) : collapseLead s ≠ '_' :: '_' :: t := by
  unfold collapseLead
  match s with
  | [] => simp
  | [a] => simp
  | a :: b :: rest =>
    simp only []
    split
    · intro h
      simp only [List.cons.injEq, true_and] at h
      have hmem : '_' ∈ rest.dropWhile (· = '_') := by rw [h]; simp
      obtain ⟨y, t', hyt, hy⟩ : ∃ y t', rest.dropWhile (· = '_') = y :: t' ∧ decide (y = '_') = false := by
        cases hd : rest.dropWhile (· = '_') with
        | nil => rw [hd] at hmem; cases hmem
        | cons y t' =>
          refine ⟨y, t', rfl, ?_⟩
          have := List.head_dropWhile_not (· = '_') (l := rest) (by rw [hd]; simp)
          simpa [hd] using this
      rw [hyt] at h
      simp only [List.cons.injEq] at h
      rw [h.1] at hy
      simp at hy
    · rename_i hab
      intro h
      simp only [List.cons.injEq] at h
      exact hab ⟨h.1, h.2.1⟩

theorem applyCase_suffix (u : UEnv) (c : NameCase) (v p Y : Str) (hne : p ≠ [])
    (hp : ∀ x ∈ p, isAsciiLower x = true) (h : applyCase u c v = some Y) (hY : Y ≠ [])
    (hYl : ∃ c ∈ Y, c ≠ '_') :
    applyCase u c (v ++ '_' :: p) = some (Y ++ caseSuffix c p) := by
  have hsw := splitWords_suffixed v p hne hp
  cases c with
  | original =>
    simp only [applyCase, Option.some.injEq] at h ⊢
    subst h
    obtain ⟨c0, hc0, hne0⟩ := hYl
    have hcore : ∃ c ∈ originalCore u v, c ≠ '_' := ⟨c0, collapseLead_subset _ c0 hc0, hne0⟩
    have hcn : originalCore u v ≠ [] := by
      obtain ⟨c1, hc1, _⟩ := hcore
      intro h0; rw [h0] at hc1; cases hc1
    have hfp : List.filter u.isWord ('_' :: p) = '_' :: p := by
      rw [List.filter_eq_self]
      intro x hx
      rcases List.mem_cons.1 hx with rfl | hx
      · simp [UEnv.isWord, isAscii]
      · exact isWord_of_lower u x (hp x hx)
    have hfx : List.filter u.isXidContinue ('_' :: p) = '_' :: p := by
      rw [List.filter_eq_self]
      intro x hx
      rcases List.mem_cons.1 hx with rfl | hx
      · simp [UEnv.isXidContinue, isAscii]
      · exact isXid_of_alnum u x (alnum_of_alpha x (alpha_of_lower x (hp x hx)))
    have hcoreapp : originalCore u (v ++ '_' :: p) = originalCore u v ++ '_' :: p := by
      unfold originalCore at hcn ⊢
      rw [List.filter_append, hfp, List.filter_append, hfx, dropWhile_append_of_ne_nil _ _ _ hcn]
    unfold originalCase
    rw [hcoreapp, collapseLead_append _ _ hcore]
    rfl
  | pascal =>
    simp only [applyCase, Option.some.injEq] at h ⊢
    subst h
    simp [pascalCase, hsw, caseSuffix]
  | camel =>
    simp only [applyCase, camelCase] at h ⊢
    have hpas : pascalCase (v ++ '_' :: p) = pascalCase v ++ titleA p := by
      simp [pascalCase, hsw]
    split at h
    · cases h
    · rename_i c0 cs0 hpv
      cases h
      rw [hpas, hpv]
      simp [caseSuffix]
  | snake =>
    simp only [applyCase, Option.some.injEq] at h ⊢
    subst h
    have hws : (splitWords v).map (·.map lowerA) ≠ [] := by
      intro h0; apply hY; simp [snakeCase, h0, join]
    simp only [snakeCase, hsw, List.map_append, List.map_cons, List.map_nil]
    rw [join_append_singleton _ _ _ hws]
    simp [caseSuffix]
  | screamingSnake =>
    simp only [applyCase, Option.some.injEq] at h ⊢
    subst h
    have hws : (splitWords v).map (·.map lowerA) ≠ [] := by
      intro h0; apply hY; simp [screamingSnakeCase, snakeCase, h0, join]
    simp only [screamingSnakeCase, snakeCase, hsw, List.map_append, List.map_cons, List.map_nil]
    rw [join_append_singleton _ _ _ hws]
    simp [caseSuffix]
  | mixed =>
    simp only [applyCase, Option.some.injEq] at h ⊢
    subst h
    simp [mixedCase, hsw, caseSuffix]
  | mixedSnake =>
    simp only [applyCase, Option.some.injEq] at h ⊢
    subst h
    have hws : splitWords v ≠ [] := by
      intro h0; apply hY; simp [mixedSnakeCase, h0, join]
    simp only [mixedSnakeCase, hsw]
    rw [join_append_singleton _ _ _ hws]
    simp [caseSuffix]
  | mixedPascal =>
    simp only [applyCase, mixedPascalCase, capitalizeA] at h ⊢
    have hmix : mixedCase (v ++ '_' :: p) = mixedCase v ++ p := by
      simp [mixedCase, hsw]
    split at h
    · cases h
    · rename_i c0 cs0 hpv
      cases h
      rw [hmix, hpv]
      simp [caseSuffix]

/-! ### the number pattern never matches a name with a letter -/

theorem isDec_not_alpha (e : Env) (c : Char) (h : (e.decVal c).isSome = true) :
    isAsciiAlpha c = false := by
  cases ha : isAsciiAlpha c
  · rfl
  · exfalso
    have hasc := ascii_of_alnum c (alnum_of_alpha c ha)
    have hd : isAsciiDigit c = false := by
      unfold isAsciiAlpha isAsciiUpper isAsciiLower at ha
      unfold isAsciiDigit
      simp at ha ⊢
      omega
    simp [Env.decVal, hasc, hd] at h

theorem mem_takeWhile_imp {α} (p : α → Bool) (l : List α) (x : α) (h : x ∈ l.takeWhile p) :
    p x = true := by
  induction l with
  | nil => simp at h
  | cons a l ih =>
    rw [List.takeWhile_cons] at h
    split at h
    · rename_i ha
      rcases List.mem_cons.1 h with rfl | h
      · exact ha
      · exact ih h
    · cases h

theorem negNumber_no_alpha (e : Env) (s : Str) (h : isNegNumber e s = true) :
    ∀ c ∈ s, isAsciiAlpha c = false := by
  unfold isNegNumber at h
  split at h
  · rename_i rest
    intro c hc
    rcases List.mem_cons.1 hc with rfl | hc
    · decide
    · simp only [] at h
      -- every char of `rest` is in the body or is the trailing newline
      have hbody : c ∈ (if rest.getLast? = some '\n' then rest.dropLast else rest) ∨ c = '\n' := by
        split
        · rename_i hl
          obtain ⟨ys, hys⟩ := List.getLast?_eq_some_iff.1 hl
          subst hys
          rw [List.dropLast_concat]
          rcases List.mem_append.1 hc with h1 | h1
          · exact Or.inl h1
          · exact Or.inr (by simpa using h1)
        · exact Or.inl hc
      rcases hbody with hb | rfl
      · generalize (if rest.getLast? = some '\n' then rest.dropLast else rest) = body at h hb
        rw [← List.takeWhile_append_dropWhile (p := fun c => (e.decVal c).isSome) (l := body)] at hb
        rcases List.mem_append.1 hb with h1 | h1
        · exact isDec_not_alpha e c (mem_takeWhile_imp (fun c => (e.decVal c).isSome) body c h1)
        · split at h
          · rename_i hr; rw [hr] at h1; cases h1
          · rename_i c0 t hr
            rw [hr] at h1
            simp only [Bool.and_eq_true, decide_eq_true_eq] at h
            rcases List.mem_cons.1 h1 with rfl | h2
            · rw [h.1.1]; decide
            · exact isDec_not_alpha e c ((List.all_eq_true.1 h.2) c h2)
      · decide
  · cases h

theorem not_negNumber_of_alpha (e : Env) (s : Str) (c : Char) (hc : c ∈ s)
    (ha : isAsciiAlpha c = true) : isNegNumber e s = false := by
  cases h : isNegNumber e s
  · rfl
  · have := negNumber_no_alpha e s h c hc
    rw [ha] at this; cases this

/-- a string whose slug is non-empty contains the ASCII letter/digit the slug starts with -/
theorem exists_alpha_of_headAlpha (v : Str) (h : headAlpha (alnum v) = true) :
    ∃ c ∈ v, isAsciiAlpha c = true := by
  induction v with
  | nil => simp [alnum, headAlpha] at h
  | cons x v ih =>
    rw [alnum_cons] at h
    split at h
    · refine ⟨x, by simp, ?_⟩
      simpa [headAlpha, isAsciiAlpha_lowerA] using h
    · obtain ⟨c, hc, ha⟩ := ih h
      exact ⟨c, by simp [hc], ha⟩

/-! ### safe_name: step analysis and termination -/

/-- the state `safe_name` is in once the name has a slug starting with a letter
and is not a negative number: the case function is applied -/
def InD (e : Env) (name : Str) : Prop :=
  isNegNumber e name = false ∧ headAlpha (alnum name) = true

theorem step_of_InD (e : Env) (u : UEnv) (cv : Conv) (name Y : Str) (h : InD e name)
    (hY : applyCase u cv.case name = some Y) :
    safeNameStep e u cv name =
      if isReserved Y then .recurse (name ++ ['_'] ++ cv.pfx) else .done Y := by
  obtain ⟨hneg, hha⟩ := h
  have hne : name.isEmpty = false := by
    cases name with
    | nil => simp [alnum, headAlpha] at hha
    | cons a b => rfl
  unfold safeNameStep
  simp only [hne, hneg]
  cases hsl : alnum name with
  | nil => rw [hsl] at hha; simp [headAlpha] at hha
  | cons c t =>
    rw [hsl] at hha
    simp only [headAlpha] at hha
    simp [hha, hY]

theorem InD_suffixed (e : Env) (name p : Str) (h : InD e name) : InD e (name ++ '_' :: p) := by
  obtain ⟨c, hc, ha⟩ := exists_alpha_of_headAlpha name h.2
  refine ⟨not_negNumber_of_alpha e _ c (by simp [hc]) ha, ?_⟩
  rw [alnum_append]
  exact headAlpha_append _ _ h.2

theorem InD_prefixed (e : Env) (p0 : Char) (rest : Str) (h0 : isAsciiLower p0 = true) :
    InD e (p0 :: rest) := by
  have ha := alpha_of_lower p0 h0
  refine ⟨not_negNumber_of_alpha e _ p0 (by simp) ha, ?_⟩
  rw [alnum_cons, alnum_of_alpha p0 ha]
  simpa [headAlpha, isAsciiAlpha_lowerA] using ha

theorem fuel_mono (e : Env) (u : UEnv) (cv : Conv) (r : Str) :
    ∀ (k : Nat) (name : Str), safeNameFuel e u cv k name = .ok r →
      safeNameFuel e u cv (k + 1) name = .ok r := by
  intro k
  induction k with
  | zero => intro name h; simp [safeNameFuel] at h
  | succ k ih =>
    intro name h
    rw [safeNameFuel] at h ⊢
    split at h
    · rename_i n hs; exact ih n h
    · exact h
    · cases h

theorem fuel_mono' (e : Env) (u : UEnv) (cv : Conv) (r : Str) (k j : Nat) (name : Str)
    (h : safeNameFuel e u cv k name = .ok r) : safeNameFuel e u cv (k + j) name = .ok r := by
  induction j with
  | zero => exact h
  | succ j ih => exact fuel_mono e u cv r (k + j) name ih

theorem dropWhile_head {α} (f : α → Bool) (l : List α) (x : α) (hx : x ∈ l) (hf : f x = false) :
    ∃ y t, l.dropWhile f = y :: t ∧ f y = false := by
  induction l with
  | nil => cases hx
  | cons a l ih =>
    rw [List.dropWhile_cons]
    by_cases ha : f a = true
    · simp only [ha, if_true]
      rcases List.mem_cons.1 hx with rfl | hx
      · rw [ha] at hf; cases hf
      · exact ih hx
    · exact ⟨a, l, by simp [ha], by simpa using ha⟩

/-- in state D the case function always yields a non-empty result that contains an ASCII letter -/
theorem case_some_of_InD (e : Env) (u : UEnv) (c : NameCase) (name : Str) (h : InD e name) :
    ∃ Y, applyCase u c name = some Y ∧ Y ≠ [] ∧ ∃ x ∈ Y, x ≠ '_' := by
  by_cases hc : c = .original
  · subst hc
    obtain ⟨x, hx, ha⟩ := exists_alpha_of_headAlpha name h.2
    have hw : u.isWord x = true := by
      have := alnum_of_alpha x ha
      simp [UEnv.isWord, ascii_of_alnum x this, this]
    have hxi : u.isXidContinue x = true := isXid_of_alnum u x (alnum_of_alpha x ha)
    have hxc : x ∈ originalCore u name := by
      unfold originalCore
      exact mem_dropWhile_of_not _ _ x (List.mem_filter.2 ⟨List.mem_filter.2 ⟨hx, hw⟩, hxi⟩) (by simp [ha])
    have hxne : x ≠ '_' := by
      intro h0; subst h0; revert ha; decide
    have hxo : x ∈ originalCase u name := mem_collapseLead_of_ne _ x hxc hxne
    refine ⟨originalCase u name, rfl, ?_, x, hxo, hxne⟩
    intro h0; rw [h0] at hxo; cases hxo
  · obtain ⟨r, hr, hh, _⟩ := applyCase_shape u c hc name h.2
    refine ⟨r, hr, ne_nil_of_headAlpha r hh, ?_⟩
    cases r with
    | nil => simp [headAlpha] at hh
    | cons y t =>
      refine ⟨y, by simp, ?_⟩
      intro h0; subst h0
      simp only [headAlpha] at hh
      revert hh; decide

/-- from state D `safe_name` returns after at most one more call, with a non-reserved result
that is the case function applied to `name` or to `name_prefix` -/
theorem run_of_InD (e : Env) (u : UEnv) (cv : Conv) (hg : goodPrefix cv = true) (name : Str)
    (h : InD e name) :
    ∃ n r, (n = name ∨ n = name ++ '_' :: cv.pfx) ∧ InD e n ∧ applyCase u cv.case n = some r ∧
      safeNameFuel e u cv 2 name = .ok r ∧ isReserved r = false := by
  simp only [goodPrefix, Bool.and_eq_true, Bool.not_eq_true', List.all_eq_true] at hg
  obtain ⟨⟨hpne, hpl⟩, hsfx⟩ := hg
  have hpne' : cv.pfx ≠ [] := by intro h0; simp [h0] at hpne
  obtain ⟨Y, hY, hYne, hYl⟩ := case_some_of_InD e u cv.case name h
  have hstep := step_of_InD e u cv name Y h hY
  cases hres : isReserved Y
  · refine ⟨name, Y, Or.inl rfl, h, hY, ?_, hres⟩
    rw [safeNameFuel, hstep]; simp [hres]
  · have h' := InD_suffixed e name cv.pfx h
    have hY' := applyCase_suffix u cv.case name cv.pfx Y hpne' hpl hY hYne hYl
    have hnr : isReserved (Y ++ caseSuffix cv.case cv.pfx) = false :=
      not_reserved_of_suffix Y _ hYne (List.all_eq_true.2 (by simpa using hsfx))
    have hstep' := step_of_InD e u cv _ _ h' hY'
    refine ⟨_, _, Or.inr rfl, h', hY', ?_, hnr⟩
    rw [safeNameFuel, hstep]
    simp only [hres, if_true]
    have : name ++ ['_'] ++ cv.pfx = name ++ '_' :: cv.pfx := by simp
    rw [this, safeNameFuel, hstep']
    simp [hnr]

/-- **termination**: for a good prefix `safe_name` returns within three calls, for every name -/
theorem run_total (e : Env) (u : UEnv) (cv : Conv) (hg : goodPrefix cv = true) (name : Str) :
    ∃ n r, InD e n ∧ (∀ x ∈ n, x ∈ name ∨ isAscii x = true) ∧ applyCase u cv.case n = some r ∧
      safeNameFuel e u cv 3 name = .ok r ∧ isReserved r = false := by
  have hg0 := hg
  simp only [goodPrefix, Bool.and_eq_true, Bool.not_eq_true', List.all_eq_true] at hg0
  obtain ⟨⟨hpne, hpl⟩, _⟩ := hg0
  have hpasc : ∀ x ∈ cv.pfx, isAscii x = true := fun x hx =>
    ascii_of_alnum x (alnum_of_alpha x (alpha_of_lower x (hpl x hx)))
  have finish : ∀ n0 : Str, InD e n0 → (∀ x ∈ n0, x ∈ name ∨ isAscii x = true) →
      ∃ n r, InD e n ∧ (∀ x ∈ n, x ∈ name ∨ isAscii x = true) ∧ applyCase u cv.case n = some r ∧
        safeNameFuel e u cv 2 n0 = .ok r ∧ isReserved r = false := by
    intro n0 h0 hch
    obtain ⟨n, r, hn, hD, hr, hf, hnr⟩ := run_of_InD e u cv hg n0 h0
    refine ⟨n, r, hD, ?_, hr, hf, hnr⟩
    rcases hn with rfl | rfl
    · exact hch
    · intro x hx
      rcases List.mem_append.1 hx with h1 | h1
      · exact hch x h1
      · rcases List.mem_cons.1 h1 with rfl | h2
        · exact Or.inr (by decide)
        · exact Or.inr (hpasc x h2)
  by_cases hD : InD e name
  · obtain ⟨n, r, h1, h2, h3, h4, h5⟩ := finish name hD (fun x hx => Or.inl hx)
    exact ⟨n, r, h1, h2, h3, fuel_mono e u cv r 2 name h4, h5⟩
  · -- first call rewrites the name so that it starts with the prefix
    cases hp : cv.pfx with
    | nil => simp [hp] at hpne
    | cons p0 prest =>
      have hp0 : isAsciiLower p0 = true := hpl p0 (by simp [hp])
      have hrec : ∃ tail, (∀ x ∈ tail, x ∈ name ∨ isAscii x = true) ∧
          safeNameStep e u cv name = .recurse (p0 :: tail) := by
        unfold safeNameStep
        by_cases h1 : name.isEmpty = true
        · refine ⟨prest, fun x hx => Or.inr (hpasc x (by simp [hp, hx])), ?_⟩
          simp [h1, hp]
        · simp only [h1]
          by_cases h2 : isNegNumber e name = true
          · refine ⟨prest ++ "_minus_".toList ++ name, ?_, by simp [h2, hp]⟩
            intro x hx
            rcases List.mem_append.1 hx with h3 | h3
            · rcases List.mem_append.1 h3 with h4 | h4
              · exact Or.inr (hpasc x (by simp [hp, h4]))
              · refine Or.inr ?_
                have : x ∈ ['_', 'm', 'i', 'n', 'u', 's', '_'] := h4
                simp at this
                rcases this with rfl | rfl | rfl | rfl | rfl | rfl | rfl <;> decide
            · exact Or.inl h3
          · simp only [h2]
            have tailOk : ∀ x ∈ prest ++ ['_'] ++ name, x ∈ name ∨ isAscii x = true := by
              intro x hx
              rcases List.mem_append.1 hx with h3 | h3
              · rcases List.mem_append.1 h3 with h4 | h4
                · exact Or.inr (hpasc x (by simp [hp, h4]))
                · simp at h4; subst h4; exact Or.inr (by decide)
              · exact Or.inl h3
            cases hsl : alnum name with
            | nil => exact ⟨prest ++ ['_'] ++ name, tailOk, by simp [hp]⟩
            | cons c t =>
              by_cases hc : isAsciiAlpha c = true
              · exfalso; apply hD
                refine ⟨by simpa using h2, ?_⟩
                rw [hsl]; simpa [headAlpha] using hc
              · exact ⟨prest ++ ['_'] ++ name, tailOk, by simp [hc, hp]⟩
      obtain ⟨tail, htail, hstep⟩ := hrec
      have hD1 : InD e (p0 :: tail) := InD_prefixed e p0 tail hp0
      have hch : ∀ x ∈ p0 :: tail, x ∈ name ∨ isAscii x = true := by
        intro x hx
        rcases List.mem_cons.1 hx with rfl | hx
        · exact Or.inr (hpasc _ (by simp [hp]))
        · exact htail x hx
      obtain ⟨n, r, h1, h2, h3, h4, h5⟩ := finish _ hD1 hch
      refine ⟨n, r, h1, h2, h3, ?_, h5⟩
      rw [safeNameFuel, hstep]
      exact h4

/-! ### originalCase -/

/-- `originalCase` keeps only identifier characters, so in state D its result is an identifier -/
theorem original_identifier (u : UEnv) (n : Str) (hh : headAlpha (alnum n) = true) :
    u.isIdentifier (originalCase u n) = true := by
  obtain ⟨x, hxn, ha⟩ := exists_alpha_of_headAlpha n hh
  have hw : u.isWord x = true := isWord_of_alnum u x (alnum_of_alpha x ha)
  have hxi : u.isXidContinue x = true := isXid_of_alnum u x (alnum_of_alpha x ha)
  obtain ⟨y, t, hyt, hy⟩ := dropWhile_head (fun c => !(isAsciiAlpha c || c = '_'))
    ((n.filter u.isWord).filter u.isXidContinue) x
    (List.mem_filter.2 ⟨List.mem_filter.2 ⟨hxn, hw⟩, hxi⟩) (by simp [ha])
  have hsub : ∀ z ∈ y :: t, u.isXidContinue z = true := by
    intro z hz
    rw [← hyt] at hz
    exact (List.mem_filter.1 ((List.dropWhile_sublist _).subset hz)).2
  have hcore : originalCore u n = y :: t := hyt
  obtain ⟨t', ht'⟩ := collapseLead_head y t
  unfold originalCase
  rw [hcore, ht']
  simp only [UEnv.isIdentifier, Bool.and_eq_true]
  constructor
  · have : isAsciiAlpha y = true ∨ y = '_' := by
      cases hya : isAsciiAlpha y
      · right; simpa [hya] using hy
      · left; rfl
    rcases this with h | rfl
    · simp [UEnv.isXidStart, ascii_of_alnum y (alnum_of_alpha y h), h]
    · simp [UEnv.isXidStart, isAscii]
  · rw [List.all_eq_true]
    intro z hz
    have hz' : z ∈ collapseLead (y :: t) := by rw [ht']; simp [hz]
    exact hsub z (collapseLead_subset _ z hz')

/-! ### termination for every prefix `Filters` accepts -/

theorem stopWords_short : Tables.stopWords.all (fun w => decide (w.length ≤ 8)) = true := by
  decide +kernel

theorem alnum_length_le (v : Str) : (alnum v).length ≤ v.length := by
  unfold alnum
  rw [List.length_map]
  exact List.length_filter_le _ _

theorem alnum_filter_sup (p : Char → Bool) (hp : ∀ c, isAsciiAlnum c = true → p c = true) (v : Str) :
    alnum (v.filter p) = alnum v := by
  unfold alnum
  rw [List.filter_filter]
  congr 1
  apply List.filter_congr
  intro c _
  cases h : isAsciiAlnum c
  · simp
  · simp [hp c h]

theorem alnum_dropWhile_head (l : Str) (h : headAlpha (alnum l) = true) :
    alnum (l.dropWhile (fun c => !(isAsciiAlpha c || c = '_'))) = alnum l := by
  induction l with
  | nil => rfl
  | cons x t ih =>
    rw [List.dropWhile_cons]
    split
    · rename_i hx
      have hxa : isAsciiAlpha x = false := by
        cases hxa : isAsciiAlpha x
        · rfl
        · simp [hxa] at hx
      rw [alnum_cons] at h ⊢
      split at h
      · simp [headAlpha, isAsciiAlpha_lowerA, hxa] at h
      · rename_i hn
        simp only [hn] 
        exact ih h
    · rfl

theorem alnum_originalCase (u : UEnv) (n : Str) (h : headAlpha (alnum n) = true) :
    alnum (originalCase u n) = alnum n := by
  unfold originalCase
  rw [alnum_collapseLead]
  unfold originalCore
  have h1 : alnum ((n.filter u.isWord).filter u.isXidContinue) = alnum n := by
    rw [alnum_filter_sup _ (isXid_of_alnum u), alnum_filter_sup _ (isWord_of_alnum u)]
  rw [alnum_dropWhile_head _ (by rw [h1]; exact h), h1]

/-- in state D every case function keeps the slug -/
theorem alnum_case_InD (e : Env) (u : UEnv) (c : NameCase) (n Y : Str) (h : InD e n)
    (hY : applyCase u c n = some Y) : alnum Y = alnum n := by
  by_cases hc : c = .original
  · subst hc
    simp only [applyCase, Option.some.injEq] at hY
    subst hY
    exact alnum_originalCase u n h.2
  · exact alnum_applyCase u c hc n Y hY

theorem validPrefix_head (p : Str) (h : validPrefix p = true) : headAlpha (alnum p) = true := by
  unfold validPrefix at h
  cases hp : alnum p with
  | nil => simp [hp] at h
  | cons c t => simpa [hp, headAlpha] using h

theorem InD_of_prefix (e : Env) (p rest : Str) (h : validPrefix p = true) : InD e (p ++ rest) := by
  have hh := validPrefix_head p h
  obtain ⟨c, hc, ha⟩ := exists_alpha_of_headAlpha p hh
  refine ⟨not_negNumber_of_alpha e _ c (by simp [hc]) ha, ?_⟩
  rw [alnum_append]
  exact headAlpha_append _ _ hh

/-- from state D at most `b` rewrites are needed, where `b` makes up for the length of the slug -/
theorem runD (e : Env) (u : UEnv) (cv : Conv) (hv : validPrefix cv.pfx = true) :
    ∀ (b : Nat) (n : Str), InD e n → 9 ≤ (alnum n).length + b →
      ∃ n' r, InD e n' ∧ applyCase u cv.case n' = some r ∧
        safeNameFuel e u cv (b + 1) n = .ok r ∧ isReserved r = false := by
  have hpl : 1 ≤ (alnum cv.pfx).length := by
    have := ne_nil_of_headAlpha _ (validPrefix_head _ hv)
    exact List.length_pos_iff.2 this
  intro b
  induction b with
  | zero =>
    intro n hD hlen
    obtain ⟨Y, hY, _⟩ := case_some_of_InD e u cv.case n hD
    have hres : isReserved Y = false := by
      cases hr : isReserved Y
      · rfl
      · exfalso
        have hmem : Y ∈ Tables.stopWords := by simpa [isReserved] using hr
        have := (List.all_eq_true.1 stopWords_short) Y hmem
        have hle : Y.length ≤ 8 := by simpa using this
        have h1 := alnum_length_le Y
        rw [alnum_case_InD e u cv.case n Y hD hY] at h1
        omega
    refine ⟨n, Y, hD, hY, ?_, hres⟩
    rw [safeNameFuel, step_of_InD e u cv n Y hD hY]
    simp [hres]
  | succ b ih =>
    intro n hD hlen
    obtain ⟨Y, hY, _⟩ := case_some_of_InD e u cv.case n hD
    cases hres : isReserved Y
    · refine ⟨n, Y, hD, hY, ?_, hres⟩
      rw [safeNameFuel, step_of_InD e u cv n Y hD hY]
      simp [hres]
    · have hD' := InD_suffixed e n cv.pfx hD
      have hlen' : 9 ≤ (alnum (n ++ '_' :: cv.pfx)).length + b := by
        rw [alnum_append, alnum_cons]
        simp only [underscore_not_alnum, Bool.false_eq_true, if_false, List.length_append]
        omega
      obtain ⟨n', r, h1, h2, h3, h4⟩ := ih _ hD' hlen'
      refine ⟨n', r, h1, h2, ?_, h4⟩
      rw [safeNameFuel, step_of_InD e u cv n Y hD hY]
      simp only [hres, if_true]
      have : n ++ ['_'] ++ cv.pfx = n ++ '_' :: cv.pfx := by simp
      rw [this]
      exact h3

/-- **termination for every accepted prefix**: eleven calls always suffice -/
theorem run_valid (e : Env) (u : UEnv) (cv : Conv) (hv : validPrefix cv.pfx = true) (name : Str) :
    ∃ n r, InD e n ∧ applyCase u cv.case n = some r ∧
      safeNameFuel e u cv 11 name = .ok r ∧ isReserved r = false := by
  by_cases hD : InD e name
  · obtain ⟨n, r, h1, h2, h3, h4⟩ := runD e u cv hv 9 name hD (by omega)
    exact ⟨n, r, h1, h2, fuel_mono e u cv r 10 name h3, h4⟩
  · have hrec : ∃ rest, safeNameStep e u cv name = .recurse (cv.pfx ++ rest) := by
      unfold safeNameStep
      by_cases h1 : name.isEmpty = true
      · exact ⟨[], by simp [h1]⟩
      · simp only [h1]
        by_cases h2 : isNegNumber e name = true
        · exact ⟨"_minus_".toList ++ name, by simp [h2]⟩
        · simp only [h2]
          cases hsl : alnum name with
          | nil => exact ⟨'_' :: name, by simp⟩
          | cons c t =>
            by_cases hc : isAsciiAlpha c = true
            · exfalso; apply hD
              refine ⟨by simpa using h2, ?_⟩
              rw [hsl]; simpa [headAlpha] using hc
            · exact ⟨'_' :: name, by simp [hc]⟩
    obtain ⟨rest, hstep⟩ := hrec
    obtain ⟨n, r, h1, h2, h3, h4⟩ := runD e u cv hv 9 _ (InD_of_prefix e cv.pfx rest hv) (by omega)
    refine ⟨n, r, h1, h2, ?_, h4⟩
    rw [safeNameFuel, hstep]
    exact h3

theorem goodPrefix_valid (cv : Conv) (hg : goodPrefix cv = true) : validPrefix cv.pfx = true := by
  simp only [goodPrefix, Bool.and_eq_true, Bool.not_eq_true', List.all_eq_true] at hg
  obtain ⟨⟨hne, hl⟩, _⟩ := hg
  cases hp : cv.pfx with
  | nil => simp [hp] at hne
  | cons c t =>
    have hc := alpha_of_lower c (hl c (by simp [hp]))
    unfold validPrefix
    rw [alnum_cons, alnum_of_alpha c hc]
    simpa [isAsciiAlpha_lowerA] using hc

end Proofs.Names
