import Driver.Proto
import Driver.OpsBind
import Driver.OpsXml
import XsdataModel.Xml.Compose
import XsdataModel.Xml.TblNsEnv
open Lean Proto Py

namespace OpsXmlCompose
open OpsBind (dCtx dVal field benv)

def run (op : String) (a : Json) : Option (Except String Json) :=
  match op with
  | "ser.compose" => some do
      -- XmlSerializer.render = EventGenerator (Bind/Gen) ∘ native writer (Xml/Writer), exact text
      let Γ ← dCtx (field a "ctx")
      let v ← dVal (field a "value")
      let m ← OpsXml.asNsMap (a.getObjValD "ns_map")
      let wcfg ← OpsXml.getCfg a
      let scfg : Xs.Bind.SerCfg :=
        { ignoreDefaultAttributes := (field a "ignore_default_attributes").getBool?.toOption.getD false }
      pure <| match Xs.Compose.render Xs.Ns.tblNsEnv benv Γ scfg wcfg m v with
        | .text s => ok (jStr s)
        | .genError e => OpsBind.jErr e
        | .writeError e => err e.name
        | .uncovered => jObj [("unsupported", Json.str "payload")]
  | _ => none

end OpsXmlCompose
