#!/bin/sh
# usage: harness/merge_branch.sh <branch> [area]   — merge a builder branch into main
BR=$1; AREA=${2:-$1}
cd /verif || exit 1
git add -A; git commit -qm "wip before merging $BR" 2>/dev/null
git merge $BR -m "merge $BR" >/tmp/scratch/merge.log 2>&1
if grep -q "Automatic merge failed" /tmp/scratch/merge.log; then
  harness/merge_fix.sh $BR $AREA || exit 1
  for f in $(git status --short | grep "^UU evidence\|^AA evidence" | awk '{print $2}'); do git checkout --ours $f; done
  git checkout --ours MANIFEST.json 2>/dev/null
  git add -A
  if git status --short | grep -q "^UU\|^AA\|^DU\|^UD"; then git status --short | grep "^UU\|^AA\|^DU\|^UD"; echo "UNRESOLVED"; exit 1; fi
  git commit -qm "merge $BR"
fi
grep -q "Already up to date\|Merge made\|Fast-forward" /tmp/scratch/merge.log && cat /tmp/scratch/merge.log | tail -1
git log --oneline | head -1
