/- The `CEnv` built from the regenerated Unicode tables (the interpreter that runs xsdata). -/
import XsdataModel.Py.TblEnv
import XsdataModel.Conv.Basic

namespace Xs.Conv
open Py

def tblIsAlphaNA (c : Char) : Bool :=
  let n := c.toNat
  Tables.alphaRangesNA.any (fun r => r.1 ≤ n && n ≤ r.2)

/-- environment of the running interpreter; `floatRepr` is supplied per request -/
def tblCEnv (floatRepr : Str → Str) : CEnv where
  toEnv := tblEnv
  isAlphaNA := tblIsAlphaNA
  floatRepr := floatRepr

end Xs.Conv
