/-
Python `dict` as the writer code uses it: insertion ordered, unique keys,
`d[k] = v` keeps the position of an existing key and appends a new one.
Plain association lists with small total functions (no type class magic) so
that the invariant proofs can unfold them.
-/
import XsdataModel.Py.Basic

namespace Py

variable {κ ν : Type} [DecidableEq κ]

/-- `d.get(k)` -/
def dget : List (κ × ν) → κ → Option ν
  | [], _ => none
  | (k', v) :: r, k => if k' = k then some v else dget r k

/-- `d[k] = v` -/
def dset : List (κ × ν) → κ → ν → List (κ × ν)
  | [], k, v => [(k, v)]
  | (k', v') :: r, k, v => if k' = k then (k', v) :: r else (k', v') :: dset r k v

/-- `k in d` -/
def dhas (m : List (κ × ν)) (k : κ) : Bool := (dget m k).isSome

/-- `d.pop(k, None)` (the popped value is not used by the modelled code) -/
def dpop : List (κ × ν) → κ → List (κ × ν)
  | [], _ => []
  | (k', v') :: r, k => if k' = k then r else (k', v') :: dpop r k

/-- `list(d.keys())` -/
def dkeys (m : List (κ × ν)) : List κ := m.map (·.1)

/-- `list(d.values())` -/
def dvalues (m : List (κ × ν)) : List ν := m.map (·.2)

/-- `sep.join(xs)` -/
def joinStr (sep : Str) : List Str → Str
  | [] => []
  | [x] => x
  | x :: y :: r => x ++ sep ++ joinStr sep (y :: r)

/-- `s.replace(c, by)` for a one-character pattern -/
def replaceChar (s : Str) (c : Char) (by_ : Str) : Str :=
  s.flatMap (fun x => if x = c then by_ else [x])

end Py
