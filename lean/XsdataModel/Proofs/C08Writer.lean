/- C08 — helper lemmas: the indentation bookkeeping of the native writer only adds layout whitespace. -/
import XsdataModel.Backends.Writer

namespace Xs.Backends
open Py Xs.Bind

/-! ### the normaliser -/

abbrev W (e : Env) (b : Str) : Bool := b.all e.isSpace

def feedAll (e : Env) (n : NState) (xs : List ISax) : NState := xs.foldl (NState.feed e) n

theorem normState_append (e : Env) (xs ys : List ISax) :
    normState e (xs ++ ys) = feedAll e (normState e xs) ys := by
  simp [normState, feedAll, List.foldl_append]

theorem feedAll_append (e : Env) (n : NState) (xs ys : List ISax) :
    feedAll e n (xs ++ ys) = feedAll e (feedAll e n xs) ys := by
  simp [feedAll, List.foldl_append]

theorem feedAll_nil (e : Env) (n : NState) : feedAll e n [] = n := rfl
theorem feedAll_cons (e : Env) (n : NState) (x : ISax) (xs : List ISax) :
    feedAll e n (x :: xs) = feedAll e (n.feed e x) xs := rfl

/-- what `flush` leaves alone -/
theorem flush_keeps (e : Env) (n : NState) (c : Bool) :
    (n.flush e c).bad = n.bad ∧ (n.flush e c).depth = n.depth ∧ (n.flush e c).prevOpen = n.prevOpen
      ∧ (n.flush e c).buf = [] := by
  unfold NState.flush
  split
  · rename_i h; exact ⟨rfl, rfl, rfl, by simpa [List.isEmpty_iff] using h⟩
  · split <;> exact ⟨rfl, rfl, rfl, rfl⟩

theorem feed_bad_mono (e : Env) (n : NState) (x : ISax) (h : (n.feed e x).bad = false) : n.bad = false := by
  cases x with
  | ws s => exact h
  | sax y =>
    cases y with
    | chars s =>
      simp only [NState.feed, Bool.or_eq_false_iff] at h
      exact h.1
    | «open» q a => simpa [NState.feed, (flush_keeps e n false).1] using h
    | close q => simpa [NState.feed, (flush_keeps e n true).1] using h

theorem feedAll_bad_mono (e : Env) (n : NState) (xs : List ISax) (h : (feedAll e n xs).bad = false) :
    n.bad = false := by
  induction xs generalizing n with
  | nil => exact h
  | cons x xs ih => exact feed_bad_mono e n x (ih _ h)

/-- the relation between the reader's state on the indented and on the plain stream: same output so
far, and the pending character runs are the same or the indented one is pure layout where the plain
one has nothing -/
def Sim (e : Env) (nI nP : NState) : Prop :=
  nI.emitted = nP.emitted ∧ nI.prevOpen = nP.prevOpen ∧
    (nI.buf = nP.buf ∨ (nP.buf = [] ∧ W e nI.buf = true))

theorem Sim.ws {e : Env} {nI nP : NState} (h : Sim e nI nP) (c : Str) (hc : W e c = true)
    (hb : nP.buf = []) : Sim e (nI.feed e (.ws c)) nP := by
  obtain ⟨h1, h2, h3⟩ := h
  refine ⟨h1, h2, Or.inr ⟨hb, ?_⟩⟩
  simp only [NState.feed, W, List.all_append, Bool.and_eq_true]
  refine ⟨?_, hc⟩
  rcases h3 with h3 | h3
  · rw [h3, hb]; rfl
  · exact h3.2

theorem Sim.chars {e : Env} {nI nP : NState} (h : Sim e nI nP) (heq : nI.buf = nP.buf) (s : Str) :
    Sim e (nI.feed e (.sax (.chars s))) (nP.feed e (.sax (.chars s)))
      ∧ (nI.feed e (.sax (.chars s))).buf = (nP.feed e (.sax (.chars s))).buf := by
  obtain ⟨h1, h2, _⟩ := h
  refine ⟨⟨h1, h2, Or.inl ?_⟩, ?_⟩ <;> simp only [NState.feed] <;> rw [heq]

/-- flushing when the two runs are equal, or the indented one is layout in a place where layout is
dropped -/
theorem flush_sim {e : Env} {nI nP : NState} (c : Bool) (h : Sim e nI nP)
    (hctx : nI.buf ≠ nP.buf → (nP.prevOpen && c) = false) :
    (nI.flush e c).emitted = (nP.flush e c).emitted := by
  obtain ⟨h1, h2, h3⟩ := h
  by_cases heq : nI.buf = nP.buf
  · unfold NState.flush
    rw [heq, h2]
    split
    · exact h1
    · split
      · exact h1
      · simp [h1]
  · have hc := hctx heq
    rcases h3 with h3 | ⟨hb, hw⟩
    · exact absurd h3 heq
    · have hcI : (nI.prevOpen && c) = false := by rw [h2]; exact hc
      have fP : nP.flush e c = nP := by unfold NState.flush; simp [hb]
      have fI : (nI.flush e c).emitted = nI.emitted := by
        unfold NState.flush
        simp only [W] at hw
        split
        · rfl
        · simp [hw, hcI]
      rw [fP, fI, h1]

theorem Sim.open {e : Env} {nI nP : NState} (h : Sim e nI nP) (q : QN) (a : List (QN × Str)) :
    Sim e (nI.feed e (.sax (.open q a))) (nP.feed e (.sax (.open q a)))
      ∧ (nI.feed e (.sax (.open q a))).buf = (nP.feed e (.sax (.open q a))).buf := by
  have hf := flush_sim (e := e) false h (by intro _; simp)
  have kI := flush_keeps e nI false
  have kP := flush_keeps e nP false
  refine ⟨⟨?_, rfl, Or.inl ?_⟩, ?_⟩
  · simp only [NState.feed]; rw [hf]
  · simp only [NState.feed]; rw [kI.2.2.2, kP.2.2.2]
  · simp only [NState.feed]; rw [kI.2.2.2, kP.2.2.2]

theorem Sim.close {e : Env} {nI nP : NState} (h : Sim e nI nP) (q : QN)
    (hctx : nI.buf ≠ nP.buf → nP.prevOpen = false) :
    Sim e (nI.feed e (.sax (.close q))) (nP.feed e (.sax (.close q)))
      ∧ (nI.feed e (.sax (.close q))).buf = (nP.feed e (.sax (.close q))).buf := by
  have hf := flush_sim (e := e) true h (by intro hne; rw [hctx hne]; rfl)
  have kI := flush_keeps e nI true
  have kP := flush_keeps e nP true
  refine ⟨⟨?_, rfl, Or.inl ?_⟩, ?_⟩
  · simp only [NState.feed]; rw [hf]
  · simp only [NState.feed]; rw [kI.2.2.2, kP.2.2.2]
  · simp only [NState.feed]; rw [kI.2.2.2, kP.2.2.2]

theorem Sim.finish {e : Env} {nI nP : NState} (h : Sim e nI nP) :
    (nI.flush e false).emitted = (nP.flush e false).emitted :=
  flush_sim (e := e) false h (by intro _; simp)

theorem Sim.refl (e : Env) (n : NState) : Sim e n n := ⟨rfl, rfl, Or.inl rfl⟩

/-! ### `charsInside` is the reader's `bad` flag -/

theorem bad_feedAll (e : Env) (xs : List Sax) (n : NState) :
    (feedAll e n (xs.map ISax.sax)).bad = (n.bad || !charsInsideFrom n.depth xs) := by
  induction xs generalizing n with
  | nil => simp [feedAll, charsInsideFrom]
  | cons x xs ih =>
    simp only [List.map_cons, feedAll_cons]
    rw [ih]
    cases x with
    | «open» q a =>
      have k := flush_keeps e n false
      simp [NState.feed, charsInsideFrom, k.1, k.2.1]
    | close q =>
      have k := flush_keeps e n true
      simp [NState.feed, charsInsideFrom, k.1, k.2.1]
    | chars s =>
      simp only [NState.feed, charsInsideFrom]
      cases n.bad <;> cases h : (n.depth == 0) <;> simp [h, bne]

end Xs.Backends

namespace Xs.Backends
open Py Xs.Bind

/-! ### the shape of what one `EventHandler` event appends -/

/-- the start-tag call `flush_start` makes (if a tag is pending) -/
def OpenPart (w : WState) (o : List Sax) : Prop :=
  (w.pending = none ∧ o = []) ∨ (∃ q a, w.pending = some q ∧ o = [Sax.open q a])

theorem flush_shape (w : WState) (isNil : Bool) :
    ∃ o, OpenPart w o ∧ (w.flush isNil).out = w.out ++ o ∧ (w.flush isNil).pending = none
      ∧ (w.flush isNil).tail = w.tail := by
  unfold WState.flush
  cases h : w.pending with
  | none => exact ⟨[], Or.inl ⟨h, rfl⟩, by simp, h, rfl⟩
  | some q => exact ⟨_, Or.inr ⟨q, _, h, rfl⟩, rfl, rfl, rfl⟩

/-- what `WState.step` appends: `o` (a flushed start tag) then `c` -/
def StepShape (w : WState) (ev : Ev) (w' : WState) : Prop :=
  ∃ o c, w'.out = w.out ++ (o ++ c) ∧
    match ev with
    | .start q => OpenPart w o ∧ c = [] ∧ w'.pending = some q
    | .attr _ _ => o = [] ∧ c = [] ∧ w'.pending = w.pending
    | .data _ => OpenPart w o ∧ (c = [] ∨ ∃ s, c = [Sax.chars s]) ∧ w'.pending = none
    | .end q => OpenPart w o ∧ (c = [Sax.close q] ∨ ∃ s, c = [Sax.close q, Sax.chars s]) ∧ w'.pending = none

theorem step_shape (m : NsMap) (isDt : Str → Bool) (w : WState) (ev : Ev) (w' : WState)
    (h : w.step m isDt ev = .ok w') : StepShape w ev w' := by
  cases ev with
  | start q =>
    obtain ⟨o, ho, hout, _, _⟩ := flush_shape w false
    simp only [WState.step, Except.ok.injEq] at h
    subst h
    exact ⟨o, [], by simp [hout], ho, rfl, rfl⟩
  | attr q d =>
    simp only [WState.step] at h
    split at h
    · cases h
    · split at h
      · simp only [Except.ok.injEq] at h; subst h; exact ⟨[], [], by simp, rfl, rfl, rfl⟩
      · cases h
      · cases h
  | data d =>
    simp only [WState.step] at h
    split at h
    · cases h
    · rename_i value hv
      simp only [Except.ok.injEq] at h
      subst h
      cases value with
      | none =>
        obtain ⟨o, ho, hout, hp, _⟩ := flush_shape w true
        exact ⟨o, [], by simp [hout], ho, Or.inl rfl, by simp [hp]⟩
      | some s =>
        obtain ⟨o, ho, hout, hp, _⟩ := flush_shape w false
        by_cases hs : s.isEmpty = true
        · exact ⟨o, [], by simp [hs, hout], ho, Or.inl rfl, by simp [hs, hp]⟩
        · refine ⟨o, [Sax.chars s], ?_, ho, Or.inr ⟨s, rfl⟩, ?_⟩
          · simp [hs, hout]
          · simp [hs, hp]
  | «end» q =>
    obtain ⟨o, ho, hout, hp, htl⟩ := flush_shape w true
    simp only [WState.step, Except.ok.injEq] at h
    subst h
    cases htail : w.tail with
    | none =>
      refine ⟨o, [Sax.close q], ?_, ho, Or.inl rfl, ?_⟩
      · simp [htl, htail, hout]
      · simp [htl, htail, hp]
    | some t =>
      by_cases hte : t.isEmpty = true
      · refine ⟨o, [Sax.close q], ?_, ho, Or.inl rfl, ?_⟩
        · simp [htl, htail, hte, hout]
        · simp [htl, htail, hte, hp]
      · refine ⟨o, [Sax.close q, Sax.chars t], ?_, ho, Or.inr ⟨t, rfl⟩, ?_⟩
        · simp [htl, htail, hte, hout]
        · simp [htl, htail, hte, hp]

theorem step_out_append (m : NsMap) (isDt : Str → Bool) (w : WState) (ev : Ev) (w' : WState)
    (h : w.step m isDt ev = .ok w') : ∃ d, w'.out = w.out ++ d := by
  obtain ⟨o, c, hout, _⟩ := step_shape m isDt w ev w' h
  exact ⟨o ++ c, hout⟩

end Xs.Backends

namespace Xs.Backends
open Py Xs.Bind

/-! ### the native writer against the inherited handler -/

theorem super_of_step {m : NsMap} {isDt : Str → Bool} {s : IState} {ev : Ev} {w' : WState} {d : List Sax}
    (h : s.w.step m isDt ev = .ok w') (hd : w'.out = s.w.out ++ d) :
    s.super m isDt ev = .ok { s with w := w', out := s.out ++ d.map ISax.sax,
                                     afterChars := s.afterChars || d.any Sax.isChars } := by
  unfold IState.super
  rw [h]
  simp [hd]

theorem super_err {m : NsMap} {isDt : Str → Bool} {s : IState} {ev : Ev} {x : Err}
    (h : s.w.step m isDt ev = .error x) : s.super m isDt ev = .error x := by
  unfold IState.super
  rw [h]

theorem W_newline (e : Env) : W e ['\n'] = true := by
  simp [W, Env.isSpace, isAscii, isAsciiSpace]

theorem W_strMul (e : Env) (i : Str) (n : Int) (h : W e i = true) : W e (strMul i n) = true := by
  unfold strMul
  induction n.toNat with
  | zero => simp [W]
  | succ k ih =>
    simp only [W, List.replicate_succ, List.flatten_cons, List.all_append, Bool.and_eq_true] at ih ⊢
    exact ⟨h, ih⟩

/-- 1 when a start tag is pending -/
def pend1 (w : WState) : Int := if w.pending.isSome then 1 else 0

/-- the invariant tying the native writer's calls to the inherited handler's calls -/
structure Inv (e : Env) (s : IState) : Prop where
  sim : Sim e (normState e s.out) (normState e (s.w.out.map ISax.sax))
  /-- layout is only ever pending in front of a start tag, or outside the root element -/
  guard : (normState e s.out).buf ≠ (normState e (s.w.out.map ISax.sax)).buf →
    s.w.pending.isSome = true ∨
      ((normState e (s.w.out.map ISax.sax)).prevOpen = false ∧ (normState e (s.w.out.map ISax.sax)).depth = 0)
  pend : s.pendingEnd = true →
    s.w.pending = none ∧ (normState e (s.w.out.map ISax.sax)).prevOpen = false
  flag : s.afterChars = false →
    (normState e (s.w.out.map ISax.sax)).buf = [] ∨ s.w.pending.isSome = true
  lvl : s.level = (normState e (s.w.out.map ISax.sax)).depth + pend1 s.w

/-- what feeding the flushed start tag does to both readers -/
theorem feed_open_part {e : Env} {w : WState} {nI nP : NState} {o : List Sax}
    (h : Sim e nI nP) (ho : OpenPart w o) :
    Sim e (feedAll e nI (o.map ISax.sax)) (feedAll e nP (o.map ISax.sax)) ∧
    (w.pending.isSome = true →
      (feedAll e nI (o.map ISax.sax)).buf = (feedAll e nP (o.map ISax.sax)).buf ∧
      (feedAll e nP (o.map ISax.sax)).buf = []) ∧
    (w.pending = none → o = []) ∧
    (feedAll e nP (o.map ISax.sax)).depth = nP.depth + pend1 w := by
  rcases ho with ⟨hp, rfl⟩ | ⟨q, a, hq, rfl⟩
  · refine ⟨by simpa [feedAll] using h, ?_, fun _ => rfl, ?_⟩
    · intro hs; rw [hp] at hs; cases hs
    · simp [feedAll, pend1, hp]
  · have ho := h.open q a
    have k := flush_keeps e nP false
    refine ⟨by simpa [feedAll] using ho.1, ?_, ?_, ?_⟩
    · intro _
      refine ⟨by simpa [feedAll] using ho.2, ?_⟩
      simp [feedAll, NState.feed, k.2.2.2]
    · intro hn; rw [hn] at hq; cases hq
    · simp [feedAll, NState.feed, pend1, hq, k.2.1]

theorem depth_feed_chars (e : Env) (n : NState) (s : Str) :
    (n.feed e (.sax (.chars s))).depth = n.depth := rfl

set_option maxHeartbeats 1000000 in
theorem step_inv (e : Env) (m : NsMap) (isDt : Str → Bool) (indent : Option Str) (i : Str)
    (hi : indentOn indent = some i) (hW : W e i = true)
    (s : IState) (hinv : Inv e s) (ev : Ev) (w' : WState)
    (hstep : s.w.step m isDt ev = .ok w')
    (hbad : (normState e (w'.out.map ISax.sax)).bad = false) :
    ∃ s', s.step m isDt indent ev = .ok s' ∧ s'.w = w' ∧ Inv e s' := by
  obtain ⟨o, c, hout, hsh⟩ := step_shape m isDt s.w ev w' hstep
  have hsup := super_of_step hstep hout
  -- the plain reader state after the step
  have hP : normState e (w'.out.map ISax.sax)
      = feedAll e (feedAll e (normState e (s.w.out.map ISax.sax)) (o.map ISax.sax)) (c.map ISax.sax) := by
    rw [hout, List.map_append, List.map_append, normState_append, feedAll_append]
  generalize hnP : normState e (s.w.out.map ISax.sax) = nP at hP
  generalize hnI : normState e s.out = nI
  have hsim : Sim e nI nP := by rw [← hnP, ← hnI]; exact hinv.sim
  have hguard : nI.buf ≠ nP.buf → s.w.pending.isSome = true ∨ (nP.prevOpen = false ∧ nP.depth = 0) := by
    rw [← hnP, ← hnI]; exact hinv.guard
  have hpend : s.pendingEnd = true → s.w.pending = none ∧ nP.prevOpen = false := by
    rw [← hnP]; exact hinv.pend
  have hflag : s.afterChars = false → nP.buf = [] ∨ s.w.pending.isSome = true := by
    rw [← hnP]; exact hinv.flag
  have hlvl : s.level = nP.depth + pend1 s.w := by rw [← hnP]; exact hinv.lvl
  cases ev with
  | attr q d =>
    obtain ⟨rfl, rfl, hp⟩ := hsh
    refine ⟨_, by simp only [IState.step]; exact hsup, rfl, ?_⟩
    have hw : w'.out = s.w.out := by simpa using hout
    have hpp : pend1 w' = pend1 s.w := by simp [pend1, hp]
    constructor
    · simpa [hw] using hinv.sim
    · simpa [hw, hp] using hinv.guard
    · intro h; simpa [hw, hp] using hinv.pend h
    · intro h; simpa [hw, hp] using hinv.flag (by simpa using h)
    · simp only [hw, hpp]; exact hinv.lvl
  | data d =>
    obtain ⟨ho, hc, hp⟩ := hsh
    refine ⟨_, by simp only [IState.step]; exact hsup, rfl, ?_⟩
    obtain ⟨hs1, hsome, hnone, hdep⟩ := feed_open_part hsim ho
    -- buffers are equal before the characters call, otherwise it is character data outside the root
    have heq1 : c ≠ [] → (feedAll e nI (o.map ISax.sax)).buf = (feedAll e nP (o.map ISax.sax)).buf := by
      intro hcne
      cases hpd : s.w.pending with
      | some q => exact (hsome (by simp [hpd])).1
      | none =>
        have ho' := hnone hpd
        subst ho'
        by_cases hb : nI.buf = nP.buf
        · simpa [feedAll] using hb
        · exfalso
          rcases hguard hb with hg | hg
          · rw [hpd] at hg; cases hg
          · rcases hc with rfl | ⟨t, rfl⟩
            · exact hcne rfl
            · rw [hP] at hbad
              simp [feedAll, NState.feed, hg.2] at hbad
    have hsimF : Sim e (feedAll e (feedAll e nI (o.map ISax.sax)) (c.map ISax.sax))
        (feedAll e (feedAll e nP (o.map ISax.sax)) (c.map ISax.sax)) ∧
        (c ≠ [] → (feedAll e (feedAll e nI (o.map ISax.sax)) (c.map ISax.sax)).buf
          = (feedAll e (feedAll e nP (o.map ISax.sax)) (c.map ISax.sax)).buf) := by
      rcases hc with rfl | ⟨t, rfl⟩
      · exact ⟨by simpa [feedAll] using hs1, fun h => absurd rfl h⟩
      · have := hs1.chars (heq1 (by simp)) t
        exact ⟨by simpa [feedAll] using this.1, fun _ => by simpa [feedAll] using this.2⟩
    have houtI : normState e (s.out ++ (o ++ c).map ISax.sax)
        = feedAll e (feedAll e nI (o.map ISax.sax)) (c.map ISax.sax) := by
      rw [List.map_append, ← List.append_assoc, normState_append, normState_append, hnI]
    constructor
    · show Sim e (normState e (s.out ++ (o ++ c).map ISax.sax)) (normState e (w'.out.map ISax.sax))
      rw [houtI, hP]; exact hsimF.1
    · show (normState e (s.out ++ (o ++ c).map ISax.sax)).buf ≠ (normState e (w'.out.map ISax.sax)).buf → _
      rw [houtI, hP]
      intro hne
      -- buffers differ only if nothing was appended at all
      have hc0 : c = [] := by
        by_cases hc0 : c = []
        · exact hc0
        · exact absurd (hsimF.2 hc0) hne
      subst hc0
      cases hpd : s.w.pending with
      | some q => exact absurd (hsome (by simp [hpd])).1 (by simpa [feedAll] using hne)
      | none =>
        have ho' := hnone hpd
        subst ho'
        have hne' : nI.buf ≠ nP.buf := by simpa [feedAll] using hne
        rcases hguard hne' with hg | hg
        · rw [hpd] at hg; cases hg
        · right; simpa [feedAll] using hg
    · intro hpe
      obtain ⟨hpn, hpo⟩ := hpend hpe
      refine ⟨hp, ?_⟩
      have ho' := hnone hpn
      subst ho'
      show (normState e (w'.out.map ISax.sax)).prevOpen = false
      rw [hP]
      rcases hc with rfl | ⟨t, rfl⟩
      · simpa [feedAll] using hpo
      · simpa [feedAll, NState.feed] using hpo
    · intro haf
      left
      show (normState e (w'.out.map ISax.sax)).buf = []
      have haf' : s.afterChars = false ∧ (o ++ c).any Sax.isChars = false := by
        simpa [Bool.or_eq_false_iff] using haf
      have hc0 : c = [] := by
        rcases hc with rfl | ⟨t, rfl⟩
        · rfl
        · have := haf'.2; simp [Sax.isChars] at this
      subst hc0
      rw [hP]
      cases hpd : s.w.pending with
      | some q => simpa [feedAll] using (hsome (by simp [hpd])).2
      | none =>
        have ho' := hnone hpd
        subst ho'
        rcases hflag haf'.1 with h | h
        · simpa [feedAll] using h
        · rw [hpd] at h; cases h
    · show s.level = (normState e (w'.out.map ISax.sax)).depth + pend1 w'
      rw [hP]
      have hd2 : (feedAll e (feedAll e nP (o.map ISax.sax)) (c.map ISax.sax)).depth
          = (feedAll e nP (o.map ISax.sax)).depth := by
        rcases hc with rfl | ⟨t, rfl⟩ <;> rfl
      rw [hd2, hdep, hlvl]
      simp [pend1, hp]
  | start q =>
    obtain ⟨ho, rfl, hp⟩ := hsh
    obtain ⟨hs1, hsome, hnone, hdep⟩ := feed_open_part hsim ho
    have hP' : normState e (w'.out.map ISax.sax) = feedAll e nP (o.map ISax.sax) := by
      rw [hP]; rfl
    have houtI : normState e (s.out ++ (o ++ []).map ISax.sax) = feedAll e nI (o.map ISax.sax) := by
      rw [List.append_nil, normState_append, hnI]
    have hany : (o ++ ([] : List Sax)).any Sax.isChars = false := by
      rcases ho with ⟨_, rfl⟩ | ⟨q', a, _, rfl⟩ <;> rfl
    have hlvl' : s.level + 1 = (normState e (w'.out.map ISax.sax)).depth + pend1 w' := by
      rw [hP', hdep, hlvl]; simp [pend1, hp]; try omega
    by_cases hl : (s.level ≠ 0 && !(s.afterChars || (o ++ []).any Sax.isChars)) = true
    · -- layout is written: the plain buffer is empty
      simp only [IState.step, hsup, hi, hl, if_true]
      refine ⟨_, rfl, rfl, ?_⟩
      have haf : s.afterChars = false := by
        simp only [hany, Bool.or_false, Bool.and_eq_true, Bool.not_eq_true'] at hl
        exact hl.2
      have hbP : (feedAll e nP (o.map ISax.sax)).buf = [] := by
        cases hpd : s.w.pending with
        | some q' => exact (hsome (by simp [hpd])).2
        | none =>
          have ho' := hnone hpd
          subst ho'
          rcases hflag haf with h | h
          · simpa [feedAll] using h
          · rw [hpd] at h; cases h
      have hsimW := (hs1.ws _ (W_newline e) hbP).ws _ (W_strMul e i s.level hW) hbP
      have houtW : normState e ((s.out ++ (o ++ []).map ISax.sax ++ [ISax.ws ['\n']]) ++ [ISax.ws (strMul i s.level)])
          = ((feedAll e nI (o.map ISax.sax)).feed e (.ws ['\n'])).feed e (.ws (strMul i s.level)) := by
        rw [normState_append, normState_append, houtI]; rfl
      constructor
      · simp only [IState.ignorableWs]
        rw [houtW, hP']; exact hsimW
      · intro _; left; simp [IState.ignorableWs, hp]
      · intro h; cases h
      · intro _; right; simp [IState.ignorableWs, hp]
      · exact hlvl'
    · simp only [IState.step, hsup, hi, hl]
      refine ⟨_, rfl, rfl, ?_⟩
      constructor
      · simp only [Bool.false_eq_true, if_false]
        rw [houtI, hP']; exact hs1
      · intro _; left; simp [hp]
      · intro h; cases h
      · intro _; right; simp [hp]
      · simpa using hlvl'
  | «end» q =>
    obtain ⟨ho, hc, hp⟩ := hsh
    simp only [IState.step, hi]
    -- the state before `super().end_tag`
    generalize hs0 : ({ (if (s.pendingEnd && !s.afterChars) = true then
        (({ s with level := s.level - 1 } : IState).ignorableWs ['\n']).ignorableWs (strMul i (s.level - 1))
        else { s with level := s.level - 1 }) with afterChars := false } : IState) = s0
    have hw0 : s0.w = s.w := by rw [← hs0]; split <;> rfl
    have hl0 : s0.level = s.level - 1 := by rw [← hs0]; split <;> rfl
    have haf0 : s0.afterChars = false := by rw [← hs0]
    have hpe0 : s0.pendingEnd = s.pendingEnd := by rw [← hs0]; split <;> rfl
    have hsim0 : Sim e (normState e s0.out) nP ∧
        ((normState e s0.out).buf ≠ nP.buf → s.w.pending.isSome = true ∨ nP.prevOpen = false) := by
      rw [← hs0]
      by_cases hpe : (s.pendingEnd && !s.afterChars) = true
      · simp only [Bool.and_eq_true, Bool.not_eq_true'] at hpe
        obtain ⟨hpn, hpo⟩ := hpend hpe.1
        have hb : nP.buf = [] := by
          rcases hflag hpe.2 with h | h
          · exact h
          · rw [hpn] at h; cases h
        simp only [hpe.1, hpe.2, Bool.not_false, Bool.and_self, if_true, IState.ignorableWs, List.append_assoc]
        rw [normState_append, hnI]
        exact ⟨(hsim.ws _ (W_newline e) hb).ws _ (W_strMul e i _ hW) hb, fun _ => Or.inr hpo⟩
      · simp only [hpe, Bool.false_eq_true, if_false]
        rw [hnI]
        refine ⟨hsim, fun hne => ?_⟩
        rcases hguard hne with h | h
        · exact Or.inl h
        · exact Or.inr h.1
    have hstep0 : s0.w.step m isDt (.end q) = .ok w' := by rw [hw0]; exact hstep
    have hout0 : w'.out = s0.w.out ++ (o ++ c) := by rw [hw0]; exact hout
    have hsup0 := super_of_step hstep0 hout0
    rw [hsup0]
    obtain ⟨hs1, hsome, hnone, hdep⟩ := feed_open_part hsim0.1 ho
    -- the end tag
    have hctx : (feedAll e (normState e s0.out) (o.map ISax.sax)).buf ≠ (feedAll e nP (o.map ISax.sax)).buf →
        (feedAll e nP (o.map ISax.sax)).prevOpen = false := by
      intro hne
      cases hpd : s.w.pending with
      | some q' => exact absurd (hsome (by simp [hpd])).1 hne
      | none =>
        have ho' := hnone hpd
        subst ho'
        have hne' : (normState e s0.out).buf ≠ nP.buf := by simpa [feedAll] using hne
        rcases hsim0.2 hne' with h | h
        · rw [hpd] at h; cases h
        · simpa [feedAll] using h
    have hcl := hs1.close q hctx
    have hsim2 : Sim e (feedAll e (feedAll e (normState e s0.out) (o.map ISax.sax)) (c.map ISax.sax))
        (feedAll e (feedAll e nP (o.map ISax.sax)) (c.map ISax.sax)) ∧
        (feedAll e (feedAll e (normState e s0.out) (o.map ISax.sax)) (c.map ISax.sax)).buf
          = (feedAll e (feedAll e nP (o.map ISax.sax)) (c.map ISax.sax)).buf := by
      rcases hc with rfl | ⟨t, rfl⟩
      · simpa [feedAll] using hcl
      · have := hcl.1.chars hcl.2 t
        simpa [feedAll] using this
    have houtI : normState e (s0.out ++ (o ++ c).map ISax.sax)
        = feedAll e (feedAll e (normState e s0.out) (o.map ISax.sax)) (c.map ISax.sax) := by
      rw [List.map_append, ← List.append_assoc, normState_append, normState_append]
    have hpo' : (normState e (w'.out.map ISax.sax)).prevOpen = false := by
      rw [hP]
      rcases hc with rfl | ⟨t, rfl⟩ <;> rfl
    have hd' : (normState e (w'.out.map ISax.sax)).depth = nP.depth + pend1 s.w - 1 := by
      rw [hP]
      have : (feedAll e (feedAll e nP (o.map ISax.sax)) (c.map ISax.sax)).depth
          = (feedAll e nP (o.map ISax.sax)).depth - 1 := by
        have k := flush_keeps e (feedAll e nP (o.map ISax.sax)) true
        rcases hc with rfl | ⟨t, rfl⟩ <;>
          simp only [List.map_cons, List.map_nil, feedAll_cons, feedAll_nil, NState.feed] <;> rw [k.2.1]
      rw [this, hdep]
    have hlvl' : s0.level = (normState e (w'.out.map ISax.sax)).depth + pend1 w' := by
      rw [hl0, hd', hlvl]; simp [pend1, hp]
    have hflag' : (false || (o ++ c).any Sax.isChars) = false → (normState e (w'.out.map ISax.sax)).buf = [] := by
      intro haf
      have hc0 : c = [Sax.close q] := by
        rcases hc with rfl | ⟨t, rfl⟩
        · rfl
        · simp [Sax.isChars] at haf
      subst hc0
      rw [hP]
      have k := flush_keeps e (feedAll e nP (o.map ISax.sax)) true
      simp only [List.map_cons, List.map_nil, feedAll_cons, feedAll_nil, NState.feed]
      exact k.2.2.2
    by_cases hl : s0.level = 0
    · -- the root element has ended: a final newline
      have hd0 : (normState e (w'.out.map ISax.sax)).depth = 0 := by
        rw [hl] at hlvl'; simp [pend1, hp] at hlvl'; omega
      -- a tail written after the root's end tag would be character data outside the root
      have hc0 : c = [Sax.close q] := by
        rcases hc with rfl | ⟨t, rfl⟩
        · rfl
        · exfalso
          rw [hP] at hbad hd0
          simp only [List.map_cons, List.map_nil, feedAll_cons, feedAll_nil] at hbad hd0
          rw [depth_feed_chars] at hd0
          simp [NState.feed, hd0] at hbad
          have := hd0
          simp [NState.feed] at this
          omega
      refine ⟨_, rfl, by simp [hl, IState.ignorableWs, haf0], ?_⟩
      have hbP : (normState e (w'.out.map ISax.sax)).buf = [] := by
        apply hflag'; subst hc0; rcases ho with ⟨_, rfl⟩ | ⟨q', a, _, rfl⟩ <;> rfl
      constructor
      · simp only [hl, if_true, IState.ignorableWs, haf0]
        rw [normState_append, houtI, hP]
        have := hsim2.1.ws _ (W_newline e) (by rw [← hP]; exact hbP)
        simpa [feedAll] using this
      · intro _
        right
        simp only [hl, if_true, IState.ignorableWs]
        exact ⟨hpo', hd0⟩
      · intro _
        simp only [hl, if_true, IState.ignorableWs]
        exact ⟨hp, hpo'⟩
      · intro haf
        left
        simp only [hl, if_true, IState.ignorableWs, haf0] at haf ⊢
        exact hflag' haf
      · simp only [hl, if_true, IState.ignorableWs]
        rw [← hl]; exact hlvl'
    · refine ⟨_, rfl, by simp [hl], ?_⟩
      constructor
      · simp only [hl, if_false]
        rw [houtI, hP]; exact hsim2.1
      · intro hne
        simp only [hl, if_false] at hne
        rw [houtI, hP] at hne
        exact absurd hsim2.2 hne
      · intro _
        simp only [hl, if_false]
        exact ⟨hp, hpo'⟩
      · intro haf
        left
        simp only [hl, if_false, haf0] at haf ⊢
        exact hflag' haf
      · simp only [hl, if_false]
        exact hlvl'

end Xs.Backends

namespace Xs.Backends
open Py Xs.Bind

/-! ### whole runs -/

theorem eraseWs_append (xs ys : List ISax) : eraseWs (xs ++ ys) = eraseWs xs ++ eraseWs ys := by
  induction xs with
  | nil => rfl
  | cons x xs ih => cases x <;> simp [eraseWs, ih]

theorem eraseWs_map_sax (d : List Sax) : eraseWs (d.map ISax.sax) = d := by
  induction d with
  | nil => rfl
  | cons x xs ih => simp [eraseWs, ih]

theorem eraseWs_ws (c : Str) : eraseWs [ISax.ws c] = [] := rfl

theorem foldlM_cons_ok {α β : Type} (f : β → α → Except Err β) (b b' : β) (a : α) (l : List α)
    (h : f b a = .ok b') : (a :: l).foldlM f b = l.foldlM f b' := by
  simp [List.foldlM, h, bind, Except.bind]

theorem foldlM_cons_err {α β : Type} (f : β → α → Except Err β) (b : β) (a : α) (l : List α) (x : Err)
    (h : f b a = .error x) : (a :: l).foldlM f b = .error x := by
  simp [List.foldlM, h, bind, Except.bind]

theorem foldlM_nil_ok {α β : Type} (f : β → α → Except Err β) (b : β) :
    ([] : List α).foldlM f b = .ok b := rfl

/-- one event: the native writer makes the inherited calls plus `ignorableWhitespace` calls, and fails
exactly when the inherited handler fails -/
theorem step_erase (m : NsMap) (isDt : Str → Bool) (indent : Option Str) (s : IState)
    (h : eraseWs s.out = s.w.out) (ev : Ev) :
    match s.w.step m isDt ev with
    | .ok w' => ∃ s', s.step m isDt indent ev = .ok s' ∧ s'.w = w' ∧ eraseWs s'.out = w'.out
    | .error x => s.step m isDt indent ev = .error x := by
  -- the state `end_tag` hands to the inherited method
  have pre : ∀ (i : Str), ∃ s0 : IState, ({ (if (s.pendingEnd && !s.afterChars) = true then
        (({ s with level := s.level - 1 } : IState).ignorableWs ['\n']).ignorableWs (strMul i (s.level - 1))
        else { s with level := s.level - 1 }) with afterChars := false } : IState) = s0 ∧
        s0.w = s.w ∧ eraseWs s0.out = s.w.out := by
    intro i
    refine ⟨_, rfl, ?_, ?_⟩
    · split <;> rfl
    · split
      · simp only [IState.ignorableWs, eraseWs_append, eraseWs_ws, List.append_nil]; exact h
      · exact h
  cases hst : s.w.step m isDt ev with
  | error x =>
    have hsup := super_err (s := s) hst
    cases ev with
    | start q => simp only [IState.step, hsup]
    | attr q d => simp only [IState.step, hsup]
    | data d => simp only [IState.step, hsup]
    | «end» q =>
      simp only [IState.step]
      cases hi : indentOn indent with
      | none => simp only [hsup]
      | some i =>
        simp only []
        obtain ⟨s0, hs0, hw0, _⟩ := pre i
        rw [hs0]
        have hst0 : s0.w.step m isDt (.end q) = .error x := by rw [hw0]; exact hst
        rw [super_err hst0]
  | ok w' =>
    obtain ⟨d, hd⟩ := step_out_append m isDt s.w ev w' hst
    have hsup := super_of_step hst hd
    have hE : eraseWs (s.out ++ d.map ISax.sax) = w'.out := by
      rw [eraseWs_append, eraseWs_map_sax, h, hd]
    cases ev with
    | attr q d => exact ⟨_, by simp only [IState.step]; exact hsup, rfl, hE⟩
    | data d => exact ⟨_, by simp only [IState.step]; exact hsup, rfl, hE⟩
    | start q =>
      simp only [IState.step, hsup]
      cases hi : indentOn indent with
      | none => exact ⟨_, rfl, rfl, hE⟩
      | some i =>
        simp only []
        split
        · refine ⟨_, rfl, rfl, ?_⟩
          simp only [IState.ignorableWs, eraseWs_append, eraseWs_ws, List.append_nil]
          rw [← eraseWs_append]; exact hE
        · exact ⟨_, rfl, rfl, hE⟩
    | «end» q =>
      simp only [IState.step]
      cases hi : indentOn indent with
      | none => exact ⟨_, hsup, rfl, hE⟩
      | some i =>
        simp only []
        obtain ⟨s0, hs0, hw0, he0⟩ := pre i
        rw [hs0]
        have hst0 : s0.w.step m isDt (.end q) = .ok w' := by rw [hw0]; exact hst
        have hd0 : w'.out = s0.w.out ++ d := by rw [hw0]; exact hd
        rw [super_of_step hst0 hd0]
        have hE0 : eraseWs (s0.out ++ d.map ISax.sax) = w'.out := by
          rw [eraseWs_append, eraseWs_map_sax, he0, hd]
        simp only []
        split
        · refine ⟨_, rfl, rfl, ?_⟩
          simp only [IState.ignorableWs, eraseWs_append, eraseWs_ws, List.append_nil]
          rw [← eraseWs_append]; exact hE0
        · exact ⟨_, rfl, rfl, hE0⟩

theorem run_erase (m : NsMap) (isDt : Str → Bool) (indent : Option Str) (evs : List Ev) (s : IState)
    (h : eraseWs s.out = s.w.out) :
    match evs.foldlM (WState.step m isDt) s.w with
    | .ok wf => ∃ sf, evs.foldlM (IState.step m isDt indent) s = .ok sf ∧ sf.w = wf ∧ eraseWs sf.out = wf.out
    | .error x => evs.foldlM (IState.step m isDt indent) s = .error x := by
  induction evs generalizing s with
  | nil => exact ⟨s, rfl, rfl, h⟩
  | cons ev evs ih =>
    have h1 := step_erase m isDt indent s h ev
    cases hst : s.w.step m isDt ev with
    | error x =>
      rw [hst] at h1
      rw [foldlM_cons_err _ _ _ _ _ hst, foldlM_cons_err _ _ _ _ _ h1]
    | ok w1 =>
      rw [hst] at h1
      obtain ⟨s1, hs1, hw1, he1⟩ := h1
      rw [foldlM_cons_ok _ _ _ _ _ hst, foldlM_cons_ok _ _ _ _ _ hs1]
      have := ih s1 (by rw [he1, hw1])
      rw [hw1] at this
      exact this

theorem run_out_append (m : NsMap) (isDt : Str → Bool) (evs : List Ev) (w wf : WState)
    (h : evs.foldlM (WState.step m isDt) w = .ok wf) : ∃ d, wf.out = w.out ++ d := by
  induction evs generalizing w with
  | nil =>
    have : w = wf := by
      have h' : (Except.ok w : Except Err WState) = .ok wf := h
      exact Except.ok.inj h'
    exact ⟨[], by simp [this]⟩
  | cons ev evs ih =>
    cases hst : w.step m isDt ev with
    | error x => rw [foldlM_cons_err _ _ _ _ _ hst] at h; cases h
    | ok w1 =>
      rw [foldlM_cons_ok _ _ _ _ _ hst] at h
      obtain ⟨d1, hd1⟩ := step_out_append m isDt w ev w1 hst
      obtain ⟨d2, hd2⟩ := ih w1 h
      exact ⟨d1 ++ d2, by rw [hd2, hd1, List.append_assoc]⟩

theorem run_inv (e : Env) (m : NsMap) (isDt : Str → Bool) (indent : Option Str) (i : Str)
    (hi : indentOn indent = some i) (hW : W e i = true) (evs : List Ev) (s : IState) (hinv : Inv e s)
    (wf : WState) (hrun : evs.foldlM (WState.step m isDt) s.w = .ok wf)
    (hbad : (normState e (wf.out.map ISax.sax)).bad = false) :
    ∃ sf, evs.foldlM (IState.step m isDt indent) s = .ok sf ∧ sf.w = wf ∧ Inv e sf := by
  induction evs generalizing s with
  | nil =>
    have : s.w = wf := by
      have h' : (Except.ok s.w : Except Err WState) = .ok wf := hrun
      exact Except.ok.inj h'
    exact ⟨s, rfl, this, hinv⟩
  | cons ev evs ih =>
    cases hst : s.w.step m isDt ev with
    | error x => rw [foldlM_cons_err _ _ _ _ _ hst] at hrun; cases hrun
    | ok w1 =>
      rw [foldlM_cons_ok _ _ _ _ _ hst] at hrun
      obtain ⟨d, hd⟩ := run_out_append m isDt evs w1 wf hrun
      have hb1 : (normState e (w1.out.map ISax.sax)).bad = false := by
        rw [hd, List.map_append, normState_append] at hbad
        exact feedAll_bad_mono e _ _ hbad
      obtain ⟨s1, hs1, hw1, hinv1⟩ := step_inv e m isDt indent i hi hW s hinv ev w1 hst hb1
      rw [foldlM_cons_ok _ _ _ _ _ hs1]
      exact ih s1 hinv1 (by rw [hw1]; exact hrun)

theorem eventsSax_ok (m : NsMap) (isDt : Str → Bool) (evs : List Ev) (plain : List Sax)
    (h : eventsSax m isDt evs = .ok plain) :
    ∃ wf, evs.foldlM (WState.step m isDt) {} = .ok wf ∧ wf.out = plain := by
  unfold eventsSax at h
  cases hf : evs.foldlM (WState.step m isDt) {} with
  | error x => simp [hf, bind, Except.bind] at h
  | ok wf =>
    refine ⟨wf, rfl, ?_⟩
    simpa [hf, bind, Except.bind, pure, Except.pure] using h

theorem eventsSax_err (m : NsMap) (isDt : Str → Bool) (evs : List Ev) (x : Err)
    (h : eventsSax m isDt evs = .error x) : evs.foldlM (WState.step m isDt) {} = .error x := by
  unfold eventsSax at h
  cases hf : evs.foldlM (WState.step m isDt) {} with
  | error y => simpa [hf, bind, Except.bind] using h
  | ok wf => simp [hf, bind, Except.bind, pure, Except.pure] at h

theorem Inv.init (e : Env) : Inv e {} where
  sim := Sim.refl e _
  guard := fun h => absurd rfl h
  pend := fun h => by cases h
  flag := fun _ => Or.inl rfl
  lvl := rfl

end Xs.Backends

namespace Xs.Backends
open Py Xs.Bind

/-! ### `etree.indent` only touches layout -/

theorem treeTail_setTail (t : Tree) (x : Option Str) : treeTail (treeSetTail t x) = x := by
  cases t; rfl

theorem setTail_setTail (t : Tree) (x y : Option Str) : treeSetTail (treeSetTail t x) y = treeSetTail t y := by
  cases t; rfl

theorem treeTail_stripLayout (e : Env) (t : Tree) : treeTail (stripLayout e t) = treeTail t := by
  cases t with
  | node q a ns tx kids tl => cases kids <;> simp [stripLayout, treeTail]

theorem stripLayout_setTail (e : Env) (t : Tree) (x : Option Str) :
    stripLayout e (treeSetTail t x) = treeSetTail (stripLayout e t) x := by
  cases t with
  | node q a ns tx kids tl => cases kids <;> simp [stripLayout, treeSetTail]

theorem treeTail_indentNode (e : Env) (sp : Str) (l : Nat) (t : Tree) :
    treeTail (indentNode e sp l t) = treeTail t := by
  cases t with
  | node q a ns tx kids tl => cases kids <;> simp [indentNode, treeTail]

theorem wsOnly_indentation (e : Env) (sp : Str) (l : Nat) (h : W e sp = true) :
    wsOnly e (some (indentation sp l)) = true := by
  have h1 := W_strMul e sp (l : Int) h
  have h2 : e.isSpace '\n' = true := by simpa [W] using W_newline e
  simp only [wsOnly, indentation, List.all_cons, Bool.and_eq_true]
  exact ⟨h2, by simpa [W] using h1⟩

mutual
theorem stripLayout_indentNode (e : Env) (sp : Str) (h : W e sp = true) (l : Nat) (t : Tree) :
    stripLayout e (indentNode e sp l t) = stripLayout e t := by
  match t with
  | .node q a ns tx [] tl => simp [indentNode]
  | .node q a ns tx (k :: ks) tl =>
    have hk := stripLayoutKids_indentKids e sp h l (k :: ks)
    simp only [indentNode]
    simp only [indentKids] at hk ⊢
    simp only [stripLayout]
    simp only [stripLayoutKids] at hk ⊢
    rw [hk]
    congr 1
    by_cases hw : wsOnly e tx = true
    · simp [hw, wsOnly_indentation e sp l h]
    · simp [hw]
theorem stripLayoutKids_indentKids (e : Env) (sp : Str) (h : W e sp = true) (l : Nat) (ks : List Tree) :
    stripLayoutKids e (indentKids e sp l ks) = stripLayoutKids e ks := by
  match ks with
  | [] => simp [indentKids]
  | k :: ks' =>
    have h1 := stripLayout_indentNode e sp h (l + 1) k
    have h2 := stripLayoutKids_indentKids e sp h l ks'
    simp only [indentKids, stripLayoutKids]
    rw [h2]
    congr 1
    rw [treeTail_indentNode]
    by_cases hw : wsOnly e (treeTail k) = true
    · simp only [hw, if_true]
      rw [stripLayout_setTail, h1, treeTail_setTail]
      have : wsOnly e (some (if ks'.isEmpty = true then indentation sp (l - 1) else indentation sp l)) = true := by
        split
        · exact wsOnly_indentation e sp _ h
        · exact wsOnly_indentation e sp _ h
      rw [this, treeTail_stripLayout, hw]
      simp [setTail_setTail]
    · simp only [hw]
      simp only [Bool.false_eq_true, if_false]
      rw [h1]
end

end Xs.Backends

namespace Xs.Backends
open Py Xs.Bind

/-! ### without indentation the native writer makes exactly the inherited calls -/

theorem step_flat (m : NsMap) (isDt : Str → Bool) (indent : Option Str) (hi : indentOn indent = none)
    (s s' : IState) (ev : Ev) (h : s.out = s.w.out.map ISax.sax) (hs : s.step m isDt indent ev = .ok s') :
    s'.out = s'.w.out.map ISax.sax := by
  have key : ∀ s1, s.super m isDt ev = .ok s1 → s1.out = s1.w.out.map ISax.sax := by
    intro s1 h1
    cases hst : s.w.step m isDt ev with
    | error x => rw [super_err hst] at h1; cases h1
    | ok w' =>
      obtain ⟨d, hd⟩ := step_out_append m isDt s.w ev w' hst
      rw [super_of_step hst hd] at h1
      cases h1
      simp [h, hd]
  cases ev with
  | attr q d => exact key s' (by simpa only [IState.step] using hs)
  | data d => exact key s' (by simpa only [IState.step] using hs)
  | «end» q => exact key s' (by simpa only [IState.step, hi] using hs)
  | start q =>
    simp only [IState.step, hi] at hs
    cases h1 : s.super m isDt (.start q) with
    | error x => rw [h1] at hs; cases hs
    | ok s1 =>
      rw [h1] at hs
      cases hs
      exact key _ h1

theorem run_flat (m : NsMap) (isDt : Str → Bool) (indent : Option Str) (hi : indentOn indent = none)
    (evs : List Ev) (s sf : IState) (h : s.out = s.w.out.map ISax.sax)
    (hs : evs.foldlM (IState.step m isDt indent) s = .ok sf) : sf.out = sf.w.out.map ISax.sax := by
  induction evs generalizing s with
  | nil =>
    have h' : (Except.ok s : Except Err IState) = .ok sf := hs
    cases h'; exact h
  | cons ev evs ih =>
    cases h1 : s.step m isDt indent ev with
    | error x => rw [foldlM_cons_err _ _ _ _ _ h1] at hs; cases hs
    | ok s1 =>
      rw [foldlM_cons_ok _ _ _ _ _ h1] at hs
      exact ih s1 (step_flat m isDt indent hi s s1 ev h h1) hs

theorem renderDoc_map_sax (d : Nat) (xs : List Sax) : renderDoc d (xs.map ISax.sax) = xs := by
  induction xs generalizing d with
  | nil => rfl
  | cons x xs ih => cases x <;> simp [renderDoc, ih]

end Xs.Backends

namespace Xs.Backends
open Py Xs.Bind

/-! ### a call stream that builds a tree keeps its character data inside elements -/

theorem saxTree_charsInside (m : NsMap) (xs : List Sax) :
    ∀ (stack : List Frame) (done : Option Tree) (t : Tree),
      saxTree m xs stack done = some t → charsInsideFrom (stack.length : Int) xs = true := by
  induction xs with
  | nil => intro _ _ _ _; rfl
  | cons x r ih =>
    intro stack done t h
    cases x with
    | «open» q a =>
      simp only [saxTree] at h
      split at h
      · cases h
      · have := ih _ _ _ h
        simp only [charsInsideFrom]
        simpa using this
    | chars s =>
      cases stack with
      | nil => simp [saxTree] at h
      | cons f st =>
        simp only [saxTree] at h
        simp only [charsInsideFrom, Bool.and_eq_true, bne_iff_ne, ne_eq]
        refine ⟨by simp only [List.length_cons]; omega, ?_⟩
        split at h
        · have := ih _ _ _ h; simpa using this
        · have := ih _ _ _ h; simpa using this
    | close q =>
      cases stack with
      | nil => simp [saxTree] at h
      | cons f st =>
        simp only [saxTree] at h
        split at h
        · cases h
        · simp only [charsInsideFrom]
          cases st with
          | nil => simpa using ih _ _ _ h
          | cons p ps =>
            have := ih _ _ _ h
            simpa using this

end Xs.Backends
