/-
xs:double / xs:float lexical space (XSD 1.1 Part 2 §3.3.5):
`(\+|-)?([0-9]+(\.[0-9]*)?|\.[0-9]+)([Ee](\+|-)?[0-9]+)? | (\+|-)?INF | NaN`
together with the exact decimal value a form denotes (before rounding to the
binary value space), and the shape of CPython's `repr(float)` for finite values.
-/
import XsdataModel.Proofs.DecimalL

namespace Xs.Spec
open Py Xs.Conv

/-- optional exponent: upper-case `E`?, sign, digits -/
def expPart : Option (Bool × Sign × Str) → Str
  | none => []
  | some (upper, sg, ed) => (if upper then 'E' else 'e') :: (sg.str ++ ed)

def expVal : Option (Bool × Sign × Str) → Int
  | none => 0
  | some (_, sg, ed) => if sg.neg then -(Int.ofNat (digitsNat ed)) else Int.ofNat (digitsNat ed)

/-- well-formed exponent: at least one digit -/
def ExpOk : Option (Bool × Sign × Str) → Prop
  | none => True
  | some (_, _, ed) => ed ≠ [] ∧ AllDigits ed

/-- the numeric forms of xs:double and the decimal value they denote -/
def XsdDoubleNum (s : Str) (lit : FloatLit) : Prop :=
  ∃ (sg : Sign) (ip fp : Str) (dot : Bool) (ex : Option (Bool × Sign × Str)),
    s = sg.str ++ (decBody ip fp dot ++ expPart ex) ∧
    AllDigits ip ∧ AllDigits fp ∧ (ip ≠ [] ∨ (dot = true ∧ fp ≠ [])) ∧ (dot = false → fp = []) ∧ ExpOk ex ∧
    lit = .fin sg.neg (digitsNat (ip ++ fp)) (expVal ex - (fp.length : Int))

/-- the special forms -/
def xsdDoubleSpecial : List (Str × FloatLit) :=
  [(['I', 'N', 'F'], .inf false), (['+', 'I', 'N', 'F'], .inf false), (['-', 'I', 'N', 'F'], .inf true),
   (['N', 'a', 'N'], .nan)]

def XsdDouble (s : Str) (lit : FloatLit) : Prop :=
  XsdDoubleNum s lit ∨ (s, lit) ∈ xsdDoubleSpecial

/-- the mantissa part of a repr: sign, integer digits, optional fraction -/
def reprMant (neg : Bool) (ip fp : Str) : Str :=
  (if neg then ['-'] else []) ++ (ip ++ (if fp = [] then [] else '.' :: fp))

/-- the exponent part of a repr: `e`, a sign (always written), digits -/
def reprExp : Option (Bool × Str) → Str
  | none => []
  | some (eneg, ed) => 'e' :: (if eneg then '-' else '+') :: ed

def reprExpVal : Option (Bool × Str) → Int
  | none => 0
  | some (eneg, ed) => if eneg then -(Int.ofNat (digitsNat ed)) else Int.ofNat (digitsNat ed)

def ReprExpOk : Option (Bool × Str) → Prop
  | none => True
  | some (_, ed) => ed ≠ [] ∧ AllDigits ed

/-- shape of `repr(x)` for a finite float: `-?D+(\.D+)?(e[+-]D+)?` and the decimal it denotes -/
def PyReprFinite (r : Str) (lit : FloatLit) : Prop :=
  ∃ (neg : Bool) (ip fp : Str) (ex : Option (Bool × Str)),
    r = reprMant neg ip fp ++ reprExp ex ∧ ip ≠ [] ∧ AllDigits ip ∧ AllDigits fp ∧ ReprExpOk ex ∧
    lit = .fin neg (digitsNat (ip ++ fp)) (reprExpVal ex - (fp.length : Int))

end Xs.Spec
