/-
`xsdata/codegen/handlers/designate_class_packages.py` — the structure styles
that do not go through the component search: `group_by_namespace`
(`namespaces`), `group_all_together` (`single-package`) and
`group_by_filenames` (`filenames`, the default) with `group_common_paths`.

A class contributes its qname, its target namespace and its `location` (the URI
of the schema file it came from).  `nsParts ns` stands for
`combine_ns_package(ns)` (pure string function of the configuration).
Locations are URIs, i.e. relative paths in the sense of `os.path` (a location
starting with "/" next to the initial `prev = ""` would make `os.path.commonpath`
raise; the mappers never produce one).
-/
import XsdataModel.Codegen.Packages

namespace Xs.Codegen
open Py

structure LocClass where
  qname : Str
  ns : Option Str := none
  location : Str := []
deriving Repr, DecidableEq

/-- `".".join(parts)` -/
def joinDots : List Str → Str
  | [] => []
  | [p] => p
  | p :: ps => p ++ '.' :: joinDots ps

/-- `s.split(sep)` for a one character separator -/
def splitChar (sep : Char) : Str → List Str
  | [] => [[]]
  | c :: cs =>
    if c = sep then [] :: splitChar sep cs
    else match splitChar sep cs with
      | p :: ps => (c :: p) :: ps
      | [] => [[c]]

/-- `mapM` in `Except`, written out -/
def mapExcept {α β ε} (f : α → Except ε β) : List α → Except ε (List β)
  | [] => .ok []
  | a :: as =>
    match f a with
    | .error e => .error e
    | .ok b =>
      match mapExcept f as with
      | .error e => .error e
      | .ok bs => .ok (b :: bs)

/-! ### namespaces -/

/-- `parts = combine_ns_package(ns); module = parts.pop(); package = ".".join(parts)` -/
def namespaceTarget (nsParts : Option Str → List Str) (ns : Option Str) : Except PkgErr (Str × Str) :=
  match (nsParts ns).reverse with
  | [] => .error PkgErr.keyError   -- `pop from empty list` (IndexError): the output package is never empty
  | m :: restRev => .ok (joinDots restRev.reverse, m)

/-- `group_by_namespace`: every class goes to the module of its namespace
(`collections.group_by` partitions the container; each group is assigned once) -/
def groupByNamespace (nsParts : Option Str → List Str) (cs : List LocClass) :
    Except PkgErr (List (Str × Str × Str)) :=
  mapExcept (fun c => match namespaceTarget nsParts c.ns with
    | .ok pm => .ok (c.qname, pm.1, pm.2)
    | .error e => .error e) cs

/-! ### single package -/

/-- `group_all_together`: `package.split(".")`, the last part is the module -/
def groupAllTogether (package : Str) (cs : List LocClass) : List (Str × Str × Str) :=
  match (splitChar '.' package).reverse with
  | [] => cs.map (fun c => (c.qname, [], []))
  | m :: restRev => cs.map (fun c => (c.qname, joinDots restRev.reverse, m))

/-! ### filenames -/

/-- the components `os.path.commonpath` and `PurePosixPath.parts` work with:
split at "/", empty components and "." dropped -/
def pathSegs (p : Str) : List Str :=
  (splitChar '/' p).filter (fun s => !s.isEmpty && s != ['.'])

def commonPrefix : List Str → List Str → List Str
  | a :: as, b :: bs => if a = b then a :: commonPrefix as bs else []
  | _, _ => []

/-- components of `os.path.commonpath(paths)` (relative paths) -/
def commonSegs : List (List Str) → List Str
  | [] => []
  | [p] => p
  | p :: ps => commonPrefix p (commonSegs ps)

/-- `uri.split("/")[-1]` -/
def lastSlashPart (uri : Str) : Str := (uri.reverse.takeWhile (· != '/')).reverse

/-- `os.path.splitext(name)`: the extension starts at the last dot, leading dots do not count -/
def splitExt (name : Str) : Str × Str :=
  let extRev := name.reverse.takeWhile (· != '.')
  if extRev.length = name.length then (name, [])   -- no dot
  else
    let root := name.take (name.length - extRev.length - 1)
    if root.all (· == '.') then (name, [])
    else (root, '.' :: extRev.reverse)

def knownExtensions : List Str :=
  [['.', 'x', 's', 'd'], ['.', 'd', 't', 'd'], ['.', 'w', 's', 'd', 'l'], ['.', 'x', 'm', 'l'],
   ['.', 'j', 's', 'o', 'n']]

/-- `utils.package.module_name(uri)` -/
def moduleName (uri : Str) : Str :=
  let m := lastSlashPart uri
  let (name, ext) := splitExt m
  if knownExtensions.contains ext then name else m

/-- `groups[index].append(path)` on a `defaultdict(list)` kept in insertion order -/
def groupAppend (k : Nat) (p : Str) : List (Nat × List Str) → List (Nat × List Str)
  | [] => [(k, [p])]
  | (k', ps) :: rest => if k' = k then (k', ps ++ [p]) :: rest else (k', ps) :: groupAppend k p rest

structure GcpState where
  prev : Str := []
  index : Nat := 0
  groups : List (Nat × List Str) := []

/-- one iteration of the loop of `group_common_paths` (the second disjunct of
`if not common_path or common_path == path_parsed.scheme` can never hold: the first
path component of a URI contains the ':' of the scheme, the scheme does not) -/
def gcpStep (commonDir : Str) (st : GcpState) (path : Str) : GcpState :=
  if commonDir.isPrefixOf path then { st with groups := groupAppend 0 path st.groups }
  else
    let common := commonPrefix (pathSegs st.prev) (pathSegs path)
    let index := if common.isEmpty then st.index + 1 else st.index
    { prev := path, index := index, groups := groupAppend index path st.groups }

/-- `group_common_paths(paths)` -/
def groupCommonPaths (commonDir : Str) (paths : List Str) : List (List Str) :=
  ((pySorted paths).foldl (gcpStep commonDir) {}).groups.map (·.2)

/-- package and module of the classes of one location inside its group;
`relative_to` fails (`ValueError`) when the common path is not a prefix of the parent -/
def filenameTarget (package : Str) (common : List Str) (key : Str) : Except PkgErr (Str × Str) :=
  let parent := (pathSegs key).dropLast
  if common.isPrefixOf parent then
    let suffix := joinDots (parent.drop common.length)
    .ok (if suffix.isEmpty then package else package ++ '.' :: suffix, moduleName key)
  else .error PkgErr.keyError

/-- location ↦ (package, module) for all locations of the container -/
def filenameTargets (package commonDir : Str) (locations : List Str) :
    Except PkgErr (List (Str × Str × Str)) :=
  mapExcept (fun keys =>
    let common := match keys with
      | [k] => (pathSegs k).dropLast              -- `os.path.dirname(keys[0])`
      | _ => commonSegs (keys.map pathSegs)        -- `os.path.commonpath(keys)`
    mapExcept (fun key => match filenameTarget package common key with
      | .ok pm => .ok (key, pm.1, pm.2)
      | .error e => .error e) keys)
    (groupCommonPaths commonDir locations) |>.map List.flatten

/-- `group_by_filenames` -/
def groupByFilenames (package commonDir : Str) (cs : List LocClass) :
    Except PkgErr (List (Str × Str × Str)) :=
  match filenameTargets package commonDir (dedup (cs.map (·.location))) with
  | .error e => .error e
  | .ok targets =>
    mapExcept (fun c => match List.lookup c.location targets with
      | some pm => .ok (c.qname, pm.1, pm.2)
      | none => .error PkgErr.keyError) cs

end Xs.Codegen
