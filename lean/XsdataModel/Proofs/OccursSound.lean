/-
Helper lemmas for C02 (occurrence arithmetic), part 2: the language of a content model
against the path product computed by `CalculateAttributePaths`.
-/
import XsdataModel.Proofs.OccursBasic

namespace Xs.Gen
open Py

/-! ### unfolding the language -/

theorem matches_elem {name : Str} {mn mx : Nat} {w : List Str} :
    Matches (.elem name mn mx) w ↔ ∃ k, repOK k mn mx ∧ w = List.replicate k name := by
  simp only [Matches]

theorem matches_seq {mn mx : Nat} {ps : List Particle} {w : List Str} :
    Matches (.seq mn mx ps) w ↔
      ∃ ws : List (List Str), repOK ws.length mn mx ∧ (∀ x ∈ ws, SeqOnce ps x) ∧ w = ws.flatten := by
  simp only [Matches]

theorem matches_choice {mn mx : Nat} {ps : List Particle} {w : List Str} :
    Matches (.choice mn mx ps) w ↔
      ∃ ws : List (List Str), repOK ws.length mn mx ∧ (∀ x ∈ ws, ChoiceOnce ps x) ∧ w = ws.flatten := by
  simp only [Matches]

theorem seqOnce_nil {w : List Str} : SeqOnce [] w ↔ w = [] := by simp only [SeqOnce]
theorem seqOnce_cons {p : Particle} {ps : List Particle} {w : List Str} :
    SeqOnce (p :: ps) w ↔ ∃ a b, Matches p a ∧ SeqOnce ps b ∧ w = a ++ b := by simp only [SeqOnce]
theorem choiceOnce_nil {w : List Str} : ChoiceOnce [] w ↔ False := by simp only [ChoiceOnce]
theorem choiceOnce_cons {p : Particle} {ps : List Particle} {w : List Str} :
    ChoiceOnce (p :: ps) w ↔ (Matches p w ∨ ChoiceOnce ps w) := by simp only [ChoiceOnce]

theorem seqOnce_append {as bs : List Particle} : ∀ {w : List Str},
    SeqOnce (as ++ bs) w ↔ ∃ a b, SeqOnce as a ∧ SeqOnce bs b ∧ w = a ++ b := by
  induction as with
  | nil => intro w; simp [seqOnce_nil]
  | cons p ps ih =>
    intro w
    rw [List.cons_append, seqOnce_cons]
    constructor
    · rintro ⟨a, b, ha, hb, rfl⟩
      obtain ⟨b1, b2, h1, h2, rfl⟩ := ih.1 hb
      exact ⟨a ++ b1, b2, seqOnce_cons.2 ⟨a, b1, ha, h1, rfl⟩, h2, by simp⟩
    · rintro ⟨a, b, ha, hb, rfl⟩
      obtain ⟨a1, a2, h1, h2, rfl⟩ := seqOnce_cons.1 ha
      exact ⟨a1, a2 ++ b, h1, ih.2 ⟨a2, b, h2, hb, rfl⟩, by simp⟩

theorem choiceOnce_append {as bs : List Particle} {w : List Str} :
    ChoiceOnce (as ++ bs) w ↔ (ChoiceOnce as w ∨ ChoiceOnce bs w) := by
  induction as with
  | nil => simp [choiceOnce_nil]
  | cons p ps ih => rw [List.cons_append, choiceOnce_cons, choiceOnce_cons, ih, or_assoc]

/-- a repetition count under a bound that is not `unbounded` -/
theorem repOK_le {k mn mx : Nat} (h : repOK k mn mx) (hm : mx ≤ 1) : k ≤ mx := by
  rcases h.2 with h | h
  · have := maxsize_gt_one; omega
  · exact h

theorem count_flatten_le (n : Str) (c : Nat) : ∀ ws : List (List Str),
    (∀ x ∈ ws, x.count n ≤ c) → ws.flatten.count n ≤ ws.length * c := by
  intro ws
  induction ws with
  | nil => simp
  | cons x xs ih =>
    intro h
    rw [List.flatten_cons, List.count_append, List.length_cons, Nat.succ_mul]
    have h1 := h x List.mem_cons_self
    have h2 := ih (fun y hy => h y (List.mem_cons_of_mem _ hy))
    omega

/-! ### names of the sites -/

theorem sitesList_cons_fst (p : Particle) (ps : List Particle) (path : List PathE) (next : Nat) :
    (sitesList (p :: ps) path next).1 =
      (sitesAux p path next).1 ++ (sitesList ps path (sitesAux p path next).2).1 := by
  simp only [sitesList]

mutual
theorem sitesAux_names : (p : Particle) → ∀ (path : List PathE) (next : Nat),
    (sitesAux p path next).1.map (·.name) = names p
  | .elem name mn mx => by intro path next; simp [sitesAux, names]
  | .seq mn mx ps => by
    intro path next
    simp only [sitesAux, names]
    exact sitesList_names ps _ _
  | .choice mn mx ps => by
    intro path next
    simp only [sitesAux, names]
    exact sitesList_names ps _ _
theorem sitesList_names : (ps : List Particle) → ∀ (path : List PathE) (next : Nat),
    (sitesList ps path next).1.map (·.name) = namesList ps
  | [] => by intro path next; simp [sitesList, namesList]
  | p :: ps => by
    intro path next
    rw [sitesList_cons_fst, List.map_append, sitesAux_names p, sitesList_names ps, namesList]
end

theorem sites_names (p : Particle) : (sites p).map (·.name) = names p := by
  rw [sites_eq, withIndex_names, sitesAux_names]

/-! ### words over other names -/

mutual
theorem count_zero : (p : Particle) → ∀ (n : Str), n ∉ names p → ∀ w, Matches p w → w.count n = 0
  | .elem name mn mx => by
    intro n hn w hw
    obtain ⟨k, _, rfl⟩ := matches_elem.1 hw
    simp only [names, List.mem_singleton] at hn
    rw [List.count_replicate]
    have hne : (name == n) = false := by
      simp only [beq_eq_false_iff_ne, ne_eq]; exact fun h => hn h.symm
    simp [hne]
  | .seq mn mx ps => by
    intro n hn w hw
    obtain ⟨ws, _, hall, rfl⟩ := matches_seq.1 hw
    simp only [names] at hn
    have := count_flatten_le n 0 ws (fun x hx => by
      rw [(count_zero_list ps n hn).1 x (hall x hx)]; exact Nat.le_refl 0)
    omega
  | .choice mn mx ps => by
    intro n hn w hw
    obtain ⟨ws, _, hall, rfl⟩ := matches_choice.1 hw
    simp only [names] at hn
    have := count_flatten_le n 0 ws (fun x hx => by
      rw [(count_zero_list ps n hn).2 x (hall x hx)]; exact Nat.le_refl 0)
    omega
theorem count_zero_list : (ps : List Particle) → ∀ (n : Str), n ∉ namesList ps →
    (∀ w, SeqOnce ps w → w.count n = 0) ∧ (∀ w, ChoiceOnce ps w → w.count n = 0)
  | [] => by
    intro n _
    refine ⟨?_, ?_⟩
    · intro w hw; rw [seqOnce_nil.1 hw]; rfl
    · intro w hw; exact (choiceOnce_nil.1 hw).elim
  | p :: ps => by
    intro n hn
    simp only [namesList, List.mem_append, not_or] at hn
    refine ⟨?_, ?_⟩
    · intro w hw
      obtain ⟨a, b, ha, hb, rfl⟩ := seqOnce_cons.1 hw
      rw [List.count_append, count_zero p n hn.1 a ha, (count_zero_list ps n hn.2).1 b hb]
    · intro w hw
      rcases choiceOnce_cons.1 hw with h | h
      · exact count_zero p n hn.1 w h
      · exact (count_zero_list ps n hn.2).2 w h
end

/-! ### the bound: a path product `≤ 1` bounds the number of occurrences -/

theorem nodup_append_left {l₁ l₂ : List Str} (h : (l₁ ++ l₂).Nodup) : l₁.Nodup :=
  (List.nodup_append.1 h).1
theorem nodup_append_right {l₁ l₂ : List Str} (h : (l₁ ++ l₂).Nodup) : l₂.Nodup :=
  (List.nodup_append.1 h).2.1
theorem nodup_append_notMem_right {l₁ l₂ : List Str} (h : (l₁ ++ l₂).Nodup) {a : Str}
    (ha : a ∈ l₁) : a ∉ l₂ := fun hb => (List.nodup_append.1 h).2.2 a ha a hb rfl
theorem nodup_append_notMem_left {l₁ l₂ : List Str} (h : (l₁ ++ l₂).Nodup) {a : Str}
    (ha : a ∈ l₂) : a ∉ l₁ := fun hb => (List.nodup_append.1 h).2.2 a hb a ha rfl

/-- the repetition step shared by `seq` and `choice` -/
theorem bound_rep {n : Str} {mn mx sm : Nat} {q : List PathE} {ws : List (List Str)} (e : PathE)
    (he : e.max = mx)
    (hrep : repOK ws.length mn mx)
    (hb : sm * pathMaxProd (e :: q) ≤ 1)
    (ih : sm * pathMaxProd q ≤ 1 → ∀ x ∈ ws, x.count n ≤ sm * pathMaxProd q) :
    ws.flatten.count n ≤ sm * pathMaxProd (e :: q) := by
  have hcomm : sm * pathMaxProd (e :: q) = mx * (sm * pathMaxProd q) := by
    simp only [pathMaxProd, he]; exact Nat.mul_left_comm _ _ _
  rw [hcomm] at hb ⊢
  generalize sm * pathMaxProd q = X at hb ih ⊢
  by_cases hX : X ≤ 1
  · have hfl := count_flatten_le n X ws (ih hX)
    rcases Nat.eq_zero_or_pos X with rfl | hpos
    · simpa using hfl
    · have hX1 : X = 1 := by omega
      subst hX1
      have hmx : mx ≤ 1 := by simpa using hb
      have := repOK_le hrep hmx
      omega
  · have hmx : mx = 0 := by
      rcases Nat.eq_zero_or_pos mx with h | h
      · exact h
      · have : X ≤ mx * X := Nat.le_mul_of_pos_left X h
        omega
    subst hmx
    have := repOK_le hrep (by omega)
    have hws : ws = [] := List.eq_nil_of_length_eq_zero (by omega)
    subst hws
    simp

mutual
theorem bound_aux : (p : Particle) → ∀ (path : List PathE) (next : Nat) (s : Site),
    s ∈ (sitesAux p path next).1 →
    ∃ q, s.path = path ++ q ∧
      (s.max * pathMaxProd q ≤ 1 → (names p).Nodup →
        ∀ w, Matches p w → w.count s.name ≤ s.max * pathMaxProd q)
  | .elem name mn mx => by
    intro path next s hs
    simp only [sitesAux, List.mem_singleton] at hs
    subst hs
    refine ⟨[], by simp, ?_⟩
    intro hb _ w hw
    obtain ⟨k, hk, rfl⟩ := matches_elem.1 hw
    simp only [pathMaxProd, Nat.mul_one] at hb ⊢
    rw [List.count_replicate]
    simp only [BEq.rfl, if_true]
    exact repOK_le hk hb
  | .seq mn mx ps => by
    intro path next s hs
    simp only [sitesAux] at hs
    obtain ⟨q, hq, hbound⟩ := bound_auxList ps _ _ s hs
    refine ⟨⟨.s, next, mn, mx⟩ :: q, by rw [hq]; simp, ?_⟩
    intro hb hnd w hw
    obtain ⟨ws, hrep, hall, rfl⟩ := matches_seq.1 hw
    simp only [names] at hnd
    exact bound_rep ⟨.s, next, mn, mx⟩ rfl hrep hb
      (fun hX x hx => (hbound hX hnd).1 x (hall x hx))
  | .choice mn mx ps => by
    intro path next s hs
    simp only [sitesAux] at hs
    obtain ⟨q, hq, hbound⟩ := bound_auxList ps _ _ s hs
    refine ⟨⟨.c, next, mn, mx⟩ :: q, by rw [hq]; simp, ?_⟩
    intro hb hnd w hw
    obtain ⟨ws, hrep, hall, rfl⟩ := matches_choice.1 hw
    simp only [names] at hnd
    exact bound_rep ⟨.c, next, mn, mx⟩ rfl hrep hb
      (fun hX x hx => (hbound hX hnd).2 x (hall x hx))
theorem bound_auxList : (ps : List Particle) → ∀ (path : List PathE) (next : Nat) (s : Site),
    s ∈ (sitesList ps path next).1 →
    ∃ q, s.path = path ++ q ∧
      (s.max * pathMaxProd q ≤ 1 → (namesList ps).Nodup →
        (∀ w, SeqOnce ps w → w.count s.name ≤ s.max * pathMaxProd q) ∧
        (∀ w, ChoiceOnce ps w → w.count s.name ≤ s.max * pathMaxProd q))
  | [] => by
    intro path next s hs
    simp [sitesList] at hs
  | p :: ps => by
    intro path next s hs
    rw [sitesList_cons_fst, List.mem_append] at hs
    rcases hs with hs | hs
    · obtain ⟨q, hq, hbound⟩ := bound_aux p _ _ s hs
      refine ⟨q, hq, ?_⟩
      intro hb hnd
      simp only [namesList] at hnd
      have hmem : s.name ∈ names p := by
        rw [← sitesAux_names p path next]; exact List.mem_map.2 ⟨s, hs, rfl⟩
      have hz := count_zero_list ps s.name (nodup_append_notMem_right hnd hmem)
      have hp := hbound hb (nodup_append_left hnd)
      refine ⟨?_, ?_⟩
      · intro w hw
        obtain ⟨a, b, ha, hb', rfl⟩ := seqOnce_cons.1 hw
        rw [List.count_append, hz.1 b hb']
        exact hp a ha
      · intro w hw
        rcases choiceOnce_cons.1 hw with h | h
        · exact hp w h
        · rw [hz.2 w h]; exact Nat.zero_le _
    · obtain ⟨q, hq, hbound⟩ := bound_auxList ps _ _ s hs
      refine ⟨q, hq, ?_⟩
      intro hb hnd
      simp only [namesList] at hnd
      have hmem : s.name ∈ namesList ps := by
        rw [← sitesList_names ps path (sitesAux p path next).2]; exact List.mem_map.2 ⟨s, hs, rfl⟩
      have hz := count_zero p s.name (nodup_append_notMem_left hnd hmem)
      have hp := hbound hb (nodup_append_right hnd)
      refine ⟨?_, ?_⟩
      · intro w hw
        obtain ⟨a, b, ha, hb', rfl⟩ := seqOnce_cons.1 hw
        rw [List.count_append, hz a ha, Nat.zero_add]
        exact hp.1 b hb'
      · intro w hw
        rcases choiceOnce_cons.1 hw with h | h
        · rw [hz w h]; exact Nat.zero_le _
        · exact hp.2 w h
end

/-! ### exactly once: all factors on the path are `1..1` and no choice is on it -/

/-- the path of a required non-list field -/
def pathAllOnce (q : List PathE) : Prop := ∀ e ∈ q, e.kind ≠ .c ∧ e.min = 1 ∧ e.max = 1

mutual
theorem once_aux : (p : Particle) → ∀ (path : List PathE) (next : Nat) (s : Site),
    s ∈ (sitesAux p path next).1 →
    ∃ q, s.path = path ++ q ∧
      (s.min = 1 → s.max = 1 → pathAllOnce q → (names p).Nodup →
        ∀ w, Matches p w → w.count s.name = 1)
  | .elem name mn mx => by
    intro path next s hs
    simp only [sitesAux, List.mem_singleton] at hs
    subst hs
    refine ⟨[], by simp, ?_⟩
    intro hmin hmax _ _ w hw
    obtain ⟨k, hk, rfl⟩ := matches_elem.1 hw
    simp only at hmin hmax
    subst hmin hmax
    rw [List.count_replicate]
    simp only [BEq.rfl, if_true]
    have := repOK_le hk (Nat.le_refl 1)
    have := hk.1
    omega
  | .seq mn mx ps => by
    intro path next s hs
    simp only [sitesAux] at hs
    obtain ⟨q, hq, hone⟩ := once_auxList ps _ _ s hs
    refine ⟨⟨.s, next, mn, mx⟩ :: q, by rw [hq]; simp, ?_⟩
    intro hmin hmax hall hnd w hw
    obtain ⟨ws, hrep, hws, rfl⟩ := matches_seq.1 hw
    simp only [names] at hnd
    obtain ⟨_, hmn, hmx⟩ := hall _ List.mem_cons_self
    simp only at hmn hmx
    subst hmn hmx
    have h1 := repOK_le hrep (Nat.le_refl 1)
    have h2 := hrep.1
    have hlen : ws.length = 1 := by omega
    obtain ⟨x, rfl⟩ := List.length_eq_one_iff.1 hlen
    simp only [List.flatten_cons, List.flatten_nil, List.append_nil]
    exact hone hmin hmax (fun e he => hall e (List.mem_cons_of_mem _ he)) hnd x
      (hws x List.mem_cons_self)
  | .choice mn mx ps => by
    intro path next s hs
    simp only [sitesAux] at hs
    obtain ⟨q, hq, _⟩ := once_auxList ps _ _ s hs
    refine ⟨⟨.c, next, mn, mx⟩ :: q, by rw [hq]; simp, ?_⟩
    intro _ _ hall
    exact absurd rfl (hall _ List.mem_cons_self).1
theorem once_auxList : (ps : List Particle) → ∀ (path : List PathE) (next : Nat) (s : Site),
    s ∈ (sitesList ps path next).1 →
    ∃ q, s.path = path ++ q ∧
      (s.min = 1 → s.max = 1 → pathAllOnce q → (namesList ps).Nodup →
        ∀ w, SeqOnce ps w → w.count s.name = 1)
  | [] => by
    intro path next s hs
    simp [sitesList] at hs
  | p :: ps => by
    intro path next s hs
    rw [sitesList_cons_fst, List.mem_append] at hs
    rcases hs with hs | hs
    · obtain ⟨q, hq, hone⟩ := once_aux p _ _ s hs
      refine ⟨q, hq, ?_⟩
      intro hmin hmax hall hnd w hw
      simp only [namesList] at hnd
      have hmem : s.name ∈ names p := by
        rw [← sitesAux_names p path next]; exact List.mem_map.2 ⟨s, hs, rfl⟩
      have hz := count_zero_list ps s.name (nodup_append_notMem_right hnd hmem)
      obtain ⟨a, b, ha, hb', rfl⟩ := seqOnce_cons.1 hw
      rw [List.count_append, hz.1 b hb']
      exact hone hmin hmax hall (nodup_append_left hnd) a ha
    · obtain ⟨q, hq, hone⟩ := once_auxList ps _ _ s hs
      refine ⟨q, hq, ?_⟩
      intro hmin hmax hall hnd w hw
      simp only [namesList] at hnd
      have hmem : s.name ∈ namesList ps := by
        rw [← sitesList_names ps path (sitesAux p path next).2]; exact List.mem_map.2 ⟨s, hs, rfl⟩
      have hz := count_zero p s.name (nodup_append_notMem_left hnd hmem)
      obtain ⟨a, b, ha, hb', rfl⟩ := seqOnce_cons.1 hw
      rw [List.count_append, hz a ha, Nat.zero_add]
      exact hone hmin hmax hall (nodup_append_right hnd) b hb'
end

/-! ### non-empty ranges along the path -/

mutual
theorem wf_aux : (p : Particle) → ∀ (path : List PathE) (next : Nat) (s : Site),
    s ∈ (sitesAux p path next).1 → wf p = true →
    s.min ≤ s.max ∧ ∃ q, s.path = path ++ q ∧ ∀ e ∈ q, e.min ≤ e.max
  | .elem name mn mx => by
    intro path next s hs hwf
    simp only [sitesAux, List.mem_singleton] at hs
    subst hs
    simp only [wf, decide_eq_true_eq] at hwf
    exact ⟨hwf, [], by simp, by simp⟩
  | .seq mn mx ps => by
    intro path next s hs hwf
    simp only [sitesAux] at hs
    simp only [wf, Bool.and_eq_true, decide_eq_true_eq] at hwf
    obtain ⟨h1, q, hq, h2⟩ := wf_auxList ps _ _ s hs hwf.2
    refine ⟨h1, ⟨.s, next, mn, mx⟩ :: q, by rw [hq]; simp, ?_⟩
    intro e he
    rcases List.mem_cons.1 he with rfl | he
    · exact hwf.1
    · exact h2 e he
  | .choice mn mx ps => by
    intro path next s hs hwf
    simp only [sitesAux] at hs
    simp only [wf, Bool.and_eq_true, decide_eq_true_eq] at hwf
    obtain ⟨h1, q, hq, h2⟩ := wf_auxList ps _ _ s hs hwf.2
    refine ⟨h1, ⟨.c, next, mn, mx⟩ :: q, by rw [hq]; simp, ?_⟩
    intro e he
    rcases List.mem_cons.1 he with rfl | he
    · exact hwf.1
    · exact h2 e he
theorem wf_auxList : (ps : List Particle) → ∀ (path : List PathE) (next : Nat) (s : Site),
    s ∈ (sitesList ps path next).1 → wfList ps = true →
    s.min ≤ s.max ∧ ∃ q, s.path = path ++ q ∧ ∀ e ∈ q, e.min ≤ e.max
  | [] => by
    intro path next s hs
    simp [sitesList] at hs
  | p :: ps => by
    intro path next s hs hwf
    simp only [wfList, Bool.and_eq_true] at hwf
    rw [sitesList_cons_fst, List.mem_append] at hs
    rcases hs with hs | hs
    · exact wf_aux p _ _ s hs hwf.1
    · exact wf_auxList ps _ _ s hs hwf.2
end

/-- a product of positive factors that is `≤ 1` has all factors `= 1` -/
theorem prod_le_one (path : List PathE) : ∀ m : Nat, 1 ≤ m → (∀ e ∈ path, 1 ≤ e.max) →
    m * pathMaxProd path ≤ 1 → m = 1 ∧ ∀ e ∈ path, e.max = 1 := by
  induction path with
  | nil => intro m hm _ h; simp only [pathMaxProd, Nat.mul_one] at h; exact ⟨by omega, by simp⟩
  | cons e es ih =>
    intro m hm hall h
    simp only [pathMaxProd] at h
    rw [← Nat.mul_assoc] at h
    have he := hall e List.mem_cons_self
    have hme : 1 ≤ m * e.max := Nat.mul_pos hm he
    obtain ⟨h1, h2⟩ := ih (m * e.max) hme (fun e' he' => hall e' (List.mem_cons_of_mem _ he')) h
    have hm1 : m ≤ m * e.max := Nat.le_mul_of_pos_right m he
    have he1 : e.max ≤ m * e.max := Nat.le_mul_of_pos_left e.max hm
    refine ⟨by omega, ?_⟩
    intro e' he'
    rcases List.mem_cons.1 he' with rfl | he'
    · omega
    · exact h2 e' he'

/-! ### the statements for `occurs (sites p)` -/

theorem occurs_sites (p : Particle) (hd : (names p).Nodup) :
    occurs (sites p) = (sites p).map processAttrPath :=
  occurs_nodup _ (by rw [sites_names]; exact hd)

/-- every field of `occurs (sites p)` comes from a raw site through `processAttrPath` -/
theorem mem_occurs_sites {p : Particle} (hd : (names p).Nodup) {s : Site}
    (hs : s ∈ occurs (sites p)) :
    ∃ s' ∈ (sitesAux p [] 1).1, s.name = s'.name ∧ s.max = s'.max * pathMaxProd s'.path ∧
      s.min = (processAttrPath s').min := by
  rw [occurs_sites p hd] at hs
  obtain ⟨t, ht, rfl⟩ := List.mem_map.1 hs
  rw [sites_eq] at ht
  obtain ⟨s', hs', i, rfl⟩ := mem_withIndex ht
  refine ⟨s', hs', ?_, ?_, ?_⟩
  · rw [processAttrPath_name]
  · rw [processAttrPath_max]
  · rw [processAttrPath_min, processAttrPath_min]

theorem nonlist_sound_core (p : Particle) (hd : (names p).Nodup) (w : List Str) (hw : Matches p w)
    (s : Site) (hs : s ∈ occurs (sites p))
    (hl : s.isList = false) : w.count s.name ≤ 1 := by
  obtain ⟨s', hs', hname, hmax, _⟩ := mem_occurs_sites hd hs
  obtain ⟨q, hq, hbound⟩ := bound_aux p [] 1 s' hs'
  rw [List.nil_append] at hq
  subst hq
  have hle : s.max ≤ 1 := by
    simp only [Site.isList, decide_eq_false_iff_not] at hl; omega
  rw [hmax] at hle
  rw [hname]
  exact Nat.le_trans (hbound hle hd w hw) hle

theorem required_sound_core (p : Particle) (hd : (names p).Nodup) (hwf : wf p = true)
    (w : List Str) (hw : Matches p w)
    (s : Site) (hs : s ∈ occurs (sites p))
    (hr : 1 ≤ s.min) (hl : s.isList = false) : w.count s.name = 1 := by
  obtain ⟨s', hs', hname, hmax, hmin⟩ := mem_occurs_sites hd hs
  obtain ⟨q, hq, hone⟩ := once_aux p [] 1 s' hs'
  rw [List.nil_append] at hq
  subst hq
  obtain ⟨hwf1, q, hq, hwf2⟩ := wf_aux p [] 1 s' hs' hwf
  rw [List.nil_append] at hq
  subst hq
  have hle : s.max ≤ 1 := by
    simp only [Site.isList, decide_eq_false_iff_not] at hl; omega
  rw [hmax] at hle
  rw [hmin] at hr
  obtain ⟨hmin1, hmins, hchoice⟩ := processAttrPath_min_pos s' hr
  obtain ⟨hmax1, hmaxs⟩ := prod_le_one s'.path s'.max (by omega)
    (fun e he => Nat.le_trans (hmins e he) (hwf2 e he)) hle
  rw [hname]
  refine hone (by omega) hmax1 ?_ hd w hw
  intro e he
  have h1 := hmins e he
  have h2 := hwf2 e he
  have h3 := hmaxs e he
  refine ⟨?_, by omega, h3⟩
  intro hk
  have := hchoice e he hk
  omega

end Xs.Gen
