import Driver.Proto
import XsdataModel.Ctx.Context
import XsdataModel.Ctx.Memo
import XsdataModel.Ctx.Conc
import XsdataModel.Ctx.ParserCfg
open Lean Proto Py Xs.Ctx

namespace OpsCtx

def optStr (j : Json) (k : String) : Except String (Option Str) := getOptStr j k

def optNat (j : Json) (k : String) : Except String (Option Nat) :=
  match j.getObjValD k with
  | .null => .ok none
  | v => match v.getNat? with
    | .ok n => .ok (some n)
    | .error _ => .error s!"bad optional nat {k}"

def kindOf : String → Except String Kind
  | "element" => .ok .element
  | "attribute" => .ok .attribute
  | "wildcard" => .ok .wildcard
  | "text" => .ok .text
  | "elements" => .ok .elements
  | k => .error s!"bad kind {k}"

def kindStr : Kind → String
  | .element => "element" | .attribute => "attribute" | .wildcard => "wildcard" | .text => "text"
  | .elements => "elements"

def fieldOf (j : Json) : Except String Field := do
  let k ← getStr j "kind"
  let alts ← match j.getObjValD "alts" with
    | .arr a => a.toList.mapM fun x => do
        pure ({ name := ← optStr x "name", ns := ← optStr x "ns", cls := ← getNat x "cls" } : Alt)
    | _ => pure []
  pure { name := ← getStr j "name", kind := ← kindOf (String.ofList k), mname := ← optStr j "mname",
         ns := ← optStr j "ns", cls := ← optNat j "cls", wrapper := ← optStr j "wrapper", alts := alts }

def classOf (j : Json) : Except String ClassDef := do
  let hasNs ← getBool j "has_ns"
  let ns ← optStr j "ns"
  let fs ← getArr j "fields"
  pure { name := ← getStr j "name", base := ← optNat j "base", isModel := ← getBool j "model",
         inPkg := ← getBool j "pkg", ns := if hasNs then some ns else none,
         mname := ← optStr j "mname", targetNs := ← optStr j "tns", moduleNs := ← optStr j "modns",
         globalType := ← getBool j "global", inner := ← getBool j "inner", bad := ← getBool j "bad",
         fields := ← fs.mapM fieldOf }

def universeOf (a : Json) : Except String Universe := do
  let cs ← getArr a "universe"
  pure ⟨← cs.mapM classOf⟩

def strList (j : Json) (k : String) : Except String (List Str) := do
  let xs ← getArr j k
  xs.mapM asStr

def opOf (j : Json) : Except String Op := do
  let k ← getStr j "k"
  match String.ofList k with
  | "build" => pure (.build (← getNat j "c") (← optStr j "pns"))
  | "fetch" => pure (.fetch (← getNat j "c") (← optStr j "pns") (← optStr j "xsi"))
  | "find_types" => pure (.findTypes (← getStr j "q"))
  | "find_type" => pure (.findType (← getStr j "q"))
  | "find_subclass" => pure (.findSubclass (← getNat j "c") (← getStr j "q"))
  | "find_type_by_fields" => pure (.findTypeByFields (← strList j "names"))
  | "local_names_match" => pure (.localNamesMatch (← strList j "names") (← getNat j "c"))
  | "build_xsi_cache" => pure .buildXsiCache
  | "reset" => pure .reset
  | "serialize" => do
      let ts ← getArr j "toks"
      let toks ← ts.mapM fun t => do
        let parts ← asArr t
        match parts with
        | [.str "enter", i, c] => pure (Tok.enter (← i.getNat?) (← c.getNat?))
        | [.str "leaf", i] => pure (Tok.leaf (← i.getNat?))
        | [.str "leave"] => pure Tok.leave
        | _ => .error "bad token"
      pure (.serialize toks)
  | k => .error s!"bad op {k}"

def worldOf (j : Json) : Except String World := do
  pure ⟨← getNat j "loaded", ← getNat j "mods"⟩

def errStr : Err → String
  | .xmlContext => "XmlContextError" | .value => "ValueError" | .parser => "ParserError" | .index => "KeyError"
  | .runtime => "LEAK:RuntimeError"

def jVar (v : Var) : Json :=
  Json.arr #[jNat v.index, jStr v.name, jStr v.localName, jStr v.qname, jList jStr v.namespaces,
    Json.str (kindStr v.kind), jOpt jNat v.cls, jOpt jStr v.wrapper,
    jList (fun (ch : ChoiceVar) => Json.arr #[jStr ch.qname, jNat ch.cls]) v.choices]

def jMeta (m : Meta) : Json :=
  jObj [("cls", jNat m.cls), ("qname", jStr m.qname), ("ns", jOpt jStr m.nsUri),
        ("tq", jOpt jStr m.targetQName), ("vars", jList jVar m.vars)]

def jOut : Out → Json
  | .gotMeta m => jObj [("meta", jMeta m)]
  | .gotTypes l => jObj [("types", jList jNat l)]
  | .gotType o => jObj [("type", jOpt jNat o)]
  | .gotBool b => jObj [("bool", jBool b)]
  | .done => jObj [("done", Json.null)]
  | .gotNames l => jObj [("names", jList jStr l)]
  | .raised e => jObj [("err", Json.str (errStr e))]

def jState (s : State) : Json :=
  jObj [("cache", jList (fun ((c, p), m) => Json.arr #[jNat c, jOpt jStr p, jStr m.qname, jOpt jStr m.nsUri]) s.cache),
        ("xsi", jList (fun (k, l) => Json.arr #[jStr k, jList jNat l]) s.xsi),
        ("stamp", jNat s.sysModules)]

/-- run the steps on one shared state; per step: shared result, fresh result, state after -/
def runSteps (U : Universe) : State → List (World × Op) → List Json
  | _, [] => []
  | s, (w, op) :: rest =>
    let (s', o) := step U w s op
    jObj [("shared", jOut o), ("fresh", jOut (fresh U w op)), ("state", jState s')] :: runSteps U s' rest

def run (op : String) (a : Json) : Option (Except String Json) :=
  match op with
  | "ctx.run" => some do
      let U ← universeOf a
      let steps ← getArr a "steps"
      let ws ← steps.mapM fun j => do
        let w ← worldOf j
        let o ← opOf (j.getObjValD "op")
        pure (w, o)
      pure <| ok (Json.arr (runSteps U State.init ws).toArray)
  | "ctx.order" => some do
      let U ← universeOf a
      let n ← getNat a "loaded"
      pure <| ok (jObj [("order", jList jNat (subclassOrder U n)),
                        ("index", jList (fun (k, l) => Json.arr #[jStr k, jList jNat l]) (pureIndex U n))])
  | "memo.run" => some do
      let nss ← strList a "nss"
      let qs ← strList a "qs"
      pure <| ok (jList jBool (matchRun nss none qs))
  | "lru.run" => some do
      let fn ← getStr a "fn"
      let calls ← getArr a "calls"
      match String.ofList fn with
      | "build_qname" => do
          let ks ← calls.mapM fun c => do
            let xs ← asArr c
            xs.mapM fun x => match x with
              | .null => pure none
              | .str s => pure (some s.toList)
              | _ => .error "bad arg"
          let rs := lruRun buildQNameArgs Tables.lruMaxBuildQName [] ks
          pure <| ok (jList (fun (r, hit) => Json.arr #[(match r with
            | some q => jStr q
            | none => err "ValueError"), jBool hit]) rs)
      | "split_qname" => do
          let ks ← calls.mapM fun c => do
            let xs ← asArr c
            match xs with
            | [.str s] => pure s.toList
            | _ => .error "bad arg"
          let rs := lruRun splitQNameArgs Tables.lruMaxSplitQName [] ks
          pure <| ok (jList (fun (r, hit) => Json.arr #[(match r with
            | some (u, l) => Json.arr #[jOpt jStr u, jStr l]
            | none => err "IndexError"), jBool hit]) rs)
      | f => .error s!"bad fn {f}"
  | "rec.run" => some do
      let calls ← getArr a "calls"
      let nsmap (j : Json) : Except String NsMap := do
        let xs ← asArr j
        xs.mapM fun e => do
          match ← asArr e with
          | [.null, .str u] => pure (none, u.toList)
          | [.str p, .str u] => pure (some p.toList, u.toList)
          | _ => .error "bad ns entry"
      let jmap (m : NsMap) : Json := jList (fun (p, u) => Json.arr #[jOpt jStr p, jStr u]) m
      let cs ← calls.mapM fun c => do
        let d ← nsmap (c.getObjValD "decls")
        let arg ← match c.getObjValD "arg" with
          | .null => pure none
          | j => (nsmap j).map some
        pure (d, arg)
      let rec go (p : ParserInst) : List (NsMap × Option NsMap) → List Json
        | [] => []
        | (d, arg) :: rest =>
          let (p', r, m) := parseCall (Doc := NsMap) id recBind p d arg
          jObj [("inst", jmap p'.nsMap), ("arg", jOpt jmap m), ("result", jList jStr r)] :: go p' rest
      pure <| ok (Json.arr (go ⟨[]⟩ cs).toArray)
  | "conc.run" => some do
      let U ← universeOf a
      let w ← worldOf a
      let warmMods ← optNat a "warm_mods"
      let ps ← getArr a "progs"
      let progs ← ps.mapM fun j => do
        let k ← getStr j "k"
        match String.ofList k with
        | "build" => pure (Prog.build (← getNat j "c") (← optStr j "pns"))
        | "find_types" => pure (Prog.lookup .types (← getStr j "q"))
        | "find_type" => pure (Prog.lookup .last (← getStr j "q"))
        | "find_subclass" => pure (Prog.lookup (.sub (← getNat j "c")) (← getStr j "q"))
        | "find_type_by_fields" => pure (Prog.scan (← strList j "names"))
        | "reset" => pure Prog.reset
        | k => .error s!"bad prog {k}"
      let sch ← getArr a "schedule"
      let schedule ← sch.mapM fun j => match j.getNat? with
        | .ok n => pure n
        | .error _ => .error "bad schedule entry"
      let s0 := match warmMods with
        | some m => doBuildXsi U ⟨w.loaded, m⟩ State.init
        | none => State.init
      let sys := drain U w (runSched U w (Sys.start s0 progs) schedule)
      pure <| ok (jObj [("results", jList (jOpt jOut) sys.results), ("state", jState sys.shared.toState)])
  | "cfg.run" => some do
      let strict ← getBool a "strict"
      let uf ← getBool a "unknown_fail"
      let ds ← getArr a "docs"
      let docs ← ds.mapM fun j => do
        match j.getObjValD "prim" with
        | .bool b => pure (Xs.ParserCfg.Doc.prim b)
        | _ =>
          let cs ← getArr j "union"
          let bs ← cs.mapM fun c => match c with
            | .bool b => pure b
            | _ => .error "bad candidate"
          pure (Xs.ParserCfg.Doc.union bs)
      let r := Xs.ParserCfg.run ⟨strict, uf⟩ docs
      let outStr : Xs.ParserCfg.Out → String
        | .ok => "ok"
        | .warned => "warned"
        | .error => "error"
      pure <| ok (jObj [("outs", jList (fun o => Json.str (outStr o)) r.1), ("strict_after", jBool r.2.strict)])
  | _ => none

end OpsCtx
