/-
C01 helper lemmas, part 6: the induction over the nesting depth of the value.
-/
import XsdataModel.Proofs.C01Facts

namespace Proofs.C01
open Py Xs.Bind Xs.Bind.F1

/-- the statement proved by induction on `n`: an F1 instance `v` of class `c`, written as the
element `q`, yields events that the abstract writer folds into `treeOfN … v`, and the parser's
`ElementNode` for that element gives `v` back without warnings.  `pnsP` is the parent namespace
under which the serializer and the parser build the class metadata (the namespace of the parent
class, `meta.namespace`, on both sides). -/
def MainStmt (e : BEnv) (Γ : Ctx) (cfg : SerCfg) (pcfg : ParserConfig) (M : NsMap) (n : Nat) : Prop :=
  ∀ (v : Val) (c : ClassId) (pnsP : Option Str) (oq : Option QN) (q : QN) (fuel : Nat)
    (mp : XmlMeta),
    metaOf Γ c pnsP = some mp →
    resolveQ oq mp = q → valObjG true Γ n pnsP c v = true →
    4 * v.size ≤ fuel →
    ∃ evs a text kids,
      genObj e Γ cfg fuel v pnsP oq false none = .ok evs ∧
      treeOfN Γ cfg M n pnsP q v = .node q a M text kids none ∧
      SubW M (isDatatype Γ) evs (treeSax (treeOfN Γ cfg M n pnsP q v)) ∧
      plain M (treeOfN Γ cfg M n pnsP q v) = true ∧
      (∀ kv ∈ a, kv.1 ≠ xsiType) ∧ (∀ kv ∈ a, kv.1 ≠ xsiNil) ∧
      parseNode e Γ pcfg (.element mp a M false none none) (treeOfN Γ cfg M n pnsP q v) =
        .ok ⟨[(some q, v)], 0⟩

theorem All2.mono {α β : Type} {R S : α → β → Prop} {l : List α} {l' : List β}
    (h : All2 R l l') (hrs : ∀ a b, R a b → S a b) : All2 S l l' := by
  induction h with
  | nil => exact All2.nil
  | cons h _ ih => exact All2.cons (hrs _ _ h) ih

/-- generator side of one item of an element var -/
def ItemG (e : BEnv) (Γ : Ctx) (cfg : SerCfg) (M : NsMap) (ns : Option Str)
    (rec : QN → Val → Tree) (var : XmlVar) (f : Nat) (y : Val) : Prop :=
  ∃ evs, genValue e Γ cfg f y var ns = .ok evs ∧
    SubW M (isDatatype Γ) evs (treeSax (itemTree M rec var y))

theorem itemsOf_single {x : Val} (h1 : x ≠ .none) (h2 : ∀ ys, x ≠ .list ys) : itemsOf x = [x] := by
  cases x with
  | none => exact absurd rfl h1
  | list ys => exact absurd rfl (h2 ys)
  | _ => rfl

/-- generator side of one element var: `convert_value` of its field value -/
theorem varG (e : BEnv) (Γ : Ctx) (cfg : SerCfg) (M : NsMap) (ns : Option Str)
    (rec : QN → Val → Tree) {m : XmlMeta} {var : XmlVar} (hf : ElemFacts m var) (x : Val)
    (hx : x ≠ .none) (hs : ValShape var x) (f : Nat)
    (hitems : ∀ y ∈ itemsOf x, ItemG e Γ cfg M ns rec var (if var.listElement then f else f + 1) y) :
    ∃ evs, genField e Γ cfg (f + 1) ns (var, x) = .ok evs ∧
      BodyW M (isDatatype Γ) evs (treesSax ((itemsOf x).map (itemTree M rec var))) := by
  by_cases hl : var.listElement = true
  · obtain ⟨ys, rfl⟩ := hs.1 hl
    simp only [hl, if_true, itemsOf] at hitems
    obtain ⟨parts, hparts, hall⟩ := mapM_exists (fun y => genValue e Γ cfg f y var ns)
      (fun y evs => SubW M (isDatatype Γ) evs (treeSax (itemTree M rec var y))) ys hitems
    refine ⟨parts.flatten, ?_, ?_⟩
    · simp [genField, genValue_list e Γ cfg hf hl, hparts, hf.wrapper, bind, Except.bind, pure,
        Except.pure, Except.map]
    · simp only [itemsOf, treesSax_map]
      apply BodyW_forall₂ (fun y => treeSax (itemTree M rec var y)) ys parts
      exact hall.mono (fun _ _ h => h.body)
  · have hl' : var.listElement = false := by simpa using hl
    have hit := itemsOf_single hx (hs.2 hl')
    rw [hit] at hitems ⊢
    obtain ⟨evs, hevs, hsub⟩ := hitems x (by simp)
    simp only [hl', Bool.false_eq_true, if_false] at hevs
    refine ⟨evs, ?_, ?_⟩
    · simp [genField, hevs, hf.wrapper, bind, Except.bind, pure, Except.pure]
    · simpa [treesSax] using hsub.body

theorem treeSax_prim (M : NsMap) (q : QN) (p : PVal) :
    treeSax (.node q [] M (primText p) [] none) =
      Sax.open q [] :: dataSax (some (serPrim p)) ++ [Sax.close q] := by
  unfold primText dataSax
  by_cases h : (serPrim p).isEmpty = true <;> simp [h, treeSax, treesSax]

/-- both sides of one primitive item -/
theorem item_prim (e : BEnv) (Γ : Ctx) (cfg : SerCfg) (pcfg : ParserConfig) (M : NsMap)
    (ns : Option Str) (rec : QN → Val → Tree) {m : XmlMeta} {var : XmlVar} (hf : ElemFacts m var)
    (hw : m.wildcards = []) (hcl : var.clazz = none) {t : PT} (hty : var.types = [.prim t])
    (p : PVal) (hpt : primHasType p t = true)
    (hempty : p = .str [] → var.default = .none ∨ var.default = .val (.str []) ∨
      var.default = .listFactory) (f : Nat) (hfuel : 2 ≤ f) :
    ItemG e Γ cfg M ns rec var f (.prim p) ∧ plain M (itemTree M rec var (.prim p)) = true ∧
      ItemP e Γ pcfg M m var (.prim p) (itemTree M rec var (.prim p)) := by
  obtain ⟨f', rfl⟩ : ∃ f', f = f' + 2 := ⟨f - 2, by omega⟩
  refine ⟨⟨_, genValue_prim e Γ cfg hf p t ns hpt f', ?_⟩, ?_, ?_⟩
  · have := SubW_elem_data (M := M) (isDt := isDatatype Γ) var.qname [] (.prim (.str (serPrim p)))
      (some (serPrim p)) rfl (by simp) (by simp) (by simp)
    simp only [itemTree, treeSax_prim]
    simpa [attrEvs] using this
  · simp [itemTree, plain, plainList]
  · exact ⟨[], primText p, [], _, rfl, buildNode_prim e Γ hf hcl M,
      parseNode_prim e Γ pcfg hf hw p t hty hpt M hempty⟩


theorem nsAgree_var {Γ : Ctx} {m : XmlMeta} {q : QN} (h : nsAgree Γ m q = true) {var : XmlVar}
    (hmem : var ∈ m.elementVars) {c : ClassId} (hcl : var.clazz = some c) :
    (metaOf Γ c (targetUri q)).map dropQ = (metaOf Γ c (targetUri m.qname)).map dropQ := by
  simp only [nsAgree, List.all_eq_true] at h
  have := h var hmem
  simpa [hcl] using this

/-- both sides of one model-typed item, from the induction hypothesis -/
theorem item_obj (e : BEnv) (Γ : Ctx) (cfg : SerCfg) (pcfg : ParserConfig) (M : NsMap) (n : Nat)
    (IH : MainStmt e Γ cfg pcfg M n) {m : XmlMeta} {var : XmlVar} (hf : ElemFacts m var)
    {c : ClassId} {m' : XmlMeta} (hcl : var.clazz = some c) (hty : var.types = [.cls c])
    (hm' : metaOf Γ c (targetUri m.qname) = some m')
    (y : Val) (hy : valObjG true Γ n (targetUri m.qname) c y = true) (f : Nat)
    (hfuel : 4 * y.size + 3 ≤ f) :
    ItemG e Γ cfg M (targetUri m.qname) (treeOfN Γ cfg M n (targetUri m.qname)) var f y ∧
      plain M (itemTree M (treeOfN Γ cfg M n (targetUri m.qname)) var y) = true ∧
      ItemP e Γ pcfg M m var y (itemTree M (treeOfN Γ cfg M n (targetUri m.qname)) var y) := by
  obtain ⟨f', rfl⟩ : ∃ f', f = f' + 3 := ⟨f - 3, by omega⟩
  have hq : resolveQ (some var.qname) m' = var.qname := by
    have : var.qname.isEmpty = false := by
      cases hvq : var.qname with
      | nil => exact absurd hvq hf.qne
      | cons _ _ => rfl
    simp [resolveQ, this]
  obtain ⟨evs, a, text, kids, hgen, htree, hsub, hplain, hxt, hxn, hparse⟩ :=
    IH y c (targetUri m.qname) (some var.qname) var.qname f' m' hm' hq hy (by omega)
  -- `y` is an object
  have hobj : ∃ fs, y = .obj c fs := by
    cases n with
    | zero => simp [valObjG] at hy
    | succ k =>
      cases y <;> simp [valObjG] at hy
      rename_i cls fs
      exact ⟨fs, by rw [hy.1]⟩
  obtain ⟨fs, rfl⟩ := hobj
  have hit : itemTree M (treeOfN Γ cfg M n (targetUri m.qname)) var (.obj c fs) =
      treeOfN Γ cfg M n (targetUri m.qname) var.qname (.obj c fs) := rfl
  rw [hit]
  refine ⟨⟨evs, ?_, hsub⟩, hplain, ?_⟩
  · rw [genValue_obj e Γ cfg hf c fs (targetUri m.qname) hty f']; exact hgen
  · refine ⟨a, text, kids, _, htree, buildNode_cls e Γ hf hcl hm' a M hxt hxn, ?_⟩
    exact hparse


theorem defaultAgrees_none {fd : Option Val} (h : defaultAgrees .none fd = true) :
    fd = none ∨ fd = some .none := by
  cases fd with
  | none => exact Or.inl rfl
  | some v => cases v <;> simp [defaultAgrees] at h ⊢

theorem defaultAgrees_val {p : PVal} {fd : Option Val} (h : defaultAgrees (.val p) fd = true) :
    fd = some (.prim p) := by
  cases fd with
  | none => simp [defaultAgrees] at h
  | some v => cases v <;> simp [defaultAgrees] at h ⊢; exact h.symm

theorem defaultAgrees_list {fd : Option Val} (h : defaultAgrees .listFactory fd = true) :
    fd = some (.list []) := by
  cases fd with
  | none => simp [defaultAgrees] at h
  | some v =>
    cases v with
    | list xs => cases xs <;> simp [defaultAgrees] at h ⊢
    | _ => simp [defaultAgrees] at h

theorem defaultEq_prim {d : DefaultV} {p : PVal} (h : defaultEq d (.prim p) = true) : d = .val p := by
  cases d <;> simp [defaultEq] at h ⊢; exact h

/-- the dataclass field of a var -/
theorem field_of_var {ci : ClassInfo} {var : XmlVar} (hfa : fieldAgrees ci var = true)
    (hnd : (ci.fields.map (·.name)).Nodup) {f : FieldInfo} (hf : f ∈ ci.fields)
    (hname : var.name = f.name) :
    ci.fields.find? (·.name = var.name) = some f ∧ f.init = true ∧
      defaultAgrees var.default f.default = true := by
  obtain ⟨f', hf', hi, hd⟩ := fieldAgrees_iff.1 hfa
  have := find?_of_nodup hnd hf
  rw [← hname] at this
  rw [this] at hf'
  cases hf'
  exact ⟨this, hi, hd⟩

theorem attr_field_ok {Γ : Ctx} {m : XmlMeta} {ci : ClassInfo} {fields : List (Str × Val)}
    (cfg : SerCfg) {var : XmlVar} (hv : attrVarOK m ci var = true)
    (hx : attrValOK true Γ ci var (look fields var.name) = true)
    (hnd : (ci.fields.map (·.name)).Nodup) {f : FieldInfo} (hf : f ∈ ci.fields)
    (hname : var.name = f.name) {P : Params}
    (hP : P.get var.name = (attrOf cfg fields var).map Val.prim) :
    f.init = true ∧ (P.get f.name = some (look fields f.name) ∨
      (P.get f.name = none ∧ f.default = some (look fields f.name))) := by
  have hfa : fieldAgrees ci var = true := by
    simp only [attrVarOK, Bool.and_eq_true] at hv; exact hv.2
  obtain ⟨hfind, hi, hd⟩ := field_of_var hfa hnd hf hname
  refine ⟨hi, ?_⟩
  rw [← hname, hP]
  unfold attrValOK at hx
  split at hx
  · rename_i t _
    split at hx
    · rename_i hlook
      obtain ⟨f', hf', hdn⟩ := fdNone_iff.1 hx
      rw [hfind] at hf'; cases hf'
      exact Or.inr ⟨by simp [attrOf, hlook], by rw [hlook, hdn]⟩
    · rename_i p hlook
      simp only [attrOf, hlook]
      split
      · rename_i hc
        simp only [Bool.and_eq_true] at hc
        have := defaultEq_prim hc.2
        rw [this] at hd
        exact Or.inr ⟨rfl, defaultAgrees_val hd⟩
      · exact Or.inl rfl
    · cases hx
  · cases hx


theorem elemVal_prim {ci : ClassInfo} {var : XmlVar} {rec : ClassId → Val → Bool} {x : Val} {t : PT}
    (hc : var.clazz = none) (ht : var.types = [.prim t])
    (hd : if var.listElement then var.default = .listFactory else scalarDefault var.default t = true)
    (hx : elemValOK true ci var rec x = true) :
    ValShape var x ∧ (x = .none → fdNone ci var.name = true) ∧
      ∀ y ∈ itemsOf x, ∃ p, y = .prim p ∧ primHasType p t = true ∧
        (p = .str [] → var.default = .none ∨ var.default = .val (.str []) ∨
          var.default = .listFactory) := by
  unfold elemValOK at hx
  simp only [hc, ht] at hx
  by_cases hl : var.listElement = true
  · simp only [hl, if_true] at hx hd
    cases x <;> simp at hx
    rename_i xs
    refine ⟨⟨fun _ => ⟨xs, rfl⟩, (fun h => by simp [hl] at h)⟩, (fun h => by cases h), ?_⟩
    intro y hy
    have := hx y hy
    cases y <;> simp at this
    rename_i p
    exact ⟨p, rfl, this, fun _ => Or.inr (Or.inr hd)⟩
  · have hl' : var.listElement = false := by simpa using hl
    simp only [hl', Bool.false_eq_true, if_false] at hx hd
    cases x <;> simp at hx
    · exact ⟨⟨(fun h => by simp [hl'] at h), (fun _ ys h => by cases h)⟩, fun _ => hx,
        fun y hy => by simp [itemsOf] at hy⟩
    · rename_i p
      refine ⟨⟨(fun h => by simp [hl'] at h), (fun _ ys h => by cases h)⟩, (fun h => by cases h), ?_⟩
      intro y hy
      simp only [itemsOf, List.mem_singleton] at hy
      subst hy
      refine ⟨p, rfl, hx.1, fun hp => ?_⟩
      have he := hx.2
      simp only [emptyStrOK, hp, ne_eq, not_true_eq_false, decide_false, Bool.false_or,
        Bool.or_eq_true, decide_eq_true_eq] at he
      rcases he with he | he
      · exact Or.inl he
      · exact Or.inr (Or.inl he)

theorem elemVal_cls {ci : ClassInfo} {var : XmlVar} {rec : ClassId → Val → Bool} {x : Val}
    {c : ClassId} (hc : var.clazz = some c)
    (hx : elemValOK true ci var rec x = true) :
    ValShape var x ∧ (x = .none → fdNone ci var.name = true) ∧
      ∀ y ∈ itemsOf x, rec c y = true := by
  unfold elemValOK at hx
  simp only [hc] at hx
  by_cases hl : var.listElement = true
  · simp only [hl, if_true] at hx
    cases x <;> simp at hx
    rename_i xs
    exact ⟨⟨fun _ => ⟨xs, rfl⟩, (fun h => by simp [hl] at h)⟩, (fun h => by cases h),
      fun y hy => hx y hy⟩
  · have hl' : var.listElement = false := by simpa using hl
    simp only [hl', Bool.false_eq_true, if_false] at hx
    cases x <;> simp at hx
    · exact ⟨⟨(fun h => by simp [hl'] at h), (fun _ ys h => by cases h)⟩, fun _ => hx,
        fun y hy => by simp [itemsOf] at hy⟩
    · refine ⟨⟨(fun h => by simp [hl'] at h), (fun _ ys h => by cases h)⟩, (fun h => by cases h), ?_⟩
      intro y hy
      simp only [itemsOf, List.mem_singleton] at hy
      subst hy
      exact hx

theorem valueParam_none {x : Val} (h : valueParam x = none) : x = .none ∨ x = .list [] := by
  cases x with
  | none => exact Or.inl rfl
  | list xs => cases xs <;> simp [valueParam] at h ⊢
  | _ => simp [valueParam] at h

theorem valueParam_some {x y : Val} (h : valueParam x = some y) : y = x := by
  cases x with
  | none => simp [valueParam] at h
  | list xs => cases xs <;> simp [valueParam] at h <;> exact h.symm
  | _ => simp [valueParam] at h; exact h.symm

theorem elem_field_ok {Γ : Ctx} {m : XmlMeta} {ci : ClassInfo} {fields : List (Str × Val)}
    {var : XmlVar} (hk : ElemKind Γ m var) (hfa : fieldAgrees ci var = true)
    (hs : ValShape var (look fields var.name))
    (hnone : look fields var.name = .none → fdNone ci var.name = true)
    (hnd : (ci.fields.map (·.name)).Nodup) {f : FieldInfo} (hf : f ∈ ci.fields)
    (hname : var.name = f.name) {P : Params}
    (hP : P.get var.name = valueParam (look fields var.name)) :
    f.init = true ∧ (P.get f.name = some (look fields f.name) ∨
      (P.get f.name = none ∧ f.default = some (look fields f.name))) := by
  obtain ⟨hfind, hi, hd⟩ := field_of_var hfa hnd hf hname
  refine ⟨hi, ?_⟩
  rw [← hname, hP]
  cases hvp : valueParam (look fields var.name) with
  | some y => rw [valueParam_some hvp]; exact Or.inl rfl
  | none =>
    refine Or.inr ⟨rfl, ?_⟩
    rcases valueParam_none hvp with hx | hx
    · obtain ⟨f', hf', hdn⟩ := fdNone_iff.1 (hnone hx)
      rw [hfind] at hf'; cases hf'
      rw [hx, hdn]
    · have hl : var.listElement = true := by
        cases hl : var.listElement with
        | true => rfl
        | false => exact absurd hx (hs.2 hl [])
      have hdef : var.default = .listFactory := by
        cases hk with
        | prim t _ _ hd' => simpa [hl] using hd'
        | cls c m' _ _ hd' _ => simpa [hl] using hd'
      rw [hdef] at hd
      rw [hx, defaultAgrees_list hd]


/-! ### list plumbing for the element case -/

theorem mem_entriesOf {vars : List XmlVar} {fields : List (Str × Val)} {en : XmlVar × Val} :
    en ∈ entriesOf vars fields ↔
      ∃ var ∈ vars, ∃ y ∈ itemsOf (look fields var.name), en = (var, y) := by
  simp only [entriesOf, entriesOfVar, List.mem_flatMap, List.mem_map]
  constructor
  · rintro ⟨var, hv, y, hy, rfl⟩; exact ⟨var, hv, y, hy, rfl⟩
  · rintro ⟨var, hv, y, hy, rfl⟩; exact ⟨var, hv, y, hy, rfl⟩

theorem kids_eq_entries (M : NsMap) (rec : QN → Val → Tree) (fields : List (Str × Val))
    (vars : List XmlVar) :
    vars.flatMap (fun var => (itemsOf (look fields var.name)).map (itemTree M rec var)) =
      (entriesOf vars fields).map (fun en => itemTree M rec en.1 en.2) := by
  induction vars with
  | nil => rfl
  | cons v t ih =>
    rw [entriesOf_cons, List.flatMap_cons, List.map_append, ih]
    simp [entriesOfVar]

theorem vals_flatMap {β : Type} (fields : List (Str × Val)) (fs : XmlVar × Val → List β)
    (hnone : ∀ var, fs (var, .none) = []) (vars : List XmlVar) :
    (vars.flatMap (fun var => emitOf var (look fields var.name))).flatMap fs =
      vars.flatMap (fun var => fs (var, look fields var.name)) := by
  induction vars with
  | nil => rfl
  | cons v t ih =>
    simp only [List.flatMap_cons, List.flatMap_append, ih]
    congr 1
    cases hx : look fields v.name <;> simp [emitOf, hnone]

theorem mem_vals {fields : List (Str × Val)} {vars : List XmlVar} {vv : XmlVar × Val}
    (h : vv ∈ vars.flatMap (fun var => emitOf var (look fields var.name))) :
    vv.1 ∈ vars ∧ vv.2 = look fields vv.1.name ∧ vv.2 ≠ .none := by
  simp only [List.mem_flatMap] at h
  obtain ⟨var, hv, hvv⟩ := h
  unfold emitOf at hvv
  split at hvv
  · cases hvv
  · rename_i hne
    simp only [List.mem_singleton] at hvv
    subst hvv
    exact ⟨hv, rfl, fun h => hne h⟩

theorem look_mem {fields : List (Str × Val)} {name : Str} (h : name ∈ fields.map (·.1)) :
    (name, look fields name) ∈ fields := by
  obtain ⟨x, hx⟩ := find?_fst_isSome h
  have : look fields name = x := by simp [look, hx]
  rw [this]
  exact List.mem_of_find?_eq_some hx

theorem mem_itemsOf_size {x y : Val} (h : y ∈ itemsOf x) :
    y.size ≤ x.size ∧ ((∃ ys, x = .list ys) → y.size + 1 ≤ x.size) := by
  cases x with
  | none => simp [itemsOf] at h
  | list xs =>
    simp only [itemsOf] at h
    have := size_le_sizeList h
    simp only [Val.size]
    exact ⟨by omega, fun _ => by omega⟩
  | prim p => simp only [itemsOf, List.mem_singleton] at h; subst h; exact ⟨Nat.le_refl _, fun ⟨ys, h⟩ => by cases h⟩
  | obj c fs => simp only [itemsOf, List.mem_singleton] at h; subst h; exact ⟨Nat.le_refl _, fun ⟨ys, h⟩ => by cases h⟩
  | any q t tl a cs => simp only [itemsOf, List.mem_singleton] at h; subst h; exact ⟨Nat.le_refl _, fun ⟨ys, h⟩ => by cases h⟩
  | derived q v t => simp only [itemsOf, List.mem_singleton] at h; subst h; exact ⟨Nat.le_refl _, fun ⟨ys, h⟩ => by cases h⟩
  | attrs a => simp only [itemsOf, List.mem_singleton] at h; subst h; exact ⟨Nat.le_refl _, fun ⟨ys, h⟩ => by cases h⟩


/-- per-item facts of the element case, from the induction hypothesis -/
theorem items_all (e : BEnv) (Γ : Ctx) (cfg : SerCfg) (pcfg : ParserConfig) (M : NsMap) (n : Nat)
    (IH : MainStmt e Γ cfg pcfg M n) {ci : ClassInfo} {m : XmlMeta} (hw : m.wildcards = [])
    {fields : List (Str × Val)} {ns : Bool} (f : Nat)
    (hfuel : 4 * sizeFields fields + 2 ≤ f)
    {var : XmlVar} (hmem : var ∈ m.elementVars) (hv : elemVarOK ns Γ m ci var = true)
    (hin : var.name ∈ fields.map (·.1))
    (hx : elemValOK true ci var (valObjG true Γ n (targetUri m.qname)) (look fields var.name) = true) :
    ValShape var (look fields var.name) ∧
    (look fields var.name = .none → fdNone ci var.name = true) ∧
    ∀ y ∈ itemsOf (look fields var.name),
      ItemG e Γ cfg M (targetUri m.qname) (treeOfN Γ cfg M n (targetUri m.qname)) var
        (if var.listElement then f else f + 1) y ∧
      plain M (itemTree M (treeOfN Γ cfg M n (targetUri m.qname)) var y) = true ∧
      ItemP e Γ pcfg M m var y (itemTree M (treeOfN Γ cfg M n (targetUri m.qname)) var y) := by
  obtain ⟨hf, hk, _⟩ := elemFacts_of hv
  have hsz := size_le_sizeFields (look_mem hin)
  simp only at hsz
  have hfy : ∀ y ∈ itemsOf (look fields var.name),
      4 * y.size + 3 ≤ (if var.listElement then f else f + 1) := by
    intro y hy
    have h1 := mem_itemsOf_size hy
    by_cases hl : var.listElement = true
    · simp only [hl, if_true]
      have hs : ValShape var (look fields var.name) := by
        cases hk with
        | prim t hc ht hd => exact (elemVal_prim hc ht hd hx).1
        | cls c m' hc ht hd hm => exact (elemVal_cls hc hx).1
      have := h1.2 (hs.1 hl)
      omega
    · have hl' : var.listElement = false := by simpa using hl
      simp only [hl', Bool.false_eq_true, if_false]
      omega
  cases hk with
  | prim t hc ht hd =>
    obtain ⟨hs, hnone, hitems⟩ := elemVal_prim hc ht hd hx
    refine ⟨hs, hnone, fun y hy => ?_⟩
    obtain ⟨p, rfl, hpt, hempty⟩ := hitems y hy
    exact item_prim e Γ cfg pcfg M _ _ hf hw hc ht p hpt hempty _ (by have := hfy _ hy; omega)
  | cls c m' hc ht hd hm =>
    obtain ⟨hs, hnone, hitems⟩ := elemVal_cls hc hx
    refine ⟨hs, hnone, fun y hy => ?_⟩
    exact item_obj e Γ cfg pcfg M n IH hf hc ht hm y (hitems y hy) _ (hfy y hy)


theorem treeOfN_obj (Γ : Ctx) (cfg : SerCfg) (M : NsMap) (n : Nat) (pns : Option Str) (q : QN)
    (c : ClassId) (fields : List (Str × Val)) {m : XmlMeta} (hm : metaOf Γ c pns = some m) :
    treeOfN Γ cfg M (n + 1) pns q (.obj c fields) =
      match m.text with
      | some tv =>
        .node q (attrPairs cfg m.attributeVars fields) M (textOf (look fields tv.name)) [] none
      | none =>
        .node q (attrPairs cfg m.attributeVars fields) M none
          (m.elementVars.flatMap fun var =>
            (itemsOf (look fields var.name)).map
              (itemTree M (treeOfN Γ cfg M n (targetUri m.qname)) var)) none := by
  simp only [treeOfN, hm]
  cases m.text <;> rfl

theorem nodup_append_names {A E : List XmlVar} (h : ((A ++ E).map (·.name)).Nodup) :
    (A.map (·.name)).Nodup ∧ (E.map (·.name)).Nodup ∧
      ∀ a ∈ A, ∀ b ∈ E, a.name ≠ b.name := by
  rw [List.map_append, List.nodup_append] at h
  refine ⟨h.1, h.2.1, fun a ha b hb => ?_⟩
  exact h.2.2 a.name (List.mem_map.2 ⟨a, ha, rfl⟩) b.name (List.mem_map.2 ⟨b, hb, rfl⟩)

theorem treeSax_text (M : NsMap) (q : QN) (A : List (QN × Str)) (p : PVal) :
    treeSax (.node q A M (primText p) [] none) =
      Sax.open q A :: dataSax (some (serPrim p)) ++ [Sax.close q] := by
  unfold primText dataSax
  by_cases h : (serPrim p).isEmpty = true <;> simp [h, treeSax, treesSax]

theorem genField_text (e : BEnv) (Γ : Ctx) (cfg : SerCfg) (f : Nat) (ns : Option Str) {tv : XmlVar}
    (hmixed : tv.mixed = false) (htext : tv.isText = true) (hwrap : tv.wrapperQName = none)
    {p : PVal} {t : PT} (hpt : primHasType p t = true) :
    genField e Γ cfg (f + 1) ns (tv, .prim p) = .ok [Ev.data (.prim (.str (serPrim p)))] := by
  simp [genField, genValue, hmixed, htext, hwrap, encodePrimitive_prim hpt, bind, Except.bind, pure,
    Except.pure]

/-- generator side of all element vars -/
theorem body_gen (e : BEnv) (Γ : Ctx) (cfg : SerCfg) (M : NsMap) (ns : Option Str)
    (rec : QN → Val → Tree) {m : XmlMeta} (vals : List (XmlVar × Val)) (f : Nat)
    (h : ∀ vv ∈ vals, ElemFacts m vv.1 ∧ vv.2 ≠ .none ∧ ValShape vv.1 vv.2 ∧
      ∀ y ∈ itemsOf vv.2, ItemG e Γ cfg M ns rec vv.1 (if vv.1.listElement then f else f + 1) y) :
    ∃ body, vals.mapM (genField e Γ cfg (f + 1) ns) = .ok body ∧
      BodyW M (isDatatype Γ) body.flatten
        (vals.flatMap fun vv => treesSax ((itemsOf vv.2).map (itemTree M rec vv.1))) := by
  obtain ⟨body, hb, hall⟩ := mapM_exists (genField e Γ cfg (f + 1) ns)
    (fun vv evs => BodyW M (isDatatype Γ) evs (treesSax ((itemsOf vv.2).map (itemTree M rec vv.1))))
    vals (fun vv hvv => by
      obtain ⟨hf, hne, hs, hit⟩ := h vv hvv
      exact varG e Γ cfg M ns rec hf vv.2 hne hs f hit)
  exact ⟨body, hb, BodyW_forall₂ _ vals body hall⟩

/-- the induction step -/
theorem main_step (e : BEnv) (Γ : Ctx) (cfg : SerCfg) (pcfg : ParserConfig) (M : NsMap)
    {ns : Bool} (hΓ : ctxF1G ns Γ = true) (n : Nat) (IH : MainStmt e Γ cfg pcfg M n) :
    MainStmt e Γ cfg pcfg M (n + 1) := by
  intro v c pnsP oq q fuel mp hmp hq hval hfuel
  cases v with
  | obj cls fields =>
    -- unpack the value conditions
    obtain ⟨ci, hfind, hmf⟩ : ∃ ci, Γ.find c = some ci ∧ ci.metaFor pnsP = some mp := by
      simpa [metaOf, Option.bind_eq_some_iff] using hmp
    simp only [valObjG, hfind, hmf, Bool.and_eq_true, decide_eq_true_eq, List.all_eq_true] at hval
    obtain ⟨hcls, ⟨hnames, hattrs⟩, hbody⟩ := hval
    subst hcls
    have MF := ctx_metaFacts hΓ hfind hmf
    obtain ⟨hAnames, hEnames, hAE⟩ := nodup_append_names MF.nameNodup
    obtain ⟨f, rfl⟩ : ∃ f, fuel = f + 1 := ⟨fuel - 1, by simp only [Val.size] at hfuel; omega⟩
    have hf4 : 4 * sizeFields fields + 3 ≤ f := by simp only [Val.size] at hfuel; omega
    -- attributes
    have hAF : ∀ var ∈ mp.attributeVars, AttrFacts Γ mp fields var :=
      fun var hv => attrFacts_of (MF.attrs var hv) (hattrs var hv) hnames
    have hAkeys := attrPairs_keys cfg mp.attributeVars hAF
    have hAnd := attrPairs_nodup cfg fields mp.attributeVars MF.attrNodup
    have hBindA := bindAttrs_F1 e pcfg cfg mp fields M hAF hAnames
    -- the generator up to the element content
    have hnilG : mp.nillable = false := MF.nillable
    have hGA : nextAttribute cfg mp fields false none =
        .ok (attrEvs (attrPairs cfg mp.attributeVars fields)) := nextAttribute_F1 cfg mp fields hAF
    rw [genObj_unfold e Γ cfg f cls fields pnsP oq mp hmp hnilG, hq, hGA,
      treeOfN_obj Γ cfg M n pnsP q cls fields hmp]
    have hfactoryA : ∀ (P : Params), (∀ var ∈ mp.attributeVars,
          P.get var.name = (attrOf cfg fields var).map Val.prim) →
        ∀ fi ∈ ci.fields, ∀ var ∈ mp.attributeVars, var.name = fi.name →
        fi.init = true ∧ (P.get fi.name = some (look fields fi.name) ∨
          (P.get fi.name = none ∧ fi.default = some (look fields fi.name))) :=
      fun P hP fi hfi var hv hname =>
        attr_field_ok cfg (MF.attrs var hv) (hattrs var hv) MF.fieldNodup hfi hname (hP var hv)
    have hclazz : mp.clazz = cls := by rw [MF.clazz]; exact find_id hfind
    cases htext : mp.text with
    | some tv =>
      dsimp only
      obtain ⟨hEV, hTV⟩ : mp.elementVars = [tv] ∧ textVarOK ci tv = true := by
        simpa [htext] using MF.body
      have hTX : textValOK true ci tv (look fields tv.name) = true := by simpa [htext] using hbody
      simp only [textVarOK, varBase, Bool.and_eq_true, Bool.not_eq_true', Option.isNone_iff_eq_none]
        at hTV
      obtain ⟨⟨⟨⟨hisText, hbase⟩, _⟩, htypes⟩, hfa⟩ := hTV
      obtain ⟨⟨⟨⟨⟨⟨⟨⟨hinit, hmixed⟩, htok⟩, _⟩, hnillable⟩, hseq⟩, hwrap⟩, _⟩, _⟩ := hbase
      obtain ⟨f0, hf0, _, _⟩ := fieldAgrees_iff.1 hfa
      have hin : tv.name ∈ fields.map (·.1) := by rw [hnames]; exact mem_names_of_find hf0
      have htvE : tv ∈ mp.elementVars := by rw [hEV]; simp
      have hNVe : nextValue mp fields = .ok (emitOf tv (look fields tv.name)) := by
        rw [nextValue_F1 mp fields (fun var hv => by
          rw [hEV] at hv; simp only [List.mem_singleton] at hv; subst hv
          exact ⟨hseq, hnillable, hin⟩), hEV]
        simp
      have hK : parseKids e Γ pcfg mp {} none [] =
          .ok (⟨([] : List (XmlVar × Val)).map (fun en => (some en.1.qname, en.2)), 0⟩, ⟨[], []⟩) := by
        simp [parseKids]
      -- the constructor call, for any final params
      have hFgen : ∀ PT : Params,
          (∀ var ∈ mp.attributeVars, PT.get var.name = (attrOf cfg fields var).map Val.prim) →
          (∀ fi ∈ ci.fields, tv.name = fi.name → PT.get fi.name = some (look fields fi.name) ∨
            (PT.get fi.name = none ∧ fi.default = some (look fields fi.name))) →
          classFactory Γ mp.clazz PT = .ok (.obj cls fields) := by
        intro PT hA hT
        rw [hclazz]
        apply classFactory_F1 Γ hfind fields _ hnames MF.fieldNodup
        intro fi hfi
        obtain ⟨var, hvar, hname⟩ := MF.covered fi hfi
        rcases List.mem_append.1 hvar with hvA | hvE
        · exact hfactoryA PT hA fi hfi var hvA hname
        · rw [hEV] at hvE; simp only [List.mem_singleton] at hvE; subst hvE
          exact ⟨(field_of_var hfa MF.fieldNodup hfi hname).2.1, hT fi hfi hname⟩
      have htvA : tv.name ∉ mp.attributeVars.map (·.name) := by
        intro hmem
        obtain ⟨a, ha, han⟩ := List.mem_map.1 hmem
        exact hAE a ha tv htvE han
      have hPA := attrParams_get cfg fields mp.attributeVars hAnames
      have hPAtv := attrParams_get_none cfg fields mp.attributeVars htvA
      unfold textValOK at hTX
      split at hTX
      · rename_i t hty
        simp only [hty, Bool.and_eq_true] at htypes
        split at hTX
        · -- the text is `None`
          rename_i hlook
          have hT : bindText e pcfg mp none M (bindEntries (attrParams cfg mp.attributeVars fields) [])
              none = .ok (false, attrParams cfg mp.attributeVars fields, 0) := by
            simp [bindText, htext, bindEntries]
          have hF := hFgen (attrParams cfg mp.attributeVars fields) hPA (fun fi hfi hname => by
            obtain ⟨f', hf', hdn⟩ := fdNone_iff.1 hTX
            rw [(field_of_var hfa MF.fieldNodup hfi hname).1] at hf'; cases hf'
            exact Or.inr ⟨by rw [← hname]; exact hPAtv, by rw [← hname, hlook, hdn]⟩)
          have hparse := parseNode_element_F1 e Γ pcfg mp q (attrPairs cfg mp.attributeVars fields) M
            none [] [] [] _ _ false (.obj cls fields) MF.choices MF.wild hK (fun _ h => by cases h)
            hBindA hT hF
          refine ⟨[Ev.start q] ++ attrEvs (attrPairs cfg mp.attributeVars fields) ++ [] ++ [Ev.end q],
            attrPairs cfg mp.attributeVars fields, none, [], ?_, by rw [hlook]; rfl, ?_, ?_,
            fun kv hkv => (hAkeys kv hkv).2.1, fun kv hkv => (hAkeys kv hkv).1, ?_⟩
          · simp [hNVe, hlook, emitOf, bind, Except.bind, pure, Except.pure]
          · have := SubW_elem (M := M) (isDt := isDatatype Γ) q (attrPairs cfg mp.attributeVars fields)
              [] [] (fun kv hkv => (hAkeys kv hkv).1) hAnd (fun kv hkv => (hAkeys kv hkv).2.2)
              (BodyW_nil M _)
            simpa [hlook, textOf, treeSax, treesSax] using this
          · simp [plain, plainList]
          · rw [hlook]; exact hparse
        · -- the text is a primitive
          rename_i p hlook
          simp only [Bool.and_eq_true, Bool.or_eq_true, decide_eq_true_eq, Bool.not_true,
            Bool.false_eq_true, false_or] at hTX
          obtain ⟨hpt, hemp⟩ := hTX
          obtain ⟨f', rfl⟩ : ∃ f', f = f' + 1 := ⟨f - 1, by omega⟩
          have hgen := genField_text e Γ cfg f' (targetUri mp.qname) hmixed hisText hwrap hpt
          have hparse : parseNode e Γ pcfg
              (.element mp (attrPairs cfg mp.attributeVars fields) M false none none)
              (.node q (attrPairs cfg mp.attributeVars fields) M (primText p) [] none) =
              .ok ⟨[(some q, .obj cls fields)], 0⟩ := by
            by_cases hs : serPrim p = []
            · have hp := (serPrim_eq_nil hpt).1 hs
              have hT : bindText e pcfg mp none M
                  (bindEntries (attrParams cfg mp.attributeVars fields) []) (primText p) =
                  .ok (false, attrParams cfg mp.attributeVars fields, 0) := by
                simp [bindText, htext, bindEntries, primText, hs]
              have hF := hFgen (attrParams cfg mp.attributeVars fields) hPA (fun fi hfi hname => by
                rcases hemp with hemp | hemp
                · exact absurd hp hemp
                · obtain ⟨f', hf', hdn⟩ := fdEmptyStr_iff.1 hemp
                  rw [(field_of_var hfa MF.fieldNodup hfi hname).1] at hf'; cases hf'
                  exact Or.inr ⟨by rw [← hname]; exact hPAtv, by rw [← hname, hlook, hdn, hp]⟩)
              exact parseNode_element_F1 e Γ pcfg mp q _ M _ [] [] [] _ _ false (.obj cls fields)
                MF.choices MF.wild hK (fun _ h => by cases h) hBindA hT hF
            · have hpv := parseVar_serPrim e pcfg tv.toVarCore p t M htok hty hpt
              have hT : bindText e pcfg mp none M
                  (bindEntries (attrParams cfg mp.attributeVars fields) []) (primText p) =
                  .ok (true, (attrParams cfg mp.attributeVars fields).set tv.name (.prim p), 0) := by
                simp [bindText, htext, bindEntries, primText, hs, hpv, hinit, bind, Except.bind, pure,
                  Except.pure]
              have hF := hFgen ((attrParams cfg mp.attributeVars fields).set tv.name (.prim p))
                (fun var hv => by
                  rw [Params.get_set_ne _ _ (fun h => htvA (List.mem_map.2 ⟨var, hv, h⟩))]
                  exact hPA var hv)
                (fun fi hfi hname => Or.inl (by rw [← hname, Params.get_set_self, hlook]))
              exact parseNode_element_F1 e Γ pcfg mp q _ M _ [] [] [] _ _ true (.obj cls fields)
                MF.choices MF.wild hK (fun _ h => by cases h) hBindA hT hF
          refine ⟨[Ev.start q] ++ attrEvs (attrPairs cfg mp.attributeVars fields) ++
              [Ev.data (.prim (.str (serPrim p)))] ++ [Ev.end q],
            attrPairs cfg mp.attributeVars fields, primText p, [], ?_, by rw [hlook]; rfl, ?_, ?_,
            fun kv hkv => (hAkeys kv hkv).2.1, fun kv hkv => (hAkeys kv hkv).1, ?_⟩
          · simp [hNVe, hlook, emitOf, hgen, bind, Except.bind, pure, Except.pure]
          · have := SubW_elem_data (M := M) (isDt := isDatatype Γ) q
              (attrPairs cfg mp.attributeVars fields) (.prim (.str (serPrim p))) (some (serPrim p)) rfl
              (fun kv hkv => (hAkeys kv hkv).1) hAnd (fun kv hkv => (hAkeys kv hkv).2.2)
            rw [hlook]
            simp only [textOf, treeSax_text]
            exact this
          · simp [plain, plainList]
          · rw [hlook]; exact hparse
        · cases hTX
      · cases hTX
    | none =>
      dsimp only
      have hEall : ∀ var ∈ mp.elementVars, elemVarOK ns Γ mp ci var = true := by
        simpa [htext] using MF.body
      have hbodyE : ∀ var ∈ mp.elementVars, elemValOK true ci var (valObjG true Γ n (targetUri mp.qname))
          (look fields var.name) = true := by simpa [htext] using hbody
      have hEF : ∀ var ∈ mp.elementVars, ElemFacts mp var := fun var hv => (elemFacts_of (hEall var hv)).1
      have hin : ∀ var ∈ mp.elementVars, var.name ∈ fields.map (·.1) := fun var hv => by
        obtain ⟨_, _, hfa⟩ := elemFacts_of (hEall var hv)
        obtain ⟨f', hf', _⟩ := fieldAgrees_iff.1 hfa
        rw [hnames]; exact mem_names_of_find hf'
      obtain ⟨f', rfl⟩ : ∃ f', f = f' + 1 := ⟨f - 1, by omega⟩
      have hI := fun var hv => items_all e Γ cfg pcfg M n IH MF.wild f' (by omega) hv
        (hEall var hv) (hin var hv) (hbodyE var hv)
      -- generator
      have hNVe := nextValue_F1 mp fields (fun var hv =>
        ⟨(hEF var hv).sequence, (hEF var hv).nillable, hin var hv⟩)
      obtain ⟨body, hbodyEq, hBodyW⟩ := body_gen e Γ cfg M (targetUri mp.qname)
        (treeOfN Γ cfg M n (targetUri mp.qname)) (m := mp)
        (mp.elementVars.flatMap (fun var => emitOf var (look fields var.name))) f'
        (fun vv hvv => by
          obtain ⟨hv, hx, hne⟩ := mem_vals hvv
          rw [hx] at hne ⊢
          exact ⟨hEF _ hv, hne, (hI _ hv).1, fun y hy => ((hI _ hv).2.2 y hy).1⟩)
      rw [vals_flatMap fields _ (fun var => by simp [itemsOf, treesSax]), ← treesSax_flatMap] at hBodyW
      -- the tree
      have hkids := kids_eq_entries M (treeOfN Γ cfg M n (targetUri mp.qname)) fields mp.elementVars
      have hentry : ∀ en ∈ entriesOf mp.elementVars fields,
          ElemFacts mp en.1 ∧ plain M (itemTree M (treeOfN Γ cfg M n (targetUri mp.qname)) en.1 en.2) = true ∧
            ItemP e Γ pcfg M mp en.1 en.2 (itemTree M (treeOfN Γ cfg M n (targetUri mp.qname)) en.1 en.2) := by
        intro en hen
        obtain ⟨var, hv, y, hy, rfl⟩ := mem_entriesOf.1 hen
        exact ⟨hEF var hv, ((hI var hv).2.2 y hy).2.1, ((hI var hv).2.2 y hy).2.2⟩
      have hplainK : plainList M (mp.elementVars.flatMap fun var =>
          (itemsOf (look fields var.name)).map
            (itemTree M (treeOfN Γ cfg M n (targetUri mp.qname)) var)) = true := by
        rw [hkids, plainList_iff]
        intro t ht
        obtain ⟨en, hen, rfl⟩ := List.mem_map.1 ht
        exact (hentry en hen).2.1
      -- the parser
      have hK := parseKids_F1 e Γ pcfg M MF.choices MF.wild MF.wrappers
        (fun en => itemTree M (treeOfN Γ cfg M n (targetUri mp.qname)) en.1 en.2)
        (entriesOf mp.elementVars fields) []
        (fun en hen => ⟨(hentry en hen).1, (hentry en hen).2.2⟩)
        (AssignedOK_entries fields mp.elementVars [] (fun var hv => (hI var hv).1) MF.idxNodup
          (fun _ _ h => by cases h))
      rw [← hkids] at hK
      have hT : bindText e pcfg mp none M
          (bindEntries (attrParams cfg mp.attributeVars fields) (entriesOf mp.elementVars fields)) none =
          .ok (false, bindEntries (attrParams cfg mp.attributeVars fields)
            (entriesOf mp.elementVars fields), 0) := by
        simp [bindText, htext]
      have hinitE : ∀ var ∈ mp.elementVars, var.init = true := fun var hv => (hEF var hv).init
      have hF : classFactory Γ mp.clazz (bindEntries (attrParams cfg mp.attributeVars fields)
          (entriesOf mp.elementVars fields)) = .ok (.obj cls fields) := by
        rw [hclazz]
        apply classFactory_F1 Γ hfind fields _ hnames MF.fieldNodup
        intro fi hfi
        obtain ⟨var, hvar, hname⟩ := MF.covered fi hfi
        rcases List.mem_append.1 hvar with hvA | hvE
        · apply hfactoryA _ _ fi hfi var hvA hname
          intro w hw
          rw [entries_other_get fields mp.elementVars _ hinitE]
          · exact attrParams_get cfg fields mp.attributeVars hAnames w hw
          · intro hmem
            obtain ⟨b, hb, hbn⟩ := List.mem_map.1 hmem
            exact hAE w hw b hb hbn.symm
        · obtain ⟨_, hk, hfa⟩ := elemFacts_of (hEall var hvE)
          apply elem_field_ok hk hfa (hI var hvE).1 (hI var hvE).2.1 MF.fieldNodup hfi hname
          apply entries_get fields mp.elementVars _ hinitE (fun w hw => (hI w hw).1) hEnames _ var hvE
          intro w hw
          apply attrParams_get_none
          intro hmem
          obtain ⟨a, ha, han⟩ := List.mem_map.1 hmem
          exact hAE a ha w hw han
      have hparse := parseNode_element_F1 e Γ pcfg mp q (attrPairs cfg mp.attributeVars fields) M none _
        (entriesOf mp.elementVars fields) _ _ _ false (.obj cls fields) MF.choices MF.wild hK
        (fun en hen => (hentry en hen).1) hBindA hT hF
      refine ⟨[Ev.start q] ++ attrEvs (attrPairs cfg mp.attributeVars fields) ++ body.flatten ++
          [Ev.end q], attrPairs cfg mp.attributeVars fields, none, _, ?_, rfl, ?_, ?_,
        fun kv hkv => (hAkeys kv hkv).2.1, fun kv hkv => (hAkeys kv hkv).1, hparse⟩
      · simp only [hNVe, hbodyEq, bind, Except.bind, pure, Except.pure]
      · have := SubW_elem (M := M) (isDt := isDatatype Γ) q (attrPairs cfg mp.attributeVars fields)
          body.flatten _ (fun kv hkv => (hAkeys kv hkv).1) hAnd (fun kv hkv => (hAkeys kv hkv).2.2)
          hBodyW
        simpa [treeSax] using this
      · simp [plain, hplainK]
  | _ => simp [valObjG] at hval


theorem main_all (e : BEnv) (Γ : Ctx) (cfg : SerCfg) (pcfg : ParserConfig) (M : NsMap)
    {ns : Bool} (hΓ : ctxF1G ns Γ = true) : ∀ n, MainStmt e Γ cfg pcfg M n
  | 0 => by
    intro v c pnsP oq q fuel mp _ _ hval _
    simp [valObjG] at hval
  | n + 1 => main_step e Γ cfg pcfg M hΓ n (main_all e Γ cfg pcfg M hΓ n)

theorem nsAgree_self (Γ : Ctx) (m : XmlMeta) : nsAgree Γ m m.qname = true := by
  simp only [nsAgree, List.all_eq_true]
  intro w _
  cases w.clazz <;> simp

/-- fragment F1: generate, write, read back, parse -/
theorem roundtrip_F1G (e : BEnv) (Γ : Ctx) (cfg : SerCfg) (pcfg : ParserConfig) (c : ClassId) (v : Val)
    {ns : Bool} (hΓ : ctxF1G ns Γ = true) (hv : valF1 e Γ c v = true) :
    ∃ evs t, generate e Γ cfg v = .ok evs ∧ eventsTree (isDatatype Γ) evs = .ok t ∧
      parseRoot e Γ pcfg c t = .ok (v, 0) := by
  unfold valF1 valObjN at hv
  -- `v` is an object whose class has metadata
  obtain ⟨n, hn⟩ : ∃ n, v.size = n + 1 := ⟨v.size - 1, by cases v <;> simp [Val.size] <;> omega⟩
  rw [hn] at hv
  obtain ⟨fields, rfl⟩ : ∃ fields, v = .obj c fields := by
    cases v <;> simp [valObjG] at hv
    rename_i cls fs
    exact ⟨fs, by rw [hv.1]⟩
  obtain ⟨m, hm⟩ : ∃ m, metaOf Γ c none = some m := by
    simp only [valObjG] at hv
    cases hf : Γ.find c with
    | none => simp [hf] at hv
    | some ci =>
      cases hmf : ci.metaFor none with
      | none => simp [hf, hmf] at hv
      | some m => exact ⟨m, by simp [metaOf, hf, hmf]⟩
  have hgenEq : generate e Γ cfg (.obj c fields) =
      genObj e Γ cfg (4 * (Val.obj c fields).size + 8) (.obj c fields) none none false none := rfl
  have key := fun M => main_all e Γ cfg pcfg M hΓ (n + 1) (.obj c fields) c none none m.qname
    (4 * (Val.obj c fields).size + 8) m hm rfl hv (by omega)
  obtain ⟨evs, _, _, _, hgen0, _⟩ := key []
  obtain ⟨evs', a, text, kids, hgen, htree, hsub, hplain, hxt, hxn, hparse⟩ :=
    key (prefixMap (collectUris evs))
  have hevs : evs' = evs := by rw [hgen0] at hgen; cases hgen; rfl
  subst hevs
  refine ⟨evs', treeOfN Γ cfg (prefixMap (collectUris evs')) (n + 1) none m.qname (.obj c fields),
    by rw [hgenEq]; exact hgen, ?_, ?_⟩
  · have hfold := hsub.2 {} rfl (fun _ => rfl)
    simp only [eventsTree, eventsSax, hfold, bind, Except.bind, pure, Except.pure, afterW,
      WState.flush, List.nil_append, saxTree_root _ _ hplain]
  · rw [htree] at hparse ⊢
    have hfetch : Γ.fetch c none none = .ok m := by
      simp only [metaOf] at hm
      simp [Ctx.fetch, hm]
    simp [parseRoot, xsiTypeOf_none e a _ hxt, xsiNilOf_none a hxn, hfetch, hparse, bind, Except.bind,
      pure, Except.pure]

/-- fragment F1 under its original name (`ctxF1 = ctxF1G true`) -/
theorem roundtrip_F1 (e : BEnv) (Γ : Ctx) (cfg : SerCfg) (pcfg : ParserConfig) (c : ClassId) (v : Val)
    (hΓ : ctxF1 Γ = true) (hv : valF1 e Γ c v = true) :
    ∃ evs t, generate e Γ cfg v = .ok evs ∧ eventsTree (isDatatype Γ) evs = .ok t ∧
      parseRoot e Γ pcfg c t = .ok (v, 0) :=
  roundtrip_F1G e Γ cfg pcfg c v (ns := true) hΓ hv

end Proofs.C01
