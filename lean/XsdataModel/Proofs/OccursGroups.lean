/-
Helper lemmas for C02, part 4: named model groups and `xs:all`.

The statements about `occursG` are reduced to the ones already proved for plain particles:

* code side: the sites `gsites` finds for a content model have, position by position, the same
  *signature* (name, min, max, and per path entry min / max / "is a choice") as the sites of the
  occurrence skeleton `flat defs p` (`gsites_sigs`); `CalculateAttributePaths` only reads the
  signature (`processAttrPath_sig`);
* language side: every word of `GMatches defs p` is a permutation of a word of
  `Matches (flat defs p)` (`gmatches_flat`), and every word of the skeleton is a word of the content
  model when all references resolve (`flat_gmatches`).
-/
import XsdataModel.Gen.Groups
import XsdataModel.Proofs.OccursBasic
import XsdataModel.Proofs.OccursSound
import XsdataModel.Proofs.OccursList

namespace Xs.Gen
open Py

/-! ### vocabulary of the statements -/

/-- the element names of the expanded content model, with multiplicity, in document order -/
def namesG (defs : GroupDefs) (p : GParticle) : List Str := names (flat defs p)

/-- no element name is used by two element particles of the expanded content model -/
def distinctG (defs : GroupDefs) (p : GParticle) : Bool := decide (namesG defs p).Nodup

/-- every occurrence range (of the content model, its references and the referenced groups) is non-empty -/
def wfG (defs : GroupDefs) (p : GParticle) : Bool := wf (flat defs p)

/-- every choice (of the content model and the referenced groups) has an alternative -/
def liveG (defs : GroupDefs) (p : GParticle) : Bool := live (flat defs p)

/-! ### unfolding the language -/

theorem gmatchesW_elem {sem : Str → List Str → Prop} {name : Str} {mn mx : Nat} {w : List Str} :
    GMatchesW sem (.elem name mn mx) w ↔ ∃ k, repOK k mn mx ∧ w = List.replicate k name := by
  simp only [GMatchesW]
theorem gmatchesW_seq {sem : Str → List Str → Prop} {mn mx : Nat} {ps : List GParticle} {w : List Str} :
    GMatchesW sem (.seq mn mx ps) w ↔
      ∃ ws : List (List Str), repOK ws.length mn mx ∧ (∀ x ∈ ws, GSeqOnce sem ps x) ∧ w = ws.flatten := by
  simp only [GMatchesW]
theorem gmatchesW_choice {sem : Str → List Str → Prop} {mn mx : Nat} {ps : List GParticle} {w : List Str} :
    GMatchesW sem (.choice mn mx ps) w ↔
      ∃ ws : List (List Str), repOK ws.length mn mx ∧ (∀ x ∈ ws, GChoiceOnce sem ps x) ∧ w = ws.flatten := by
  simp only [GMatchesW]
theorem gmatchesW_all {sem : Str → List Str → Prop} {mn mx : Nat} {ps : List GParticle} {w : List Str} :
    GMatchesW sem (.all mn mx ps) w ↔
      ∃ ws : List (List Str), repOK ws.length mn mx ∧
        (∀ x ∈ ws, ∃ y, GSeqOnce sem ps y ∧ x.Perm y) ∧ w = ws.flatten := by
  simp only [GMatchesW]
theorem gmatchesW_ref {sem : Str → List Str → Prop} {g : Str} {mn mx : Nat} {w : List Str} :
    GMatchesW sem (.ref g mn mx) w ↔
      ∃ ws : List (List Str), repOK ws.length mn mx ∧ (∀ x ∈ ws, sem g x) ∧ w = ws.flatten := by
  simp only [GMatchesW]
theorem gseqOnce_nil {sem : Str → List Str → Prop} {w : List Str} : GSeqOnce sem [] w ↔ w = [] := by
  simp only [GSeqOnce]
theorem gseqOnce_cons {sem : Str → List Str → Prop} {p : GParticle} {ps : List GParticle} {w : List Str} :
    GSeqOnce sem (p :: ps) w ↔ ∃ a b, GMatchesW sem p a ∧ GSeqOnce sem ps b ∧ w = a ++ b := by
  simp only [GSeqOnce]
theorem gchoiceOnce_cons {sem : Str → List Str → Prop} {p : GParticle} {ps : List GParticle} {w : List Str} :
    GChoiceOnce sem (p :: ps) w ↔ (GMatchesW sem p w ∨ GChoiceOnce sem ps w) := by
  simp only [GChoiceOnce]
/-- a word of a named group: a word of its model group, references one level less deep -/
theorem groupLang_succ {defs : GroupDefs} {fuel : Nat} {g : Str} {w : List Str} {k : Nat}
    {body : GParticle} (h : lookupDef defs g = some (k, body)) :
    groupLang defs (fuel + 1) g w ↔ GMatchesW (groupLang defs fuel) body w := by
  simp only [groupLang, h]

/-! ### signatures -/

def PathE.sig (e : PathE) : Nat × Nat × Bool := (e.min, e.max, decide (e.kind = .c))
def pathSig (p : List PathE) : List (Nat × Nat × Bool) := p.map PathE.sig
def Site.sig (s : Site) : Str × Nat × Nat × List (Nat × Nat × Bool) :=
  (s.name, s.min, s.max, pathSig s.path)
def sigs (ss : List Site) : List (Str × Nat × Nat × List (Nat × Nat × Bool)) := ss.map Site.sig

theorem pathSig_append (p q : List PathE) : pathSig (p ++ q) = pathSig p ++ pathSig q := by
  simp [pathSig]

theorem pathSig_cons_inj {e f : PathE} {es fs : List PathE}
    (h : pathSig (e :: es) = pathSig (f :: fs)) :
    e.min = f.min ∧ e.max = f.max ∧ (e.kind = .c ↔ f.kind = .c) ∧ pathSig es = pathSig fs := by
  simp only [pathSig, List.map_cons, List.cons.injEq, PathE.sig, Prod.mk.injEq] at h
  obtain ⟨⟨h1, h2, h3⟩, h4⟩ := h
  exact ⟨h1, h2, by simpa using h3, h4⟩

theorem pathMaxProd_sig : ∀ (p q : List PathE), pathSig p = pathSig q → pathMaxProd p = pathMaxProd q
  | [], [] => fun _ => rfl
  | [], _ :: _ => fun h => by simp [pathSig] at h
  | _ :: _, [] => fun h => by simp [pathSig] at h
  | e :: es, f :: fs => fun h => by
    obtain ⟨_, h2, _, h4⟩ := pathSig_cons_inj h
    simp only [pathMaxProd, h2, pathMaxProd_sig es fs h4]

theorem pathMinProd_sig : ∀ (p q : List PathE), pathSig p = pathSig q → pathMinProd p = pathMinProd q
  | [], [] => fun _ => rfl
  | [], _ :: _ => fun h => by simp [pathSig] at h
  | _ :: _, [] => fun h => by simp [pathSig] at h
  | e :: es, f :: fs => fun h => by
    obtain ⟨h1, _, _, h4⟩ := pathSig_cons_inj h
    simp only [pathMinProd, h1, pathMinProd_sig es fs h4]

theorem pathCMin_sig : ∀ (p q : List PathE), pathSig p = pathSig q →
    ∀ c, pathCMin c p = pathCMin c q
  | [], [] => fun _ _ => rfl
  | [], _ :: _ => fun h => by simp [pathSig] at h
  | _ :: _, [] => fun h => by simp [pathSig] at h
  | e :: es, f :: fs => fun h c => by
    obtain ⟨h1, _, h3, h4⟩ := pathSig_cons_inj h
    simp only [pathCMin]
    by_cases hk : e.kind = .c
    · have hk' := h3.1 hk
      simp only [hk, hk', if_true, h1]
      exact pathCMin_sig es fs h4 _
    · have hk' : ¬ f.kind = .c := fun x => hk (h3.2 x)
      simp only [hk, hk', if_false]
      exact pathCMin_sig es fs h4 _

/-- `CalculateAttributePaths` reads only the signature -/
theorem processAttrPath_sig {s t : Site} (h : s.sig = t.sig) :
    (processAttrPath s).name = (processAttrPath t).name ∧
    (processAttrPath s).min = (processAttrPath t).min ∧
    (processAttrPath s).max = (processAttrPath t).max := by
  simp only [Site.sig, Prod.mk.injEq] at h
  obtain ⟨hn, hmin, hmax, hp⟩ := h
  refine ⟨by rw [processAttrPath_name, processAttrPath_name, hn], ?_, ?_⟩
  · rw [processAttrPath_min, processAttrPath_min, pathCMin_sig _ _ hp, pathMinProd_sig _ _ hp, hmin]
  · rw [processAttrPath_max, processAttrPath_max, pathMaxProd_sig _ _ hp, hmax]

theorem sigs_append (a b : List Site) : sigs (a ++ b) = sigs a ++ sigs b := by simp [sigs]

theorem sigs_names (ss : List Site) : ss.map (·.name) = (sigs ss).map Prod.fst := by
  simp [sigs, Site.sig, Function.comp_def]

theorem sigs_withIndex (raw : List Site) : sigs (withIndex raw) = sigs raw := by
  unfold withIndex sigs
  rw [List.map_map]
  have : (Site.sig ∘ fun (x : Nat × Site) => { x.2 with index := x.1 }) = Site.sig ∘ Prod.snd := rfl
  rw [this, ← List.map_map, List.map_snd_zip]
  simp

/-! ### the sites of a plain particle: the signature depends on the signature of the prefix only -/

mutual
theorem sitesAux_sig : (p : Particle) → ∀ (path path' : List PathE) (next next' : Nat),
    pathSig path = pathSig path' →
    sigs (sitesAux p path next).1 = sigs (sitesAux p path' next').1
  | .elem name mn mx => by
    intro path path' next next' h
    simp [sitesAux, sigs, Site.sig, h]
  | .seq mn mx ps => by
    intro path path' next next' h
    simp only [sitesAux]
    exact sitesList_sig ps _ _ _ _ (by rw [pathSig_append, pathSig_append, h]; rfl)
  | .choice mn mx ps => by
    intro path path' next next' h
    simp only [sitesAux]
    exact sitesList_sig ps _ _ _ _ (by rw [pathSig_append, pathSig_append, h]; rfl)
theorem sitesList_sig : (ps : List Particle) → ∀ (path path' : List PathE) (next next' : Nat),
    pathSig path = pathSig path' →
    sigs (sitesList ps path next).1 = sigs (sitesList ps path' next').1
  | [] => by intro path path' next next' _; simp [sitesList]
  | p :: ps => by
    intro path path' next next' h
    rw [sitesList_cons_fst, sitesList_cons_fst, sigs_append, sigs_append,
      sitesAux_sig p path path' next next' h, sitesList_sig ps path path' _ _ h]
end

/-! ### `gsitesAux` -/

theorem gsitesList_cons (sub : Str → Option (List Site)) (p : GParticle) (ps : List GParticle)
    (path : List PathE) (next : Nat) :
    gsitesList sub (p :: ps) path next =
      ((gsitesAux sub p path next).1 ++ (gsitesList sub ps path (gsitesAux sub p path next).2).1,
       (gsitesList sub ps path (gsitesAux sub p path next).2).2) := by
  simp only [gsitesList]

theorem addPrefix_addPrefix (a b : List PathE) (s : Site) :
    addPrefix a (addPrefix b s) = addPrefix (a ++ b) s := by
  simp [addPrefix, List.append_assoc]

mutual
/-- walking a model group below a prefix = walking it, then `copy_group_attributes` -/
theorem gsitesAux_prefix (sub : Str → Option (List Site)) : (p : GParticle) →
    ∀ (pre path : List PathE) (next : Nat),
    gsitesAux sub p (pre ++ path) next =
      ((gsitesAux sub p path next).1.map (addPrefix pre), (gsitesAux sub p path next).2)
  | .elem name mn mx => by intro pre path next; simp [gsitesAux, addPrefix]
  | .seq mn mx ps => by
    intro pre path next
    simp only [gsitesAux, List.append_assoc]
    exact gsitesList_prefix sub ps pre _ _
  | .choice mn mx ps => by
    intro pre path next
    simp only [gsitesAux, List.append_assoc]
    exact gsitesList_prefix sub ps pre _ _
  | .all mn mx ps => by
    intro pre path next
    simp only [gsitesAux, List.append_assoc]
    exact gsitesList_prefix sub ps pre _ _
  | .ref g mn mx => by
    intro pre path next
    simp only [gsitesAux]
    cases sub g with
    | none => simp
    | some ss =>
      simp only [List.map_map, Prod.mk.injEq, and_true]
      apply List.map_congr_left
      intro s _
      simp [addPrefix_addPrefix, List.append_assoc]
theorem gsitesList_prefix (sub : Str → Option (List Site)) : (ps : List GParticle) →
    ∀ (pre path : List PathE) (next : Nat),
    gsitesList sub ps (pre ++ path) next =
      ((gsitesList sub ps path next).1.map (addPrefix pre), (gsitesList sub ps path next).2)
  | [] => by intro pre path next; simp [gsitesList]
  | p :: ps => by
    intro pre path next
    rw [gsitesList_cons, gsitesList_cons, gsitesAux_prefix sub p pre path next]
    simp only
    rw [gsitesList_prefix sub ps pre path _]
    simp
end

/-- the flattened group classes against the skeletons of the groups -/
def SimSub (subS : Str → Option (List Site)) (subF : Str → Option Particle) : Prop :=
  ∀ g, match subS g, subF g with
    | some ss, some b => ∀ (pre pre' : List PathE) (n : Nat), pathSig pre = pathSig pre' →
        sigs (ss.map (addPrefix pre)) = sigs (sitesAux (.seq 1 1 [b]) pre' n).1
    | none, none => True
    | _, _ => False

theorem sitesAux_single (q : Particle) (mn mx : Nat) (pre : List PathE) (n : Nat) :
    (sitesAux (.seq mn mx [q]) pre n).1 = (sitesAux q (pre ++ [⟨.s, n, mn, mx⟩]) (n + 1)).1 := by
  simp [sitesAux, sitesList]

theorem sitesAux_wrap (b : Particle) (pre : List PathE) (n : Nat) :
    (sitesAux (.seq 1 1 [b]) pre n).1 = (sitesAux b (pre ++ [⟨.s, n, 1, 1⟩]) (n + 1)).1 :=
  sitesAux_single b 1 1 pre n

mutual
theorem gsitesAux_sim {subS : Str → Option (List Site)} {subF : Str → Option Particle}
    (hsub : SimSub subS subF) : (p : GParticle) →
    ∀ (path path' : List PathE) (next next' : Nat), pathSig path = pathSig path' →
    sigs (gsitesAux subS p path next).1 = sigs (sitesAux (flatW subF p) path' next').1
  | .elem name mn mx => by
    intro path path' next next' h
    simp [gsitesAux, flatW, sitesAux, sigs, Site.sig, h]
  | .seq mn mx ps => by
    intro path path' next next' h
    simp only [gsitesAux, flatW, sitesAux]
    exact gsitesList_sim hsub ps _ _ _ _ (by rw [pathSig_append, pathSig_append, h]; rfl)
  | .choice mn mx ps => by
    intro path path' next next' h
    simp only [gsitesAux, flatW, sitesAux]
    exact gsitesList_sim hsub ps _ _ _ _ (by rw [pathSig_append, pathSig_append, h]; rfl)
  | .all mn mx ps => by
    intro path path' next next' h
    simp only [gsitesAux, flatW, sitesAux]
    exact gsitesList_sim hsub ps _ _ _ _ (by rw [pathSig_append, pathSig_append, h]; rfl)
  | .ref g mn mx => by
    intro path path' next next' h
    have hg := hsub g
    simp only [gsitesAux, flatW]
    cases hs : subS g with
    | none =>
      cases hf : subF g with
      | none => simp [sitesAux, sitesList]
      | some b => simp [hs, hf] at hg
    | some ss =>
      cases hf : subF g with
      | none => simp [hs, hf] at hg
      | some b =>
        simp only [hs, hf] at hg
        rw [sitesAux_single]
        exact hg _ _ _ (by rw [pathSig_append, pathSig_append, h]; rfl)
theorem gsitesList_sim {subS : Str → Option (List Site)} {subF : Str → Option Particle}
    (hsub : SimSub subS subF) : (ps : List GParticle) →
    ∀ (path path' : List PathE) (next next' : Nat), pathSig path = pathSig path' →
    sigs (gsitesList subS ps path next).1 = sigs (sitesList (flatList subF ps) path' next').1
  | [] => by intro path path' next next' _; simp [gsitesList, flatList, sitesList]
  | p :: ps => by
    intro path path' next next' h
    rw [gsitesList_cons, flatList, sitesList_cons_fst, sigs_append, sigs_append,
      gsitesAux_sim hsub p path path' next next' h, gsitesList_sim hsub ps path path' _ _ h]
end

theorem simSub_groups (defs : GroupDefs) : ∀ fuel, SimSub (groupSites defs fuel) (groupFlat defs fuel)
  | 0 => by intro g; simp [groupSites, groupFlat]
  | fuel + 1 => by
    intro g
    simp only [groupSites, groupFlat]
    cases lookupDef defs g with
    | none => simp
    | some kb =>
      obtain ⟨k, body⟩ := kb
      simp only
      intro pre pre' n h
      rw [sitesAux_wrap]
      have hp := congrArg Prod.fst (gsitesAux_prefix (groupSites defs fuel) body pre
        [⟨.g, defBase defs k, 1, 1⟩] (defBase defs k + 1))
      simp only at hp
      rw [← hp]
      exact gsitesAux_sim (simSub_groups defs fuel) body _ _ _ _
        (by rw [pathSig_append, pathSig_append, h]; rfl)

/-- position by position the sites of a content model with references and `xs:all` have the
signatures of the sites of its occurrence skeleton -/
theorem gsites_sigs {defs : GroupDefs} {p : GParticle} {start : Nat} {gs : List Site}
    (h : gsites defs p start = some gs) : sigs gs = sigs (sites (flat defs p)) := by
  unfold gsites at h
  split at h
  · simp only [Option.some.injEq] at h
    subst h
    rw [sites_eq, sigs_withIndex]
    exact gsitesAux_sim (simSub_groups defs defs.length) p [] [] start 1 rfl
  · simp at h

theorem gsites_resolves {defs : GroupDefs} {p : GParticle} {start : Nat} {gs : List Site}
    (h : gsites defs p start = some gs) : resolves defs p = true := by
  unfold gsites at h
  split at h
  · assumption
  · simp at h

/-- every field of `occursG` has a twin (same name, `min`, `max`) among the fields the handlers
compute for the occurrence skeleton -/
theorem mem_occursG {defs : GroupDefs} {p : GParticle} (hd : (namesG defs p).Nodup)
    {ss : List Site} (h : occursG defs p = some ss) {s : Site} (hs : s ∈ ss) :
    ∃ t ∈ occurs (sites (flat defs p)), t.name = s.name ∧ t.min = s.min ∧ t.max = s.max := by
  unfold occursG at h
  cases hg : gsites defs p (typeBase defs) with
  | none => simp [hg] at h
  | some gs =>
    simp only [hg, Option.map_some, Option.some.injEq] at h
    have hsig := gsites_sigs hg
    have hnames : gs.map (·.name) = names (flat defs p) := by
      rw [sigs_names, hsig, ← sigs_names, sites_names]
    rw [occurs_nodup gs (by rw [hnames]; exact hd)] at h
    subst h
    obtain ⟨s0, hs0, rfl⟩ := List.mem_map.1 hs
    have hmem : s0.sig ∈ sigs (sites (flat defs p)) := by
      rw [← hsig]; exact List.mem_map.2 ⟨s0, hs0, rfl⟩
    obtain ⟨t0, ht0, ht0sig⟩ := List.mem_map.1 hmem
    obtain ⟨h1, h2, h3⟩ := processAttrPath_sig ht0sig
    refine ⟨processAttrPath t0, ?_, h1, h2, h3⟩
    rw [occurs_sites (flat defs p) hd]
    exact List.mem_map.2 ⟨t0, ht0, rfl⟩

/-! ### the language against the language of the skeleton -/

theorem flatten_perm_choose {P : List Str → Prop} : ∀ (ws : List (List Str)),
    (∀ x ∈ ws, ∃ x', P x' ∧ x'.Perm x) →
    ∃ ws' : List (List Str), ws'.length = ws.length ∧ (∀ x' ∈ ws', P x') ∧ ws'.flatten.Perm ws.flatten
  | [] => fun _ => ⟨[], rfl, by simp, by simp⟩
  | x :: xs => fun h => by
    obtain ⟨x', hx', hperm⟩ := h x List.mem_cons_self
    obtain ⟨xs', hlen, hall, hp⟩ := flatten_perm_choose xs (fun y hy => h y (List.mem_cons_of_mem _ hy))
    refine ⟨x' :: xs', by simp [hlen], ?_, ?_⟩
    · intro y hy
      rcases List.mem_cons.1 hy with rfl | hy
      · exact hx'
      · exact hall y hy
    · simp only [List.flatten_cons]
      exact List.Perm.append hperm hp

theorem seqOnce_wrap {b : Particle} {x : List Str} :
    SeqOnce [.seq 1 1 [b]] x ↔ Matches b x := by
  constructor
  · intro h
    obtain ⟨a, r, ha, hr, rfl⟩ := seqOnce_cons.1 h
    rw [seqOnce_nil.1 hr, List.append_nil]
    obtain ⟨ws, hrep, hall, rfl⟩ := matches_seq.1 ha
    have h1 := repOK_le hrep (Nat.le_refl 1)
    have h2 := hrep.1
    obtain ⟨y, rfl⟩ := List.length_eq_one_iff.1 (by omega : ws.length = 1)
    obtain ⟨a', r', ha', hr', hy⟩ := seqOnce_cons.1 (hall y List.mem_cons_self)
    rw [seqOnce_nil.1 hr', List.append_nil] at hy
    subst hy
    simpa using ha'
  · intro h
    refine seqOnce_cons.2 ⟨x, [], matches_seq.2 ⟨[x], (by decide : repOK 1 1 1), ?_, by simp⟩, seqOnce_nil.2 rfl, by simp⟩
    intro y hy
    rw [List.mem_singleton.1 hy]
    exact seqOnce_cons.2 ⟨x, [], h, seqOnce_nil.2 rfl, by simp⟩

/-- the languages of the named groups against their skeletons -/
def LangSub (sem : Str → List Str → Prop) (sub : Str → Option Particle) : Prop :=
  ∀ g x, sem g x → ∃ b, sub g = some b ∧ ∃ x', Matches b x' ∧ x'.Perm x

mutual
theorem gmatchesW_flat {sem : Str → List Str → Prop} {sub : Str → Option Particle}
    (hsub : LangSub sem sub) : (p : GParticle) → ∀ w, GMatchesW sem p w →
    ∃ w', Matches (flatW sub p) w' ∧ w'.Perm w
  | .elem name mn mx => by
    intro w hw
    simp only [GMatchesW] at hw
    exact ⟨w, by simpa only [flatW, Matches] using hw, List.Perm.refl _⟩
  | .seq mn mx ps => by
    intro w hw
    simp only [GMatchesW] at hw
    obtain ⟨ws, hrep, hall, rfl⟩ := hw
    obtain ⟨ws', hlen, hall', hperm⟩ := flatten_perm_choose (P := SeqOnce (flatList sub ps)) ws
      (fun x hx => (gseqOnce_flat hsub ps x (hall x hx)))
    exact ⟨ws'.flatten, by simp only [flatW]; exact matches_seq.2 ⟨ws', hlen ▸ hrep, hall', rfl⟩, hperm⟩
  | .choice mn mx ps => by
    intro w hw
    simp only [GMatchesW] at hw
    obtain ⟨ws, hrep, hall, rfl⟩ := hw
    obtain ⟨ws', hlen, hall', hperm⟩ := flatten_perm_choose (P := ChoiceOnce (flatList sub ps)) ws
      (fun x hx => (gchoiceOnce_flat hsub ps x (hall x hx)))
    exact ⟨ws'.flatten, by simp only [flatW]; exact matches_choice.2 ⟨ws', hlen ▸ hrep, hall', rfl⟩, hperm⟩
  | .all mn mx ps => by
    intro w hw
    simp only [GMatchesW] at hw
    obtain ⟨ws, hrep, hall, rfl⟩ := hw
    obtain ⟨ws', hlen, hall', hperm⟩ := flatten_perm_choose (P := SeqOnce (flatList sub ps)) ws
      (fun x hx => by
        obtain ⟨y, hy, hxy⟩ := hall x hx
        obtain ⟨y', hy', hp⟩ := gseqOnce_flat hsub ps y hy
        exact ⟨y', hy', hp.trans hxy.symm⟩)
    exact ⟨ws'.flatten, by simp only [flatW]; exact matches_seq.2 ⟨ws', hlen ▸ hrep, hall', rfl⟩, hperm⟩
  | .ref g mn mx => by
    intro w hw
    simp only [GMatchesW] at hw
    obtain ⟨ws, hrep, hall, rfl⟩ := hw
    simp only [flatW]
    cases hg : sub g with
    | none =>
      have hws : ws = [] := by
        cases ws with
        | nil => rfl
        | cons x xs =>
          obtain ⟨b, hb, _⟩ := hsub g x (hall x List.mem_cons_self)
          rw [hg] at hb; cases hb
      subst hws
      exact ⟨[], matches_seq.2 ⟨[], hrep, by simp, rfl⟩, List.Perm.refl _⟩
    | some b =>
      obtain ⟨ws', hlen, hall', hperm⟩ := flatten_perm_choose (P := SeqOnce [.seq 1 1 [b]]) ws
        (fun x hx => by
          obtain ⟨b', hb', x', hx', hp⟩ := hsub g x (hall x hx)
          rw [hg, Option.some.injEq] at hb'
          subst hb'
          exact ⟨x', seqOnce_wrap.2 hx', hp⟩)
      exact ⟨ws'.flatten, matches_seq.2 ⟨ws', hlen ▸ hrep, hall', rfl⟩, hperm⟩
theorem gseqOnce_flat {sem : Str → List Str → Prop} {sub : Str → Option Particle}
    (hsub : LangSub sem sub) : (ps : List GParticle) → ∀ w, GSeqOnce sem ps w →
    ∃ w', SeqOnce (flatList sub ps) w' ∧ w'.Perm w
  | [] => by
    intro w hw
    simp only [GSeqOnce] at hw
    subst hw
    exact ⟨[], by simp only [flatList]; exact seqOnce_nil.2 rfl, List.Perm.refl _⟩
  | p :: ps => by
    intro w hw
    simp only [GSeqOnce] at hw
    obtain ⟨a, b, ha, hb, rfl⟩ := hw
    obtain ⟨a', ha', hpa⟩ := gmatchesW_flat hsub p a ha
    obtain ⟨b', hb', hpb⟩ := gseqOnce_flat hsub ps b hb
    exact ⟨a' ++ b', by simp only [flatList]; exact seqOnce_cons.2 ⟨a', b', ha', hb', rfl⟩,
      List.Perm.append hpa hpb⟩
theorem gchoiceOnce_flat {sem : Str → List Str → Prop} {sub : Str → Option Particle}
    (hsub : LangSub sem sub) : (ps : List GParticle) → ∀ w, GChoiceOnce sem ps w →
    ∃ w', ChoiceOnce (flatList sub ps) w' ∧ w'.Perm w
  | [] => by
    intro w hw
    simp only [GChoiceOnce] at hw
  | p :: ps => by
    intro w hw
    simp only [GChoiceOnce] at hw
    rcases hw with hw | hw
    · obtain ⟨w', hw', hp⟩ := gmatchesW_flat hsub p w hw
      exact ⟨w', by simp only [flatList]; exact choiceOnce_cons.2 (Or.inl hw'), hp⟩
    · obtain ⟨w', hw', hp⟩ := gchoiceOnce_flat hsub ps w hw
      exact ⟨w', by simp only [flatList]; exact choiceOnce_cons.2 (Or.inr hw'), hp⟩
end

theorem groupLang_flat (defs : GroupDefs) : ∀ fuel g x, groupLang defs fuel g x →
    ∃ b, groupFlat defs fuel g = some b ∧ ∃ x', Matches b x' ∧ x'.Perm x
  | 0 => by intro g x h; simp [groupLang] at h
  | fuel + 1 => by
    intro g x h
    simp only [groupLang] at h
    simp only [groupFlat]
    cases hl : lookupDef defs g with
    | none => simp [hl] at h
    | some kb =>
      obtain ⟨k, body⟩ := kb
      simp only [hl] at h
      exact ⟨_, rfl, gmatchesW_flat (groupLang_flat defs fuel) body x h⟩

/-- every word of the content model is a permutation of a word of its occurrence skeleton -/
theorem gmatches_flat {defs : GroupDefs} {p : GParticle} {w : List Str} (h : GMatches defs p w) :
    ∃ w', Matches (flat defs p) w' ∧ w'.Perm w :=
  gmatchesW_flat (groupLang_flat defs defs.length) p w h

/-- the skeletons of the resolvable groups against their languages -/
def SubLang (sem : Str → List Str → Prop) (sub : Str → Option Particle) (okg : Str → Bool) : Prop :=
  ∀ g, okg g = true → ∃ b, sub g = some b ∧ ∀ x, Matches b x → sem g x

mutual
theorem flat_gmatchesW {sem : Str → List Str → Prop} {sub : Str → Option Particle}
    {okg : Str → Bool} (hok : SubLang sem sub okg) : (p : GParticle) → resolvesW okg p = true → ∀ w,
    Matches (flatW sub p) w → GMatchesW sem p w
  | .elem name mn mx => by
    intro _ w hw
    simpa only [flatW, Matches, GMatchesW] using hw
  | .seq mn mx ps => by
    intro hr w hw
    simp only [resolvesW] at hr
    simp only [flatW] at hw
    obtain ⟨ws, hrep, hall, rfl⟩ := matches_seq.1 hw
    simp only [GMatchesW]
    exact ⟨ws, hrep, fun x hx => flat_gseqOnce hok ps hr x (hall x hx), rfl⟩
  | .choice mn mx ps => by
    intro hr w hw
    simp only [resolvesW] at hr
    simp only [flatW] at hw
    obtain ⟨ws, hrep, hall, rfl⟩ := matches_choice.1 hw
    simp only [GMatchesW]
    exact ⟨ws, hrep, fun x hx => flat_gchoiceOnce hok ps hr x (hall x hx), rfl⟩
  | .all mn mx ps => by
    intro hr w hw
    simp only [resolvesW] at hr
    simp only [flatW] at hw
    obtain ⟨ws, hrep, hall, rfl⟩ := matches_seq.1 hw
    simp only [GMatchesW]
    exact ⟨ws, hrep, fun x hx => ⟨x, flat_gseqOnce hok ps hr x (hall x hx), List.Perm.refl _⟩, rfl⟩
  | .ref g mn mx => by
    intro hr w hw
    simp only [resolvesW] at hr
    obtain ⟨b, hb, hsem⟩ := hok g hr
    simp only [flatW, hb] at hw
    obtain ⟨ws, hrep, hall, rfl⟩ := matches_seq.1 hw
    simp only [GMatchesW]
    exact ⟨ws, hrep, fun x hx => hsem x (seqOnce_wrap.1 (hall x hx)), rfl⟩
theorem flat_gseqOnce {sem : Str → List Str → Prop} {sub : Str → Option Particle}
    {okg : Str → Bool} (hok : SubLang sem sub okg) : (ps : List GParticle) → resolvesList okg ps = true → ∀ w,
    SeqOnce (flatList sub ps) w → GSeqOnce sem ps w
  | [] => by
    intro _ w hw
    simp only [flatList] at hw
    simp only [GSeqOnce]
    exact seqOnce_nil.1 hw
  | p :: ps => by
    intro hr w hw
    simp only [resolvesList, Bool.and_eq_true] at hr
    simp only [flatList] at hw
    obtain ⟨a, b, ha, hb, rfl⟩ := seqOnce_cons.1 hw
    simp only [GSeqOnce]
    exact ⟨a, b, flat_gmatchesW hok p hr.1 a ha, flat_gseqOnce hok ps hr.2 b hb, rfl⟩
theorem flat_gchoiceOnce {sem : Str → List Str → Prop} {sub : Str → Option Particle}
    {okg : Str → Bool} (hok : SubLang sem sub okg) : (ps : List GParticle) → resolvesList okg ps = true → ∀ w,
    ChoiceOnce (flatList sub ps) w → GChoiceOnce sem ps w
  | [] => by
    intro _ w hw
    simp only [flatList] at hw
    exact (choiceOnce_nil.1 hw).elim
  | p :: ps => by
    intro hr w hw
    simp only [resolvesList, Bool.and_eq_true] at hr
    simp only [flatList] at hw
    simp only [GChoiceOnce]
    rcases choiceOnce_cons.1 hw with h | h
    · exact Or.inl (flat_gmatchesW hok p hr.1 w h)
    · exact Or.inr (flat_gchoiceOnce hok ps hr.2 w h)
end

theorem flat_groupLang (defs : GroupDefs) : ∀ fuel g, groupResolves defs fuel g = true →
    ∃ b, groupFlat defs fuel g = some b ∧ ∀ x, Matches b x → groupLang defs fuel g x
  | 0 => by intro g h; simp [groupResolves] at h
  | fuel + 1 => by
    intro g h
    simp only [groupResolves] at h
    simp only [groupFlat, groupLang]
    cases hl : lookupDef defs g with
    | none => simp [hl] at h
    | some kb =>
      obtain ⟨k, body⟩ := kb
      simp only [hl] at h
      exact ⟨_, rfl, fun x hx => flat_gmatchesW (flat_groupLang defs fuel) body h x hx⟩

/-- when every reference resolves, a word of the occurrence skeleton is a word of the content model -/
theorem flat_gmatches {defs : GroupDefs} {p : GParticle} (hr : resolves defs p = true)
    {w : List Str} (h : Matches (flat defs p) w) : GMatches defs p w :=
  flat_gmatchesW (flat_groupLang defs defs.length) p hr w h

/-! ### the statements for `occursG` -/

theorem nonlist_sound_groups_core (defs : GroupDefs) (p : GParticle) (hd : (namesG defs p).Nodup)
    (w : List Str) (hw : GMatches defs p w)
    (ss : List Site) (h : occursG defs p = some ss) (s : Site) (hs : s ∈ ss)
    (hl : s.isList = false) : w.count s.name ≤ 1 := by
  obtain ⟨t, ht, hn, _, hmx⟩ := mem_occursG hd h hs
  obtain ⟨w', hw', hperm⟩ := gmatches_flat hw
  have hl' : t.isList = false := by simpa only [Site.isList, hmx] using hl
  have := nonlist_sound_core (flat defs p) hd w' hw' t ht hl'
  rw [← hperm.count_eq, ← hn]
  exact this

theorem required_sound_groups_core (defs : GroupDefs) (p : GParticle) (hd : (namesG defs p).Nodup)
    (hwf : wfG defs p = true) (w : List Str) (hw : GMatches defs p w)
    (ss : List Site) (h : occursG defs p = some ss) (s : Site) (hs : s ∈ ss)
    (hr : 1 ≤ s.min) (hl : s.isList = false) : w.count s.name = 1 := by
  obtain ⟨t, ht, hn, hmn, hmx⟩ := mem_occursG hd h hs
  obtain ⟨w', hw', hperm⟩ := gmatches_flat hw
  have hl' : t.isList = false := by simpa only [Site.isList, hmx] using hl
  have := required_sound_core (flat defs p) hd hwf w' hw' t ht (by omega) hl'
  rw [← hperm.count_eq, ← hn]
  exact this

theorem list_needed_groups_core (defs : GroupDefs) (p : GParticle) (hd : (namesG defs p).Nodup)
    (hwf : wfG defs p = true) (hlive : liveG defs p = true)
    (ss : List Site) (h : occursG defs p = some ss) (s : Site) (hs : s ∈ ss)
    (hl : s.isList = true) : ∃ w, GMatches defs p w ∧ 2 ≤ w.count s.name := by
  obtain ⟨t, ht, hn, _, hmx⟩ := mem_occursG hd h hs
  have hl' : t.isList = true := by simpa only [Site.isList, hmx] using hl
  obtain ⟨w, hw, hc⟩ := list_needed_core (flat defs p) hd hwf hlive t ht hl'
  have hres : resolves defs p = true := by
    unfold occursG at h
    cases hg : gsites defs p (typeBase defs) with
    | none => simp [hg] at h
    | some gs => exact gsites_resolves hg
  exact ⟨w, flat_gmatches hres hw, by rw [← hn]; exact hc⟩

end Xs.Gen
