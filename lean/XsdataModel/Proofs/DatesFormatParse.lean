/-
Helper lemmas for the "format then parse" round trip of XmlDate / XmlTime /
XmlDateTime (C06).  Core Lean only.
-/
import XsdataModel.Lex.Dates

namespace Proofs.DatesFormatParse
open Py Xs.Dates

/-! ### ASCII digit characters -/

/-- every character of `s` is an ASCII digit -/
def AllD (s : Str) : Prop := ∀ c ∈ s, isAsciiDigit c = true

/-- numeric value of a string of ASCII digits -/
def dval (s : Str) : Nat := digitsVal (s.map (fun c => c.toNat - 48))

theorem isAscii_of_digit {c : Char} (h : isAsciiDigit c = true) : isAscii c = true := by
  simp [isAsciiDigit, isAscii] at *; omega

theorem not_space_of_digit (e : Env) {c : Char} (h : isAsciiDigit c = true) :
    e.isSpace c = false := by
  have ha := isAscii_of_digit h
  simp [Env.isSpace, ha]
  simp [isAsciiDigit, isAsciiSpace] at *; omega

theorem isDigit_of_digit (e : Env) {c : Char} (h : isAsciiDigit c = true) :
    e.isDigit c = true := by
  simp [Env.isDigit, isAscii_of_digit h, h]

theorem decVal_of_digit (e : Env) {c : Char} (h : isAsciiDigit c = true) :
    e.decVal c = some (c.toNat - 48) := by
  simp [Env.decVal, isAscii_of_digit h, h]

theorem digit_ne {c d : Char} (h : isAsciiDigit c = true) (hd : isAsciiDigit d = false) : c ≠ d := by
  intro hc; subst hc; simp [h] at hd

theorem AllD_nil : AllD [] := by intro c hc; cases hc

theorem AllD_cons {c : Char} {s : Str} : AllD (c :: s) ↔ isAsciiDigit c = true ∧ AllD s := by
  simp [AllD]

theorem AllD_append {s t : Str} : AllD (s ++ t) ↔ AllD s ∧ AllD t := by
  simp [AllD, or_imp, forall_and]

theorem AllD_replicate0 (k : Nat) : AllD (List.replicate k '0') := by
  intro c hc
  rw [List.mem_replicate] at hc
  rw [hc.2]; decide

/-! ### `int()` on ASCII digit strings -/

theorem intBody_digits (e : Env) (s : Str) (h : AllD s) :
    intBody e s true = some (s.map (fun c => c.toNat - 48)) := by
  induction s with
  | nil => simp [intBody]
  | cons c cs ih =>
    rw [AllD_cons] at h
    have hne : c ≠ '_' := digit_ne h.1 (by decide)
    simp [intBody, hne, decVal_of_digit e h.1, ih h.2]

theorem intBody_digits_ne (e : Env) (s : Str) (h : AllD s) (hne : s ≠ []) (b : Bool) :
    intBody e s b = some (s.map (fun c => c.toNat - 48)) := by
  cases s with
  | nil => exact absurd rfl hne
  | cons c cs =>
    rw [AllD_cons] at h
    have hne : c ≠ '_' := digit_ne h.1 (by decide)
    simp [intBody, hne, decVal_of_digit e h.1, intBody_digits e cs h.2]

theorem dropWhile_head_false {α} (p : α → Bool) (c : α) (s : List α) (h : p c = false) :
    (c :: s).dropWhile p = c :: s := by
  simp [List.dropWhile, h]

/-- `strip` is the identity on strings whose first and last characters are not blank -/
theorem strip_eq (e : Env) (s : Str)
    (h1 : ∀ c, s.head? = some c → e.isSpace c = false)
    (h2 : ∀ c, s.getLast? = some c → e.isSpace c = false) : e.strip s = s := by
  have hl : e.lstrip s = s := by
    cases s with
    | nil => rfl
    | cons c cs => exact dropWhile_head_false _ _ _ (h1 c rfl)
  unfold Env.strip
  rw [hl]
  unfold Env.rstrip
  cases hr : s.reverse with
  | nil => simp at hr; simp [hr]
  | cons c cs =>
    have : s.getLast? = some c := by
      rw [← List.head?_reverse, hr]; rfl
    rw [dropWhile_head_false _ _ _ (h2 c this), ← hr, List.reverse_reverse]

theorem strip_digits (e : Env) (s : Str) (h : AllD s) : e.strip s = s := by
  apply strip_eq
  · intro c hc
    exact not_space_of_digit e (h c (List.mem_of_mem_head? hc))
  · intro c hc
    exact not_space_of_digit e (h c (List.mem_of_mem_getLast? hc))

theorem pyInt_digits (e : Env) (s : Str) (h : AllD s) (hne : s ≠ []) :
    e.pyInt s = some ((dval s : Nat) : Int) := by
  unfold Env.pyInt
  rw [strip_digits e s h]
  cases s with
  | nil => exact absurd rfl hne
  | cons c cs =>
    have hc := (AllD_cons.1 h).1
    have h1 : c ≠ '-' := digit_ne hc (by decide)
    have h2 : c ≠ '+' := digit_ne hc (by decide)
    simp [h1, h2, intBody_digits_ne e (c :: cs) h hne false, dval]

/-! ### `str(n)` and zero padding -/

/-- the digit character of `d < 10` -/
def dch (d : Nat) : Char := Char.ofNat (48 + d)

theorem dch_toNat : ∀ d, d < 10 → (dch d).toNat = 48 + d := by decide

theorem dch_digit (d : Nat) (h : d < 10) : isAsciiDigit (dch d) = true := by
  simp [isAsciiDigit, dch_toNat d h]; omega

theorem dch_ne_zero : ∀ d, d < 10 → d ≠ 0 → dch d ≠ '0' := by decide

/-- structurally recursive specification of `natStr` -/
def nstr (n : Nat) : Str :=
  if n < 10 then [dch n] else nstr (n / 10) ++ [dch (n % 10)]
decreasing_by omega

theorem natDigitsAux_eq (fuel : Nat) : ∀ (n : Nat) (acc : Str), n < fuel →
    natDigitsAux fuel n acc = nstr n ++ acc := by
  induction fuel with
  | zero => intro n acc h; omega
  | succ f ih =>
    intro n acc h
    unfold natDigitsAux
    by_cases h10 : n / 10 = 0
    · have : n < 10 := by omega
      have hm : n % 10 = n := by omega
      rw [nstr]; simp [h10, this, hm, dch]
    · have : ¬ n < 10 := by omega
      have hlt : n / 10 < f := by omega
      simp only [h10, if_false]
      rw [ih _ _ hlt]
      conv => rhs; rw [nstr]
      simp [this, dch]

theorem natStr_eq (n : Nat) : natStr n = nstr n := by
  unfold natStr
  rw [natDigitsAux_eq _ _ _ (Nat.lt_succ_self n)]; simp

theorem nstr_ne_nil (n : Nat) : nstr n ≠ [] := by
  rw [nstr]; split <;> simp

theorem nstr_AllD (n : Nat) : AllD (nstr n) := by
  induction n using Nat.strongRecOn with
  | ind n ih =>
    rw [nstr]
    split
    · rename_i h; intro c hc; simp at hc; subst hc; exact dch_digit n h
    · rename_i h
      rw [AllD_append]
      refine ⟨ih _ (by omega), ?_⟩
      intro c hc; simp at hc; subst hc; exact dch_digit _ (by omega)

theorem dval_append_single (s : Str) (c : Char) : dval (s ++ [c]) = dval s * 10 + (c.toNat - 48) := by
  simp [dval, digitsVal, List.foldl_append]

theorem dval_nstr (n : Nat) : dval (nstr n) = n := by
  induction n using Nat.strongRecOn with
  | ind n ih =>
    rw [nstr]
    split
    · rename_i h; simp [dval, digitsVal, dch_toNat n h]
    · rename_i h
      rw [dval_append_single, ih _ (by omega), dch_toNat _ (by omega)]
      omega

theorem digitsVal_zero_cons (l : List Nat) : digitsVal (0 :: l) = digitsVal l := by
  simp [digitsVal]

theorem dval_replicate0 (k : Nat) (s : Str) : dval (List.replicate k '0' ++ s) = dval s := by
  induction k with
  | zero => simp
  | succ k ih =>
    rw [List.replicate_succ, List.cons_append]
    unfold dval at *
    rw [List.map_cons]
    show digitsVal (0 :: _) = _
    rw [digitsVal_zero_cons, ih]

/-- `nstr n` has at most `k` characters iff `n < 10^k` (`k ≥ 1`) -/
theorem nstr_length_le (n : Nat) : ∀ k, 1 ≤ k → ((nstr n).length ≤ k ↔ n < 10 ^ k) := by
  induction n using Nat.strongRecOn with
  | ind n ih =>
    intro k hk
    rw [nstr]
    split
    · rename_i h
      have : 10 ^ 1 ≤ 10 ^ k := Nat.pow_le_pow_right (by decide) hk
      simp; omega
    · rename_i h
      have hne := nstr_ne_nil (n / 10)
      have hpos : 1 ≤ (nstr (n / 10)).length := by
        cases hs : nstr (n / 10) with
        | nil => exact absurd hs hne
        | cons _ _ => simp
      simp only [List.length_append, List.length_singleton]
      cases k with
      | zero => omega
      | succ k =>
        cases k with
        | zero =>
          have h10 : (10:Nat) ^ (0 + 1) = 10 := by decide
          rw [h10]; omega
        | succ k =>
          have := ih (n / 10) (by omega) (k + 1) (by omega)
          rw [Nat.pow_succ 10 (k+1)]
          omega

/-- the first character of `nstr n` is not `'0'` unless `n = 0` -/
theorem nstr_head (n : Nat) (hn : n ≠ 0) : ∃ c t, nstr n = c :: t ∧ c ≠ '0' := by
  induction n using Nat.strongRecOn with
  | ind n ih =>
    rw [nstr]
    split
    · rename_i h; exact ⟨_, _, rfl, dch_ne_zero n h hn⟩
    · rename_i h
      obtain ⟨c, t, hc, hc0⟩ := ih (n / 10) (by omega) (by omega)
      exact ⟨c, t ++ [dch (n % 10)], by rw [hc]; rfl, hc0⟩

theorem nstr_zero : nstr 0 = ['0'] := by rw [nstr]; rfl

theorem zpad_eq (n w : Nat) : zpad n w = List.replicate (w - (nstr n).length) '0' ++ nstr n := by
  simp [zpad, rjust, natStr_eq]

theorem zpad_AllD (n w : Nat) : AllD (zpad n w) := by
  rw [zpad_eq, AllD_append]; exact ⟨AllD_replicate0 _, nstr_AllD n⟩

theorem zpad_ne_nil (n w : Nat) : zpad n w ≠ [] := by
  rw [zpad_eq]; simp [nstr_ne_nil]

theorem dval_zpad (n w : Nat) : dval (zpad n w) = n := by
  rw [zpad_eq, dval_replicate0, dval_nstr]

theorem zpad_length_ge (n w : Nat) : w ≤ (zpad n w).length := by
  rw [zpad_eq]; simp; omega

theorem zpad_length (n w : Nat) (hw : 1 ≤ w) (h : n < 10 ^ w) : (zpad n w).length = w := by
  have := (nstr_length_le n w hw).2 h
  rw [zpad_eq]; simp; omega

theorem pyInt_zpad (e : Env) (n w : Nat) : e.pyInt (zpad n w) = some (n : Int) := by
  rw [pyInt_digits e _ (zpad_AllD n w) (zpad_ne_nil n w), dval_zpad]

theorem zpadInt_ofNat (n w : Nat) : zpadInt (n : Int) w = zpad n w := by
  have : ¬ ((n : Int) < 0) := by omega
  simp [zpadInt, this]

end Proofs.DatesFormatParse
