/-
L8 — derived complex types (C02): what the generated class of a type derived by *restriction*
or *extension* does with the occurrence decisions of its base class.

* `ValidateAttributesOverrides.validate_override` : a field the derived class re-declares against
  the field of the same name (slug, xml type, namespace) it inherits;
* `ValidateAttributesOverrides.process` for a class with a restriction base: `validate_attrs`,
  then `prohibit_parent_attrs` (the inherited element fields the restriction does not re-declare
  are prepended with `max_occurs = 0`: rendered `init=False`, metadata type `Ignore`);
* extension: `FlattenClassExtensions.process_complex_extension` keeps the python base class
  (no suffix attr, no MRO collision): the fields of the derived class are the inherited fields
  followed by its own.

Element fields of string type without tokens / nillable / mixed (these four are compared for
equality by `validate_override` and are equal here).
-/
import XsdataModel.Gen.Occurs

namespace Xs.Gen
open Py

/-- what `validate_override` reads of an attr -/
structure OAttr where
  min : Nat
  max : Nat
  default : Option Str := none
  fixed : Bool := false
deriving DecidableEq, Repr

def OAttr.isList (a : OAttr) : Bool := a.max > 1
def OAttr.isProhibited (a : OAttr) : Bool := a.max = 0
def OAttr.isOptional (a : OAttr) : Bool := a.min = 0

/-- `validate_override child parent` : the child attr if it stays in the class (`none`: removed,
the field is inherited) and the parent attr (which the handler may change in place) -/
def validateOverride (c p : OAttr) : Option OAttr × OAttr :=
  let cp : OAttr × OAttr :=
    if c.isList && !p.isList && !p.isProhibited then (c, { p with max := maxsize })
    else if !c.isList && !c.isProhibited && p.isList then ({ c with max := p.max }, p)
    else (c, p)
  let c := cp.1
  let p := cp.2
  if c.default = p.default && c.fixed = p.fixed && c.isProhibited = p.isProhibited &&
      c.isOptional = p.isOptional then (none, p) else (some c, p)

/-- the field the derived class ends up with: its own if kept, else the inherited one -/
def effective (c p : OAttr) : OAttr :=
  match validateOverride c p with
  | (some c', _) => c'
  | (none, p') => p'

/-- `ValidateAttributesOverrides.process` on a class derived by restriction: `base` the element
fields of the base class (one level, no further ancestors), `own` the re-declared ones; result: the
attrs of the derived class (prohibited ones first, `prohibit_parent_attrs`) and the base attrs after
the run. Names are the slugs. -/
def restrictClass (base own : List (Str × OAttr)) : List (Str × OAttr) × List (Str × OAttr) :=
  -- validate_attrs: over a copy of the own attrs, in order; the base attr is updated in place
  let step (acc : List (Str × OAttr) × List (Str × OAttr)) (na : Str × OAttr) :=
    let (kept, base) := acc
    match base.find? (·.1 = na.1) with
    | some (_, p) =>
      let (c', p') := validateOverride na.2 p
      let base := base.map fun (n, b) => if n = na.1 then (n, p') else (n, b)
      (match c' with
       | some c => (kept ++ [(na.1, c)], base)
       | none => (kept, base))
    | none => if na.2.isProhibited then (kept, base) else (kept ++ [na], base)
  let (kept, base') := own.foldl step ([], base)
  -- prohibit_parent_attrs: inherited element attrs that were not explicit, `max_occurs := 0`, `default := None`
  let explicit := own.map (·.1)
  let prohibited := (base'.filter fun (n, _) => !explicit.contains n).map
    fun (n, b) => (n, { b with max := 0, default := none })
  (prohibited ++ kept, base')

/-- `FlattenClassExtensions.have_unordered_sequences` for a restriction of a base class that has no
base of its own (FLATTEN step: every element of an `xs:sequence` carries a sequence id): the
re-declared, non-prohibited elements, if more than one, must be the base elements of those names in
base order; otherwise `should_remove_extension` drops the restriction base and the derived class
stands alone (python field order of a subclass follows the base class). -/
def haveUnorderedSequences (base own : List (Str × OAttr)) : Bool :=
  let sequence := (own.filter (!·.2.isProhibited)).map (·.1)
  let compare := (base.map (·.1)).filter (sequence.contains ·)
  sequence.length > 1 && !compare.isEmpty && compare != sequence

/-- a type derived by restriction through the pipeline: whether the generated class still inherits
from the base class, its attrs, and the base attrs after the run.  Without the base nothing is
inherited, overridden or prohibited: `ValidateAttributesOverrides.validate_attrs` only removes the
prohibited re-declarations. -/
def restrictDerived (base own : List (Str × OAttr)) : Bool × List (Str × OAttr) × List (Str × OAttr) :=
  if haveUnorderedSequences base own then (false, own.filter (!·.2.isProhibited), base)
  else (true, (restrictClass base own).1, (restrictClass base own).2)

/-- the element fields of the dataclass of the derived class: inherited fields in the base order,
an override in the place of the field it overrides, then the new fields -/
def derivedFields (base derived : List (Str × OAttr)) : List (Str × OAttr) :=
  base.map (fun (n, b) => match derived.find? (·.1 = n) with | some d => d | none => (n, b)) ++
  derived.filter (fun (n, _) => !(base.map (·.1)).contains n)

end Xs.Gen
