/-
The parser of `Bind/Parse.lean` once more, with the state that parses *share* made
explicit: the binding metadata held by the `XmlContext` (every `XmlMeta`/`XmlVar` object,
here `Ctx`) is threaded through `NodeParser.start`/`end` as a value that each step receives
and hands on — also when the step raises.

`ElementNode.child` is the step under scrutiny: it reads `self.meta` (`find_children`,
`wrappers`) and the context (`fetch`, `find_type`, `find_subclass`) and — in the code as it
is — writes nothing back, with one exception that is not part of this state: the per-field
dict `XmlVar.namespace_matches` filled by `match_namespace`, which `Ctx/Memo.lean` models and
`Props.C14.memo_pure` proves transparent (the model here calls the un-memoised function).  `childNodeS` says exactly that; everything else follows by
threading.  A memo kept on the shared metadata would have to change `childNodeS`, and
`meta_unchanged_by_parse` (Props/C10Shared.lean) would stop being provable; the
correspondence op `bind.metastate` compares the real objects before and after a parse.
-/
import XsdataModel.Bind.Parse

namespace Xs.Bind
open Py

/-- a step of the parser over the shared context: its outcome and the context afterwards -/
abbrev SP (α : Type) := Ctx → Except Err α × Ctx

/-- `ElementNode.child`: reads the node's metadata and the context, leaves them as they are -/
def childNodeS (e : BEnv) (cfg : ParserConfig) (m : XmlMeta) (st : ElState) (qname : QN)
    (attrs : List (QN × Str)) (nsmap : NsMap) (wrapper : Option QN) : SP (Node × ElState) :=
  fun Γ => (childNode e Γ cfg m st qname attrs nsmap wrapper, Γ)

/-- `WildcardNode.bind` once the children are parsed (pure) -/
def wildFinish (e : BEnv) (var : XmlVar) (attrs : List (QN × Str)) (nsmap : NsMap) (qname : QN)
    (text tail : Option Str) (sub : Out) : Except Err Out := do
  let kids := sub.objs.map (·.2)
  let attributes := parseAnyAttributes attrs nsmap
  let derived := qname ≠ var.qname
  let text := if !kids.isEmpty then normalizeContent e.py text else text
  let text := match text with
    | none => if !var.nillable then some [] else none
    | t => t
  let tail := normalizeContent e.py tail
  if tail.isSome || !attributes.isEmpty || !kids.isEmpty || var.isWildcard || derived then
    return ⟨[(some var.qname, .any (some qname) text tail attributes kids)], sub.warns⟩
  else
    return ⟨[(some var.qname, match text with | some t => .prim (.str t) | none => .none)], sub.warns⟩

/-- `ElementNode.bind` once the children are parsed: reads the context (class factory) only -/
def elementFinish (e : BEnv) (Γ : Ctx) (cfg : ParserConfig) (m : XmlMeta) (attrs : List (QN × Str))
    (nsmap : NsMap) (derived : Bool) (xsiType : Option QN) (xsiNil : Option Bool) (qname : QN)
    (text tail : Option Str) (sub : Out) (st : ElState) : Except Err Out := do
  let nil := xsiNil = some true
  let (objVal, left, tailProcessed, warns) ←
    if !nil || m.nillable then do
      let (params, w1) ← bindAttrs e cfg m attrs nsmap
      let wild := m.findAnyWildcard
      let mixedWild := match wild with | some w => w.mixed | none => false
      let (params, boundText, w2) ←
        match (if mixedWild then wild else none) with
        | some w => do
          let vals ← sub.objs.mapM (fun (q, v) => prepareGeneric q v)
          pure (params.set w.name (.list vals), false, 0)
        | none => do
          let (params, _) ← sub.objs.foldlM (fun (acc : Params × List (QN × List QN)) (qv : Option QN × Val) => do
              let (b, p, ws) ← bindObject m acc.2 acc.1 qv.1 qv.2
              let _ := b
              pure (p, ws)) (params, st.wrappers)
          let (bt, params, w) ← bindText e cfg m xsiNil nsmap params text
          pure (params, bt, w)
      let (params, tailProcessed) :=
        match boundText, wild with
        | false, some w => bindWildText e w attrs nsmap params text tail
        | _, _ => (params, false)
      let obj ← classFactory Γ m.clazz params
      pure (obj, ([] : Objs), tailProcessed, w1 + w2)
    else pure (Val.none, sub.objs, false, 0)
  let objVal := if derived then Val.derived qname objVal xsiType else objVal
  let tl := if !tailProcessed then normalizeContent e.py tail else none
  return ⟨left ++ [(some qname, objVal)] ++ (match tl with | some t => [(none, .prim (.str t))] | none => []),
          sub.warns + warns⟩

mutual

/-- `start` … `end` of one element, over the shared context -/
def parseNodeS (e : BEnv) (cfg : ParserConfig) (node : Node) : Tree → SP Out
  | .node qname a n text children tail => fun Γ =>
    match node with
    | .wildcard var attrs nsmap =>
      match parseWildS e cfg var children Γ with
      | (.error err, Γ') => (.error err, Γ')
      | (.ok sub, Γ') => (wildFinish e var attrs nsmap qname text tail sub, Γ')
    | .element m attrs nsmap derived xsiType xsiNil =>
      match parseKidsS e cfg m {} none children Γ with
      | (.error err, Γ') => (.error err, Γ')
      | (.ok (sub, st), Γ') =>
        (elementFinish e Γ' cfg m attrs nsmap derived xsiType xsiNil qname text tail sub st, Γ')
    -- SkipNode, PrimitiveNode, StandardNode never create child nodes and hold no reference
    -- to shared objects they could write to
    | other => (parseNode e Γ cfg other (.node qname a n text children tail), Γ)

def parseWildS (e : BEnv) (cfg : ParserConfig) (var : XmlVar) : List Tree → SP Out
  | [] => fun Γ => (.ok ⟨[], 0⟩, Γ)
  | (.node q a n t c tl) :: rest => fun Γ =>
    match parseNodeS e cfg (.wildcard var a n) (.node q a n t c tl) Γ with
    | (.error err, Γ') => (.error err, Γ')
    | (.ok o, Γ') =>
      match parseWildS e cfg var rest Γ' with
      | (.error err, Γ'') => (.error err, Γ'')
      | (.ok r, Γ'') => (.ok ⟨o.objs ++ r.objs, o.warns + r.warns⟩, Γ'')

def parseKidsS (e : BEnv) (cfg : ParserConfig) (m : XmlMeta) (st : ElState) (wrapper : Option QN) :
    List Tree → SP (Out × ElState)
  | [] => fun Γ => (.ok (⟨[], 0⟩, st), Γ)
  | (.node q a n t c tl) :: rest => fun Γ =>
    if wrapper.isNone && m.wrappers.any (·.1 = q) then
      match parseKidsS e cfg m st (some q) c Γ with
      | (.error err, Γ') => (.error err, Γ')
      | (.ok (o, st'), Γ') =>
        match parseKidsS e cfg m st' wrapper rest Γ' with
        | (.error err, Γ'') => (.error err, Γ'')
        | (.ok (r, st''), Γ'') => (.ok (⟨o.objs ++ r.objs, o.warns + r.warns⟩, st''), Γ'')
    else
      match childNodeS e cfg m st q a n wrapper Γ with
      | (.error err, Γ₁) => (.error err, Γ₁)
      | (.ok (node, st'), Γ₁) =>
        match parseNodeS e cfg node (.node q a n t c tl) Γ₁ with
        | (.error err, Γ₂) => (.error err, Γ₂)
        | (.ok o, Γ₂) =>
          match parseKidsS e cfg m st' wrapper rest Γ₂ with
          | (.error err, Γ₃) => (.error err, Γ₃)
          | (.ok (r, st''), Γ₃) => (.ok (⟨o.objs ++ r.objs, o.warns + r.warns⟩, st''), Γ₃)

end

/-- `NodeParser.parse` over the shared context -/
def parseRootS (e : BEnv) (cfg : ParserConfig) (clazz : ClassId) : Tree → SP (Val × Nat)
  | .node q a n t c tl => fun Γ =>
    match xsiTypeOf e a n with
    | .error err => (.error err, Γ)
    | .ok xt =>
      match Γ.fetch clazz none xt with
      | .error err => (.error err, Γ)
      | .ok m =>
        let derived := !(xt.isNone || m.qname = q)
        match parseNodeS e cfg (.element m a n derived (if derived then xt else none) (xsiNilOf a))
            (.node q a n t c tl) Γ with
        | (.error err, Γ') => (.error err, Γ')
        | (.ok out, Γ') =>
          (match out.objs.getLast? with
           | some (_, .none) | none => .error (.parser "Failed to create target class")
           | some (_, v) => .ok (v, out.warns), Γ')

/-- one parser call of a program that shares its context: configuration, target class, document -/
structure Call where
  cfg : ParserConfig
  clazz : ClassId
  doc : Tree

/-- a sequence of parser calls (any configurations, lenient and strict in any order) on one
shared context: the outcomes and the context afterwards -/
def parseSeqS (e : BEnv) : List Call → Ctx → List (Except Err (Val × Nat)) × Ctx
  | [], Γ => ([], Γ)
  | c :: cs, Γ =>
    let r := parseRootS e c.cfg c.clazz c.doc Γ
    let rs := parseSeqS e cs r.2
    (r.1 :: rs.1, rs.2)

end Xs.Bind
