/-
L8 — xsdata/formats/dataclass/serializers/code.py : PycodeSerializer
     (render / write / build_imports / repr_object / repr_array / repr_mapping /
      repr_model), xsdata/utils/objects.py : literal_value, and the part of
     xsdata/formats/dataclass/compat.py it uses (Dataclasses.get_fields /
     default_value), **as the code is** (after the fix commits 1242bcb enum
     qualname, e20b710 tuple brackets, 3837894 json.dumps for QName text), plus the fragment of Python needed to
     say what the emitted source does when it is executed in a fresh namespace.

Layers
  * `Val`      — the Python values a binding-model instance is made of.
  * `World`    — the classes that exist (module, qualname path, kind, fields).
  * `PyExpr`   — the expression the serializer emits (an AST; `PyExpr.text`
                 is the exact source text, layout included).
  * `render`   — `repr_object`; `PyExpr.types` — the `types` set;
                 `imports` — `build_imports`; `source` — `render()`.
  * `eval`     — CPython executing that expression after the import lines:
                 name lookup through the imported names, attribute walk,
                 dataclass `__init__(**kwargs)`, list/dict displays.
  * `pyEq`     — Python `==` on these values.
  * `outcome`  — "equal" / "unequal" / "exc:<Type>" / "unmodelled".

What is *not* modelled (trusted to CPython): tokenising/parsing of the text
into the AST; `repr()`/literal round trip of
and of opaque values whose `repr` is a constructor call (`Decimal('1.5')`,
`XmlDate(2000, 1, 2)`): their text is an input (`repr` field) and evaluating
it is taken to give the value back.
-/
import XsdataModel.Py.Basic
import XsdataModel.Tables
import XsdataModel.Conv.FloatRepr

open Lean in
/-- `cs!"abc"` = `['a','b','c']` (strings in the model are `List Char`) -/
macro:max "cs!" s:str : term => do
  let elems := s.getString.toList.map fun c => Syntax.mkCharLit c
  `(([$(elems.toArray),*] : List Char))

namespace Xs.Code
open Py

/-! ## Values -/

/-- exact numeric value of a `float` / `Decimal`: a fraction in lowest terms
(as `fractions.Fraction(x)` gives it) or one of the specials -/
inductive NumV
  | fin (num : Int) (den : Nat)
  | pinf
  | ninf
  | nan
  /-- `Decimal('sNaN')`: every comparison with it raises `InvalidOperation` -/
  | snan
deriving DecidableEq, Repr

/-- Python numeric `==` (exact; NaN equals nothing; a comparison with a
signaling NaN raises - see `eqRaises` - and is `false` here) -/
def NumV.eq : NumV → NumV → Bool
  | .nan, _ => false
  | _, .nan => false
  | .snan, _ => false
  | _, .snan => false
  | a, b => decide (a = b)

def NumV.isFin : NumV → Bool
  | .fin _ _ => true
  | _ => false

/-- a class: `__module__` and `__qualname__.split(".")` -/
structure ClsRef where
  module : Str
  path : List Str
deriving DecidableEq, Repr

def builtinsMod : Str := cs!"builtins"
def bref (n : Str) : ClsRef := ⟨builtinsMod, [n]⟩
def noneT : ClsRef := bref Tables.noneTypeName
def boolT : ClsRef := bref cs!"bool"
def intT : ClsRef := bref cs!"int"
def floatT : ClsRef := bref cs!"float"
def strT : ClsRef := bref cs!"str"
def bytesT : ClsRef := bref cs!"bytes"
def listT : ClsRef := bref cs!"list"
def tupleT : ClsRef := bref cs!"tuple"
def dictT : ClsRef := bref cs!"dict"
def setT : ClsRef := bref cs!"set"
def frozensetT : ClsRef := bref cs!"frozenset"
def decimalT : ClsRef := ⟨Tables.decimalModule, [Tables.decimalName]⟩
def qnameT : ClsRef := ⟨Tables.qnameModule, [Tables.qnameName]⟩

inductive Val
  | none
  | bool (b : Bool)
  | int (i : Int)
  /-- `repr` = `str(value)` -/
  | float (x : Xs.Conv.F64) (repr : Str)
  /-- `repr` = `repr(value)`; the domain predicate asks that it be a literal
      denoting `s` (it is for CPython's `repr`: `str_repr_roundtrips`) -/
  | str (s : Str) (repr : Str)
  /-- `bytes` or a subclass (`XmlHexBinary`, `XmlBase64Binary`): the byte values
      and `repr(value)` = `b'…'`, again required to denote them -/
  | bytes (cls : ClsRef) (bs : List Nat) (repr : Str)
  /-- `xml.etree.ElementTree.QName`; `text` is `value.text` -/
  | qname (text : Str)
  /-- `decimal.Decimal`, as `as_tuple()` shows it (C05's `Dec`); `repr` =
      `repr(value)` = `Decimal('<str(value)>')` -/
  | decimal (d : Xs.Conv.Dec) (repr : Str)
  /-- a value of class `cls` whose `repr` is the constructor call
      `callee(args)` (`Decimal('1.5')`, `XmlDate(2000, 1, 2)`); `n` is its
      numeric value when it takes part in numeric `==` (Decimal) -/
  | opaque (cls : ClsRef) (callee : List Str) (args : Str) (n : Option NumV)
  | enum (cls : ClsRef) (member : Str)
  | list (xs : List Val)
  | tuple (xs : List Val)
  /-- `set` / `frozenset`; `xs` in iteration order -/
  | set (frozen : Bool) (xs : List Val)
  | dict (kvs : List (Val × Val))
  /-- dataclass instance: the attribute values in `fields(cls)` order -/
  | model (cls : ClsRef) (attrs : List Val)

/-! ## The classes that exist -/

inductive Default
  | missing
  | value (v : Val)
  /-- `default_factory`; `v` is what calling it returns -/
  | factory (v : Val)

structure FieldSpec where
  name : Str
  init : Bool
  dflt : Default

inductive ClsKind
  | model (fields : List FieldSpec)
  | enum (members : List Str)
  /-- any other class (only its existence matters, for attribute walks) -/
  | other

structure ClsEntry where
  ref : ClsRef
  kind : ClsKind

abbrev World := List ClsEntry

def World.find (W : World) (r : ClsRef) : Option ClsEntry := List.find? (fun e => decide (e.ref = r)) W

def World.fieldsOf (W : World) (r : ClsRef) : List FieldSpec :=
  match W.find r with
  | some ⟨_, .model fs⟩ => fs
  | _ => []

/-! ## Python `==` -/

/-- how often 2 divides `m` (at most `fuel` times) -/
def twoAdic : Nat → Nat → Nat
  | 0, _ => 0
  | fuel + 1, m => if m ≠ 0 ∧ m % 2 = 0 then 1 + twoAdic fuel (m / 2) else 0

/-- the exact value of a binary64 number as a fraction in lowest terms -/
def numOfF64 : Xs.Conv.F64 → NumV
  | .nan => .nan
  | .inf neg => if neg then .ninf else .pinf
  | .fin neg m q =>
    if m = 0 then .fin 0 1
    else
      let sgn : Int := if neg then -1 else 1
      if q ≥ 0 then .fin (sgn * (m * 2 ^ q.toNat : Nat)) 1
      else
        let k := min (twoAdic 64 m) (-q).toNat
        .fin (sgn * (m / 2 ^ k : Nat)) (2 ^ ((-q).toNat - k))

/-- the exact value of a Decimal as a fraction in lowest terms (a signaling NaN
is kept apart: comparing with it raises) -/
def numOfDec : Xs.Conv.Dec → NumV
  | .inf neg => if neg then .ninf else .pinf
  | .nan _ sg _ => if sg then .snan else .nan
  | .fin neg c x =>
    if c = 0 then .fin 0 1
    else
      let sgn : Int := if neg then -1 else 1
      if x ≥ 0 then .fin (sgn * (c * 10 ^ x.toNat : Nat)) 1
      else
        let p := 10 ^ (-x).toNat
        let g := Nat.gcd c p
        .fin (sgn * (c / g : Nat)) (p / g)

/-- `"%+d" % i` -/
def signedDec (i : Int) : Str := (if i < 0 then '-' else '+') :: natStr i.natAbs

/-- `Decimal.__str__`: the scientific-notation rules of the decimal module
(plain notation while the exponent is ≤ 0 and the value not below 1e-6,
otherwise one digit, the rest after the point, `E±n`) -/
def decStr : Xs.Conv.Dec → Str
  | .inf neg => (if neg then ['-'] else []) ++ cs!"Infinity"
  | .nan neg sg diag =>
    (if neg then ['-'] else []) ++ (if sg then ['s'] else []) ++ ['N', 'a', 'N'] ++ (if diag = 0 then [] else natStr diag)
  | .fin neg c x =>
    let ds := natStr c
    let n : Int := ds.length
    let left := x + n
    let body :=
      if x ≤ 0 ∧ left > -6 then
        if left ≤ 0 then '0' :: '.' :: (List.replicate (-left).toNat '0' ++ ds)
        else if left ≥ n then ds
        else ds.take left.toNat ++ '.' :: ds.drop left.toNat
      else
        (if ds.length ≤ 1 then ds else ds.take 1 ++ '.' :: ds.drop 1) ++ 'E' :: signedDec (left - 1)
    (if neg then ['-'] else []) ++ body

/-- `repr(d)` -/
def decRepr (d : Xs.Conv.Dec) : Str := Tables.decimalName ++ cs!"('" ++ decStr d ++ cs!"')"

def f64Finite : Xs.Conv.F64 → Bool
  | .fin _ _ _ => true
  | _ => false

/-- the value is one of the format: zero, a normal or a subnormal number, ±inf, NaN -/
def f64Canonical : Xs.Conv.F64 → Bool
  | .fin _ m q =>
    (m == 0 && q == -1074) || (decide (2 ^ 52 ≤ m) && decide (m < 2 ^ 53) && decide (-1074 ≤ q) && decide (q ≤ 971))
      || (decide (0 < m) && decide (m < 2 ^ 52) && q == -1074)
  | _ => true

/-- `float(text)`: the double a float token / the argument of `float("…")`
denotes - C05's exact model of CPython's parsing and rounding -/
def readFloat (t : Str) : Option Xs.Conv.F64 :=
  (Xs.Conv.pyFloatLit Py.Env.ascii t).map Xs.Conv.FloatLit.toF64

/-- numeric view of a value (bool ⊂ int; float; Decimal) -/
def numOf : Val → Option NumV
  | .bool b => some (.fin (if b then 1 else 0) 1)
  | .int i => some (.fin i 1)
  | .float x _ => some (numOfF64 x)
  | .opaque _ _ _ (some n) => some n
  | .decimal d _ => some (numOfDec d)
  | _ => Option.none

/-- `a == b` when `a` is not a list/tuple/dict/dataclass -/
def leafEq (a b : Val) : Bool :=
  match numOf a, numOf b with
  | some x, some y => x.eq y
  | _, _ =>
    match a, b with
    | .none, .none => true
    | .str s _, .str t _ => s == t
    -- `QName.__eq__` compares `.text` with a plain string too (both directions)
    | .str s _, .qname t => s == t
    | .qname s, .str t _ => s == t
    | .qname s, .qname t => s == t
    | .bytes _ bs _, .bytes _ bs' _ => bs == bs'
    | .enum c m, .enum c' m' => decide (c = c') && m == m'
    | .opaque c cal ar _, .opaque c' cal' ar' _ => decide (c = c') && cal == cal' && ar == ar'
    | _, _ => false

mutual
/-- Python `a == b` (dataclasses with `eq=True`; dicts compared in order — see
NOTES: the generator never permutes dicts) -/
def pyEq (a b : Val) : Bool :=
  match a with
  | .list xs => match b with
    | .list ys => pyEqL xs ys
    | _ => false
  | .tuple xs => match b with
    | .tuple ys => pyEqL xs ys
    | _ => false
  | .set _ xs => match b with
    -- `set == frozenset` compares contents; the model compares in iteration
    -- order (see NOTES: sets only ever meet here when both are empty)
    | .set _ ys => pyEqL xs ys
    | _ => false
  | .dict kvs => match b with
    | .dict kvs' => pyEqKV kvs kvs'
    | _ => false
  | .model c xs => match b with
    | .model c' ys => decide (c = c') && pyEqL xs ys
    | _ => false
  | a' => leafEq a' b
def pyEqL (xs ys : List Val) : Bool :=
  match xs with
  | [] => ys.isEmpty
  | x :: xs' => match ys with
    | [] => false
    | y :: ys' => pyEq x y && pyEqL xs' ys'
def pyEqKV (xs ys : List (Val × Val)) : Bool :=
  match xs with
  | [] => ys.isEmpty
  | (k, v) :: xs' => match ys with
    | [] => false
    | (k', v') :: ys' => pyEq k k' && pyEq v v' && pyEqKV xs' ys'
end

mutual
/-- can the value be a dict key (`hash()` does not raise)?  Dataclass
instances are taken as unhashable (`eq=True, frozen=False`). -/
def hashable : Val → Bool
  | .list _ => false
  | .dict _ => false
  | .model _ _ => false
  | .tuple xs => hashableL xs
  | .set frozen xs => frozen && hashableL xs
  | _ => true
def hashableL : List Val → Bool
  | [] => true
  | x :: xs => hashable x && hashableL xs
end

/-! ## The emitted expression -/

/-- an ASCII identifier: `[A-Za-z_][A-Za-z0-9_]*` -/
def asciiIdent : Str → Bool
  | [] => false
  | c :: r =>
    let letter (c : Char) : Bool := (65 ≤ c.toNat && c.toNat ≤ 90) || (97 ≤ c.toNat && c.toNat ≤ 122) || c = '_'
    letter c && r.all fun d => letter d || (48 ≤ d.toNat && d.toNat ≤ 57)

/-- can `Cls.<name>` be written and mean the member?  The model covers ASCII
identifiers that are not keywords (`E.a-b` is a subtraction, `E.class` a syntax
error; non-ASCII identifiers are left to the interpreter) -/
def enumNameOK (m : Str) : Bool := asciiIdent m && !Tables.pyKeywords.contains m

/-- the four types `collections.is_array` accepts and `repr_array` renders -/
inductive ArrKind
  | list
  | tuple
  | set
  | frozenset
deriving DecidableEq, Repr

def ArrKind.type : ArrKind → ClsRef
  | .list => listT
  | .tuple => tupleT
  | .set => setT
  | .frozenset => frozensetT

/-- brackets of the non-empty display: a list display, a tuple display, a set
display, and a set display handed to the builtin `frozenset` -/
def ArrKind.opening : ArrKind → Str
  | .list => cs!"["
  | .tuple => cs!"("
  | .set => cs!"{"
  | .frozenset => cs!"frozenset({"

def ArrKind.closing : ArrKind → Str
  | .list => cs!"]"
  | .tuple => cs!")"
  | .set => cs!"}"
  | .frozenset => cs!"})"

/-- `str(obj)` of the empty container -/
def ArrKind.emptyText : ArrKind → Str
  | .list => cs!"[]"
  | .tuple => cs!"()"
  | .set => cs!"set()"
  | .frozenset => cs!"frozenset()"

inductive PyExpr
  /-- a literal token `text` that evaluates to `v`; `ty` is `type(obj)` of the
      object it was produced from -/
  | lit (v : Val) (text : Str) (ty : ClsRef)
  /-- `repr_array`: `str(obj)` when empty; otherwise `[ … ]`, `( … )`, `{ … }`
      or `frozenset({ … })` by the type of the object -/
  | arr (kind : ArrKind) (xs : List PyExpr)
  | dict (kvs : List (PyExpr × PyExpr))
  /-- `float("inf")` -/
  | floatCall (x : Xs.Conv.F64) (arg : Str)
  /-- `QName(<json.dumps(text, ensure_ascii=False)>)` -/
  | qnameCall (text : Str)
  /-- `Decimal('…')`: the whole `repr` text -/
  | decimalCall (d : Xs.Conv.Dec) (text : Str)
  | opaqueCall (cls : ClsRef) (callee : List Str) (args : Str) (n : Option NumV)
  /-- `Qual.Name.MEMBER` (`__qualname__` of the class, `.name` of the member) -/
  | enumRef (cls : ClsRef) (member : Str)
  /-- `Qual.Name(\n kw=…,\n …)` -/
  | call (cls : ClsRef) (kwargs : List (Str × PyExpr))

/-- the name of the callable in `float("…")` / `QName("…")`, read off the
format the code uses -/
def calleeOf (pre : Str) : Str := pre.takeWhile (· ≠ '(')
def floatCallee : Str := calleeOf Tables.floatLitPre
def qnameCallee : Str := calleeOf Tables.qnameLitPre

def spaces (n : Nat) : Str := (List.replicate n Tables.pycodeSpaces).flatten

def dotted : List Str → Str
  | [] => []
  | [a] => a
  | a :: rest => a ++ '.' :: dotted rest

/-! ### `json.dumps(s, ensure_ascii=False)` -/

def hexDigit (n : Nat) : Char := if n < 10 then Char.ofNat (48 + n) else Char.ofNat (87 + n)

/-- `json.encoder.ESCAPE_DCT`: `"` `\` and the C0 controls are escaped, the
five with a short form by it, the others as `\u00xx`; everything else
(DEL, non-ASCII, U+2028…) is copied -/
def jsonEscChar (c : Char) : Str :=
  if c = '"' then cs!"\\\"" else if c = '\\' then cs!"\\\\"
  else if c = '\n' then cs!"\\n" else if c = '\r' then cs!"\\r" else if c = '\t' then cs!"\\t"
  else if c.toNat = 8 then cs!"\\b" else if c.toNat = 12 then cs!"\\f"
  else if c.toNat < 32 then ['\\', 'u', '0', '0', hexDigit (c.toNat / 16), hexDigit (c.toNat % 16)]
  else [c]

/-- what `json.dumps` puts between the two double quotes -/
def jsonBody : Str → Str
  | [] => []
  | c :: r => jsonEscChar c ++ jsonBody r

def jsonDumps (s : Str) : Str := '"' :: jsonBody s ++ ['"']

/-! ### QName text as Python holds it: code points, lone surrogates included

`literal_value` post-processes the `json.dumps` text with
`.encode("utf-8", "backslashreplace").decode("utf-8")`: a lone surrogate
(which `json.dumps(ensure_ascii=False)` copies raw and no source file can
hold) becomes `\udXXX`; everything else is unchanged.  A Lean `Char` is a
Unicode scalar value, so strings that may contain surrogates are lists of code
points here. -/

def isSurrogate (v : Nat) : Bool := 0xD800 ≤ v && v ≤ 0xDFFF

/-- what `literal_value` writes for one code point of the text -/
def escapeCp (n : Nat) : Str :=
  if isSurrogate n then
    ['\\', 'u', hexDigit (n / 4096), hexDigit (n / 256 % 16), hexDigit (n / 16 % 16), hexDigit (n % 16)]
  else jsonEscChar (Char.ofNat n)

/-- between the quotes of `QName("…")`, for a text given by its code points -/
def qnameLitBody : List Nat → Str
  | [] => []
  | n :: r => escapeCp n ++ qnameLitBody r

mutual
/-- the source text, exactly as the generator functions yield it -/
def PyExpr.text (level : Nat) : PyExpr → Str
  | .lit _ t _ => t
  | .arr k [] => k.emptyText
  | .arr k (x :: xs) => k.opening ++ cs!"\n" ++ textItems (level + 1) (x :: xs) ++ spaces level ++ k.closing
  | .dict [] => cs!"{}"
  | .dict (p :: ps) => cs!"{\n" ++ textKV (level + 1) (p :: ps) ++ spaces level ++ cs!"}"
  | .floatCall _ a => Tables.floatLitPre ++ a ++ Tables.floatLitPost
  | .qnameCall t => Tables.qnameLitPre ++ jsonBody t ++ Tables.qnameLitPost
  | .opaqueCall _ callee args _ => dotted callee ++ args
  | .decimalCall _ t => t
  | .enumRef c m => dotted c.path ++ Tables.enumStrSep ++ m
  | .call c kws => dotted c.path ++ cs!"(\n" ++ textKw (level + 1) true kws ++ cs!"\n" ++ spaces level ++ cs!")"
def textItems (level : Nat) : List PyExpr → Str
  | [] => []
  | x :: xs => spaces level ++ x.text level ++ cs!",\n" ++ textItems level xs
def textKV (level : Nat) : List (PyExpr × PyExpr) → Str
  | [] => []
  | (k, v) :: r => spaces level ++ k.text level ++ cs!": " ++ v.text level ++ cs!",\n" ++ textKV level r
def textKw (level : Nat) (first : Bool) : List (Str × PyExpr) → Str
  | [] => []
  | (n, e) :: r =>
    (if first then [] else cs!",\n") ++ spaces level ++ n ++ cs!"=" ++ e.text level ++ textKw level false r
end

mutual
/-- what `types.add(type(obj))` collected while the expression was produced -/
def PyExpr.types : PyExpr → List ClsRef
  | .lit _ _ ty => [ty]
  | .arr k xs => k.type :: typesL xs
  | .dict kvs => dictT :: typesKV kvs
  | .floatCall _ _ => [floatT]
  | .qnameCall _ => [qnameT]
  | .opaqueCall c _ _ _ => [c]
  | .decimalCall _ _ => [decimalT]
  | .enumRef c _ => [c]
  | .call c kws => c :: typesKw kws
def typesL : List PyExpr → List ClsRef
  | [] => []
  | x :: xs => x.types ++ typesL xs
def typesKV : List (PyExpr × PyExpr) → List ClsRef
  | [] => []
  | (k, v) :: r => k.types ++ v.types ++ typesKV r
def typesKw : List (Str × PyExpr) → List ClsRef
  | [] => []
  | (_, e) :: r => e.types ++ typesKw r
end

/-- `set()`, `frozenset()` and `frozenset({…})` call the builtin by name -/
def arrRefs (k : ArrKind) (empty : Bool) : List (List Str × ClsRef) :=
  match k with
  | .frozenset => [([cs!"frozenset"], frozensetT)]
  | .set => if empty then [([cs!"set"], setT)] else []
  | _ => []

mutual
/-- the class references the source makes: (dotted name as written, class meant) -/
def PyExpr.refs : PyExpr → List (List Str × ClsRef)
  | .lit _ _ _ => []
  | .arr k xs => arrRefs k xs.isEmpty ++ refsL xs
  | .dict kvs => refsKV kvs
  | .floatCall _ _ => [([floatCallee], floatT)]
  | .qnameCall _ => [([qnameCallee], qnameT)]
  | .opaqueCall c callee _ _ => [(callee, c)]
  | .decimalCall _ _ => [([Tables.decimalName], decimalT)]
  | .enumRef c _ => [(c.path, c)]
  | .call c kws => (c.path, c) :: refsKw kws
def refsL : List PyExpr → List (List Str × ClsRef)
  | [] => []
  | x :: xs => x.refs ++ refsL xs
def refsKV : List (PyExpr × PyExpr) → List (List Str × ClsRef)
  | [] => []
  | (k, v) :: r => k.refs ++ v.refs ++ refsKV r
def refsKw : List (Str × PyExpr) → List (List Str × ClsRef)
  | [] => []
  | (_, e) :: r => e.refs ++ refsKw r
end

/-! ## `repr_object` -/

/-- `(callable(default) and default() == value) or default == value`
(a factory function itself never equals a field value) -/
def elide : Default → Val → Bool
  | .missing, _ => false
  | .value d, v => pyEq d v
  | .factory d, v => pyEq d v

/-- the loop of `repr_model` over `get_fields(obj)`: `exprs` are the rendered
attribute values, position by position -/
def selectKw : List FieldSpec → List Val → List PyExpr → List (Str × PyExpr)
  | f :: fs, v :: vs, e :: es =>
    if f.init && !(elide f.dflt v) then (f.name, e) :: selectKw fs vs es else selectKw fs vs es
  | _, _, _ => []

mutual
def render (W : World) : Val → PyExpr
  | .none => .lit .none cs!"None" noneT
  | .bool b => .lit (.bool b) (if b then cs!"True" else cs!"False") boolT
  | .int i => .lit (.int i) (intStr i) intT
  | .float x r => if f64Finite x then .lit (.float x r) r floatT else .floatCall x r
  | .str s r => .lit (.str s r) r strT
  | .bytes c bs r => .lit (.bytes bytesT bs r) r c
  | .qname t => .qnameCall t
  | .opaque c callee args n => .opaqueCall c callee args n
  | .decimal d r => .decimalCall d r
  | .enum c m => .enumRef c m
  | .list xs => .arr .list (renderL W xs)
  | .tuple xs => .arr .tuple (renderL W xs)
  | .set frozen xs => .arr (if frozen then .frozenset else .set) (renderL W xs)
  | .dict kvs => .dict (renderKV W kvs)
  | .model c attrs => .call c (selectKw (W.fieldsOf c) attrs (renderL W attrs))
def renderL (W : World) : List Val → List PyExpr
  | [] => []
  | x :: xs => render W x :: renderL W xs
def renderKV (W : World) : List (Val × Val) → List (PyExpr × PyExpr)
  | [] => []
  | (k, v) :: r => (render W k, render W v) :: renderKV W r
end

/-! ## `build_imports` -/

/-- Python `str` ordering (by code point) -/
def strLe : Str → Str → Bool
  | [], _ => true
  | _ :: _, [] => false
  | a :: as, b :: bs => a.toNat < b.toNat || (a.toNat == b.toNat && strLe as bs)

def importLine (p : Str × Str) : Str :=
  Tables.importPre ++ p.1 ++ Tables.importMid ++ p.2 ++ Tables.importPost

/-- insert into a list sorted by line, dropping a pair that is already there
(the code keeps a *set of lines*; for module and class names, which contain
no blanks, two pairs give the same line only when they are the same pair) -/
def insertImport (p : Str × Str) : List (Str × Str) → List (Str × Str)
  | [] => [p]
  | q :: qs =>
    if p == q then q :: qs
    else if strLe (importLine p) (importLine q) then p :: q :: qs
    else q :: insertImport p qs

/-- `(module, name)` of the import a type causes: nothing for `builtins`, the
outermost name of a dotted qualname -/
def importOf (t : ClsRef) : Option (Str × Str) :=
  if t.module == builtinsMod then Option.none else some (t.module, t.path.headD [])

/-- `build_imports(types)`: the set of lines, sorted -/
def imports (ts : List ClsRef) : List (Str × Str) :=
  (ts.filterMap importOf).foldr insertImport []

def importsText (ts : List ClsRef) : Str := ((imports ts).map importLine).flatten

/-! ## Executing the source -/

inductive Err
  | nameError
  | attributeError
  | typeError
  /-- `decimal.InvalidOperation`, raised inside `render` by `default == value` -/
  | invalidOperation
  /-- the rendered source does not compile -/
  | syntaxError
  /-- `xsdata.exceptions.SerializerError`, raised by `render` itself -/
  | serializerError
  /-- outside what this model predicts -/
  | unmodelled
deriving DecidableEq, Repr

def Err.name : Err → Str
  | .nameError => cs!"NameError"
  | .attributeError => cs!"AttributeError"
  | .typeError => cs!"TypeError"
  | .invalidOperation => cs!"InvalidOperation"
  | .syntaxError => cs!"SyntaxError"
  | .serializerError => cs!"SerializerError"
  | .unmodelled => cs!"unmodelled"

/-- namespace after the import lines ran: `(module, name)` in execution order;
a later `from m import n` rebinds `n` -/
abbrev Env := List (Str × Str)

def Env.lookup (env : Env) (n : Str) : Option Str :=
  (env.reverse.find? (fun p => p.2 == n)).map (·.1)

/-- attribute walk `cur.a1.a2…` below module-level object `m.cur` -/
def walk (W : World) (m : Str) : List Str → List Str → Except Err ClsRef
  | cur, [] => .ok ⟨m, cur⟩
  | cur, a :: rest =>
    if (W.find ⟨m, cur ++ [a]⟩).isSome then walk W m (cur ++ [a]) rest else .error .attributeError

/-- evaluate a dotted name to the class object it denotes -/
def resolve (W : World) (env : Env) : List Str → Except Err ClsRef
  | [] => .error .unmodelled
  | h :: rest =>
    match env.lookup h with
    | some m => walk W m [h] rest
    | Option.none =>
      if Tables.builtinNames.contains h then
        (if rest.isEmpty then .ok (bref h) else .error .attributeError)
      else .error .nameError

/-- body of a `"…"` literal → the string it denotes, as the Python parser
reads it. `none`: the literal is malformed, denotes a lone surrogate, or uses
an escape this model does not decode (octal, `\x`, `\N`, `\U`, line
continuation) -/
def simpleEsc (c : Char) : Option Char :=
  if c = '\\' then some '\\' else if c = '\'' then some '\'' else if c = '"' then some '"'
  else if c = 'a' then some (Char.ofNat 7) else if c = 'b' then some (Char.ofNat 8)
  else if c = 'f' then some (Char.ofNat 12) else if c = 'n' then some (Char.ofNat 10)
  else if c = 'r' then some (Char.ofNat 13) else if c = 't' then some (Char.ofNat 9)
  else if c = 'v' then some (Char.ofNat 11) else Option.none

def hardEsc (c : Char) : Bool :=
  ('0'.toNat ≤ c.toNat && c.toNat ≤ '7'.toNat) || c = 'x' || c = 'N' || c = 'U'
    || c = '\n' || c = '\r' || c.toNat = 0

def hexVal (c : Char) : Option Nat :=
  let n := c.toNat
  if 48 ≤ n && n ≤ 57 then some (n - 48)
  else if 97 ≤ n && n ≤ 102 then some (n - 87)
  else if 65 ≤ n && n ≤ 70 then some (n - 55)
  else Option.none

def rawBad (c : Char) : Bool := c = '"' || c = '\n' || c = '\r' || c.toNat = 0

/-- state of the literal scanner: plain text, just after a backslash, or inside
the four hex digits of `\uXXXX` (`left` to go, value so far `acc`) -/
inductive DqState
  | normal
  | esc
  | hex (left : Nat) (acc : Nat)

def decodeDq : DqState → Str → Option Str
  | .normal, [] => some []
  | .esc, [] => Option.none
  | .hex _ _, [] => Option.none
  | .normal, c :: r =>
    if c = '\\' then decodeDq .esc r
    else if rawBad c then Option.none
    else (decodeDq .normal r).map (c :: ·)
  | .esc, c :: r =>
    if c = 'u' then decodeDq (.hex 4 0) r
    else if hardEsc c then Option.none
    else match simpleEsc c with
      | some d => (decodeDq .normal r).map (d :: ·)
      | Option.none => (decodeDq .normal r).map (fun t => '\\' :: c :: t)   -- unknown escape: kept (SyntaxWarning)
  | .hex left acc, c :: r =>
    match hexVal c with
    | Option.none => Option.none
    | some d =>
      let v := acc * 16 + d
      if left ≤ 1 then
        (if isSurrogate v then Option.none else (decodeDq .normal r).map (Char.ofNat v :: ·))
      else decodeDq (.hex (left - 1) v) r

/-- the same scanner returning code points, so that `\udXXX` can denote the
lone surrogate it denotes in Python -/
def decodeCp : DqState → Str → Option (List Nat)
  | .normal, [] => some []
  | .esc, [] => Option.none
  | .hex _ _, [] => Option.none
  | .normal, c :: r =>
    if c = '\\' then decodeCp .esc r
    else if rawBad c then Option.none
    else (decodeCp .normal r).map (c.toNat :: ·)
  | .esc, c :: r =>
    if c = 'u' then decodeCp (.hex 4 0) r
    else if hardEsc c then Option.none
    else match simpleEsc c with
      | some d => (decodeCp .normal r).map (d.toNat :: ·)
      | Option.none => (decodeCp .normal r).map (fun t => '\\'.toNat :: c.toNat :: t)
  | .hex left acc, c :: r =>
    match hexVal c with
    | Option.none => Option.none
    | some d =>
      let v := acc * 16 + d
      if left ≤ 1 then (decodeCp .normal r).map (v :: ·) else decodeCp (.hex (left - 1) v) r

/-! ### `repr(str)`, `repr(bytes)` and the parser's reading of such a literal

`literal_value` falls back to `repr(value)`; for `str` and `bytes` leaves the
model computes that text (`pyReprStr`, `pyReprBytes`, CPython's
`unicode_repr` / `bytes_repr`) and reads it back with `decodeLit`, the general
form of the scanner above: either quote, `\xhh`, `\uhhhh`, `\Uhhhhhhhh`. -/

def hardEscL (c : Char) : Bool :=
  ('0'.toNat ≤ c.toNat && c.toNat ≤ '7'.toNat) || c = 'N' || c = '\n' || c = '\r' || c.toNat = 0

/-- a raw character that ends or breaks a literal quoted with `q` -/
def rawBadQ (q c : Char) : Bool := c = q || c = '\n' || c = '\r' || c.toNat = 0

/-- body of a `q…q` string literal → the `str` it denotes -/
def decodeLit (q : Char) : DqState → Str → Option Str
  | .normal, [] => some []
  | .esc, [] => Option.none
  | .hex _ _, [] => Option.none
  | .normal, c :: r =>
    if c = '\\' then decodeLit q .esc r
    else if rawBadQ q c then Option.none
    else (decodeLit q .normal r).map (c :: ·)
  | .esc, c :: r =>
    if c = 'x' then decodeLit q (.hex 2 0) r
    else if c = 'u' then decodeLit q (.hex 4 0) r
    else if c = 'U' then decodeLit q (.hex 8 0) r
    else if hardEscL c then Option.none
    else match simpleEsc c with
      | some d => (decodeLit q .normal r).map (d :: ·)
      | Option.none => (decodeLit q .normal r).map (fun t => '\\' :: c :: t)
  | .hex left acc, c :: r =>
    match hexVal c with
    | Option.none => Option.none
    | some d =>
      let v := acc * 16 + d
      if left ≤ 1 then
        (if isSurrogate v || decide (0x10FFFF < v) then Option.none
         else (decodeLit q .normal r).map (Char.ofNat v :: ·))
      else decodeLit q (.hex (left - 1) v) r

/-- split `q body q` -/
def unquote (t : Str) : Option (Char × Str) :=
  match t with
  | q :: rest =>
    if (q = '\'' || q = '"') && rest.getLast? == some q then some (q, rest.dropLast) else Option.none
  | [] => Option.none

/-- a whole `'…'` / `"…"` literal → the `str` it denotes -/
def decodeStrLit (t : Str) : Option Str :=
  match unquote t with
  | some (q, body) => decodeLit q .normal body
  | Option.none => Option.none

def hex2 (n : Nat) : Str := [hexDigit (n / 16 % 16), hexDigit (n % 16)]
def hex4 (n : Nat) : Str := hex2 (n / 256) ++ hex2 n
def hex8 (n : Nat) : Str := hex4 (n / 65536) ++ hex4 n

/-- the quote `repr` picks: `"` only when the text has a `'` and no `"` -/
def reprQuote (s : Str) : Char := if s.contains '\'' && !s.contains '"' then '"' else '\''

/-- `unicode_repr` for one character; `pr` is `str.isprintable` on non-ASCII -/
def reprChar (pr : Char → Bool) (q c : Char) : Str :=
  if c = q || c = '\\' then ['\\', c]
  else if c = '\t' then cs!"\\t" else if c = '\n' then cs!"\\n" else if c = '\r' then cs!"\\r"
  else if c.toNat < 32 || c.toNat = 127 then '\\' :: 'x' :: hex2 c.toNat
  else if c.toNat < 127 then [c]
  else if pr c then [c]
  else if c.toNat ≤ 0xff then '\\' :: 'x' :: hex2 c.toNat
  else if c.toNat ≤ 0xffff then '\\' :: 'u' :: hex4 c.toNat
  else '\\' :: 'U' :: hex8 c.toNat

def reprBody (pr : Char → Bool) (q : Char) : Str → Str
  | [] => []
  | c :: r => reprChar pr q c ++ reprBody pr q r

/-- `repr(s)` for a `str` -/
def pyReprStr (pr : Char → Bool) (s : Str) : Str :=
  reprQuote s :: reprBody pr (reprQuote s) s ++ [reprQuote s]

/-- `bytes_repr`: the quote rule of `str`, `\\xhh` for everything outside
printable ASCII -/
def reprQuoteB (bs : List Nat) : Char := if bs.contains 39 && !bs.contains 34 then '"' else '\''

def reprByte (q : Char) (b : Nat) : Str :=
  if b = q.toNat || b = 92 then ['\\', Char.ofNat b]
  else if b = 9 then cs!"\\t" else if b = 10 then cs!"\\n" else if b = 13 then cs!"\\r"
  else if b < 32 || 127 ≤ b then '\\' :: 'x' :: hex2 b
  else [Char.ofNat b]

def reprBodyB (q : Char) : List Nat → Str
  | [] => []
  | b :: r => reprByte q b ++ reprBodyB q r

/-- `repr(b)` for a `bytes` -/
def pyReprBytes (bs : List Nat) : Str :=
  'b' :: reprQuoteB bs :: reprBodyB (reprQuoteB bs) bs ++ [reprQuoteB bs]

def hardEscB (c : Char) : Bool :=
  ('0'.toNat ≤ c.toNat && c.toNat ≤ '7'.toNat) || c = '\n' || c = '\r' || c.toNat = 0 || decide (128 ≤ c.toNat)

/-- body of a `b q…q` literal → the byte values: only `\\xhh` among the numeric
escapes (`\\u`, `\\N` are not escapes in bytes), source characters must be ASCII -/
def decodeLitB (q : Char) : DqState → Str → Option (List Nat)
  | .normal, [] => some []
  | .esc, [] => Option.none
  | .hex _ _, [] => Option.none
  | .normal, c :: r =>
    if c = '\\' then decodeLitB q .esc r
    else if rawBadQ q c || decide (128 ≤ c.toNat) then Option.none
    else (decodeLitB q .normal r).map (c.toNat :: ·)
  | .esc, c :: r =>
    if c = 'x' then decodeLitB q (.hex 2 0) r
    else if hardEscB c then Option.none
    else match simpleEsc c with
      | some d => (decodeLitB q .normal r).map (d.toNat :: ·)
      | Option.none => (decodeLitB q .normal r).map (fun t => 92 :: c.toNat :: t)
  | .hex left acc, c :: r =>
    match hexVal c with
    | Option.none => Option.none
    | some d =>
      let v := acc * 16 + d
      if left ≤ 1 then (decodeLitB q .normal r).map (v :: ·) else decodeLitB q (.hex (left - 1) v) r

def decodeBytesLit (t : Str) : Option (List Nat) :=
  match t with
  | c :: lit =>
    if c = 'b' then
      match unquote lit with
      | some (q, body) => decodeLitB q .normal body
      | Option.none => Option.none
    else Option.none
  | [] => Option.none

/-- `str.isprintable()` for a non-ASCII character, from the interpreter's table -/
def tblPrintable (c : Char) : Bool :=
  !(Tables.unprintableRanges.any fun ab => ab.1 ≤ c.toNat && c.toNat ≤ ab.2)

/-- `Decimal('…')` → the value: the callee name, one string literal, C05's
`decimalParse` (= `Decimal(str)`) on what the literal denotes -/
def readDecimal (t : Str) : Option Xs.Conv.Dec :=
  let pre := Tables.decimalName ++ ['(']
  if pre.isPrefixOf t && t.getLast? == some ')' then
    match decodeStrLit ((t.drop pre.length).dropLast) with
    | some s => Xs.Conv.decimalParse Py.Env.ascii s
    | Option.none => Option.none
  else Option.none

def kwGet (n : Str) : List (Str × Val) → Option Val
  | [] => Option.none
  | (k, v) :: r => if k == n then some v else kwGet n r

/-- value of one field after `__init__(**kw)` -/
def fieldVal (f : FieldSpec) (kw : List (Str × Val)) : Except Err Val :=
  match (if f.init then kwGet f.name kw else Option.none) with
  | some v => .ok v
  | Option.none =>
    match f.dflt with
    | .value d => .ok d
    | .factory d => .ok d
    | .missing => .error (if f.init then .typeError else .unmodelled)

def construct : List FieldSpec → List (Str × Val) → Except Err (List Val)
  | [], _ => .ok []
  | f :: fs, kw =>
    match fieldVal f kw with
    | .error e => .error e
    | .ok v => match construct fs kw with
      | .error e => .error e
      | .ok vs => .ok (v :: vs)

/-- every keyword is the name of an `init` field (else `TypeError: unexpected keyword`) -/
def kwNamesOK (fs : List FieldSpec) (kw : List (Str × Val)) : Bool :=
  kw.all fun p => fs.any fun f => f.init && f.name == p.1

mutual
def eval (W : World) (env : Env) : PyExpr → Except Err Val
  | .lit v t _ =>
    -- a `str` / `bytes` token is read by the parser; other tokens are taken to
    -- denote their payload (trusted: int, None, True/False); a float token is
    -- read with C05's model of `float()`
    match v with
    | .str _ _ =>
      match decodeStrLit t with
      | some s => .ok (.str s t)
      | Option.none => .error .unmodelled
    | .float _ _ =>
      match readFloat t with
      | some y => .ok (.float y t)
      | Option.none => .error .unmodelled
    | .bytes c _ _ =>
      match decodeBytesLit t with
      | some bs => .ok (.bytes c bs t)
      | Option.none => .error .unmodelled
    | _ => .ok v
  | .arr .list xs =>
    match evalL W env xs with
    | .error e => .error e
    | .ok vs => .ok (.list vs)
  | .arr .tuple xs =>
    match evalL W env xs with
    | .error e => .error e
    | .ok vs => .ok (.tuple vs)
  | .arr .set xs =>
    if xs.isEmpty then
      -- `set()`: a call of the builtin, if the name still means it
      match resolve W env [cs!"set"] with
      | .error e => .error e
      | .ok r => if r = setT then .ok (.set false []) else .error .unmodelled
    else
      -- a set display: the elements must be hashable
      match evalL W env xs with
      | .error e => .error e
      | .ok vs => if hashableL vs then .ok (.set false vs) else .error .typeError
  | .arr .frozenset xs =>
    -- `frozenset()` / `frozenset({…})`: the name is looked up first
    match resolve W env [cs!"frozenset"] with
    | .error e => .error e
    | .ok r =>
      if r = frozensetT then
        match evalL W env xs with
        | .error e => .error e
        | .ok vs => if hashableL vs then .ok (.set true vs) else .error .typeError
      else .error .unmodelled
  | .dict kvs =>
    match evalKV W env kvs with
    | .error e => .error e
    | .ok ps => if ps.all (fun p => hashable p.1) then .ok (.dict ps) else .error .typeError
  | .floatCall _ a =>
    match resolve W env [floatCallee] with
    | .error e => .error e
    | .ok r =>
      if r = floatT then
        match readFloat a with
        | some y => .ok (.float y a)
        | Option.none => .error .unmodelled
      else .error .unmodelled
  | .qnameCall t =>
    match resolve W env [qnameCallee] with
    | .error e => .error e
    | .ok r =>
      if r = qnameT then
        -- the parser decodes the literal that `json.dumps` wrote
        match decodeDq .normal (jsonBody t) with
        | some t' => .ok (.qname t')
        | Option.none => .error .unmodelled
      else .error .unmodelled
  | .decimalCall _ t =>
    match resolve W env [Tables.decimalName] with
    | .error e => .error e
    | .ok r =>
      if r = decimalT then
        -- the argument is a string literal; `Decimal(str)` is C05's model of the constructor
        match readDecimal t with
        | some d => .ok (.decimal d t)
        | Option.none => .error .unmodelled
      else .error .unmodelled
  | .opaqueCall c callee args n =>
    match resolve W env callee with
    | .error e => .error e
    | .ok r => if r = c then .ok (.opaque c callee args n) else .error .unmodelled
  | .enumRef c m =>
    match resolve W env c.path with
    | .error e => .error e
    | .ok r =>
      match W.find r with
      | some ⟨_, .enum ms⟩ =>
        if !enumNameOK m then .error .unmodelled   -- `Cls.<m>` is not an attribute reference
        else if ms.contains m then .ok (.enum r m) else .error .attributeError
      | some ⟨_, .model fs⟩ =>
        -- class attribute: a field default or a nested class would be found
        if fs.any (fun f => f.name == m) || (W.find ⟨r.module, r.path ++ [m]⟩).isSome
        then .error .unmodelled else .error .attributeError
      | _ => .error .unmodelled
  | .call c kws =>
    match resolve W env c.path with
    | .error e => .error e
    | .ok r =>
      match evalKw W env kws with
      | .error e => .error e
      | .ok kv =>
        match W.find r with
        | some ⟨_, .model fs⟩ =>
          if kwNamesOK fs kv then
            match construct fs kv with
            | .ok vs => .ok (.model r vs)
            | .error e => .error e
          else .error .typeError
        | some ⟨_, .enum _⟩ => .error .typeError
        | _ => .error .unmodelled
def evalL (W : World) (env : Env) : List PyExpr → Except Err (List Val)
  | [] => .ok []
  | x :: xs =>
    match eval W env x with
    | .error e => .error e
    | .ok v => match evalL W env xs with
      | .error e => .error e
      | .ok vs => .ok (v :: vs)
def evalKV (W : World) (env : Env) : List (PyExpr × PyExpr) → Except Err (List (Val × Val))
  | [] => .ok []
  | (k, v) :: r =>
    match eval W env k with
    | .error e => .error e
    | .ok k' => match eval W env v with
      | .error e => .error e
      | .ok v' => match evalKV W env r with
        | .error e => .error e
        | .ok ps => .ok ((k', v') :: ps)
def evalKw (W : World) (env : Env) : List (Str × PyExpr) → Except Err (List (Str × Val))
  | [] => .ok []
  | (n, e) :: r =>
    match eval W env e with
    | .error e => .error e
    | .ok v => match evalKw W env r with
      | .error e => .error e
      | .ok ps => .ok ((n, v) :: ps)
end

mutual
/-- does compiling the text depend on string-literal decoding this model does
not cover (then the compile-time `SyntaxError` would pre-empt everything) -/
def PyExpr.syntaxRisk : PyExpr → Bool
  | .decimalCall _ t => (readDecimal t).isNone
  | .lit (.float _ _) t _ => (readFloat t).isNone
  | .floatCall _ a => (readFloat a).isNone
  | .enumRef _ m => !enumNameOK m
  | .lit (.str _ _) t _ => (decodeStrLit t).isNone
  | .lit (.bytes _ _ _) t _ => (decodeBytesLit t).isNone
  | .qnameCall t => (decodeDq .normal (jsonBody t)).isNone
  | .arr _ xs => riskL xs
  | .dict kvs => riskKV kvs
  | .call _ kws => riskKw kws
  | _ => false
def riskL : List PyExpr → Bool
  | [] => false
  | x :: xs => x.syntaxRisk || riskL xs
def riskKV : List (PyExpr × PyExpr) → Bool
  | [] => false
  | (k, v) :: r => k.syntaxRisk || v.syntaxRisk || riskKV r
def riskKw : List (Str × PyExpr) → Bool
  | [] => false
  | (_, e) :: r => e.syntaxRisk || riskKw r
end

mutual
/-- how many brackets are open at once, at most, while the expression is read
(CPython's tokenizer gives up beyond `Tables.parserMaxNesting`) -/
def PyExpr.depth : PyExpr → Nat
  | .lit _ _ _ => 0
  | .enumRef _ _ => 0
  | .floatCall _ _ => 1
  | .qnameCall _ => 1
  | .opaqueCall _ _ _ _ => 1
  | .decimalCall _ _ => 1
  | .arr .frozenset [] => 1
  | .arr .frozenset (x :: xs) => 2 + depthL (x :: xs)   -- `frozenset({ … })`
  | .arr _ xs => 1 + depthL xs
  | .dict kvs => 1 + depthKV kvs
  | .call _ kws => 1 + depthKw kws
def depthL : List PyExpr → Nat
  | [] => 0
  | x :: xs => max x.depth (depthL xs)
def depthKV : List (PyExpr × PyExpr) → Nat
  | [] => 0
  | (k, v) :: r => max (max k.depth v.depth) (depthKV r)
def depthKw : List (Str × PyExpr) → Nat
  | [] => 0
  | (_, e) :: r => max e.depth (depthKw r)
end

/-! ## `PycodeSerializer.render(obj, var_name)` and what running it gives -/

/-- `build_imports` refuses a set of types in which one outermost name belongs
to two modules (`builtins` counts as a module: a class named `float` next to a
float value is refused too) -/
def clashFree (ts : List ClsRef) : Bool :=
  ts.all fun t => ts.all fun u => t.path.headD [] != u.path.headD [] || t.module == u.module

/-! ### comparisons that raise: `Decimal('sNaN')`

`repr_model` evaluates `default == value` for every `init` field it visits.
Comparing a number with a signaling NaN raises `decimal.InvalidOperation`, and
nothing catches it: `render` itself fails. -/

mutual
def hasSNaN : Val → Bool
  | .opaque _ _ _ (some .snan) => true
  | .decimal (.nan _ true _) _ => true
  | .list xs => hasSNaNL xs
  | .tuple xs => hasSNaNL xs
  | .set _ xs => hasSNaNL xs
  | .dict kvs => hasSNaNKV kvs
  | .model _ xs => hasSNaNL xs
  | _ => false
def hasSNaNL : List Val → Bool
  | [] => false
  | x :: xs => hasSNaN x || hasSNaNL xs
def hasSNaNKV : List (Val × Val) → Bool
  | [] => false
  | (k, v) :: r => hasSNaN k || hasSNaN v || hasSNaNKV r
end

/-- two numbers, one of them a signaling NaN -/
def leafRaises (a b : Val) : Bool :=
  match numOf a, numOf b with
  | some x, some y => x == .snan || y == .snan
  | _, _ => false

mutual
/-- does evaluating `a == b` raise `InvalidOperation`?  Lists and tuples of
equal length are compared pairwise up to the first difference; `none`: a
signaling NaN inside a dict / set comparison, not modelled -/
def eqRaises (a b : Val) : Option Bool :=
  match a with
  | .list xs => match b with
    | .list ys => if xs.length != ys.length then some false else eqRaisesL xs ys
    | _ => some false
  | .tuple xs => match b with
    | .tuple ys => eqRaisesL xs ys   -- tuples have no length shortcut: the common prefix is compared first
    -- XmlDate / XmlTime / XmlDateTime are NamedTuples: `tuple == XmlDate(…)` falls back to an
    -- element-wise tuple comparison over fields the model does not know
    | .opaque _ _ _ Option.none => if hasSNaNL xs then Option.none else some false
    | _ => some false
  | .dict kvs => match b with
    | .dict kvs' => if hasSNaNKV kvs || hasSNaNKV kvs' then Option.none else some false
    | _ => some false
  | .set _ xs => match b with
    | .set _ ys => if hasSNaNL xs || hasSNaNL ys then Option.none else some false
    | _ => some false
  | .model c xs => match b with
    -- dataclass `__eq__`: same class, then the tuples of field values
    | .model c' ys => if c != c' || xs.length != ys.length then some false else eqRaisesL xs ys
    | _ => some false
  | .opaque c cal ar Option.none => match b with
    | .tuple ys => if hasSNaNL ys then Option.none else some false
    | _ => some (leafRaises (.opaque c cal ar Option.none) b)
  | a' => some (leafRaises a' b)
def eqRaisesL (xs ys : List Val) : Option Bool :=
  match xs with
  | [] => some false
  | x :: xs' => match ys with
    | [] => some false
    | y :: ys' =>
      match eqRaises x y with
      | Option.none => Option.none
      | some true => some true
      | some false => if pyEq x y then eqRaisesL xs' ys' else some false
end

def defaultRaises : Default → Val → Option Bool
  | .missing, _ => some false
  | .value d, v => eqRaises d v
  | .factory d, v => eqRaises d v

/-- the loop of `repr_model`: `sub` are the results for the attribute values
themselves (they are only visited when the field is rendered) -/
def fieldsRaise : List FieldSpec → List Val → List (Option Bool) → Option Bool
  | f :: fs, v :: vs, r :: rs =>
    if !f.init then fieldsRaise fs vs rs
    else match defaultRaises f.dflt v with
      | Option.none => Option.none
      | some true => some true
      | some false =>
        if elide f.dflt v then fieldsRaise fs vs rs
        else match r with
          | Option.none => Option.none
          | some true => some true
          | some false => fieldsRaise fs vs rs
  | _, _, _ => some false

def orRaise (a b : Option Bool) : Option Bool :=
  match a with
  | some true => some true
  | Option.none => Option.none
  | some false => b

mutual
/-- does `render` raise `InvalidOperation` while walking the value?
(`some true` yes, `some false` no, `none` not modelled) -/
def cmpRaises (W : World) : Val → Option Bool
  | .list xs => cmpRaisesL W xs
  | .tuple xs => cmpRaisesL W xs
  | .set _ xs => cmpRaisesL W xs
  | .dict kvs => cmpRaisesKV W kvs
  | .model c attrs => fieldsRaise (W.fieldsOf c) attrs (cmpRaisesEach W attrs)
  | _ => some false
def cmpRaisesL (W : World) : List Val → Option Bool
  | [] => some false
  | x :: xs => orRaise (cmpRaises W x) (cmpRaisesL W xs)
def cmpRaisesKV (W : World) : List (Val × Val) → Option Bool
  | [] => some false
  | (k, v) :: r => orRaise (cmpRaises W k) (orRaise (cmpRaises W v) (cmpRaisesKV W r))
def cmpRaisesEach (W : World) : List Val → List (Option Bool)
  | [] => []
  | x :: xs => cmpRaises W x :: cmpRaisesEach W xs
end

/-- no `default == value` test met while rendering raises -/
def comparesQuietly (W : World) (v : Val) : Bool := cmpRaises W v == some false

/-- does `render(obj)` get past the name-clash test of `build_imports`
(rather than raise `SerializerError`)? -/
def renders (W : World) (v : Val) : Bool := clashFree (render W v).types

/-- the text `render` returns when it returns -/
def source (W : World) (v : Val) (var : Str) : Str :=
  let e := render W v
  importsText e.types ++ cs!"\n\n" ++ var ++ cs!" = " ++ e.text 0 ++ cs!"\n"

/-- `PycodeSerializer.render(obj, var)` -/
def sourceE (W : World) (v : Val) (var : Str) : Except Err Str :=
  match cmpRaises W v with
  | some true => .error .invalidOperation      -- raised while walking the object, before the imports are built
  | Option.none => .error .unmodelled
  | some false => if renders W v then .ok (source W v var) else .error .serializerError

/-- the namespace the expression is evaluated in -/
def importsEnv (W : World) (v : Val) : Env := imports (render W v).types

/-- the rendered expression does not nest brackets deeper than the parser allows -/
def nestingOK (W : World) (v : Val) : Bool := (render W v).depth ≤ Tables.parserMaxNesting

/-- `exec(source, {})` then `ns[var]`: the source is compiled first -/
def run (W : World) (v : Val) : Except Err Val :=
  if nestingOK W v then eval W (importsEnv W v) (render W v) else .error .syntaxError

def outcome (W : World) (v : Val) : Str :=
  match cmpRaises W v with
  | Option.none => cs!"unmodelled"
  | some true => cs!"refused:InvalidOperation"
  | some false =>
  if !renders W v then cs!"refused:SerializerError" else
  if (render W v).syntaxRisk then cs!"unmodelled" else
  match run W v with
  | .ok v' =>
    if pyEq v' v then cs!"equal"
    else
      -- the final `restored == original` may itself meet a signaling NaN
      match eqRaises v' v with
      | Option.none => cs!"unmodelled"
      | some true => cs!"eqexc:InvalidOperation"
      | some false => cs!"unequal"
  | .error .unmodelled => cs!"unmodelled"
  | .error e => cs!"exc:" ++ e.name

end Xs.Code
