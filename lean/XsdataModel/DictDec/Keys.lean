/-
xsdata/formats/dataclass/parsers/dict.py — the part of `DictDecoder` that decides what
happens to the *keys* of a JSON object: `find_var`, the loop of `bind_dataclass`
(unknown keys vs `fail_on_unknown_properties`, the `derived_keys` shortcut) and the
candidate selection of `bind_best_dataclass` (`local_names_match`, scores).

What happens to the *values* (`bind_value`, `validate_fixed_value`) is a parameter `bv`
of the model: the statements of C10 hold for every such function.
-/
import XsdataModel.Bind.Basic

namespace Xs.DictDec
open Py Xs.Bind

/-- what `find_var` looks at in a JSON value -/
inductive JShape
  | scalar                                   -- str / number / bool / null
  | array                                    -- `collections.is_array(value)`
  | object (members : List (Str × Bool))     -- dict: key ↦ "the member is an array"
deriving Repr, DecidableEq

def JShape.isArray : JShape → Bool
  | .array => true
  | _ => false

/-- the slots of `XmlVar` read by `find_var` / `bind_dataclass` -/
structure DVar where
  name : Str
  localName : Str
  wrapper : Option Str
  /-- `var.list_element or var.tokens` -/
  isList : Bool
  init : Bool
deriving Repr, DecidableEq

/-- one iteration of the loop in `DictDecoder.find_var` -/
def DVar.takes (var : DVar) (key : Str) (value : JShape) : Bool :=
  if var.localName = key then
    value.isArray == var.isList
  else if var.wrapper = some key then
    match value with
    | .object ms =>
      match ms.find? (·.1 = var.localName) with
      | some (_, arr) => arr == var.isList
      | none => false
    | _ => false
  else false

/-- `DictDecoder.find_var` -/
def findVar (vars : List DVar) (key : Str) (value : JShape) : Option DVar :=
  vars.find? (·.takes key value)

/-- `params[var.name] = value` on an insertion-ordered dict -/
def setKV {α : Type} (params : List (Str × α)) (k : Str) (v : α) : List (Str × α) :=
  if params.any (·.1 = k) then params.map (fun kv => if kv.1 = k then (kv.1, v) else kv)
  else params ++ [(k, v)]

/-- `if var.wrapper: value = value[var.local_name]` : the exception it leaks when the value
found under the key is not an object holding the member (`find_var` also matches a wrapped
var by its plain local name, and then the value is a list) -/
def unwrapLeak (var : DVar) (value : JShape) : Option Err :=
  if var.wrapper.isSome then
    match value with
    | .object ms => if ms.any (·.1 = var.localName) then none else some (.leaked "KeyError")
    | _ => some (.leaked "TypeError")
  else none

/-- body of `for key, value in data.items()` in `bind_dataclass`;
`bv var key value` stands for `bind_value` (+ `validate_fixed_value` when `init` is false) -/
def bindStep {α : Type} (bv : DVar → Str → JShape → Except Err α) (cfg : ParserConfig) (vars : List DVar)
    (params : List (Str × α)) (kv : Str × JShape) : Except Err (List (Str × α)) :=
  match findVar vars kv.1 kv.2 with
  | none =>
    if cfg.failOnUnknownProperties then .error (.parser "Unknown property") else .ok params
  | some var =>
    match unwrapLeak var kv.2 with
    | some err => .error err
    | none =>
      match bv var kv.1 kv.2 with
      | .error err => .error err
      | .ok x => .ok (if var.init then setKV params var.name x else params)

/-- the loop of `bind_dataclass`: the keyword arguments handed to the class factory -/
def bindPairs {α : Type} (bv : DVar → Str → JShape → Except Err α) (cfg : ParserConfig) (vars : List DVar)
    (data : List (Str × JShape)) : Except Err (List (Str × α)) :=
  data.foldlM (bindStep bv cfg vars) []

/-- `set(data.keys()) == derived_keys` -/
def keySetEq (keys derived : List Str) : Bool :=
  keys.all (derived.contains ·) && derived.all (keys.contains ·)

inductive Outcome (α : Type)
  | derived                                   -- handed over to `bind_derived_dataclass`
  | plain (params : List (Str × α))           -- `class_factory(clazz, params)`
deriving Repr

/-- `DictDecoder.bind_dataclass` up to the class factory -/
def bindDataclass {α : Type} (bv : DVar → Str → JShape → Except Err α) (cfg : ParserConfig)
    (derivedKeys : List Str) (vars : List DVar) (data : List (Str × JShape)) : Except Err (Outcome α) :=
  if keySetEq (data.map (·.1)) derivedKeys then .ok .derived
  else match bindPairs bv cfg vars data with
    | .ok p => .ok (.plain p)
    | .error err => .error err

/-! ### `bind_best_dataclass` -/

/-- one candidate class of `bind_best_dataclass` -/
structure Cand where
  id : ClassId
  /-- `{var.local_name for var in meta.get_all_vars()}` -/
  localNames : List Str
  /-- `score_object(decoder.bind_dataclass(data, clazz))` in half points;
  `none` when the attempt raised (it is suppressed) -/
  attempt : Option Nat
deriving Repr, DecidableEq

/-- `XmlContext.local_names_match` : `not names.difference(local_names)` -/
def localNamesMatch (keys names : List Str) : Bool := keys.all (names.contains ·)

def bestStep (keys : List Str) (acc : Option (ClassId × Nat)) (c : Cand) : Option (ClassId × Nat) :=
  if localNamesMatch keys c.localNames then
    match c.attempt with
    | some sc =>
      match acc with
      | none => some (c.id, sc)                          -- `score > -1.0`
      | some (_, best) => if sc > best then some (c.id, sc) else acc
    | none => acc                                        -- `score_object(None)` is `-1.0`, never `>`
  else acc

/-- `DictDecoder.bind_best_dataclass` : the class whose instance is returned.
No flag of the configuration is consulted for the selection. -/
def bindBest (keys : List Str) (cands : List Cand) : Except Err ClassId :=
  match cands.foldl (bestStep keys) none with
  | some (c, _) => .ok c
  | none => .error (.parser "Failed to bind object")

end Xs.DictDec
