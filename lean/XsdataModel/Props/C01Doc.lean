/- C01 — property theorems (only): consequences of the round trip of the feature-indexed fragments
(`Props/C01Wide.lean`) about the written document itself: what it is, that it determines the instance,
and that one document serves every parser configuration. -/
import XsdataModel.Props.C01Wide
import XsdataModel.Proofs.C01NDoc
import XsdataModel.Proofs.C01NMono

namespace Props.C01
open Py Xs.Bind Xs.Bind.F1 Xs.Bind.FN Proofs.C01

/-- **C01, the document.** For every feature set: the document the abstract writer makes of the
generated events is `docOf` (the recursive description `treeNN` of the element tree: attributes,
`xsi:type` / `xsi:nil`, child elements in the order of `next_value`, generic items) under the prefix map
of these very events, and that document parses back to the instance without a warning. -/
theorem bind_generate_document (ft : Feat) (e : BEnv) (Γ : Ctx) (cfg : SerCfg) (pcfg : ParserConfig)
    (c : ClassId) (v : Val) (hΓ : ctxOK ft Γ = true) (hv : valOKI ft.inherit e Γ c v = true) :
    ∃ evs, generate e Γ cfg v = .ok evs ∧
      eventsTree (isDatatype Γ) evs = .ok (docOf Γ cfg (prefixMap (collectUris evs)) c v) ∧
      parseRoot e Γ pcfg c (docOf Γ cfg (prefixMap (collectUris evs)) c v) = .ok (v, 0) := by
  obtain ⟨evs, h1, h2, h3, _⟩ := roundtrip_FN_doc ft e Γ cfg pcfg c v hΓ hv
  exact ⟨evs, h1, h2, h3⟩

/-- **C01, no mixed content is written.** The document of an instance of the fragments has no tail
text anywhere, and every element carries the one prefix map of the document (`plain`): character
data only occurs as the text of leaf elements and generic elements. -/
theorem bind_document_plain (ft : Feat) (e : BEnv) (Γ : Ctx) (cfg : SerCfg)
    (c : ClassId) (v : Val) (hΓ : ctxOK ft Γ = true) (hv : valOKI ft.inherit e Γ c v = true) :
    ∃ evs t, generate e Γ cfg v = .ok evs ∧ eventsTree (isDatatype Γ) evs = .ok t ∧
      plain (prefixMap (collectUris evs)) t = true := by
  obtain ⟨evs, h1, h2, _, h4⟩ := roundtrip_FN_doc ft e Γ cfg {} c v hΓ hv
  exact ⟨evs, _, h1, h2, h4⟩

/-- **C01, serialising what was parsed gives the same events** (`serialize ∘ parse ∘ serialize =
serialize` on the fragments) -/
theorem bind_roundtrip_idempotent (ft : Feat) (e : BEnv) (Γ : Ctx) (cfg : SerCfg) (pcfg : ParserConfig)
    (c : ClassId) (v : Val) (hΓ : ctxOK ft Γ = true) (hv : valOKI ft.inherit e Γ c v = true) :
    ∃ evs t v', generate e Γ cfg v = .ok evs ∧ eventsTree (isDatatype Γ) evs = .ok t ∧
      parseRoot e Γ pcfg c t = .ok (v', 0) ∧ generate e Γ cfg v' = .ok evs := by
  obtain ⟨evs, t, h1, h2, h3⟩ := bind_generate_FN ft e Γ cfg pcfg c v hΓ hv
  exact ⟨evs, t, v, h1, h2, h3, h1⟩

/-- **C01, one document for every parser configuration.** The document does not depend on the
parser configuration (it is written before any parser runs); all configurations read the same
instance from it. -/
theorem bind_generate_all_configs (ft : Feat) (e : BEnv) (Γ : Ctx) (cfg : SerCfg)
    (c : ClassId) (v : Val) (hΓ : ctxOK ft Γ = true) (hv : valOKI ft.inherit e Γ c v = true) :
    ∃ evs t, generate e Γ cfg v = .ok evs ∧ eventsTree (isDatatype Γ) evs = .ok t ∧
      ∀ pcfg : ParserConfig, parseRoot e Γ pcfg c t = .ok (v, 0) := by
  obtain ⟨evs, t, hg, ht, _⟩ := bind_generate_FN ft e Γ cfg {} c v hΓ hv
  refine ⟨evs, t, hg, ht, fun pcfg => ?_⟩
  obtain ⟨evs', t', hg', ht', hp'⟩ := bind_generate_FN ft e Γ cfg pcfg c v hΓ hv
  rw [hg] at hg'; cases hg'
  rw [ht] at ht'; cases ht'
  exact hp'

/-- **C01, no information is lost.** Two instances of the fragment with the same events (hence the
same document) are the same instance: `generate` is injective on the fragment. -/
theorem bind_generate_injective (ft : Feat) (e : BEnv) (Γ : Ctx) (cfg : SerCfg) (c : ClassId) (v₁ v₂ : Val)
    (hΓ : ctxOK ft Γ = true) (h₁ : valOKI ft.inherit e Γ c v₁ = true) (h₂ : valOKI ft.inherit e Γ c v₂ = true)
    (heq : generate e Γ cfg v₁ = generate e Γ cfg v₂) : v₁ = v₂ := by
  obtain ⟨evs₁, t₁, hg₁, ht₁, hp₁⟩ := bind_generate_FN ft e Γ cfg {} c v₁ hΓ h₁
  obtain ⟨evs₂, t₂, hg₂, ht₂, hp₂⟩ := bind_generate_FN ft e Γ cfg {} c v₂ hΓ h₂
  rw [heq, hg₂] at hg₁; cases hg₁
  rw [ht₂] at ht₁; cases ht₁
  rw [hp₂] at hp₁; cases hp₁
  rfl

/-- … and so is the document: instances with the same document are equal, even when written with
different settings of `ignore_default_attributes` -/
theorem bind_document_injective (ft : Feat) (e : BEnv) (Γ : Ctx) (cfg₁ cfg₂ : SerCfg) (c : ClassId)
    (v₁ v₂ : Val) (hΓ : ctxOK ft Γ = true) (h₁ : valOKI ft.inherit e Γ c v₁ = true)
    (h₂ : valOKI ft.inherit e Γ c v₂ = true)
    (heq : (generate e Γ cfg₁ v₁).bind (eventsTree (isDatatype Γ)) =
      (generate e Γ cfg₂ v₂).bind (eventsTree (isDatatype Γ))) : v₁ = v₂ := by
  obtain ⟨evs₁, t₁, hg₁, ht₁, hp₁⟩ := bind_generate_FN ft e Γ cfg₁ {} c v₁ hΓ h₁
  obtain ⟨evs₂, t₂, hg₂, ht₂, hp₂⟩ := bind_generate_FN ft e Γ cfg₂ {} c v₂ hΓ h₂
  simp only [hg₁, hg₂, Except.bind, ht₁, ht₂, Except.ok.injEq] at heq
  subst heq
  rw [hp₂] at hp₁; cases hp₁
  rfl

/-! ### the fragments form a chain -/

/-- every feature switched on, with the given `inherit` flag (`featTop true = featF10`) -/
def featTop (inh : Bool) : Feat := { featF10 with inherit := inh }

example : featTop true = featF10 := rfl

theorem featLe_top (ft : Feat) : FeatLe ft (featTop ft.inherit) :=
  ⟨fun _ => rfl, fun _ => rfl, fun _ => rfl, fun _ => rfl, fun _ => rfl, fun _ => rfl, fun _ => rfl,
    fun _ => rfl, fun _ => rfl, rfl⟩

/-- **C01, monotonicity.** The universe hypothesis only grows with the feature set (for a fixed `inherit`
flag, which also demands that no attribute is declared under the name `xsi:type`): a universe of any
fragment is a universe of the top fragment. -/
theorem ctxOK_top (ft : Feat) (Γ : Ctx) (h : ctxOK ft Γ = true) : ctxOK (featTop ft.inherit) Γ = true :=
  ctxOK_mono (featLe_top ft) Γ h

/-- **C01, the feature-indexed part of `bind_generate_partial` needs two feature sets only**: an instance
lies in some fragment iff it lies in the top fragment without or with inheritance. -/
theorem fragments_collapse (e : BEnv) (Γ : Ctx) (c : ClassId) (v : Val) :
    (∃ ft : Feat, ctxOK ft Γ = true ∧ valOKI ft.inherit e Γ c v = true) ↔
    (∃ inh : Bool, ctxOK (featTop inh) Γ = true ∧ valOKI inh e Γ c v = true) := by
  constructor
  · rintro ⟨ft, hΓ, hv⟩
    exact ⟨ft.inherit, ctxOK_top ft Γ hΓ, hv⟩
  · rintro ⟨inh, hΓ, hv⟩
    exact ⟨featTop inh, hΓ, hv⟩

/-- the chain of the named fragments: F2 ⊆ F3 ⊆ F4 ⊆ F5 ⊆ F6 (without inheritance) and
F7 ⊆ F8 ⊆ F9 ⊆ F10 (with) -/
theorem fragment_chain (Γ : Ctx) :
    (ctxOK featF2 Γ = true → ctxOK featF3 Γ = true) ∧ (ctxOK featF3 Γ = true → ctxOK featF4 Γ = true) ∧
    (ctxOK featF4 Γ = true → ctxOK featF5 Γ = true) ∧ (ctxOK featF5 Γ = true → ctxOK featF6 Γ = true) ∧
    (ctxOK featF7 Γ = true → ctxOK featF8 Γ = true) ∧ (ctxOK featF8 Γ = true → ctxOK featF9 Γ = true) ∧
    (ctxOK featF9 Γ = true → ctxOK featF10 Γ = true) := by
  have le : ∀ ft ft' : Feat, (ft.nillable → ft'.nillable) → (ft.tokens → ft'.tokens) → (ft.wrapper → ft'.wrapper) →
      (ft.sequence → ft'.sequence) → (ft.fixed → ft'.fixed) → (ft.anyAttrs → ft'.anyAttrs) →
      (ft.wildcard → ft'.wildcard) → (ft.union → ft'.union) → (ft.qname → ft'.qname) →
      ft.inherit = ft'.inherit → ctxOK ft Γ = true → ctxOK ft' Γ = true :=
    fun ft ft' a b c d e f g h i j => ctxOK_mono ⟨a, b, c, d, e, f, g, h, i, j⟩ Γ
  refine ⟨le _ _ ?_ ?_ ?_ ?_ ?_ ?_ ?_ ?_ ?_ rfl, le _ _ ?_ ?_ ?_ ?_ ?_ ?_ ?_ ?_ ?_ rfl,
    le _ _ ?_ ?_ ?_ ?_ ?_ ?_ ?_ ?_ ?_ rfl, le _ _ ?_ ?_ ?_ ?_ ?_ ?_ ?_ ?_ ?_ rfl,
    le _ _ ?_ ?_ ?_ ?_ ?_ ?_ ?_ ?_ ?_ rfl, le _ _ ?_ ?_ ?_ ?_ ?_ ?_ ?_ ?_ ?_ rfl,
    le _ _ ?_ ?_ ?_ ?_ ?_ ?_ ?_ ?_ ?_ rfl⟩ <;> decide

/-- an F2 universe is a universe of the top fragment without inheritance, an F9 universe of F10 -/
example : ctxOK (featTop false) Γw6 = true := ctxOK_top featF2 Γw6 (by decide)
example : ctxOK featF10 Γ9 = true := (fragment_chain Γ9).2.2.2.2.2.2 (by decide)

/-- **C01, F10 subsumes every fragment.** In a universe that declares no attribute under the name
`xsi:type` (the one thing the `inherit` flag adds to `ctxOK`), an instance lies in some fragment iff it
lies in F10: the feature-indexed part of `bind_generate_partial` is `bind_generate_F10`. -/
theorem fragments_collapse_F10 (e : BEnv) (Γ : Ctx) (c : ClassId) (v : Val) (hD : noTypeAttr Γ = true) :
    (∃ ft : Feat, ctxOK ft Γ = true ∧ valOKI ft.inherit e Γ c v = true) ↔
    (ctxOK featF10 Γ = true ∧ valOKI true e Γ c v = true) := by
  constructor
  · rintro ⟨ft, hΓ, hv⟩
    refine ⟨ctxOK_mono_inh ⟨fun _ => rfl, fun _ => rfl, fun _ => rfl, fun _ => rfl, fun _ => rfl, fun _ => rfl,
      fun _ => rfl, fun _ => rfl, fun _ => rfl⟩ Γ hD hΓ, ?_⟩
    cases hi : ft.inherit with
    | true => rw [hi] at hv; exact hv
    | false => rw [hi] at hv; exact valOKI_mono e Γ c v hv
  · rintro ⟨hΓ, hv⟩
    exact ⟨featF10, hΓ, hv⟩

/-- the missing link of the chain: F6 ⊆ F7, for universes and for instances -/
theorem fragment_chain_inherit (e : BEnv) (Γ : Ctx) (c : ClassId) (v : Val) (hD : noTypeAttr Γ = true)
    (hΓ : ctxOK featF6 Γ = true) (hv : valOK e Γ c v = true) :
    ctxOK featF7 Γ = true ∧ valOKI true e Γ c v = true :=
  ⟨ctxOK_mono_inh (ft := featF6) (ft' := featF7) ⟨fun h => h, fun h => h, fun h => h, fun h => h, fun h => h,
    fun h => h, fun h => h, fun h => h, fun h => h⟩ Γ hD hΓ, valOKI_mono e Γ c v hv⟩

/-- the F6 example universe and instance, seen as an instance of F10 -/
example : noTypeAttr Γ6 = true ∧ ctxOK featF6 Γ6 = true ∧ valOK e0 Γ6 (s "Root") v6 = true := by decide
example : ctxOK featF10 Γ6 = true ∧ valOKI true e0 Γ6 (s "Root") v6 = true :=
  (fragments_collapse_F10 e0 Γ6 (s "Root") v6 (by decide)).1 ⟨featF6, by decide, by decide⟩
example : ∃ evs t, generate e0 Γ6 {} v6 = .ok evs ∧ eventsTree (isDatatype Γ6) evs = .ok t ∧
    parseRoot e0 Γ6 {} (s "Root") t = .ok (v6, 0) :=
  have h := (fragments_collapse_F10 e0 Γ6 (s "Root") v6 (by decide)).1 ⟨featF6, by decide, by decide⟩
  bind_generate_F10 e0 Γ6 {} {} (s "Root") v6 h.1 h.2

/-! ### over the union of the fragments (the domain of `bind_generate_partial`) -/

/-- the instance lies in some fragment: F1 with any namespaces, or a feature-indexed one -/
def InFragment (e : BEnv) (Γ : Ctx) (c : ClassId) (v : Val) : Prop :=
  (ctxF1G false Γ = true ∧ valF1 e Γ c v = true) ∨
    ∃ ft : Feat, ctxOK ft Γ = true ∧ valOKI ft.inherit e Γ c v = true

/-- **C01, the document of fragment F1**: `docOf1` (the recursive description `treeOfN`), parsed back
without a warning; no tail text anywhere. -/
theorem bind_generate_document_F1 (e : BEnv) (Γ : Ctx) (cfg : SerCfg) (pcfg : ParserConfig) (c : ClassId)
    (v : Val) (hΓ : ctxF1G false Γ = true) (hv : valF1 e Γ c v = true) :
    ∃ evs, generate e Γ cfg v = .ok evs ∧
      eventsTree (isDatatype Γ) evs = .ok (docOf1 Γ cfg (prefixMap (collectUris evs)) c v) ∧
      parseRoot e Γ pcfg c (docOf1 Γ cfg (prefixMap (collectUris evs)) c v) = .ok (v, 0) ∧
      plain (prefixMap (collectUris evs)) (docOf1 Γ cfg (prefixMap (collectUris evs)) c v) = true :=
  roundtrip_F1G_doc e Γ cfg pcfg c v hΓ hv

/-- **C01, no information is lost, across fragments**: two instances that each lie in *some* fragment
(not necessarily the same) and have the same events are equal; with `c` fixed the class is too. -/
theorem bind_generate_injective_partial (e : BEnv) (Γ : Ctx) (cfg : SerCfg) (c : ClassId) (v₁ v₂ : Val)
    (h₁ : InFragment e Γ c v₁) (h₂ : InFragment e Γ c v₂)
    (heq : generate e Γ cfg v₁ = generate e Γ cfg v₂) : v₁ = v₂ := by
  obtain ⟨evs₁, t₁, hg₁, ht₁, hp₁⟩ := bind_generate_partial e Γ cfg {} c v₁ h₁
  obtain ⟨evs₂, t₂, hg₂, ht₂, hp₂⟩ := bind_generate_partial e Γ cfg {} c v₂ h₂
  rw [heq, hg₂] at hg₁; cases hg₁
  rw [ht₂] at ht₁; cases ht₁
  rw [hp₂] at hp₁; cases hp₁
  rfl

/-- **C01, one document for every parser configuration, across fragments** -/
theorem bind_generate_all_configs_partial (e : BEnv) (Γ : Ctx) (cfg : SerCfg) (c : ClassId) (v : Val)
    (h : InFragment e Γ c v) :
    ∃ evs t, generate e Γ cfg v = .ok evs ∧ eventsTree (isDatatype Γ) evs = .ok t ∧
      ∀ pcfg : ParserConfig, parseRoot e Γ pcfg c t = .ok (v, 0) := by
  obtain ⟨evs, t, hg, ht, _⟩ := bind_generate_partial e Γ cfg {} c v h
  refine ⟨evs, t, hg, ht, fun pcfg => ?_⟩
  obtain ⟨evs', t', hg', ht', hp'⟩ := bind_generate_partial e Γ cfg pcfg c v h
  rw [hg] at hg'; cases hg'
  rw [ht] at ht'; cases ht'
  exact hp'

/-- an F1 instance (`Γ2`, `v2`) and an F10 instance are both in the union -/
example : InFragment e0 Γ2 (s "Root") v2 := Or.inl ⟨by decide, by decide⟩
example : InFragment e0 Γ10 (s "Root") v10 := Or.inr ⟨featF10, by decide, by decide⟩
example : ∃ evs t, generate e0 Γ2 {} v2 = .ok evs ∧ eventsTree (isDatatype Γ2) evs = .ok t ∧
    ∀ pcfg : ParserConfig, parseRoot e0 Γ2 pcfg (s "Root") t = .ok (v2, 0) :=
  bind_generate_all_configs_partial e0 Γ2 {} (s "Root") v2 (Or.inl ⟨by decide, by decide⟩)
example : ∃ evs, generate e0 Γ2 {} v2 = .ok evs ∧
    eventsTree (isDatatype Γ2) evs = .ok (docOf1 Γ2 {} (prefixMap (collectUris evs)) (s "Root") v2) ∧
    parseRoot e0 Γ2 {} (s "Root") (docOf1 Γ2 {} (prefixMap (collectUris evs)) (s "Root") v2) = .ok (v2, 0) ∧
    plain (prefixMap (collectUris evs)) (docOf1 Γ2 {} (prefixMap (collectUris evs)) (s "Root") v2) = true :=
  bind_generate_document_F1 e0 Γ2 {} {} (s "Root") v2 (by decide) (by decide)

/-! ### instances -/

example : ∃ evs, generate e0 Γ10 {} v10 = .ok evs ∧
    eventsTree (isDatatype Γ10) evs = .ok (docOf Γ10 {} (prefixMap (collectUris evs)) (s "Root") v10) ∧
    parseRoot e0 Γ10 {} (s "Root") (docOf Γ10 {} (prefixMap (collectUris evs)) (s "Root") v10) = .ok (v10, 0) :=
  bind_generate_document featF10 e0 Γ10 {} {} (s "Root") v10 (by decide) (by decide)

example : ∃ evs t, generate e0 Γ10 {} v10 = .ok evs ∧ eventsTree (isDatatype Γ10) evs = .ok t ∧
    plain (prefixMap (collectUris evs)) t = true :=
  bind_document_plain featF10 e0 Γ10 {} (s "Root") v10 (by decide) (by decide)

example : ∃ evs t v', generate e0 Γ10 {} v10 = .ok evs ∧ eventsTree (isDatatype Γ10) evs = .ok t ∧
    parseRoot e0 Γ10 {} (s "Root") t = .ok (v', 0) ∧ generate e0 Γ10 {} v' = .ok evs :=
  bind_roundtrip_idempotent featF10 e0 Γ10 {} {} (s "Root") v10 (by decide) (by decide)

/-- the document function evaluated: it is the tree the abstract writer builds -/
example : docOf Γ10 {} (prefixMap (collectUris (evsOf Γ10 v10))) (s "Root") v10 = treeOf Γ10 v10 := by rfl

example : ∃ evs t, generate e0 Γ6 {} v6 = .ok evs ∧ eventsTree (isDatatype Γ6) evs = .ok t ∧
    ∀ pcfg : ParserConfig, parseRoot e0 Γ6 pcfg (s "Root") t = .ok (v6, 0) :=
  bind_generate_all_configs featF6 e0 Γ6 {} (s "Root") v6 (by decide) (by decide)

/-- the hypotheses are satisfiable (two instances of the F9 universe `Γ9`) … -/
example : ctxOK featF9 Γ9 = true ∧ valOKI true e0 Γ9 (s "Root") v9 = true ∧ valOKI true e0 Γ9 (s "Root") v9i = true := by
  decide

/-- … and the contrapositive in use: `v9 ≠ v9i`, so their events differ -/
example : generate e0 Γ9 {} v9 ≠ generate e0 Γ9 {} v9i := fun h =>
  absurd (bind_generate_injective featF9 e0 Γ9 {} (s "Root") v9 v9i (by decide) (by decide) (by decide) h)
    (by simp [v9, v9i])

/-- documents written with different serializer settings: still the same instance -/
example (h : (generate e0 Γ9 {} v9).bind (eventsTree (isDatatype Γ9)) =
    (generate e0 Γ9 ⟨true⟩ v9).bind (eventsTree (isDatatype Γ9))) : v9 = v9 :=
  bind_document_injective featF9 e0 Γ9 {} ⟨true⟩ (s "Root") v9 v9 (by decide) (by decide) (by decide) h

end Props.C01
