import Driver.Proto
import Driver.OpsGen
import XsdataModel.Gen.Attrs
import XsdataModel.Gen.DtdAttrs
import XsdataModel.Gen.EnumDefault
open Lean Proto Py Xs.Gen

namespace OpsGenAttrs
open OpsGen

def dOptS (j : Json) : Except String (Option Str) :=
  match j with
  | .null => pure none
  | x => (asStr x).map some

def dType (j : Json) : Except String TypeKind :=
  match j with
  | .str "string" => pure .str
  | .null => pure .absent
  | _ => .error "bad type"

def dUse (j : Json) : Except String Use :=
  match j with
  | .str "required" => pure .required
  | .str "prohibited" => pure .prohibited
  | .str "optional" | .null => pure .optional
  | _ => .error "bad use"

/-- a declaration: `{"kind": "attribute", "use", "default", "fixed", "type"}` or
`{"kind": "element", "min", "max", "default", "fixed", "type"}` -/
def dDecl (j : Json) : Except String GAttr := do
  let default ← dOptS (fld j "default")
  let fixed ← dOptS (fld j "fixed")
  let type ← dType (fld j "type")
  match fld j "kind" with
  | .str "attribute" => pure (mapAttribute { use := ← dUse (fld j "use"), default, fixed, type })
  | .str "element" => pure (mapElement { min := ← dNat (fld j "min"), max := ← dNat (fld j "max"), default, fixed, type })
  | _ => .error "bad declaration kind"

def dGAttr (j : Json) : Except String GAttr := do
  pure { isAttribute := ← getBool j "is_attribute", min := ← dNat (fld j "min"), max := ← dNat (fld j "max"),
         default := ← dOptS (fld j "default"), fixed := ← getBool j "fixed", anyObj := ← getBool j "any_obj",
         xsiType := (getBool j "xsi_type").toOption.getD false,
         tokens := (getBool j "tokens").toOption.getD false }

def jGAttr (a : GAttr) : Json :=
  jObj [("is_attribute", jBool a.isAttribute), ("min", jNat a.min), ("max", jNat a.max),
        ("default", jOpt jStr a.default), ("fixed", jBool a.fixed), ("any_obj", jBool a.anyObj)]

def jField : Option Field → Json
  | none => Json.null
  | some f => jObj [("init", jBool f.init), ("default", match f.default with
      | .missing => Json.str "MISSING"
      | .none => Json.str "None"
      | .listFactory => Json.str "list"
      | .value s => Json.arr #[jStr s])]

/-- the DTD attribute types that are lists of tokens -/
def isTokensType : Json → Bool
  | .str "NMTOKENS" | .str "IDREFS" | .str "ENTITIES" => true
  | _ => false

def run (op : String) (a : Json) : Option (Except String Json) :=
  match op with
  | "gen.attr_map" => some do
      pure <| ok (jList jGAttr (← (← asArr (fld a "decls")).mapM dDecl))
  | "gen.attr_sanitize" => some do
      pure <| ok (jList (fun x => jGAttr (sanitize x)) (← (← asArr (fld a "attrs")).mapM dGAttr))
  | "gen.attr_fields" => some do
      pure <| ok (jList (fun x => jField (fieldOf (sanitize x))) (← (← asArr (fld a "decls")).mapM dDecl))
  | "gen.dtd_attr" | "gen.dtd_attr_fields" => some do
      let decls ← (← asArr (fld a "decls")).mapM fun j => do
        let k ← match fld j "default" with
          | .str "required" => pure DtdDefault.required
          | .str "implied" => pure DtdDefault.implied
          | .str "fixed" => pure DtdDefault.fixed
          | .str "none" => pure DtdDefault.noneD
          | _ => .error "bad dtd default"
        pure ({ default := k, value := ← dOptS (fld j "value"), tokens := isTokensType (fld j "type") } : DtdAttrDecl)
      if op == "gen.dtd_attr" then pure <| ok (jList (fun d => jGAttr (dtdAttr d)) decls)
      else pure <| ok (jList (fun d => jField (dtdAttrField d)) decls)
  | "gen.read_attr" | "gen.dtd_read_attr" => some do
      -- how the strict parser fills the generated field from a document that gives / omits the attribute
      let field ← if op == "gen.read_attr" then do
          let d := fld a "decl"
          pure (attrField { use := ← dUse (fld d "use"), default := ← dOptS (fld d "default"),
                            fixed := ← dOptS (fld d "fixed"), type := ← dType (fld d "type") })
        else do
          let d := fld a "decl"
          let k ← match fld d "default" with
            | .str "required" => pure DtdDefault.required
            | .str "implied" => pure DtdDefault.implied
            | .str "fixed" => pure DtdDefault.fixed
            | .str "none" => pure DtdDefault.noneD
            | _ => .error "bad dtd default"
          pure (dtdAttrField { default := k, value := ← dOptS (fld d "value"), tokens := isTokensType (fld d "type") })
      let givens ← (← asArr (fld a "givens")).mapM dOptS
      pure <| ok (jList (fun x => match readAttr field x with
        | none => Json.str "ParserError"
        | some v => Json.arr #[jOpt jStr v]) givens)
  | "gen.enum_default" => some do
      let members ← (← asArr (fld a "members")).mapM fun j => do
        pure ({ value := ← asStr (fld j "value"), name := ← asStr (fld j "name") } : EnumMember)
      let default ← asStr (fld a "default")
      pure <| ok (jObj [("placeholder", jOpt (jList jStr) (enumPlaceholder members default)),
                        ("values", jOpt (jList (jOpt jStr)) (enumDefaultValues members default))])
  | _ => none

end OpsGenAttrs
