/-
C01 (fragments F2…): reading the decidable side conditions of `Bind/FN.lean`.
-/
import XsdataModel.Proofs.C01NBind

namespace Proofs.C01
open Py Xs.Bind Xs.Bind.F1 Xs.Bind.FN

structure MetaFactsN (ft : Feat) (Γ : Ctx) (ci : ClassInfo) (m : XmlMeta) : Prop where
  clazz : m.clazz = ci.id
  qne : m.qname ≠ []
  wild : m.wildcards = [] ∨ ∃ wv, m.wildcards = [wv] ∧ wildVarOK m ci wv = true
  choices : m.choices = []
  anyAttrs : m.anyAttributes = [] ∨ ∃ av, m.anyAttributes = [av] ∧ mapVarOK ci av = true
  noNilAttr : m.findAttribute xsiNil = none
  noTypeAttr : ft.inherit = true → m.findAttribute xsiType = none
  wrappers : ∀ ww ∈ m.wrappers, ∃ v ∈ m.elementVars, v.wrapperQName = some ww.1
  attrs : ∀ var ∈ m.attributeVars, FN.attrVarOK ft m ci var = true ∨
    (m.anyAttributes = [var] ∧ mapVarOK ci var = true)
  attrNodup : (m.attributeVars.map (·.qname)).Nodup
  body : match m.text with
    | none => ∀ var ∈ m.elementVars, FN.elemVarOK ft Γ m ci var = true ∨ m.wildcards = [var]
    | some tv => m.elementVars = [tv] ∧ FN.textVarOK ft ci tv = true
  idxNodup : (m.elementVars.map (·.index)).Nodup
  qnNodup : (m.elementVars.map (·.qname)).Nodup
  seqOK : FN.seqOK (m.elementVars.length + 1) m.elementVars = true
  nameNodup : ((m.attributeVars ++ m.elementVars).map (·.name)).Nodup
  fieldNodup : (ci.fields.map (·.name)).Nodup
  covered : ∀ f ∈ ci.fields, ∃ var ∈ m.attributeVars ++ m.elementVars, var.name = f.name

theorem metaFactsN_of {ft : Feat} {Γ : Ctx} {ci : ClassInfo} {m : XmlMeta}
    (h : metaOK ft Γ ci m = true) : MetaFactsN ft Γ ci m := by
  simp only [metaOK, Bool.and_eq_true, decide_eq_true_eq, Bool.not_eq_true', List.isEmpty_iff,
    List.all_eq_true, List.any_eq_true, Bool.or_eq_true] at h
  obtain ⟨⟨⟨⟨⟨⟨⟨⟨⟨⟨⟨⟨⟨⟨⟨⟨⟨h1, _⟩, h3⟩, h4⟩, h5⟩, h6⟩, h6b⟩, h6c⟩, h7⟩, h8⟩, h9⟩, h10⟩, h11⟩, h11b⟩, h11c⟩, h12⟩,
    h13⟩, h14⟩ := h
  refine ⟨h1, ?_, ?_, h5, ?_, h6b, ?_, ?_, ?_, h9, ?_, h11, h11b, h11c, h12, h13, ?_⟩
  · intro hq; simp [hq] at h3
  · rcases h4 with h4 | ⟨_, h4⟩
    · exact Or.inl h4
    · split at h4
      · rename_i wv hwv; exact Or.inr ⟨wv, hwv, h4⟩
      · cases h4
  · rcases h6 with h6 | ⟨_, h6⟩
    · exact Or.inl h6
    · split at h6
      · rename_i av hav; exact Or.inr ⟨av, hav, h6⟩
      · cases h6
  · intro hi
    rcases h6c with h | h
    · rw [hi] at h; cases h
    · exact h
  · intro ww hww
    obtain ⟨v, hv, hvw⟩ := h7 ww hww
    exact ⟨v, hv, hvw⟩
  · intro var hvar
    have := h8 var hvar
    simpa [Bool.or_eq_true, Bool.and_eq_true] using this
  · cases ht : m.text with
    | none => simpa [ht] using h10
    | some tv => simpa [ht] using h10
  · intro f hf
    obtain ⟨var, hv, hn⟩ := h14 f hf
    exact ⟨var, hv, by simpa using hn⟩

theorem ctx_metaFactsN {ft : Feat} {Γ : Ctx} (hΓ : ctxOK ft Γ = true) {c : ClassId} {ci : ClassInfo}
    (hfind : Γ.find c = some ci) {pns : Option Str} {m : XmlMeta}
    (hm : ci.metaFor pns = some m) : MetaFactsN ft Γ ci m ∧ (m.nillable = true → ft.nillable = true) := by
  have hci : ci ∈ Γ.classes := List.mem_of_find?_eq_some hfind
  obtain ⟨p, hp⟩ := metaFor_mem hm
  simp only [ctxOK, List.all_eq_true, Bool.and_eq_true] at hΓ
  have hmo := (hΓ ci hci).2 (p, m) hp
  refine ⟨metaFactsN_of hmo, ?_⟩
  simp only [metaOK, Bool.and_eq_true, Bool.or_eq_true, Bool.not_eq_true'] at hmo
  intro hn
  have := hmo.1.1.1.1.1.1.1.1.1.1.1.1.1.1.1.1.2
  simpa [hn] using this

theorem primTypeOf_some {v : XmlVar} {t : PT} (h : primTypeOf v = some t) :
    v.types = [.prim t] ∧ ptOK t = true := by
  unfold primTypeOf at h
  split at h
  · rename_i t' ht
    split at h
    · cases h; exact ⟨ht, by assumption⟩
    · cases h
  · cases h

theorem fieldAgreesN_iff {ci : ClassInfo} {v : XmlVar} : fieldAgreesN ci v = true ↔
    ∃ f, ci.fields.find? (·.name = v.name) = some f ∧ f.init = v.init ∧
      defaultAgrees v.default f.default = true := by
  unfold fieldAgreesN
  cases hf : ci.fields.find? (·.name = v.name) with
  | none => simp
  | some f => simp

theorem fieldAgrees_of_N {ci : ClassInfo} {v : XmlVar} (h : fieldAgreesN ci v = true)
    (hi : v.init = true) : fieldAgrees ci v = true := by
  obtain ⟨f, hf, hfi, hd⟩ := fieldAgreesN_iff.1 h
  exact fieldAgrees_iff.2 ⟨f, hf, by rw [hfi, hi], hd⟩

theorem fixedVal_iff {var : XmlVar} {x : Val} :
    fixedVal var x = true ↔ ∃ p, x = .prim p ∧ var.default = .val p := by
  unfold fixedVal
  constructor
  · intro h
    cases x <;> cases hd : var.default <;> simp [hd] at h
    rename_i p d
    exact ⟨p, rfl, by rw [h]⟩
  · rintro ⟨p, rfl, hd⟩
    simp [hd]

theorem attrFactsN_of {ft : Feat} {e : BEnv} {Γ : Ctx} {m : XmlMeta} {ci : ClassInfo}
    {fields : List (Str × Val)} {var : XmlVar}
    (hv : FN.attrVarOK ft m ci var = true ∨ (m.anyAttributes = [var] ∧ mapVarOK ci var = true))
    (hx : FN.attrValOK e Γ m ci var (look fields var.name) = true)
    (hnames : fields.map (·.1) = ci.fields.map (·.name)) : AttrFactsN e Γ m fields var := by
  rcases hv with hv | ⟨hany, hmv⟩
  · simp only [FN.attrVarOK, FN.varBase, Bool.and_eq_true, decide_eq_true_eq, Bool.not_eq_true',
      Bool.or_eq_true] at hv
    obtain ⟨⟨⟨⟨⟨⟨⟨⟨⟨⟨hA, _⟩, _⟩, _⟩, _⟩, hfind⟩, hnil⟩, hty⟩, htypes⟩, hfix⟩, hfa⟩ := hv
    obtain ⟨f, hf, _, _⟩ := fieldAgreesN_iff.1 hfa
    have hnm := isAttributes_false_of_attr hA
    unfold FN.attrValOK at hx
    simp only [hnm, Bool.false_eq_true, if_false, Bool.and_eq_true, Bool.or_eq_true] at hx
    obtain ⟨hfx, hx⟩ := hx
    refine AttrFactsN.attr ⟨hA, hfind, hnil, hty, by rw [hnames]; exact mem_names_of_find hf, ?_, ?_⟩
    · cases hpt : primTypeOf var with
      | none => simp [hpt] at hx
      | some t =>
        obtain ⟨htp, _⟩ := primTypeOf_some hpt
        refine ⟨t, htp, ?_⟩
        simp only [hpt] at hx
        by_cases htok : var.tokens = true
        · simp only [htok, if_true] at hx
          obtain ⟨ys, hys, htoks⟩ := toks_of hx
          exact Or.inr ⟨htok, ys, hys, htoks⟩
        · have htok' : var.tokens = false := by simpa using htok
          simp only [htok', Bool.false_eq_true, if_false] at hx
          refine Or.inl ⟨htok', ?_⟩
          split at hx
          · exact Or.inl (by assumption)
          · rename_i p hp
            simp only [Bool.and_eq_true] at hx
            exact Or.inr ⟨p, hp, hx.1, hx.2⟩
          · cases hx
    · intro hi
      have hfo : fixedOK var = true := by
        rcases hfix with h | h
        · rw [hi] at h; cases h
        · exact h
      have hfv : fixedVal var (look fields var.name) = true := by
        rcases hfx with h | h
        · rw [hi] at h; cases h
        · exact h
      simp only [fixedOK, Bool.and_eq_true, Bool.not_eq_true'] at hfo
      exact ⟨hfo.1.1.1.1.1, fixedVal_iff.1 hfv⟩
  · simp only [mapVarOK, Bool.and_eq_true] at hmv
    obtain ⟨⟨hmap, hinit⟩, hfield⟩ := hmv
    have hmem : var.name ∈ fields.map (·.1) := by
      cases hf : ci.fields.find? (·.name = var.name) with
      | none => simp [hf] at hfield
      | some f => rw [hnames]; exact mem_names_of_find hf
    unfold FN.attrValOK at hx
    simp only [hmap, if_true] at hx
    cases hlook : look fields var.name with
    | attrs kv =>
      rw [hlook] at hx
      simp only [mapValOK, Bool.and_eq_true, decide_eq_true_eq, List.all_eq_true] at hx
      refine AttrFactsN.amap ⟨hmap, hinit, hany, hmem, ⟨kv, hlook⟩, by simpa [mapEntries, hlook] using hx.1, ?_⟩
      intro kw hkw
      simp only [mapEntries, hlook] at hkw
      obtain ⟨⟨⟨⟨h1, h2⟩, h3⟩, h4⟩, h5⟩ := hx.2 kw hkw
      exact ⟨h1, h2, h3, h4, h5⟩
    | _ => rw [hlook] at hx; simp [mapValOK] at hx

/-- which of the two kinds of element var, with its default -/
inductive ElemKindN (ft : Feat) (Γ : Ctx) (m : XmlMeta) (var : XmlVar) : Prop
  | prim (t : PT) (hc : var.clazz = none) (hp : primTypeOf var = some t) (ht : var.types = [.prim t])
      (hd : if var.tokens || var.listElement then var.default = .listFactory
            else scalarDefault var.default t = true ∧ (var.nillable = true → var.default = .none))
  | cls (c : ClassId) (m' : XmlMeta) (hc : var.clazz = some c) (htk : var.tokens = false)
      (ht : var.types = [.cls c])
      (hd : if var.listElement then var.default = .listFactory else var.default = .none)
      (hm : metaOf Γ c (targetUri m.qname) = some m')
  | union (hc : var.clazz = none) (hp : primTypeOf var = none) (hu : primUnionOf var = true)
      (hi : var.init = true) (htk : var.tokens = false) (hn : var.nillable = false)
      (hd : if var.listElement then var.default = .listFactory else var.default = .none)
  | qname (hc : var.clazz = none) (hp : primTypeOf var = none) (ht : var.types = [.prim .qname])
      (hi : var.init = true) (htk : var.tokens = false) (hn : var.nillable = false)
      (hd : if var.listElement then var.default = .listFactory else var.default = .none)

theorem elemFactsN_of {ft : Feat} {Γ : Ctx} {m : XmlMeta} {ci : ClassInfo} {var : XmlVar}
    (MF : MetaFactsN ft Γ ci m) (hmem : var ∈ m.elementVars)
    (hv : FN.elemVarOK ft Γ m ci var = true) :
    ElemFactsN m var ∧ ElemKindN ft Γ m var ∧ fieldAgreesN ci var = true ∧
      (var.nillable = true → ft.nillable = true) ∧ (var.init = true ∨ fixedOK var = true) := by
  simp only [FN.elemVarOK, FN.varBase, Bool.and_eq_true, decide_eq_true_eq, Bool.not_eq_true',
    VarCore.isElement, Option.isNone_iff_eq_none, Bool.or_eq_true] at hv
  obtain ⟨⟨⟨⟨⟨⟨⟨hA, hB⟩, hidx⟩, hfind⟩, hwrap⟩, hkind⟩, hfix⟩, hfa⟩ := hv
  obtain ⟨⟨⟨⟨⟨⟨⟨⟨_, hmixed⟩, hany⟩, hunion⟩, hq⟩, hseq⟩, hnl⟩, _⟩, _⟩ := hB
  have hkey : var.qname ∈ m.elements.map (·.1) := by
    have := List.mem_of_find?_eq_some hfind
    exact List.mem_map.2 ⟨_, this, rfl⟩
  refine ⟨⟨hA, hmixed, hany, hunion, ?_, hidx, hfind, ?_, ?_⟩, ?_, hfa, ?_, hfix⟩
  · intro h; simp [h] at hq
  · -- the qname of an element var is not the name of a wrapper
    cases hb : m.wrappers.any (·.1 = var.qname) with
    | false => rfl
    | true =>
      exfalso
      simp only [List.any_eq_true, decide_eq_true_eq] at hb
      obtain ⟨ww, hww, hwq⟩ := hb
      obtain ⟨v, hv, hvw⟩ := MF.wrappers ww hww
      have hvok : FN.elemVarOK ft Γ m ci v = true := by
        have := MF.body
        cases ht : m.text with
        | none =>
          rw [ht] at this
          rcases this v hv with h | h
          · exact h
          · -- the wildcard has no wrapper
            exfalso
            rcases MF.wild with h0 | ⟨wv, hwv, hok⟩
            · rw [h0] at h; cases h
            · rw [hwv] at h; cases h
              simp only [wildVarOK, Bool.and_eq_true, Option.isNone_iff_eq_none] at hok
              rw [hok.1.1.1.1.1.1.1.1.1.1.2] at hvw; cases hvw
        | some tv =>
          rw [ht] at this
          -- a class with a text var has no wrapped var: the text var is its only element var
          exfalso
          rw [this.1] at hv hmem
          simp only [List.mem_singleton] at hv hmem
          subst hv
          have htv := this.2
          simp only [FN.textVarOK, Bool.and_eq_true, Option.isNone_iff_eq_none] at htv
          rw [htv.1.1.1.1.2] at hvw; cases hvw
      simp only [FN.elemVarOK, Bool.and_eq_true] at hvok
      have hw2 := hvok.1.1.1.2
      rw [hvw] at hw2
      simp only [Bool.and_eq_true, List.all_eq_true, decide_eq_true_eq] at hw2
      obtain ⟨qe, hqe, hqeq⟩ := List.mem_map.1 hkey
      exact hw2.2 qe hqe (by rw [hqeq, hwq])
  · intro w hw
    rw [hw] at hwrap
    simp only [Bool.and_eq_true] at hwrap
    exact hwrap.1.2
  · cases hcl : var.clazz with
    | none =>
      rw [hcl] at hkind
      cases hpt : primTypeOf var with
      | none =>
        simp only [hpt, Bool.and_eq_true, Bool.not_eq_true', Bool.or_eq_true, decide_eq_true_eq] at hkind
        obtain ⟨⟨⟨⟨hk, hi⟩, htk⟩, hn⟩, hd⟩ := hkind
        have hd' : if var.listElement then var.default = .listFactory else var.default = .none := by
          split at hd <;> simp_all
        rcases hk with ⟨_, hu⟩ | ⟨_, hq⟩
        · exact ElemKindN.union hcl hpt hu hi htk hn hd'
        · exact ElemKindN.qname hcl hpt hq hi htk hn hd'
      | some t =>
        obtain ⟨htp, _⟩ := primTypeOf_some hpt
        simp only [hpt] at hkind
        refine ElemKindN.prim t hcl hpt htp ?_
        by_cases hb : var.tokens = true ∨ var.listElement = true
        · have hb2 : (var.tokens || var.listElement) = true := by simpa using hb
          simp only [hb, if_true, decide_eq_true_eq] at hkind
          simp only [hb2, if_true]
          exact hkind
        · have hb2 : (var.tokens || var.listElement) = false := by
            cases h1 : var.tokens <;> cases h2 : var.listElement <;> simp_all
          simp only [hb, if_false, Bool.and_eq_true, Bool.or_eq_true,
            Bool.not_eq_true', decide_eq_true_eq] at hkind
          simp only [hb2, Bool.false_eq_true, if_false]
          refine ⟨hkind.1, fun hn => ?_⟩
          rcases hkind.2 with h | h
          · rw [hn] at h; cases h
          · exact h
    | some c =>
      rw [hcl] at hkind
      simp only [Bool.and_eq_true, decide_eq_true_eq, Bool.not_eq_true'] at hkind
      obtain ⟨⟨⟨htk, hty⟩, hd⟩, hm⟩ := hkind
      cases hm' : metaOf Γ c (targetUri m.qname) with
      | none => simp [hm'] at hm
      | some m' =>
        refine ElemKindN.cls c m' hcl htk hty ?_ hm'
        split at hd <;> simp_all
  · intro hn
    rcases hnl with h | h
    · rw [hn] at h; cases h
    · exact h

/-- the facts about the list wildcard of a class -/
theorem wildFactsN_of {ft : Feat} {Γ : Ctx} {m : XmlMeta} {ci : ClassInfo} {wv : XmlVar}
    (MF : MetaFactsN ft Γ ci m) (hw : m.wildcards = [wv]) (hok : wildVarOK m ci wv = true) :
    WildFactsN m wv ∧ fieldAgreesN ci wv = true := by
  simp only [wildVarOK, Bool.and_eq_true, decide_eq_true_eq, Bool.not_eq_true',
    Option.isNone_iff_eq_none, List.isEmpty_iff] at hok
  obtain ⟨⟨⟨⟨⟨⟨⟨⟨⟨⟨⟨⟨⟨⟨⟨⟨h1, h3⟩, h4⟩, h5⟩, h6⟩, h7⟩, h8⟩, h9⟩, h10⟩, h11⟩, h12⟩, h13⟩, h14⟩, h15⟩,
    h16⟩, _⟩, h18⟩ := hok
  refine ⟨⟨?_, h3, h4, h5, h6, h7, h8, h9, h10, h11, h12, h13, ?_, h15, h16, hw, MF.choices⟩, h18⟩
  · simpa [VarCore.isWildcard] using h1
  · intro h; rw [h] at h14; simp at h14

/-- every var of the element content: a declared element or the list wildcard -/
theorem elemOrWild {ft : Feat} {Γ : Ctx} {m : XmlMeta} {ci : ClassInfo}
    (MF : MetaFactsN ft Γ ci m) (ht : m.text = none) {var : XmlVar} (hv : var ∈ m.elementVars) :
    FN.elemVarOK ft Γ m ci var = true ∨ (WildFactsN m var ∧ fieldAgreesN ci var = true) := by
  have hb := MF.body
  rw [ht] at hb
  rcases hb var hv with h | h
  · exact Or.inl h
  · rcases MF.wild with h0 | ⟨wv, hwv, hok⟩
    · rw [h0] at h; cases h
    · rw [hwv] at h; cases h
      exact Or.inr (wildFactsN_of MF hwv hok)

theorem mixedContent_false {ft : Feat} {Γ : Ctx} {m : XmlMeta} {ci : ClassInfo}
    (MF : MetaFactsN ft Γ ci m) : m.mixedContent = false := by
  rcases MF.wild with h | ⟨wv, h, hok⟩
  · simp [XmlMeta.mixedContent, h]
  · have := (wildFactsN_of MF h hok).1.mixed
    simp [XmlMeta.mixedContent, h, this]

end Proofs.C01
