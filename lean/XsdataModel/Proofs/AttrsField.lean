/-
Helper lemmas for C02, part 5: `use` / `default` / `fixed` → requiredness and default of the
generated field (`Gen/Attrs`): case analyses over the decision table.
-/
import XsdataModel.Gen.Attrs

namespace Xs.Gen
open Py


theorem attribute_faithful_core (d : AttrDecl) (hwf : d.wf = true) (x : Option Str) (hx : d.allows x) :
    readAttr (attrField d) x = some (d.normalized x) := by
  obtain ⟨use, dflt, fx, tp⟩ := d
  cases use <;> cases dflt <;> cases fx <;> cases tp <;> cases x <;>
    simp_all [AttrDecl.wf, AttrDecl.allows, AttrDecl.normalized, attrField, fieldOf, sanitize,
      mapAttribute, shouldResetRequired, shouldResetDefault, defaultValue, typeIsObject, useBounds,
      GAttr.isList, readAttr]

theorem attribute_required_sound_core (d : AttrDecl) (f : Field) (h : attrField d = some f)
    (hm : f.default = .missing) : d.use = .required ∧ ¬ d.allows none := by
  obtain ⟨use, dflt, fx, tp⟩ := d
  cases use <;> cases dflt <;> cases fx <;> cases tp <;>
    simp_all [AttrDecl.allows, attrField, fieldOf, sanitize,
      mapAttribute, shouldResetRequired, shouldResetDefault, defaultValue, typeIsObject, useBounds,
      GAttr.isList] <;> (subst h; simp at hm)


theorem element_missing_default_core (d : ElemDecl) (f : Field) (h : elemField d = some f)
    (hm : f.default = .missing) :
    d.min ≥ 1 ∧ d.max = 1 ∧ d.default = none ∧ d.fixed = none ∧ d.type = .str := by
  obtain ⟨mn, mx, dflt, fx, tp⟩ := d
  have h0 : mx = 0 ∨ mx = 1 ∨ ∃ k, mx = k + 2 := by
    rcases mx with _ | _ | k
    · exact Or.inl rfl
    · exact Or.inr (Or.inl rfl)
    · exact Or.inr (Or.inr ⟨k, rfl⟩)
  have h1 : mn = 0 ∨ ∃ k, mn = k + 1 := by
    rcases mn with _ | k
    · exact Or.inl rfl
    · exact Or.inr ⟨k, rfl⟩
  rcases h0 with rfl | rfl | ⟨kx, rfl⟩ <;> rcases h1 with rfl | ⟨kn, rfl⟩ <;>
    cases dflt <;> cases fx <;> cases tp <;>
    simp_all [elemField, fieldOf, sanitize, mapElement, shouldResetRequired, shouldResetDefault,
      defaultValue, typeIsObject, GAttr.isList] <;>
    first | (subst h; simp_all) | omega

theorem element_list_iff_core (d : ElemDecl) (f : Field) (h : elemField d = some f) :
    f.default = .listFactory ↔ d.max > 1 := by
  obtain ⟨mn, mx, dflt, fx, tp⟩ := d
  have h0 : mx = 0 ∨ mx = 1 ∨ ∃ k, mx = k + 2 := by
    rcases mx with _ | _ | k
    · exact Or.inl rfl
    · exact Or.inr (Or.inl rfl)
    · exact Or.inr (Or.inr ⟨k, rfl⟩)
  have h1 : mn = 0 ∨ ∃ k, mn = k + 1 := by
    rcases mn with _ | k
    · exact Or.inl rfl
    · exact Or.inr ⟨k, rfl⟩
  rcases h0 with rfl | rfl | ⟨kx, rfl⟩ <;> rcases h1 with rfl | ⟨kn, rfl⟩ <;>
    cases dflt <;> cases fx <;> cases tp <;>
    simp_all [elemField, fieldOf, sanitize, mapElement, shouldResetRequired, shouldResetDefault,
      defaultValue, typeIsObject, GAttr.isList] <;>
    first | (subst h; simp_all) | omega

theorem element_optional_absent_core (d : ElemDecl) (hmin : d.min = 0) (hmax : d.max = 1) :
    elemField d = some { init := true, default := .none } := by
  obtain ⟨mn, mx, dflt, fx, tp⟩ := d
  simp only at hmin hmax
  subst hmin hmax
  cases dflt <;> cases fx <;> cases tp <;>
    simp [elemField, fieldOf, sanitize, mapElement, shouldResetRequired, shouldResetDefault,
      defaultValue, typeIsObject, GAttr.isList]

theorem element_required_default_core (d : ElemDecl) (hmin : d.min ≥ 1) (hmax : d.max = 1) (v : Str)
    (hv : defaultValue d.default d.fixed = some v) :
    elemField d = some { init := d.fixed.isNone, default := .value v } := by
  obtain ⟨mn, mx, dflt, fx, tp⟩ := d
  simp only at hmin hmax hv
  subst hmax
  obtain ⟨kn, rfl⟩ : ∃ k, mn = k + 1 := ⟨mn - 1, by omega⟩
  cases dflt <;> cases fx <;> cases tp <;>
    simp_all [elemField, fieldOf, sanitize, mapElement, shouldResetRequired, shouldResetDefault,
      defaultValue, typeIsObject, GAttr.isList]

end Xs.Gen
