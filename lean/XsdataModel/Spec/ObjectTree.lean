/-
Spec — what the documented class/field metadata prescribes for an instance:
element and attribute names, namespaces (inheritance), nesting, order,
wrappers, xsi:nil.  A declarative reading, written without reference to
`EventGenerator` or the metadata builders; it is compared with the real
serializer by the correspondence op `ser.object` (no theorems about it).

Rules (xsdata documentation, "Data Models"):
* class element: local name `Meta.name` or the class name, namespace `Meta.namespace`;
  `Meta` is NOT inherited (a subclass without a Meta of its own is named after the class and has no
  namespace of its own, also below a base whose Meta sets one; the base's fields come first; an
  element field declared in a base with a Meta of its own defaults to the namespace that Meta sets);
  a class without `Meta.namespace` inherits the namespace of the enclosing instance's class
  (`meta.namespace`, what the parser hands down; since repair c01g-01 the serializer does the same —
  before it handed down the namespace of the enclosing instance's *element name*);
* element field: local name = metadata `name` or the field name; namespace = metadata
  `namespace` when given (`""` = unqualified), else the class namespace;
* attribute field: namespace only when given in the metadata;
* a model value is written under the field's name; `None` is omitted unless the element
  is nillable (empty element with `xsi:nil="true"`); an object without content under a nillable
  field also carries `xsi:nil="true"`; lists repeat the element;
  `wrapper` adds one enclosing element in the field's namespace; a text field is the
  character content; order = field definition order.
-/
import XsdataModel.Spec.XmlNs

namespace Spec.ObjectTree
open Py Xs.Sax Spec.XmlNs

mutual
  /-- description of a binding class -/
  inductive ModelD
    | mk (cls : Str) (metaName : Option Str) (hasNs : Bool) (ns : Option Str) (fields : List FieldD)
        (ownMeta : Bool) (base : Option ModelD)
  /-- description of a field -/
  inductive FieldD
    | attr (name : Str) (loc : Option Str) (ns : Option Str)
    | text (name : Str)
    | elem (name : Str) (loc : Option Str) (ns : Option Str) (isList nillable : Bool)
        (wrapper : Option Str) (typ : Option ModelD)
end

/-- instance data -/
inductive IV
  | none
  | str (s : Str)
  | list (xs : List IV)
  | obj (fields : List (Str × IV))

def optNonEmpty : Option Str → Option Str
  | some [] => none
  | o => o

def lookupField (fs : List (Str × IV)) (n : Str) : IV :=
  match fs.find? (fun e => e.1 = n) with
  | some e => e.2
  | none => .none

def xsiUri : Str :=
  ['h', 't', 't', 'p', ':', '/', '/', 'w', 'w', 'w', '.', 'w', '3', '.', 'o', 'r', 'g', '/', '2', '0', '0', '1', '/',
   'X', 'M', 'L', 'S', 'c', 'h', 'e', 'm', 'a', '-', 'i', 'n', 's', 't', 'a', 'n', 'c', 'e']

/-- an object written for a nillable field gets `xsi:nil="true"` when it has no content -/
def withNil (nil : Bool) : Node → Node
  | .elem n attrs [] => if nil then .elem n (attrs ++ [((some xsiUri, ['n', 'i', 'l']), ['t', 'r', 'u', 'e'])]) [] else .elem n attrs []
  | n => n

/-- the instance has a text field with a value (even an empty string counts as content) -/
def textPresent : ModelD → List (Str × IV) → Bool
  | .mk _ _ _ _ fields _ _, inst => fields.any fun f =>
    match f with
    | .text fname => (match lookupField inst fname with | .str _ => true | _ => false)
    | _ => false

/-- `Meta` is not inherited: only a Meta of the class itself names it and gives it a namespace -/
def ownNs : ModelD → Option (Option Str)
  | .mk _ _ hasNs ns _ ownMeta _ => if ownMeta && hasNs then some (optNonEmpty ns) else none

/-- the fields a class inherits, in dataclass order (the base's bases first), each with the namespace
its element defaults to when the Meta of the DECLARING class sets one (`none`: the namespace of the
class of the instance) -/
def inheritedFields : Nat → ModelD → List (FieldD × Option (Option Str))
  | 0, _ => []
  | fuel + 1, .mk _ _ _ _ _ _ base =>
    match base with
    | none => []
    | some b =>
      match b with
      | .mk _ _ _ _ bfields _ _ => inheritedFields fuel b ++ bfields.map (fun f => (f, ownNs b))

/-- element `name` holding instance `inst` of model `m`; `fuel` bounds the nesting depth -/
def specElem : Nat → ModelD → List (Str × IV) → EName → Option Str → Node
  | 0, _, _, name, _ => .elem name [] []
  | fuel + 1, .mk c mn hasNs ns ownFields ownMeta base, inst, name, parentNs =>
    let cns : Option Str := if ownMeta && hasNs then optNonEmpty ns else parentNs
    let fields : List (FieldD × Option (Option Str)) :=
      inheritedFields 8 (.mk c mn hasNs ns ownFields ownMeta base) ++ ownFields.map (fun f => (f, none))
    let attrs : List (EName × Str) := fields.filterMap fun fd =>
      match fd.1 with
      | .attr fname loc ans =>
        match lookupField inst fname with
        | .str v => some ((optNonEmpty ans, loc.getD fname), v)
        | _ => none
      | _ => none
    let kids : List Node := fields.flatMap fun fd =>
      match fd.1 with
      | .attr _ _ _ => []
      | .text fname =>
        match lookupField inst fname with
        | .str v => if v.isEmpty then [] else [.text v]
        | _ => []
      | .elem fname loc fns isList nillable wrapper typ =>
        let ens : Option Str := match fns with
          | none => (match fd.2 with | some d => d | none => cns)
          | some u => optNonEmpty (some u)
        let local_ := loc.getD fname
        let one (x : IV) : List Node :=
          match x, typ with
          | .none, _ =>
            if nillable && !isList then [.elem (ens, local_) [((some xsiUri, ['n', 'i', 'l']), ['t', 'r', 'u', 'e'])] []] else []
          | .str v, none => [.elem (ens, local_) [] (if v.isEmpty then [] else [.text v])]
          -- (no `xsi:nil` because the field is nillable: repair c01g-03; `cns`: repair c01g-01)
          | .obj fs, some m => [specElem fuel m fs (ens, local_) cns]
          | _, _ => []
        let values : List IV := match lookupField inst fname with
          | .list xs => if isList then xs else []
          | v => if isList then [] else [v]
        let items := values.flatMap one
        match wrapper with
        | some w => if isList then [.elem (ens, w) [] items] else items
        | none => items
    .elem name attrs kids

/-- the document element prescribed for a root instance -/
def specRoot (fuel : Nat) (m : ModelD) (inst : List (Str × IV)) : Node :=
  match m with
  | .mk cls metaName hasNs ns _ ownMeta _ =>
    let rns : Option Str := if ownMeta && hasNs then optNonEmpty ns else none
    specElem fuel m inst (rns, if ownMeta then metaName.getD cls else cls) rns

end Spec.ObjectTree
