"""Import shim for xsdata.formats.dataclass.transports."""


class Response:
    status_code = 200
    content = b""

    def raise_for_status(self):
        pass


class Session:
    def __init__(self):
        self.headers = {}

    def get(self, *a, **k):
        raise RuntimeError("requests is not installed in this sandbox")

    post = get

    def close(self):
        pass
