/- C07 — helper lemmas about the "next free index" loops of the renaming handlers. -/
import XsdataModel.Proofs.Names

namespace Proofs.Rename
open Py Xs.Text Xs.Filters Xs.Rename Proofs.Names

/-- generic form of the three loops: first `k ≥ i` whose slug `f k` is not reserved -/
def firstFreeG (f : Nat → Str) (reserved : List Str) : Nat → Nat → Option Nat
  | 0, _ => none
  | fuel + 1, i => if reserved.contains (f i) then firstFreeG f reserved fuel (i + 1) else some i

theorem firstFreeG_congr (f : Nat → Str) (R R' : List Str) :
    ∀ fuel i, (∀ j, i ≤ j → R.contains (f j) = R'.contains (f j)) →
      firstFreeG f R fuel i = firstFreeG f R' fuel i := by
  intro fuel
  induction fuel with
  | zero => intro i _; rfl
  | succ fuel ih =>
    intro i h
    rw [firstFreeG, firstFreeG, h i (Nat.le_refl i), ih (i + 1) (fun j hj => h j (by omega))]

/-- the loop ends and its result is fresh, whenever the slugs `f k` are pairwise different -/
theorem firstFreeG_spec (f : Nat → Str) (hinj : ∀ a b, f a = f b → a = b) :
    ∀ fuel (R : List Str) i, R.length < fuel →
      ∃ k, firstFreeG f R fuel i = some k ∧ i ≤ k ∧ R.contains (f k) = false := by
  intro fuel
  induction fuel with
  | zero => intro R i h; omega
  | succ fuel ih =>
    intro R i hlen
    rw [firstFreeG]
    cases hc : R.contains (f i)
    · exact ⟨i, by simp, Nat.le_refl i, hc⟩
    · simp only [if_true]
      obtain ⟨R', hR'⟩ : ∃ R', R' = R.filter (fun s => s != f i) := ⟨_, rfl⟩
      have hmem : f i ∈ R := by simpa using hc
      have hlt : R'.length < R.length := by
        have hle := List.length_filter_le (fun s => s != f i) R
        rw [← hR'] at hle
        by_cases heq : R'.length = R.length
        · rw [hR'] at heq
          have hall := (List.length_filter_eq_length_iff (p := fun s => s != f i) (l := R)).1 heq
          have := hall (f i) hmem
          simp at this
        · omega
      have hcongr : ∀ j, i + 1 ≤ j → R.contains (f j) = R'.contains (f j) := by
        intro j hj
        have hne : f j ≠ f i := fun h => by have := hinj _ _ h; omega
        cases hcj : R.contains (f j)
        · symm
          cases hcj' : R'.contains (f j)
          · rfl
          · have : f j ∈ R' := by simpa using hcj'
            rw [hR'] at this
            have : f j ∈ R := (List.mem_filter.1 this).1
            have : R.contains (f j) = true := by simpa using this
            rw [hcj] at this; cases this
        · symm
          have : f j ∈ R := by simpa using hcj
          have : f j ∈ R' := by rw [hR']; exact List.mem_filter.2 ⟨this, by simpa using hne⟩
          simpa using this
      rw [firstFreeG_congr f R R' fuel (i + 1) hcongr]
      obtain ⟨k, hk, hik, hfree⟩ := ih R' (i + 1) (by omega)
      refine ⟨k, hk, by omega, ?_⟩
      rw [hcongr k hik]; exact hfree

/-! ### the slugs `alnum(name_i)` are pairwise different -/

theorem digits_ok (i : Nat) : ∀ c ∈ Nat.toDigits 10 i, isAsciiAlnum c = true ∧ lowerA c = c := by
  intro c hc
  have hd := Nat.isDigit_of_mem_toDigits (b := 10) (by decide) (by decide) hc
  have h48 : 48 ≤ c.toNat ∧ c.toNat ≤ 57 := by
    simp [Char.isDigit] at hd
    have h1 : (48 : UInt32).toNat ≤ c.val.toNat := UInt32.le_iff_toNat_le.1 hd.1
    have h2 : c.val.toNat ≤ (57 : UInt32).toNat := UInt32.le_iff_toNat_le.1 hd.2
    exact ⟨h1, h2⟩
  constructor
  · unfold isAsciiAlnum isAsciiDigit; simp; omega
  · unfold lowerA isAsciiUpper
    have : ¬ (65 ≤ c.toNat) := by omega
    simp [this]

theorem alnum_digits (i : Nat) : alnum (Nat.toDigits 10 i) = Nat.toDigits 10 i := by
  rw [alnum_of_ok _ (fun c hc => (digits_ok i c hc).1)]
  conv => rhs; rw [← List.map_id (Nat.toDigits 10 i)]
  apply List.map_congr_left
  intro c hc
  simpa using (digits_ok i c hc).2

theorem alnum_indexed (name : Str) (i : Nat) :
    alnum (indexed name i) = alnum name ++ Nat.toDigits 10 i := by
  unfold indexed
  rw [alnum_append, alnum_append, alnum_digits]
  simp [alnum_cons, underscore_not_alnum, alnum_nil]

theorem toDigits_inj (a b : Nat) (h : Nat.toDigits 10 a = Nat.toDigits 10 b) : a = b := by
  have := congrArg (fun l => Nat.ofDigitChars 10 l 0) h
  simpa using this

theorem slug_indexed_inj (pre name : Str) (a b : Nat)
    (h : pre ++ alnum (indexed name a) = pre ++ alnum (indexed name b)) : a = b := by
  rw [alnum_indexed, alnum_indexed] at h
  exact toDigits_inj a b (List.append_cancel_left (List.append_cancel_left h))

theorem firstFree_eq (name : Str) (R : List Str) :
    ∀ fuel i, firstFree name R fuel i = firstFreeG (fun k => alnum (indexed name k)) R fuel i := by
  intro fuel
  induction fuel with
  | zero => intro i; rfl
  | succ fuel ih => intro i; rw [firstFree, firstFreeG, ih]

theorem firstFree_spec (name : Str) (R : List Str) (i : Nat) :
    ∃ k, firstFree name R (R.length + 1) i = some k ∧ i ≤ k ∧
      R.contains (alnum (indexed name k)) = false := by
  rw [firstFree_eq]
  exact firstFreeG_spec _ (fun a b h => slug_indexed_inj [] name a b (by simpa using h))
    (R.length + 1) R i (by omega)

theorem alnum_buildQName (ns : Option Str) (n : Str) :
    alnum (buildQName ns n) = alnum ((ns.getD [])) ++ alnum n := by
  unfold buildQName
  cases ns with
  | none => simp [alnum_nil]
  | some s =>
    cases s with
    | nil => simp [alnum_nil]
    | cons c cs =>
      have h1 : isAsciiAlnum '{' = false := by decide
      have h2 : isAsciiAlnum '}' = false := by decide
      simp only [Option.getD_some]
      rw [alnum_append, alnum_append, alnum_append]
      simp [alnum_cons, h1, h2, alnum_nil]

theorem nextQNameIdx_eq (useNames : Bool) (ns : Option Str) (name : Str) (R : List Str) :
    ∀ fuel i, nextQNameIdx useNames ns name R fuel i =
      firstFreeG (fun k => alnum (if useNames then indexed name k else buildQName ns (indexed name k))) R fuel i := by
  intro fuel
  induction fuel with
  | zero => intro i; rfl
  | succ fuel ih => intro i; rw [nextQNameIdx, firstFreeG, ih]

theorem nextQNameIdx_spec (useNames : Bool) (ns : Option Str) (name : Str) (R : List Str) (i : Nat) :
    ∃ k, nextQNameIdx useNames ns name R (R.length + 1) i = some k ∧ i ≤ k ∧
      R.contains (alnum (if useNames then indexed name k else buildQName ns (indexed name k))) = false := by
  rw [nextQNameIdx_eq]
  apply firstFreeG_spec _ _ (R.length + 1) R i (by omega)
  intro a b h
  cases useNames with
  | true => exact slug_indexed_inj [] name a b (by simpa using h)
  | false =>
    simp only [Bool.false_eq_true, if_false, alnum_buildQName] at h
    exact slug_indexed_inj _ name a b h

end Proofs.Rename
