/-
L8 — xsdata/codegen/parsers/dtd.py : DtdParser.build_ns_map — the xmlns declarations among
an element's ATTLIST defaults become the prefix map and are removed from the attributes.
-/
import XsdataModel.Py.Basic

namespace Xs.Gen
open Py

/-- the fields of `DtdAttribute` that `build_ns_map` reads -/
structure DAttr where
  pfx : Option Str
  name : Str
  defaultValue : Option Str
deriving DecidableEq, Repr

def xmlnsS : Str := "xmlns".toList

/-- `attribute.default_value` is truthy and the attribute declares a namespace -/
def DAttr.isNsDecl (a : DAttr) : Bool :=
  (match a.defaultValue with | some v => !v.isEmpty | none => false) &&
  (a.pfx = some xmlnsS || a.name = xmlnsS)

/-- dict assignment -/
def dictPut (m : List (Option Str × Str)) (k : Option Str) (v : Str) : List (Option Str × Str) :=
  if m.any (·.1 = k) then m.map (fun (k', w) => if k' = k then (k', v) else (k', w)) else m ++ [(k, v)]

/-- one iteration of the loop in `build_ns_map` -/
def nsStep (elemPrefix : Option Str) (acc : List (Option Str × Str) × List DAttr) (a : DAttr) :
    List (Option Str × Str) × List DAttr :=
  match a.defaultValue with
  | none => (acc.1, acc.2 ++ [a])
  | some v =>
    if v.isEmpty then (acc.1, acc.2 ++ [a])
    else if a.pfx = some xmlnsS then (dictPut acc.1 (some a.name) v, acc.2)
    else if a.name = xmlnsS then (dictPut acc.1 elemPrefix v, acc.2)
    else (acc.1, acc.2 ++ [a])

/-- `DtdParser.build_ns_map(prefix, attributes)` : the map (starting from the common
namespaces `base`) and the attributes left in the list -/
def buildNsMap (base : List (Option Str × Str)) (elemPrefix : Option Str) (attrs : List DAttr) :
    List (Option Str × Str) × List DAttr :=
  attrs.foldl (nsStep elemPrefix) (base, [])

end Xs.Gen
