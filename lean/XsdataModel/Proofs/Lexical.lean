/- Lexical lemmas about the XML spec predicates (Spec/XmlNs.lean). -/
import XsdataModel.Spec.XmlNs
import XsdataModel.Proofs.NatStr

namespace Spec.XmlNs
open Py Xs.Ns Xs.Sax

theorem isNameChar_ne_colon (c : Char) (h : isNameChar c = true) : c ≠ ':' := by
  intro hc; subst hc; revert h; decide

theorem isNameStartChar_isNameChar (c : Char) (h : isNameStartChar c = true) : isNameChar c = true := by
  simp [isNameChar, h]

theorem isNCName_all (s : Str) (h : isNCName s = true) : ∀ c ∈ s, isNameChar c = true := by
  cases s with
  | nil => simp [isNCName] at h
  | cons c cs =>
    simp [isNCName] at h
    intro x hx
    rcases List.mem_cons.mp hx with rfl | hm
    · exact isNameStartChar_isNameChar _ h.1
    · exact h.2 x hm

theorem isNCName_no_colon (s : Str) (h : isNCName s = true) : ':' ∉ s := by
  intro hm
  exact isNameChar_ne_colon _ (isNCName_all s h _ hm) rfl

theorem isNCName_ne_nil (s : Str) (h : isNCName s = true) : s ≠ [] := by
  intro hs; subst hs; simp [isNCName] at h

theorem takeWhile_no (s : Str) (c : Char) (h : c ∉ s) : s.takeWhile (· ≠ c) = s := by
  induction s with
  | nil => rfl
  | cons x r ih =>
    simp at h
    have hx : x ≠ c := fun e => h.1 e.symm
    simp [List.takeWhile, hx]
    simpa using ih h.2

theorem dropWhile_no (s : Str) (c : Char) (h : c ∉ s) : s.dropWhile (· ≠ c) = [] := by
  induction s with
  | nil => rfl
  | cons x r ih =>
    simp at h
    have hx : x ≠ c := fun e => h.1 e.symm
    simp [List.dropWhile, hx]
    simpa using ih h.2

theorem takeWhile_append_sep (p l : Str) (c : Char) (h : c ∉ p) :
    (p ++ c :: l).takeWhile (· ≠ c) = p := by
  induction p with
  | nil => simp
  | cons x r ih =>
    simp at h
    have hx : x ≠ c := fun e => h.1 e.symm
    simp [List.takeWhile, hx]
    simpa using ih h.2

theorem dropWhile_append_sep (p l : Str) (c : Char) (h : c ∉ p) :
    (p ++ c :: l).dropWhile (· ≠ c) = c :: l := by
  induction p with
  | nil => simp
  | cons x r ih =>
    simp at h
    have hx : x ≠ c := fun e => h.1 e.symm
    simp [List.dropWhile, hx]
    simpa using ih h.2

theorem splitColon_plain (l : Str) (h : ':' ∉ l) : splitColon l = (none, l) := by
  unfold splitColon
  rw [takeWhile_no l ':' h, dropWhile_no l ':' h]

theorem splitColon_prefixed (p l : Str) (h : ':' ∉ p) : splitColon (p ++ ':' :: l) = (some p, l) := by
  unfold splitColon
  rw [takeWhile_append_sep p l ':' h, dropWhile_append_sep p l ':' h]

theorem isNameChar_isXmlChar (c : Char) (h : isNameChar c = true) : isXmlChar c = true := by
  simp only [isNameChar, isNameStartChar, isXmlChar, inR, Bool.or_eq_true, Bool.and_eq_true,
    decide_eq_true_eq, beq_iff_eq] at h ⊢
  omega

theorem isNCName_xmlChars (s : Str) (h : isNCName s = true) : xmlChars s = true := by
  simp only [xmlChars, List.all_eq_true]
  intro c hc
  exact isNameChar_isXmlChar c (isNCName_all s h c hc)

theorem isDigitChar_isNameChar (c : Char) (h : isDigitChar c = true) : isNameChar c = true := by
  simp only [isDigitChar, isNameChar, isNameStartChar, inR, Bool.or_eq_true, Bool.and_eq_true,
    decide_eq_true_eq, beq_iff_eq] at h ⊢
  omega

theorem nsK_isNCName (k : Nat) : isNCName (nsLit ++ natStr k) = true := by
  simp only [nsLit, List.cons_append, List.nil_append, isNCName, Bool.and_eq_true, List.all_eq_true]
  refine ⟨by decide, ?_⟩
  intro c hc
  rcases List.mem_cons.mp hc with rfl | hm
  · decide
  · exact isDigitChar_isNameChar c (natStr_digits k c hm)

theorem nsK_ne_xml (k : Nat) : nsLit ++ natStr k ≠ xmlPrefix := by
  simp [nsLit, xmlPrefix]

theorem nsK_ne_xmlns (k : Nat) : nsLit ++ natStr k ≠ xmlnsPrefix := by
  simp [nsLit, xmlnsPrefix]

theorem nsK_injective (a b : Nat) (h : nsLit ++ natStr a = nsLit ++ natStr b) : a = b :=
  natStr_injective a b (List.append_cancel_left h)

theorem normEol_noCR (s : Str) (h : '\r' ∉ s) : normEol s = s := by
  induction s with
  | nil => rfl
  | cons c r ih =>
    simp at h
    have hc : c ≠ '\r' := fun e => h.1 e.symm
    cases r with
    | nil => unfold normEol; split <;> simp_all
    | cons d r' =>
      have := ih h.2
      unfold normEol
      split <;> simp_all

end Spec.XmlNs
