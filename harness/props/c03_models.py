"""C03 object-level oracle: random binding models described declaratively,
turned into dataclasses for xsdata, serialized with both writers, and compared
with the tree the *description* prescribes by the documented rules:

* class element name = Meta.name or the class name; its namespace = Meta.namespace;
  a class without Meta.namespace inherits the namespace of the element of the enclosing instance;
* element field: local name = metadata name or the field name; namespace = metadata
  namespace when given ("" = unqualified), else the class namespace;
* attribute field: local name likewise; namespace only when given in the metadata;
* a nested model value is written under the *field's* name, not its class name;
* None is omitted, unless the element field is nillable (empty element with xsi:nil="true");
  an object without content under a nillable field also carries xsi:nil="true";
* lists repeat the element; `wrapper` adds one enclosing element in the field's namespace
  (also around an empty list);
* a text field is the element's character content; order is field definition order;
* inheritance: `Meta` is NOT inherited — a subclass without a Meta of its own is named after the class and
  has no namespace of its own (it takes the enclosing class's, also below a base whose Meta sets one);
  the fields of the base come first; an element field declared in a base class with a Meta of its own
  defaults to the namespace THAT Meta sets (else to the namespace of the class of the instance).
"""
import copy
import itertools
from dataclasses import field, make_dataclass
from typing import List, Optional

from framework import Oracle
from props import c03_oracle as O
from props import c03_support as S
from xsdata.exceptions import SerializerError, XmlWriterError
from xsdata.formats.dataclass.context import XmlContext
from xsdata.formats.dataclass.serializers import XmlSerializer
from xsdata.formats.dataclass.serializers.config import SerializerConfig

NSPOOL = [None, None, "urn:m1", "urn:m2", "urn:m3"]
FNS = [None, None, None, "", "urn:f1", "urn:m1"]
NAMES = ["alpha", "beta", "Gamma", "d-elta", "eps_1", "zeta"]
TEXTS = ["v", "1 < 2", "a & b", "", "x\"y'", "  pad  ", "é"]
_counter = itertools.count()


SEQ_NUMBERS = [0, 0, 0, 1, 2, 7, 10]


def rand_model(rng, depth, bases=True, prefix="f", pool=None, sequences=True):
    """a model description (JSON-able); `base`: the description of a base class (its fields are
    inherited), `own_meta`: the class has a `Meta` of its own (a class without a base always has)"""
    pool = [] if pool is None else pool     # finished nested models of this root: a class may be used twice
    m = {
        "cls": "M%d" % next(_counter),
        "meta_name": rng.choice([None, None, rng.choice(NAMES)]),
        "has_ns": rng.random() < 0.7,
        "namespace": rng.choice(NSPOOL),
        "fields": [],
    }
    if bases and rng.random() < 0.35:
        # the whole family: base with / without a namespace of its own, itself derived or not,
        # subclass with a Meta of its own (with / without namespace) or without one
        b = rand_model(rng, 0, bases=rng.random() < 0.3, prefix=prefix + "b", sequences=sequences)
        b["fields"] = [f for f in b["fields"] if f["kind"] != "text"]
        m["base"] = b
        m["own_meta"] = rng.random() < 0.45
        if not m["own_meta"]:
            m["meta_name"], m["has_ns"], m["namespace"] = None, False, None
            if rng.random() < 0.6:      # … below a base whose Meta sets a namespace
                b["own_meta"], b["has_ns"], b["namespace"] = True, True, rng.choice(["urn:m1", "urn:m2", "urn:b1"])
    used = set()

    def fname():
        for _ in range(20):
            n = "%s_%s" % (prefix, rng.choice("abcdefgh"))
            if n not in used:
                used.add(n)
                return n
        return "%s_%d" % (prefix, next(_counter))

    # two attributes with one name (also along the inheritance chain) are not a binding model
    seen_attrs = {(f["namespace"], f.get("local") or f["name"]) for f, _ in (all_fields(m["base"]) if m.get("base") else [])
                  if f["kind"] == "attribute"}
    for _ in range(rng.choice([0, 1, 1, 2])):
        a = {"name": fname(), "kind": "attribute", "local": rng.choice([None, None, rng.choice(NAMES)]),
             "namespace": rng.choice([None, None, None, "urn:f1", "urn:m1"])}
        key = (a["namespace"], a["local"] or a["name"])
        if key not in seen_attrs:
            seen_attrs.add(key)
            m["fields"].append(a)
    n_el = rng.choice([0, 1, 2, 2, 3])
    for _ in range(n_el):
        f = {"name": fname(), "kind": "element", "local": rng.choice([None, None, rng.choice(NAMES)]),
             "namespace": rng.choice(FNS), "list": rng.random() < 0.25, "nillable": rng.random() < 0.15,
             "wrapper": None, "type": "str"}
        if depth > 0 and rng.random() < 0.45:
            if pool and rng.random() < 0.3:
                # the same class again, possibly under a class of another namespace (one metadata cache)
                f["type"] = copy.deepcopy(rng.choice(pool))
            else:
                f["type"] = rand_model(rng, depth - 1, bases=bases, prefix=prefix, pool=pool, sequences=sequences)
                pool.append(copy.deepcopy(f["type"]))
            f["nillable"] = f["nillable"] and not f["list"]
        elif f["list"] and rng.random() < 0.4:
            f["wrapper"] = rng.choice(["wrap", "items"])
            f["local"] = f["local"] or "item"
        m["fields"].append(f)
    els = [f for f in m["fields"] if f["kind"] == "element"]
    inherited_seq = any(f.get("sequence") is not None for f, _ in (all_fields(m["base"]) if m.get("base") else []))
    if sequences and len(els) >= 2 and not inherited_seq and rng.random() < 0.4:   # (one class of a chain has the groups)
        # sequence groups (metadata `sequence`: any int, 0 included): one or two numbers on some of the element
        # fields, members mostly lists of different lengths, sometimes a field without number in between
        nums = rng.sample(sorted(set(SEQ_NUMBERS)), rng.choice([1, 1, 2]))
        if rng.random() < 0.5:
            nums[0] = 0
        members = rng.sample(range(len(els)), rng.randint(2, len(els)))
        for k in members:
            els[k]["sequence"] = rng.choice(nums)
            if rng.random() < 0.7 and not isinstance(els[k]["type"], dict):
                els[k]["list"], els[k]["nillable"] = True, False
        lo, hi = min(members), max(members)
        for f in els[lo:hi + 1]:
            f["wrapper"] = None          # (a wrapped list inside a group: C01's excluded region)
    if n_el == 0 and not m.get("base") and rng.random() < 0.6:
        m["fields"].append({"name": fname(), "kind": "text"})
    return m


def all_fields(m):
    """(field, declaring model) pairs in dataclass order: base fields first"""
    out = all_fields(m["base"]) if m.get("base") else []
    return out + [(f, m) for f in m["fields"]]


def has_base(m):
    return bool(m.get("base")) or any(has_base(f["type"]) for f in m["fields"] if isinstance(f.get("type"), dict))


def depth(m):
    return 1 + max([depth(f["type"]) for f, _ in all_fields(m) if isinstance(f.get("type"), dict)] or [0])


def rand_instance(rng, m):
    inst = {}
    for f, _ in all_fields(m):
        if f["kind"] == "attribute":
            inst[f["name"]] = rng.choice([None, rng.choice(TEXTS)])
        elif f["kind"] == "text":
            inst[f["name"]] = rng.choice([None, rng.choice(TEXTS)])
        else:
            def one():
                if isinstance(f["type"], dict):
                    return rand_instance(rng, f["type"])
                return rng.choice(TEXTS)

            if f["list"]:
                inst[f["name"]] = [one() for _ in range(rng.choice([0, 1, 2, 3]))]
            else:
                inst[f["name"]] = None if rng.random() < 0.3 else one()
    return inst


# ------------------------------------------------------------------ description -> dataclasses
def build_class(m, reg=None):
    """`reg`: classes by name — a description that occurs twice is ONE class"""
    reg = {} if reg is None else reg
    if m["cls"] in reg:
        m["_class"] = reg[m["cls"]]
        for f in m["fields"]:
            if isinstance(f.get("type"), dict):
                build_class(f["type"], reg)
        if m.get("base"):
            build_class(m["base"], reg)
        return m["_class"]
    fields = []
    for f in m["fields"]:
        md = {}
        if f["kind"] == "attribute":
            md["type"] = "Attribute"
            tp = Optional[str]
            default = field(default=None, metadata=md)
        elif f["kind"] == "text":
            md["type"] = "Text"
            tp = Optional[str]
            default = field(default=None, metadata=md)
        else:
            md["type"] = "Element"
            base = build_class(f["type"], reg) if isinstance(f["type"], dict) else str
            if f["nillable"]:
                md["nillable"] = True
            if f["wrapper"]:
                md["wrapper"] = f["wrapper"]
            if f.get("sequence") is not None:
                md["sequence"] = f["sequence"]
            if f["list"]:
                tp = List[base]
                default = field(default_factory=list, metadata=md)
            else:
                tp = Optional[base]
                default = field(default=None, metadata=md)
        if f.get("local") is not None:
            md["name"] = f["local"]
        if f.get("namespace") is not None:
            md["namespace"] = f["namespace"]
        fields.append((f["name"], tp, default))
    meta = {}
    if m["meta_name"]:
        meta["name"] = m["meta_name"]
    if m["has_ns"]:
        meta["namespace"] = m["namespace"]
    bases = (build_class(m["base"], reg),) if m.get("base") else ()
    ns = {"Meta": type("Meta", (), meta)} if m.get("own_meta", True) else {}
    cls = make_dataclass(m["cls"], fields, bases=bases, namespace=ns)
    m["_class"] = cls
    reg[m["cls"]] = cls
    return cls


def build_object(m, inst):
    kw = {}
    for f, _ in all_fields(m):
        v = inst[f["name"]]
        if f["kind"] == "element" and isinstance(f["type"], dict):
            if f["list"]:
                v = [build_object(f["type"], x) for x in v]
            elif v is not None:
                v = build_object(f["type"], v)
        kw[f["name"]] = v
    return m["_class"](**kw)


# ------------------------------------------------------------------ description -> expected tree
def class_ns(m, parent_ns):
    return (m["namespace"] or None) if m.get("own_meta", True) and m["has_ns"] else parent_ns


def expected(m, inst, name, parent_ns):
    """element `name` = (ns, local) holding instance `inst` of model `m`"""
    cns = class_ns(m, parent_ns)
    attrs, kids = [], []
    plan = []      # element fields in definition order: (field, [nodes of value 0, nodes of value 1, …], whole)
    for f, decl in all_fields(m):
        v = inst[f["name"]]
        # an inherited field defaults to the namespace the Meta of its declaring class sets, if it sets one
        dns = (decl["namespace"] or None) if decl is not m and decl.get("own_meta", True) and decl["has_ns"] else cns
        local = f.get("local") or f["name"]
        if f["kind"] == "attribute":
            if v is not None:
                attrs.append([f["namespace"] or None, local, v])
        elif f["kind"] == "text":
            if v:
                plan.append((f, [[["t", v]]], None))
        else:
            ens = dns if f["namespace"] is None else (f["namespace"] or None)
            values = v if f["list"] else [v]
            units = []
            for x in values:
                if x is None:
                    units.append([["e", ens, local, [[S.XSI, "nil", "true"]], []]] if f["nillable"] and not f["list"] else [])
                elif isinstance(f["type"], dict):
                    # a class without Meta.namespace inherits the namespace of the enclosing instance's class
                    # (repair c01g-01: the serializer hands meta.namespace down like the parser; before: the
                    # namespace of the enclosing element name, name[0]); an object under a nillable field is
                    # not xsi:nil because of the field (repair c01g-03)
                    units.append([expected(f["type"], x, (ens, local), cns)])
                else:
                    units.append([["e", ens, local, [], [["t", x]] if x else []]])
            whole = None
            if f["wrapper"]:
                whole = [["e", ens, f["wrapper"], [], [n for u in units for n in u]]] if f["list"] else []
            plan.append((f, units, whole))
    # "fields with the same sequence number are rendered sequentially": from the first field of a number to the
    # LAST field with that number (whatever lies in between goes along) the values are written round by round —
    # round j takes the j-th item of every list, a single value belongs to round 0.  The number is any int, 0 included.
    i = 0
    while i < len(plan):
        f, units, whole = plan[i]
        sq = f.get("sequence")
        if sq is None:
            kids.extend(whole if whole is not None else [n for u in units for n in u])
            i += 1
            continue
        end = max(k for k in range(i, len(plan)) if plan[k][0].get("sequence") == sq)
        group = plan[i:end + 1]
        for j in range(max([len(u) for _, u, _ in group] + [1])):
            for g, gu, _ in group:
                if j < len(gu):
                    kids.extend(gu[j])
        i = end + 1
    return ["e", name[0], name[1], attrs, kids]


def expected_root(m, inst):
    ns = class_ns(m, None)
    local = (m["meta_name"] if m.get("own_meta", True) else None) or m["cls"]
    return expected(m, inst, (ns, local), ns)


# ------------------------------------------------------------------ the oracle
def strip_private(m):
    out = {k: v for k, v in m.items() if not k.startswith("_")}
    out["fields"] = [dict(f, type=strip_private(f["type"])) if isinstance(f.get("type"), dict) else dict(f) for f in m["fields"]]
    if m.get("base"):
        out["base"] = strip_private(m["base"])
    return out


def check_object(a):
    m = strip_private(a["model"])
    try:
        build_class(m)
        obj = build_object(m, a["inst"])
    except Exception as e:  # noqa: BLE001
        return None  # description not realisable as dataclasses: not judged
    exp = expected_root(m, a["inst"])
    for wname, w in O.WRITERS.items():
        ser = XmlSerializer(context=XmlContext(), config=SerializerConfig(xml_declaration=False), writer=w)
        try:
            text = ser.render(obj, S.user_dict(a["ns_map"]) if a["ns_map"] else None)
        except (SerializerError, XmlWriterError):
            continue
        except Exception as e:  # noqa: BLE001
            return "writer=%s kind=leak:%s %s" % (wname, type(e).__name__, str(e)[:100])
        kind, detail = O.judge_output(text, exp)
        if kind:
            return "writer=%s kind=%s %s" % (wname, kind, detail)
    return None


def covered_object(a, msg):
    """the user-map findings apply to object inputs as well (same predicates on the map;
    default-namespace attributes read off the description)"""
    import re

    mm = re.match(r"writer=(\w+) kind=(\S+)", msg)
    if not mm:
        return None
    w, kind = mm.group(1), mm.group(2)
    fake = {"ns_map": a["ns_map"], "events": [], "cfg": {}}
    for fid in ("c03-prefix-unicode-ncname",):
        pred, where = O.KNOWN[fid]
        if kind in where.get(w, ()) and pred(fake):
            # the finding is about the prefix alone: the same object under the same map with the offending prefixes
            # replaced by declarable ones must be written correctly, else the failure is of another kind
            ok_map = [[("zq%d" % i if (p and not S.is_ncname(p)) else p), u] for i, (p, u) in enumerate(a["ns_map"])]
            if check_object({**a, "ns_map": ok_map}) is not None:
                return None
            return fid
    return None


OBJ_MAPS = [[], [], [[None, "urn:m1"]], [["", "urn:m2"]], [["p", "urn:m1"]], [["p", "urn:m1"], ["q", "urn:f1"]],
            [["unused", "urn:zzz"]], [["ns1", "urn:m1"]], [["x", S.XSI]], [[None, "urn:f1"], ["m", "urn:m3"]]]


def _el(name, typ="str", ns=None, lst=False):
    return {"name": name, "kind": "element", "local": None, "namespace": ns, "list": lst, "nillable": False, "wrapper": None, "type": typ}


def _cls(name, fields, ns=None, has_ns=None, base=None, own_meta=True):
    m = {"cls": name, "meta_name": None, "has_ns": (ns is not None) if has_ns is None else has_ns, "namespace": ns, "fields": fields}
    if base is not None:
        m["base"], m["own_meta"] = base, own_meta
    return m


def hand_models():
    """the family around `Meta` not being inherited and one metadata cache per context:
    Holder{ns H}.s : Sub(Base) for Base with / without a namespace, Sub with a Meta of its own (without
    namespace) or without one, one or two levels of bases; and one class used under classes of two namespaces"""
    k = itertools.count()
    for base_ns in (None, "urn:base", "urn:h"):
        for own_meta in (False, True):
            for deep in (False, True):
                for holder_ns in ("urn:h", None):
                    i = next(k)
                    base = _cls("HB%d" % i, [_el("x")], ns=base_ns)
                    if deep:
                        base = _cls("HMid%d" % i, [_el("w")], base=base, own_meta=False, has_ns=False)
                    sub = _cls("HSub%d" % i, [_el("y"), _el("z", lst=True)], base=base, own_meta=own_meta, has_ns=False)
                    holder = _cls("HHolder%d" % i, [_el("s", typ=sub), _el("t")], ns=holder_ns)
                    inst = {"s": dict({"x": "1", "y": "2", "z": ["3", "4"]}, **({"w": "0"} if deep else {})), "t": "5"}
                    yield holder, inst
    # one class, two enclosing namespaces
    for i, (ns1, ns2) in enumerate([("urn:m1", "urn:m2"), (None, "urn:m2"), ("urn:m1", None)]):
        leaf = _cls("HLeaf%d" % i, [_el("v")], has_ns=False)
        inner = _cls("HInner%d" % i, [_el("c", typ=copy.deepcopy(leaf))], ns=ns2)
        outer = _cls("HOuter%d" % i, [_el("a", typ=copy.deepcopy(leaf)), _el("p", typ=inner), _el("b", typ=copy.deepcopy(leaf))], ns=ns1, has_ns=True)
        yield outer, {"a": {"v": "1"}, "p": {"c": {"v": "2"}}, "b": {"v": "3"}}


def hand_sequences():
    """the family around `sequence`: the number (0 included), two groups, lists of different lengths, a single
    value in a group, a field without number inside the span of a group"""
    k = itertools.count()
    for n in (0, 1, 2, 10):
        for other in (None, 0, 3):
            i = next(k)
            fs = [dict(_el("key", lst=True), sequence=n), dict(_el("mid"), sequence=other), dict(_el("val", lst=True), sequence=n), _el("tail")]
            yield _cls("HSeq%d" % i, fs, ns="urn:demo"), {"key": ["1", "2", "3"], "mid": "m", "val": ["a", "b"], "tail": "t"}
            fs2 = [dict(_el("a", lst=True), sequence=n), dict(_el("b", lst=True), sequence=n), dict(_el("c", lst=True), sequence=other), dict(_el("d", lst=True), sequence=other)]
            yield _cls("HSeq2_%d" % i, fs2, ns=None, has_ns=False), {"a": ["1", "2"], "b": ["x", "y"], "c": ["p"], "d": ["q", "r"]}


def gen_object(rng, tier):
    for m, inst in hand_sequences():
        for nm in ([], [[None, "urn:demo"]], [["p", "urn:demo"]]):
            yield {"model": m, "inst": inst, "ns_map": nm}
    for m, inst in hand_models():
        for nm in ([], [[None, "urn:h"]], [["h", "urn:h"], ["b", "urn:base"]]):
            yield {"model": m, "inst": inst, "ns_map": nm}
    n = 500 if tier == "quick" else 15000
    for _ in range(n):
        m = rand_model(rng, rng.choice([0, 1, 1, 2]))
        yield {"model": m, "inst": rand_instance(rng, m), "ns_map": [list(x) for x in rng.choice(OBJ_MAPS)]}


ORACLE = Oracle("c03.object", gen_object, check_object, covered=covered_object, from_ops=("ser.object",))

# ------------------------------------------------------------------ correspondence op `ser.object`
SAFE_OBJ_MAPS = [[], [], [["p", "urn:m1"], ["q", "urn:f1"]], [["unused", "urn:zzz"]], [["x", S.XSI]]]


def gen_ser_object(rng, tier):
    for m, inst in hand_models():
        yield {"model": m, "inst": inst, "ns_map": []}
    n = 600 if tier == "quick" else 20000
    for _ in range(n):
        m = rand_model(rng, rng.choice([0, 1, 1, 2, 2]), sequences=False)    # Spec/ObjectTree.lean has no `sequence`
        yield {"model": m, "inst": rand_instance(rng, m), "ns_map": [list(x) for x in rng.choice(SAFE_OBJ_MAPS)]}


def _plain(node):
    if node is None or node[0] == "t":
        return node
    return ["e", node[1], node[2], sorted([list(a) for a in node[3]], key=lambda x: (x[0] or "", x[1])), [_plain(k) for k in node[4]]]


def impl_ser_object(a):
    """the real serializer (both writers) on the dataclasses built from the description"""
    m = strip_private(a["model"])
    build_class(m)
    obj = build_object(m, a["inst"])
    trees = []
    for wname, w in O.WRITERS.items():
        ser = XmlSerializer(context=XmlContext(), config=SerializerConfig(xml_declaration=False), writer=w)
        try:
            text = ser.render(obj, S.user_dict(a["ns_map"]) if a["ns_map"] else None)
        except Exception as e:  # noqa: BLE001
            return {"err": "%s:%s" % (wname, type(e).__name__)}
        trees.append(_plain(S.parse_infoset(text)))
    if trees[0] != trees[1]:
        return {"err": "writers-disagree"}
    return {"ok": trees[0]}


def canon_ser_object(o):
    if isinstance(o, dict) and "ok" in o:
        return {"ok": _plain(o["ok"])}
    return o
