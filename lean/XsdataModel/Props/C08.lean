/- C08 — property theorems (only). Helper lemmas: Proofs/C08Handler.lean, Proofs/C08Writer.lean -/
import XsdataModel.Proofs.C08Handler
import XsdataModel.Proofs.C08Writer
import XsdataModel.Proofs.C08Bridge
import XsdataModel.Proofs.C08Sources
import XsdataModel.Proofs.C08LxmlText
import XsdataModel.Proofs.C08UnionAttrs
import XsdataModel.Proofs.UserMap
import XsdataModel.Proofs.C11Pipeline
import XsdataModel.Backends.Serializers

namespace Props.C08
open Py Xs.Bind Xs.Backends Xs.Generic Proofs.C11

/-! ## handlers: the prefix map the native handler passes to `parser.start` -/

/-- a wrapper element that carries a declaration: `<Root><wrapa xmlns:p="urn:x"><a>p:foo</a></wrapa></Root>`
(the node queued for `<wrapa>` is a `WrapperNode`, which keeps its parent's map: `Store.top`) -/
def wrapperWitness : XTree :=
  .node [] "Root".toList [] .passed none
    [.node [("p".toList, "urn:x".toList)] "wrapa".toList [] .top none
      [.node [] "a".toList [] .passed (some "p:foo".toList) [] none] none] none

/-- **native_nsmap_inscope** (full strength since the handler keeps the maps of the open elements
itself; it used to read `queue[-1].ns_map` back and lost the declarations made on a wrapper
element, and everything below a union or skipped node).  For every document, whatever nodes the
parser queues, the calls of the native handler on its event stream are exactly the calls with the
in-scope declarations (innermost wins) as prefix map — what lxml's `element.nsmap` is. -/
theorem native_nsmap_inscope (t : XTree) :
    (pump [] [] (toks t)).map PEv.view = spec [] t := by
  have := pump_tree t [] [] [] (by intro p; simp [topMap, get_nil, inScope])
  simpa [pump] using this

/-- the former counterexample: the declaration `xmlns:p` made on the wrapper element is in the map
passed for `<a>` -/
example : (match (pump [] [] (toks wrapperWitness))[3]? with
    | some (PEv.start _ _ m) => m.get (some "p".toList)
    | _ => none) = some "urn:x".toList := by decide

example : (XTree.node [("".toList, "urn:a".toList), ("p".toList, "urn:p".toList)] "{urn:a}r".toList [] .passed none
    [.node [("".toList, [])] "a".toList [] .empty none
      [.node [("p".toList, "urn:p2".toList)] "b".toList [("{urn:p2}x".toList, "1".toList)] .top none [] none]
      (some "t".toList)] none).allPassed = false := by decide

/-- the in-scope lookup is "innermost declaration wins" -/
theorem inScope_innermost (d : List (Str × Str)) (frames : List (List (Str × Str))) (p : Option Str) (u : Str)
    (h : declLast d p = some u) : inScope (d :: frames) p = some u := by
  rw [inScope_cons, h]

example : declLast [("p".toList, "urn:1".toList), ("p".toList, "urn:2".toList)] (some "p".toList)
    = some "urn:2".toList := by decide

/-- … and an element without a declaration for `p` inherits -/
theorem inScope_inherits (d : List (Str × Str)) (frames : List (List (Str × Str))) (p : Option Str)
    (h : declLast d p = none) : inScope (d :: frames) p = inScope frames p := by
  rw [inScope_cons, h]

example : declLast [("q".toList, "urn:1".toList)] (some "p".toList) = none := by decide

/-! ## handlers: the kinds of source -/

/-- **source_kind_irrelevant**: `from_string`, `from_bytes`, `from_path` and `parse(file object)` reach
`process_context` with the same event sequence whenever they stand for the same bytes — the
tokeniser's output for those bytes (`str` through `encode`, a path through the file system). -/
theorem source_kind_irrelevant (W : World) (wk : List (Str × Str)) (s₁ s₂ : Src) (b : Bytes)
    (h₁ : s₁.content W = some b) (h₂ : s₂.content W = some b) :
    reaches W wk s₁ = some (W.tokenise b) ∧ reaches W wk s₂ = reaches W wk s₁ ∧
      nativeParse W wk s₂ = nativeParse W wk s₁ := by
  have e₁ := reaches_of_content W wk s₁ b h₁
  have e₂ := reaches_of_content W wk s₂ b h₂
  exact ⟨e₁, by rw [e₁, e₂], by unfold nativeParse; rw [e₁, e₂]⟩

/-- a world for the examples: ASCII `encode`, one file, a tokeniser that knows the document `<r/>` -/
def exWorld : World where
  encode := fun s => s.map (fun c => c.toNat.toUInt8)
  fs := fun p => if p = "/tmp/r.xml".toList then some [60, 114, 47, 62] else none
  tokenise := fun b => if b = [60, 114, 47, 62] then [.start "r".toList [] .passed, .end "r".toList none none] else []

/-- not vacuous: the four byte-level kinds for `<r/>` have the same content … -/
example : (Src.str "<r/>".toList).content exWorld = some [60, 114, 47, 62]
    ∧ (Src.bytes [60, 114, 47, 62]).content exWorld = some [60, 114, 47, 62]
    ∧ (Src.path "/tmp/r.xml".toList).content exWorld = some [60, 114, 47, 62]
    ∧ (Src.file [60, 114, 47, 62]).content exWorld = some [60, 114, 47, 62] := by decide

/-- … and the events do depend on the bytes (another document, a file that cannot be opened) -/
example : (reaches exWorld [] (.str "<r/>".toList)).map List.length = some 2
    ∧ (reaches exWorld [] (.str "<q/>".toList)).map List.length = some 0
    ∧ (reaches exWorld [] (.path "/nowhere".toList)).map List.length = none := by decide

/-- **source_tree_same_core**: an ElementTree tree, its root element (`source.getroot()`) and a
byte-level source of the same document make the same parser calls *prefixes aside* (element names,
attributes, text, tails, in the same order): if the tokeniser reports the events of document `d` for
the bytes `b`, parsing the tree of `d` differs from parsing `b` in the `register_namespace` calls and
the prefix maps only. -/
theorem source_tree_same_core (W : World) (wk : List (Str × Str)) (d : XTree) (src : Src) (b : Bytes)
    (hc : src.content W = some b) (htok : W.tokenise b = toks d) :
    (nativeParse W wk (.etTree d)).map (·.filterMap PEv.core) = some (coreOf d) ∧
    (nativeParse W wk (.etElement d)).map (·.filterMap PEv.core) = some (coreOf d) ∧
    (nativeParse W wk src).map (·.filterMap PEv.core) = some (coreOf d) := by
  refine ⟨?_, ?_, ?_⟩
  · simp only [nativeParse, reaches, toHSource, nativeContext, Option.map_some]
    rw [(iterwalk_eq_toks wk d []).1, pump_core_doc, coreOf_redecl]
  · simp only [nativeParse, reaches, toHSource, nativeContext, Option.map_some]
    rw [(iterwalk_eq_toks wk d []).1, pump_core_doc, coreOf_redecl]
  · simp only [nativeParse, reaches_of_content W wk src b hc, Option.map_some, htok, pump_core_doc]

/-- `<p:r xmlns:p="urn:a"><x>t</x>u</p:r>` -/
def exDoc : XTree :=
  .node [("p".toList, "urn:a".toList)] "{urn:a}r".toList [] .passed none
    [.node [] "x".toList [] .passed (some "t".toList) [] (some "u".toList)] none

/-- not vacuous: same core … -/
example : coreOf exDoc = [CoreEv.start "{urn:a}r".toList [], CoreEv.start "x".toList [],
      CoreEv.end "x".toList (some "t".toList) (some "u".toList), CoreEv.end "{urn:a}r".toList none none] := by
  decide

/-- … different calls: the document says `p` (the tree source invents `ns0`, see the example below
`iterwalk_invented_declarations`) -/
example : (pump [] [] (toks exDoc)).head? = some (.registerNs (some "p".toList) "urn:a".toList) := rfl

/-- **iterwalk_invented_declarations** (ElementTree sources): the event stream `iterwalk` makes up
is the stream of the same tree carrying one invented declaration per namespaced element, so the
handler passes the in-scope bindings of *those* declarations — every element's own namespace is
bound, the prefixes of the original document are not (QName-valued content and `xsi:type` cannot be
resolved from an ElementTree source; listed finding c09-native-xinclude-prefixes for the
`process_xinclude` path). -/
theorem iterwalk_invented_declarations (wk : List (Str × Str)) (t : XTree) :
    (nativeParseTree wk t).map PEv.view = spec [] (redecl wk t []).1 := by
  unfold nativeParseTree
  rw [(iterwalk_eq_toks wk t []).1]
  exact native_nsmap_inscope _

example : nativeParseTree [] (.node [("p".toList, "urn:a".toList)] "{urn:a}r".toList [] .passed none [] none)
    = [.registerNs (some "ns0".toList) "urn:a".toList,
       .start "{urn:a}r".toList [] [(some "ns0".toList, "urn:a".toList)],
       .end "{urn:a}r".toList none none] := rfl

/-! ## handlers: the character data the lxml handler reads -/

/-- **lxml_text_whole**: what the lxml handler passes to `parser.end` for an element whose content
is `content` and which is followed by `after` among its siblings: `get_text` returns the infoset's text
— all the character data in front of the first child element — and `get_tail` the infoset's tail — all
of it up to the next sibling element — however many comments and processing instructions (adjacent
ones included, with or without character data behind them) libxml2 has split them by.  That is what
the native handler (expat / ElementTree: no such nodes) passes. -/
theorem lxml_text_whole (content after : List Content) :
    (getText (view content).1 (view content).2, getTail (view after).1 (view after).2)
      = (leadData content, leadData after) := by
  rw [show getText (view content).1 (view content).2 = leadData content from joinTails_view content,
    show getTail (view after).1 (view after).2 = leadData after from joinTails_view after]

/-- `AB<?a?><?b?>CD`: two adjacent processing instructions, the first without a tail -/
example : view [.chars "AB".toList, .misc, .misc, .chars "CD".toList]
      = (some "AB".toList, [⟨false, none⟩, ⟨false, some "CD".toList⟩])
    ∧ getText (some "AB".toList) [⟨false, none⟩, ⟨false, some "CD".toList⟩] = some "ABCD".toList := by decide

/-- `<!--a--><?b?>x<e/>y`: no text node in front, nothing behind the element counts -/
example : getText (view [.misc, .misc, .chars "x".toList, .elem, .chars "y".toList]).1
    (view [.misc, .misc, .chars "x".toList, .elem, .chars "y".toList]).2 = some "x".toList := by decide

/-- **lxml_reads_infoset**: for every document, with its comments and processing instructions kept as
nodes (lxml tree / element sources) or the comments dropped by the tokeniser (`remove_comments=True`,
byte sources), the `(text, tail)` pairs the lxml handler passes to `parser.end` are those of the
infoset. -/
theorem lxml_reads_infoset (doc : List CNode) :
    readsList doc = specList doc ∧ readsList (dropComments doc) = specList (dropComments doc) :=
  ⟨readsList_spec doc, readsList_spec (dropComments doc)⟩

/-! ## handlers: the events a union node records -/

/-- **union_records_document_attrs**: under the lxml handler — whose `attrs` argument is a live view
of the libxml2 node, emptied by `element.clear()` when the element has ended — the start events
`UnionNode.child` records for the nested elements of a union-typed element carry the attributes
written in the document, for every nesting and whatever has been cleared in the meantime: the event
holds a copy taken when it arrives.  (That is what the native handler's detached dicts give too.) -/
theorem union_records_document_attrs (s0 : AStore) (toks : List UTok) (h : noReuse toks = true) :
    unionRecord s0 toks = unionSpec s0 toks :=
  unionRecord_spec s0 toks s0 h (fun _ _ => rfl)

/-- `<shape><start x="1"><label/></start><stop x="3"/></shape>`: nodes 1, 2, 3 -/
def unionWitness : List UTok :=
  [.start 1 "start".toList, .start 2 "label".toList, .end 2 "label".toList, .end 1 "start".toList,
   .start 3 "stop".toList, .end 3 "stop".toList]

def unionStore : AStore := [(1, [("x".toList, "1".toList)]), (2, []), (3, [("x".toList, "3".toList)])]

example : noReuse unionWitness = true := by decide

/-- a recorder that keeps the view instead of a copy loses every attribute: when the events are
replayed all nested elements have been cleared -/
example : unionRecordLive unionStore unionWitness ≠ unionSpec unionStore unionWitness
    ∧ unionRecordLive unionStore unionWitness
      = [.start "start".toList [], .start "label".toList [], .end "label".toList, .end "start".toList,
         .start "stop".toList [], .end "stop".toList] := by decide

/-! ## writers: the user's prefix map -/

/-- **user_map_default_not_also_prefixed**: whatever prefix map the caller gives to
`XmlSerializer.render` / `TreeSerializer.render` — the default namespace under the `None` or the `""`
key, before or after a prefix for the same URI — after `clean_prefixes` no URI is bound both as the
default namespace and to a prefix.  (`XMLGenerator` maps a URI to the prefix declared last, so a
surviving duplicate default makes the native writer write the attributes of that namespace
unprefixed — in no namespace — while the lxml writer keeps them qualified.)  The lemma is C03's
`cleanPrefixes_nodflt`; it is a property of the back-ends' agreement too. -/
theorem user_map_default_not_also_prefixed (raw : List (Xs.Ns.Pfx × Str))
    (hdecl : (Xs.Ns.cleanPrefixes raw).all Spec.XmlNs.declOK = true) (s u : Str)
    (h : Py.dget (Xs.Ns.cleanPrefixes raw) (some s) = some u) :
    Py.dget (Xs.Ns.cleanPrefixes raw) none ≠ some u :=
  Proofs.UserMap.cleanPrefixes_nodflt raw hdecl s u h

/-- `{"d": NS, "": NS}`: the default given under the empty-string key after the prefix is dropped -/
example : Xs.Ns.cleanPrefixes [(some "d".toList, "urn:demo".toList), (some [], "urn:demo".toList)]
      = [(some "d".toList, "urn:demo".toList)]
    ∧ Xs.Ns.cleanPrefixes [(some "d".toList, "urn:demo".toList), (none, "urn:demo".toList)]
      = [(some "d".toList, "urn:demo".toList)]
    ∧ Xs.Ns.cleanPrefixes [(some [], "urn:demo".toList), (some "d".toList, "urn:demo".toList)]
      = [(some "d".toList, "urn:demo".toList)] := by decide

example : ([(some "d".toList, "urn:demo".toList)] : List (Xs.Ns.Pfx × Str)).all Spec.XmlNs.declOK = true := by decide

/-! ## writers: indentation -/

/-- **indent_adds_only_ws**: for every event list, every prefix map and every `indent`, the handler
calls of the native writer are the calls of the inherited `EventHandler` with
`ignorableWhitespace` calls in between — and it fails exactly when the inherited handler fails. -/
theorem indent_adds_only_ws (m : NsMap) (isDt : Str → Bool) (indent : Option Str) (evs : List Ev) :
    (match eventsSaxIndent m isDt indent evs with
      | .ok calls => Except.ok (eraseWs calls)
      | .error x => Except.error x) = eventsSax m isDt evs := by
  have h := run_erase m isDt indent evs {} rfl
  unfold eventsSaxIndent
  cases hp : eventsSax m isDt evs with
  | error x =>
    rw [show (({} : IState).w) = ({} : WState) from rfl, eventsSax_err m isDt evs x hp] at h
    rw [h]
  | ok plain =>
    obtain ⟨wf, hwf, hout⟩ := eventsSax_ok m isDt evs plain hp
    rw [show (({} : IState).w) = ({} : WState) from rfl, hwf] at h
    obtain ⟨sf, hsf, hw, he⟩ := h
    rw [hsf]
    simp only []
    rw [he, hout]

/-- **writers_agree_flat**: without indentation (`indent` is `None` or `""`) the native writer,
the lxml writer and the tree serializer denote the same infoset for every event list (they make
the same handler calls; that lxml's `ElementTreeContentHandler` and a reader of `XMLGenerator`'s
text both build `saxTree` of those calls is the correspondence part). -/
theorem writers_agree_flat (e : Env) (isDt : Str → Bool) (indent : Option Str) (evs : List Ev)
    (hi : indentOn indent = none) :
    nativeTree isDt indent evs = lxmlTree e isDt indent evs := by
  unfold nativeTree lxmlTree eventsTree
  simp only [hi]
  have hA := indent_adds_only_ws (prefixMap (collectUris evs)) isDt indent evs
  cases hI : eventsSaxIndent (prefixMap (collectUris evs)) isDt indent evs with
  | error x =>
    rw [hI] at hA
    simp only [] at hA
    rw [← hA]
    simp [bind, Except.bind]
  | ok calls =>
    rw [hI] at hA
    simp only [] at hA
    have hflat : calls = (eraseWs calls).map ISax.sax := by
      unfold eventsSaxIndent at hI
      cases hf : evs.foldlM (IState.step (prefixMap (collectUris evs)) isDt indent) {} with
      | error x => rw [hf] at hI; cases hI
      | ok sf =>
        rw [hf] at hI
        cases hI
        have := run_flat _ isDt indent hi evs {} sf rfl hf
        rw [this, eraseWs_map_sax]
    rw [← hA]
    simp only [bind, Except.bind]
    rw [hflat, renderDoc_map_sax, eraseWs_map_sax]
    cases saxTree (prefixMap (collectUris evs)) (eraseWs calls) [] none <;> rfl

example : indentOn (some []) = none ∧ indentOn none = none := ⟨rfl, rfl⟩

/-- `<m>t<a/></m>` : character data followed by a child element (the former counterexample) -/
def mixedWitness : List Ev :=
  [.start "m".toList, .data (.prim (.str "t".toList)), .start "a".toList, .end "a".toList, .end "m".toList]

/-- **indent_ws_only** (full strength since the native writer writes no indentation right after
character data; it used to append it: `t` became `t\n  `, former finding C08-indent-mixed).
"Indentation aside": for every event list whose call stream keeps its character data inside
elements (`charsInside`, true of every document) and every non-empty whitespace `indent`, the
indented call stream equals the un-indented one up to layout — whitespace-only character runs that
are not the whole content of a leaf element.  Mixed content included. -/
theorem indent_ws_only (e : Env) (m : NsMap) (isDt : Str → Bool) (ind : Str) (evs : List Ev)
    (plain : List Sax) (hne : ind ≠ []) (hW : ind.all e.isSpace = true)
    (hp : eventsSax m isDt evs = .ok plain) (hd : charsInside plain = true) :
    ∃ calls, eventsSaxIndent m isDt (some ind) evs = .ok calls ∧
      layoutNorm e calls = layoutNorm e (plain.map ISax.sax) := by
  obtain ⟨wf, hwf, hout⟩ := eventsSax_ok m isDt evs plain hp
  have hi : indentOn (some ind) = some ind := by
    unfold indentOn
    cases ind with
    | nil => exact absurd rfl hne
    | cons c cs => rfl
  have hbad : (normState e (wf.out.map ISax.sax)).bad = false := by
    have := bad_feedAll e plain {}
    rw [hout]
    unfold charsInside at hd
    simpa [normState, feedAll, hd] using this
  obtain ⟨sf, hsf, hw, hinv⟩ := run_inv e m isDt (some ind) ind hi hW evs {} (Inv.init e) wf hwf hbad
  refine ⟨sf.out, by unfold eventsSaxIndent; rw [hsf], ?_⟩
  unfold layoutNorm
  rw [← hout, ← hw]
  exact hinv.sim.finish

/-- **document_chars_inside**: the hypothesis of `indent_ws_only` holds for every call stream that
denotes a document (an ElementTree builder makes a tree of it). -/
theorem document_chars_inside (m : NsMap) (plain : List Sax) (t : Tree)
    (h : saxTree m plain [] none = some t) : charsInside plain = true := by
  have := saxTree_charsInside m plain [] none t h
  simpa [charsInside] using this

/-- **indent_ws_only_document**: so, for every event list that the un-indented writer turns into a
document, the indented output is that document up to layout. -/
theorem indent_ws_only_document (e : Env) (m : NsMap) (isDt : Str → Bool) (ind : Str) (evs : List Ev)
    (plain : List Sax) (t : Tree) (hne : ind ≠ []) (hW : ind.all e.isSpace = true)
    (hp : eventsSax m isDt evs = .ok plain) (ht : saxTree m plain [] none = some t) :
    ∃ calls, eventsSaxIndent m isDt (some ind) evs = .ok calls ∧
      layoutNorm e calls = layoutNorm e (plain.map ISax.sax) :=
  indent_ws_only e m isDt ind evs plain hne hW hp (document_chars_inside m plain t ht)

example : saxTree [] [.open "m".toList [], .chars "t".toList, .open "a".toList [], .close "a".toList,
    .close "m".toList] [] none
    = some (.node "m".toList [] [] (some "t".toList) [.node "a".toList [] [] none [] none] none) := rfl

-- … and this call stream is what the un-indented writer issues for `mixedWitness` (hypothesis `hp`)
example : eventsSax [] (fun _ => false) mixedWitness
    = .ok [.open "m".toList [], .chars "t".toList, .open "a".toList [], .close "a".toList, .close "m".toList] := rfl

example : "  ".toList ≠ [] ∧ "  ".toList.all Env.ascii.isSpace = true ∧ "\t".toList.all Env.ascii.isSpace = true := by
  decide

/-- non-vacuity: mixed content `<m>t<a/>u</m>` keeps its character data inside elements … -/
example : charsInside
    [.open "m".toList [], .chars "t".toList, .open "a".toList [], .close "a".toList, .chars "u".toList,
     .close "m".toList] = true := by decide

/-- … and a stream with character data after the root element does not -/
example : charsInside [.open "m".toList [], .close "m".toList, .chars "x".toList] = false := by decide

/-- the former counterexample: no layout after `t`, the document is `<m>t<a/>\n</m>\n` — what lxml's
`indent` makes of it -/
example : eventsSaxIndent [] (fun _ => false) (some "  ".toList) mixedWitness
    = .ok [.sax (.open "m".toList []), .sax (.chars "t".toList), .sax (.open "a".toList []),
           .sax (.close "a".toList), .ws "\n".toList, .ws [], .sax (.close "m".toList), .ws "\n".toList] := rfl

example : eventsSaxIndent [] (fun _ => false) (some "  ".toList)
    [.start "r".toList, .start "a".toList, .data (.prim (.str "x".toList)), .end "a".toList, .end "r".toList]
    = .ok [.sax (.open "r".toList []), .ws "\n".toList, .ws "  ".toList, .sax (.open "a".toList []),
           .sax (.chars "x".toList), .sax (.close "a".toList), .ws "\n".toList, .ws [],
           .sax (.close "r".toList), .ws "\n".toList] := rfl

/-! ## writers: nested elements, and the serializer entry points -/

/-- **writers_agree_nested**: for every tree of nested generic elements (any depth, attributes,
text, tails) that the writer accepts, the events of the tree make the native writer (read back) and
the lxml writer / tree serializer produce the *same* tree — the normal form of the tree itself.
Induction over the event tree (`write_tree`, `sax_tree`). -/
theorem writers_agree_nested (e : Env) (isDt : Str → Bool) (nil : Bool) (t : Tree) (indent : Option Str)
    (hok : treeOK isDt t = true) (htl : rootTailBlank e t = true) (hi : indentOn indent = none) :
    nativeTree isDt indent (treeEv e nil t) = .ok (normTree e [] t) ∧
    lxmlTree e isDt indent (treeEv e nil t) = .ok (normTree e [] t) := by
  have hu : collectUris (treeEv e nil t) = [] := by
    rw [collectUris_eq, treeEv_uris]; rfl
  have hl : lxmlTree e isDt indent (treeEv e nil t) = .ok (normTree e [] t) := by
    cases t with
    | node q a n tx c tl =>
      have htl' : normalizeContent e tl = none := by simpa [rootTailBlank] using htl
      have h3 := eventsTree_of isDt _ _ _ hu
        (eventsSax_single e [] isDt nil _ hok) (treeSax_tree e [] q a n tx c tl htl')
      simp [lxmlTree, h3, hi]
  exact ⟨by rw [writers_agree_flat e isDt indent _ hi]; exact hl, hl⟩

/-- `<r k="v">a<x><y/>tl</x><z>t</z></r>` -/
def exNested : Tree :=
  .node "r".toList [("k".toList, "v".toList)] [] (some "a".toList)
    [.node "x".toList [] [] none [.node "y".toList [] [] none [] (some "tl".toList)] none,
     .node "z".toList [] [] (some "t".toList) [] none] none

example : treeOK (fun _ => false) exNested = true ∧ rootTailBlank Env.ascii exNested = true := by decide

/-- (lemma) the two entry points hand their writer the same input: `generate(obj)`, the cleaned map,
the configuration — the two methods have the same text -/
private theorem serializer_inputs_eq (e : BEnv) (Γ : Ctx) (scfg : SerCfg) (cfg : WCfg)
    (userMap : List (Xs.Ns.Pfx × Str)) (v : Val) :
    treeSerializerInput e Γ scfg cfg userMap v = xmlSerializerInput e Γ scfg cfg userMap v := rfl

/-- **tree_serializer_builds_written_tree**: `TreeSerializer.render` builds the tree the lxml event
writer prints (with or without indentation), for every object: same events, same cleaned prefix map,
same `etree.indent`. -/
theorem tree_serializer_builds_written_tree (e : BEnv) (Γ : Ctx) (isDt : Str → Bool) (scfg : SerCfg)
    (cfg : WCfg) (userMap : List (Xs.Ns.Pfx × Str)) (v : Val) :
    treeSerializerRender e Γ isDt scfg cfg userMap v
      = (xmlSerializerRenderLxml e Γ isDt scfg cfg userMap v).map (·.2) := by
  unfold treeSerializerRender xmlSerializerRenderLxml
  rw [serializer_inputs_eq]
  cases xmlSerializerInput e Γ scfg cfg userMap v with
  | error x => rfl
  | ok inp =>
    simp only [Except.bind, lxmlTreeBuilderBuild, lxmlEventWriterWrite]
    cases eventsTree isDt inp.events with
    | error x => rfl
    | ok t => cases indentOn inp.cfg.indent <;> rfl

/-- **serializers_agree_flat**: without indentation the text of the native writer denotes the tree
the tree serializer returns, for every object. -/
theorem serializers_agree_flat (e : BEnv) (Γ : Ctx) (isDt : Str → Bool) (scfg : SerCfg) (cfg : WCfg)
    (userMap : List (Xs.Ns.Pfx × Str)) (v : Val) (hi : indentOn cfg.indent = none) :
    xmlSerializerRenderNative e Γ isDt scfg cfg userMap v = treeSerializerRender e Γ isDt scfg cfg userMap v := by
  unfold xmlSerializerRenderNative treeSerializerRender
  rw [serializer_inputs_eq]
  unfold xmlSerializerInput
  cases generate e Γ scfg v with
  | error x => rfl
  | ok evs =>
    simp only [Except.bind, lxmlTreeBuilderBuild]
    rw [writers_agree_flat e.py isDt cfg.indent evs hi]
    simp only [lxmlTree]
    cases eventsTree isDt evs with
    | error x => rfl
    | ok t => simp [hi]

example : indentOn ({} : WCfg).indent = none := rfl

/-- **lxml_indent_ws_only**: `etree.indent` (as modelled) changes nothing but layout: for every
tree, whitespace indent string and level, the result equals the input once whitespace-only text
of elements with children and whitespace-only tails are dropped. Holds for mixed content too —
lxml leaves non-whitespace text and tails alone, which is where it parts from the native writer. -/
theorem lxml_indent_ws_only (e : Env) (space : Str) (h : space.all e.isSpace = true) (t : Tree) :
    stripLayout e (lxmlIndent e space t) = stripLayout e t :=
  stripLayout_indentNode e space h 1 t

example : lxmlIndent Env.ascii "  ".toList
    (.node "m".toList [] [] (some "t".toList) [.node "a".toList [] [] none [] none, .node "b".toList [] [] none [] none] none)
    = .node "m".toList [] [] (some "t".toList)
        [.node "a".toList [] [] none [] (some "\n  ".toList), .node "b".toList [] [] none [] (some "\n".toList)] none := rfl

/-! ## writers: indentation, both back-ends -/

/-- **indent_writers_agree**: for every event list and every `indent` (off, or a whitespace string),
whenever the lxml writer / tree serializer produces a tree, the text of the native writer denotes a
tree too, and the two are the same up to layout: equal once whitespace-only text of elements with
children and whitespace-only tails are dropped (`stripLayout`; character data with anything else in it,
and the whitespace content of leaf elements, is compared exactly).  Bridges the stream-level
`indent_ws_only` and the tree-level `lxml_indent_ws_only`: building the tree commutes with the layout
normal form of the call stream (`Proofs/C08Bridge.lean`). -/
theorem indent_writers_agree (e : Env) (isDt : Str → Bool) (indent : Option Str) (evs : List Ev) (tl : Tree)
    (hind : ∀ i, indentOn indent = some i → i.all e.isSpace = true)
    (h : lxmlTree e isDt indent evs = .ok tl) :
    ∃ tn, nativeTree isDt indent evs = .ok tn ∧ stripLayout e tn = stripLayout e tl := by
  cases hi : indentOn indent with
  | none => exact ⟨tl, by rw [writers_agree_flat e isDt indent evs hi]; exact h, rfl⟩
  | some i =>
    have hWi := hind i hi
    -- `indent` is `some i`, `i` not empty
    have hindent : indent = some i ∧ i ≠ [] := by
      unfold indentOn at hi
      cases indent with
      | none => cases hi
      | some j =>
        by_cases hj : j.isEmpty = true
        · simp [hj] at hi
        · simp only [hj, Bool.false_eq_true, if_false, Option.some.injEq] at hi
          subst hi
          exact ⟨rfl, by intro h0; simp [h0] at hj⟩
    obtain ⟨hin, hne⟩ := hindent
    subst hin
    -- the lxml side: the plain stream builds `t0`, `tl` is `t0` indented
    generalize hm : prefixMap (collectUris evs) = m
    have hl : ∃ plain t0, eventsSax m isDt evs = .ok plain ∧ saxTree m plain [] none = some t0
        ∧ tl = lxmlIndent e i t0 := by
      unfold lxmlTree eventsTree at h
      simp only [hm, hi] at h
      cases hp : eventsSax m isDt evs with
      | error x => simp [hp, bind, Except.bind] at h
      | ok plain =>
        cases ht : saxTree m plain [] none with
        | none => simp [hp, ht, bind, Except.bind, throw, throwThe, MonadExceptOf.throw] at h
        | some t0 =>
          refine ⟨plain, t0, rfl, ht, ?_⟩
          simp [hp, ht, bind, Except.bind, pure, Except.pure] at h
          exact h.symm
    obtain ⟨plain, t0, hp, ht0, htl⟩ := hl
    obtain ⟨calls, hcalls, hnorm⟩ :=
      indent_ws_only e m isDt i evs plain hne hWi hp (document_chars_inside m plain t0 ht0)
    -- side conditions of the bridge
    obtain ⟨wf, hwf, hout⟩ := eventsSax_ok m isDt evs plain hp
    have hNE : charsNE plain = true := by rw [← hout]; exact run_charsNE m isDt evs {} wf hwf rfl
    have hsok : saxOK 0 plain = true := saxTree_saxOK m plain [] none t0 ht0 hNE
    have herase : eraseWs calls = plain := by
      have := indent_adds_only_ws m isDt (some i) evs
      rw [hcalls, hp] at this
      exact Except.ok.inj this
    have hws : wsAllW e calls = true := by
      unfold eventsSaxIndent at hcalls
      cases hf : evs.foldlM (IState.step m isDt (some i)) {} with
      | error x => rw [hf] at hcalls; cases hcalls
      | ok sf =>
        rw [hf] at hcalls
        cases hcalls
        exact run_wsAllW e m isDt (some i) (fun j hj => by rw [hi] at hj; cases hj; exact hWi) evs {} sf hf rfl
    have hokI : bridgeOK e 0 calls = true := by rw [bridgeOK_split, hws, herase, hsok]; rfl
    have hokP : bridgeOK e 0 (plain.map ISax.sax) = true := by
      rw [bridgeOK_split, wsAllW_map_sax, eraseWs_map_sax, hsok]; rfl
    have bI := bridge e m calls 0 [] none [] {} hokI rfl (by show W e [] = true; simp [W])
    have bP := bridge e m (plain.map ISax.sax) 0 [] none [] {} hokP rfl (by show W e [] = true; simp [W])
    rw [← layoutNorm_trun] at bI bP
    rw [renderDoc_map_sax, ht0] at bP
    rw [hnorm, ← bP] at bI
    -- the native side
    cases hn : saxTree m (renderDoc 0 calls) [] none with
    | none => rw [hn] at bI; simp at bI
    | some tn =>
      rw [hn] at bI
      refine ⟨tn, ?_, ?_⟩
      · unfold nativeTree
        simp only [hm, hcalls, hn]
      · have : stripLayout e tn = stripLayout e t0 := by simpa using bI
        rw [this, htl, lxml_indent_ws_only e i hWi t0]

/-- not vacuous: the hypothesis on `indent` (two spaces; a tab; off), and mixed content
`<m>t<a/></m>` where the two trees really differ in layout: lxml gives `<a/>` the tail `"\n"` (the
native calls for it are the `example` below `indent_ws_only`) -/
example : (∀ i, indentOn (some "  ".toList) = some i → i.all Env.ascii.isSpace = true)
    ∧ (∀ i, indentOn (some "\t".toList) = some i → i.all Env.ascii.isSpace = true)
    ∧ (∀ i, indentOn none = some i → i.all Env.ascii.isSpace = true) := by
  refine ⟨?_, ?_, ?_⟩ <;> intro i h <;> simp [indentOn] at h <;> subst h <;> decide

example : lxmlIndent Env.ascii "  ".toList
    (.node "m".toList [] [] (some "t".toList) [.node "a".toList [] [] none [] none] none)
    = .node "m".toList [] [] (some "t".toList) [.node "a".toList [] [] none [] (some "\n".toList)] none := rfl

end Props.C08
