/-
What `flush_start` declares and why the generator's uri→prefix context and the
parser's prefix→uri scope stay in step with `ns_map` (K2 / ScopeEq).
-/
import XsdataModel.Proofs.MapInv
import XsdataModel.Proofs.TreeWriter

namespace Proofs.Flush
open Py Xs.Ns Xs.Sax Xs.Writer Spec.XmlNs Proofs.MapInv Spec.Hyps

/-- `_current_context` after a run of `startPrefixMapping` calls -/
def applyCur (cur : List (Str × Pfx)) : List (Pfx × Str) → List (Str × Pfx)
  | [] => cur
  | (p, u) :: r => applyCur (dset cur u p) r

/-- the prefix declared last for `u` -/
def lastFor (u : Str) : List (Pfx × Str) → Option Pfx
  | [] => none
  | (p, u') :: r =>
    match lastFor u r with
    | some x => some x
    | none => if u' = u then some p else none

theorem dget_applyCur (ds : List (Pfx × Str)) : ∀ (cur : List (Str × Pfx)) (u : Str),
    dget (applyCur cur ds) u = match lastFor u ds with
      | some p => some p
      | none => dget cur u := by
  induction ds with
  | nil => intro cur u; rfl
  | cons e r ih =>
    obtain ⟨p, u'⟩ := e
    intro cur u
    simp only [applyCur, lastFor]
    rw [ih]
    cases lastFor u r with
    | some x => rfl
    | none =>
      simp only [dget_dset]
      by_cases h : u' = u <;> simp [h]

theorem lastFor_some (u : Str) (ds : List (Pfx × Str)) (p : Pfx) (h : lastFor u ds = some p) : (p, u) ∈ ds := by
  induction ds with
  | nil => simp [lastFor] at h
  | cons e r ih =>
    obtain ⟨p0, u0⟩ := e
    simp only [lastFor] at h
    cases hl : lastFor u r with
    | some x =>
      rw [hl] at h; cases h
      exact List.mem_cons_of_mem _ (ih hl)
    | none =>
      rw [hl] at h
      by_cases hu : u0 = u
      · simp [hu] at h; subst h; subst hu; simp
      · simp [hu] at h

theorem lastFor_none (u : Str) (ds : List (Pfx × Str)) (h : lastFor u ds = none) : ∀ e ∈ ds, e.2 ≠ u := by
  induction ds with
  | nil => simp
  | cons e r ih =>
    obtain ⟨p0, u0⟩ := e
    simp only [lastFor] at h
    cases hl : lastFor u r with
    | some x => rw [hl] at h; cases h
    | none =>
      rw [hl] at h
      by_cases hu : u0 = u
      · simp [hu] at h
      · intro e he
        rcases List.mem_cons.mp he with rfl | hm
        · exact hu
        · exact ih hl e hm

/-- the uri declared last for prefix `k` -/
def lastUri (k : Pfx) : List (Pfx × Str) → Option Str
  | [] => none
  | (p, u) :: r =>
    match lastUri k r with
    | some x => some x
    | none => if p = k then some u else none

theorem dget_applyDecls (ds : List (Pfx × Str)) : ∀ (S : List (Pfx × Str)) (k : Pfx),
    dget (applyDecls S ds) k = match lastUri k ds with
      | some u => some u
      | none => dget S k := by
  induction ds with
  | nil => intro S k; rfl
  | cons e r ih =>
    obtain ⟨p, u⟩ := e
    intro S k
    simp only [applyDecls, lastUri]
    rw [ih]
    cases lastUri k r with
    | some x => rfl
    | none =>
      simp only [dget_dset]
      by_cases h : p = k <;> simp [h]

theorem lastUri_some (k : Pfx) (ds : List (Pfx × Str)) (u : Str) (h : lastUri k ds = some u) : (k, u) ∈ ds := by
  induction ds with
  | nil => simp [lastUri] at h
  | cons e r ih =>
    obtain ⟨p0, u0⟩ := e
    simp only [lastUri] at h
    cases hl : lastUri k r with
    | some x =>
      rw [hl] at h; cases h
      exact List.mem_cons_of_mem _ (ih hl)
    | none =>
      rw [hl] at h
      by_cases hu : p0 = k
      · simp [hu] at h; subst h; subst hu; simp
      · simp [hu] at h

theorem lastUri_none (k : Pfx) (ds : List (Pfx × Str)) (h : lastUri k ds = none) : ∀ e ∈ ds, e.1 ≠ k := by
  induction ds with
  | nil => simp
  | cons e r ih =>
    obtain ⟨p0, u0⟩ := e
    simp only [lastUri] at h
    cases hl : lastUri k r with
    | some x => rw [hl] at h; cases h
    | none =>
      rw [hl] at h
      by_cases hu : p0 = k
      · simp [hu] at h
      · intro e he
        rcases List.mem_cons.mp he with rfl | hm
        · exact hu
        · exact ih hl e hm

/-! ### `newPrefixes` -/

theorem mem_newPrefixes (B : NsMap) (M : NsMap) (e : Pfx × Str) :
    e ∈ newPrefixes B M ↔ e ∈ M ∧ dget B e.1 ≠ some e.2 := by
  induction M with
  | nil => simp [newPrefixes]
  | cons e0 r ih =>
    obtain ⟨p, u⟩ := e0
    simp only [newPrefixes]
    by_cases h : dget B p = some u
    · simp only [h, bne_self_eq_false, Bool.false_eq_true, if_false, ih, List.mem_cons]
      constructor
      · rintro ⟨hm, hne⟩; exact ⟨Or.inr hm, hne⟩
      · rintro ⟨hm | hm, hne⟩
        · subst hm; exact absurd h hne
        · exact ⟨hm, hne⟩
    · have hb : (dget B p != some u) = true := by simpa using h
      simp only [hb, if_true, List.mem_cons, ih]
      constructor
      · rintro (rfl | ⟨hm, hne⟩)
        · exact ⟨Or.inl rfl, h⟩
        · exact ⟨Or.inr hm, hne⟩
      · rintro ⟨hm | hm, hne⟩
        · exact Or.inl hm
        · exact Or.inr ⟨hm, hne⟩

theorem NoDupKeys_newPrefixes (B : NsMap) (M : NsMap) (h : NoDupKeys M) : NoDupKeys (newPrefixes B M) := by
  induction M with
  | nil => simp [newPrefixes, NoDupKeys]
  | cons e0 r ih =>
    obtain ⟨p, u⟩ := e0
    simp only [NoDupKeys] at h
    simp only [newPrefixes]
    split
    · simp only [NoDupKeys]
      exact ⟨fun e he => h.1 e ((mem_newPrefixes B r e).mp he).1, ih h.2⟩
    · exact ih h.2

theorem nodupKeys_of_NoDupKeys {α β : Type} [DecidableEq α] (m : List (α × β)) (h : NoDupKeys m) :
    nodupKeys m = true := by
  induction m with
  | nil => rfl
  | cons e r ih =>
    obtain ⟨k, v⟩ := e
    simp only [NoDupKeys] at h
    simp only [nodupKeys, Bool.and_eq_true, Bool.not_eq_true', List.any_eq_false, decide_eq_true_eq]
    exact ⟨fun x hx => h.1 x hx, ih h.2⟩

end Proofs.Flush

namespace Proofs.Flush
open Py Xs.Ns Xs.Sax Xs.Writer Spec.XmlNs Proofs.MapInv Spec.Hyps

/-! ### `reset_default_namespace` -/

def unqualified (tag : EName) : Bool := match tag.1 with | none => true | some u => u.isEmpty

theorem reset_eq (tag : EName) (M : NsMap) :
    resetDefaultNamespace tag M = if unqualified tag && dhas M none then dset M none [] else M := by
  unfold resetDefaultNamespace unqualified
  rfl

theorem reset_dget_some (tag : EName) (M : NsMap) (s : Str) :
    dget (resetDefaultNamespace tag M) (some s) = dget M (some s) := by
  rw [reset_eq]
  split
  · exact dget_dset_other M none (some s) [] (by simp)
  · rfl

theorem reset_dget_none (tag : EName) (M : NsMap) :
    dget (resetDefaultNamespace tag M) none =
      if unqualified tag && dhas M none then some [] else dget M none := by
  rw [reset_eq]
  split
  · exact dget_dset_same M none []
  · rfl

theorem reset_isNone (tag : EName) (M : NsMap) (k : Pfx) :
    dget (resetDefaultNamespace tag M) k = none ↔ dget M k = none := by
  cases k with
  | some s => rw [reset_dget_some]
  | none =>
    rw [reset_dget_none]
    split
    · rename_i h
      simp only [Bool.and_eq_true, dhas] at h
      constructor
      · intro h'; cases h'
      · intro h'; rw [h'] at h; simp at h
    · rfl

theorem reset_length (tag : EName) (M : NsMap) : (resetDefaultNamespace tag M).length = M.length := by
  rw [reset_eq]
  split
  · rename_i h
    simp only [Bool.and_eq_true, dhas] at h
    cases hg : dget M none with
    | none => rw [hg] at h; simp at h
    | some v => exact dset_length_present M none [] v hg
  · rfl

theorem reset_mem (tag : EName) (M : NsMap) (e : Pfx × Str) (h : e ∈ resetDefaultNamespace tag M) :
    e ∈ M ∨ e = (none, []) := by
  rw [reset_eq] at h
  split at h
  · rcases mem_dset M none [] e h with h1 | h1
    · exact Or.inr h1
    · exact Or.inl h1
  · exact Or.inl h

theorem declOK_none_nil : declOK (none, []) = true := by decide

theorem declOK_some_ne_nil (s u : Str) (h : declOK (some s, u) = true) : u ≠ [] := by
  simp only [declOK, Bool.and_eq_true, Bool.not_eq_true'] at h
  intro e; subst e
  simp at h

theorem reset_ok (env : NsEnv) (d : Option Str) (tag : EName) (M : NsMap) (hM : MapOK env d M) :
    MapOK env d (resetDefaultNamespace tag M) := by
  refine ⟨?_, ?_, ?_, ?_, ?_, ?_⟩
  · rw [reset_eq]; split
    · exact NoDupKeys_dset M none [] hM.nodup
    · exact hM.nodup
  · intro k hk
    rw [reset_length] at hk
    rw [reset_dget_some]
    exact hM.fresh k hk
  · intro e he u h
    rw [reset_dget_some] at h
    exact hM.enumc e he u h
  · intro e he
    rcases reset_mem tag M e he with h | h
    · exact hM.decl e h
    · subst h; exact declOK_none_nil
  · intro u h
    rw [reset_dget_none] at h
    split at h
    · cases h; exact Or.inl rfl
    · exact hM.dflt u h
  · intro s u h hn
    rw [reset_dget_some] at h
    rw [reset_dget_none] at hn
    split at hn
    · cases hn
      exact declOK_some_ne_nil s [] (hM.decl _ (dget_some_mem _ _ _ h)) rfl
    · exact hM.nodflt s u h hn

/-- generator context agrees with the map: every bound URI has a live prefix -/
def K2 (M : NsMap) (cur : List (Str × Pfx)) : Prop :=
  ∀ u, u ≠ [] → prefixExists u M = true → ∃ k, dget cur u = some k ∧ dget M k = some u

def ScopeEq (S : List (Pfx × Str)) (M : NsMap) : Prop := ∀ k, dget S k = dget M k

theorem prefixExists_true (u : Str) (M : NsMap) (h : prefixExists u M = true) : ∃ k, (k, u) ∈ M := by
  simp only [prefixExists, List.any_eq_true, decide_eq_true_eq] at h
  obtain ⟨e, he, heq⟩ := h
  obtain ⟨k, v⟩ := e
  simp only at heq
  subst heq
  exact ⟨k, he⟩

theorem K2_nil : K2 [] [] := by
  intro u _ h
  simp [prefixExists] at h

/-- the flush step keeps all invariants -/
theorem flush_inv (env : NsEnv) (d : Option Str) (B Y : NsMap) (tag : EName)
    (S : List (Pfx × Str)) (cur : List (Str × Pfx))
    (hM : MapOK env d (B ++ Y)) (hS : ScopeEq S B) (hK : K2 B cur) :
    MapOK env d (resetDefaultNamespace tag (B ++ Y))
    ∧ (newPrefixes B (resetDefaultNamespace tag (B ++ Y))).all declOK = true
    ∧ nodupKeys (newPrefixes B (resetDefaultNamespace tag (B ++ Y))) = true
    ∧ ScopeEq (applyDecls S (newPrefixes B (resetDefaultNamespace tag (B ++ Y)))) (resetDefaultNamespace tag (B ++ Y))
    ∧ K2 (resetDefaultNamespace tag (B ++ Y)) (applyCur cur (newPrefixes B (resetDefaultNamespace tag (B ++ Y)))) := by
  have hMf := reset_ok env d tag (B ++ Y) hM
  generalize hMfdef : resetDefaultNamespace tag (B ++ Y) = Mf at hMf ⊢
  have hsub : ∀ e, e ∈ newPrefixes B Mf → e ∈ Mf := fun e he => ((mem_newPrefixes B Mf e).mp he).1
  refine ⟨hMf, ?_, ?_, ?_, ?_⟩
  · simp only [List.all_eq_true]
    exact fun e he => hMf.decl e (hsub e he)
  · exact nodupKeys_of_NoDupKeys _ (NoDupKeys_newPrefixes B Mf hMf.nodup)
  · intro k
    rw [dget_applyDecls]
    cases hl : lastUri k (newPrefixes B Mf) with
    | some u =>
      simp only []
      exact (NoDupKeys_dget_of_mem Mf k u hMf.nodup (hsub _ (lastUri_some k _ u hl))).symm
    | none =>
      simp only []
      rw [hS k]
      have hnot := lastUri_none k _ hl
      cases hg : dget Mf k with
      | some u =>
        have hmem := dget_some_mem _ _ _ hg
        by_cases hb : dget B k = some u
        · exact hb
        · exact absurd rfl (hnot (k, u) ((mem_newPrefixes B Mf (k, u)).mpr ⟨hmem, hb⟩))
      | none =>
        rw [← hMfdef] at hg
        have h1 := (reset_isNone tag (B ++ Y) k).mp hg
        rw [dget_append] at h1
        cases hb : dget B k with
        | none => rfl
        | some v => rw [hb] at h1; cases h1
  · intro u hu hpe
    rw [dget_applyCur]
    cases hl : lastFor u (newPrefixes B Mf) with
    | some p =>
      exact ⟨p, rfl, NoDupKeys_dget_of_mem Mf p u hMf.nodup (hsub _ (lastFor_some u _ p hl))⟩
    | none =>
      simp only []
      have hnot := lastFor_none u _ hl
      obtain ⟨k, hk⟩ := prefixExists_true u Mf hpe
      have hbk : dget B k = some u := by
        by_cases hb : dget B k = some u
        · exact hb
        · exact absurd rfl (hnot (k, u) ((mem_newPrefixes B Mf (k, u)).mpr ⟨hk, hb⟩))
      obtain ⟨k0, hc, hb0⟩ := hK u hu (prefixExists_of_mem u B (k, u) (dget_some_mem _ _ _ hbk) rfl)
      refine ⟨k0, hc, ?_⟩
      have happ : dget (B ++ Y) k0 = some u := dget_append_left B Y k0 u hb0
      cases k0 with
      | some s => rw [← hMfdef, reset_dget_some]; exact happ
      | none =>
        rw [← hMfdef, reset_dget_none]
        split
        · -- the default was reset although `u` is still bound through `k`
          exfalso
          have hMfnone : dget Mf none = some [] := by
            rw [← hMfdef, reset_dget_none]; simp [*]
          cases k with
          | none =>
            have := NoDupKeys_dget_of_mem Mf none u hMf.nodup hk
            rw [hMfnone] at this; cases this; exact hu rfl
          | some s =>
            exact hM.nodflt s u (dget_append_left B Y (some s) u hbk) happ
        · exact happ

end Proofs.Flush
