/-
L7 — the names an `EventGenerator.generate(obj)` call emits, as a sequence of
`XmlContext.build` calls whose `parent_ns` argument is computed from the
metadata returned by the previous ones (`convert_dataclass`: `meta =
context.build(cls, namespace)`, `qname = qname or meta.qname`, children get
`namespace = split_qname(qname)[0]`).

The object tree is a pre-order token list; only element fields holding a model
instance of exactly the field's class or a primitive, and compound (`Elements`)
fields holding model instances, are modelled (no xsi:type attributes, wildcards,
primitive values in compound fields).
-/
import XsdataModel.Ctx.Universe

namespace Xs.Ctx
open Py

inductive Tok
  /-- a model instance of class `cls`: the root, or the value of field number `field` (0-based) -/
  | enter (field : Nat) (cls : ClassId)
  /-- a primitive value in field number `field` -/
  | leaf (field : Nat)
  /-- end of the current instance -/
  | leave
  deriving DecidableEq, Repr

structure Frame where
  vars : List Var
  /-- the namespace handed to children -/
  ns : Option Str
  deriving DecidableEq, Repr

/-- `if var.wrapper_qname: yield START, var.wrapper_qname` (`next_value` yields the
element, wildcard and text vars; attributes are written elsewhere) -/
def wrapperStart (v : Var) : List Str :=
  if v.kind == .attribute then [] else
  match v.wrapperQName with
  | some q => [q]
  | none => []

/-- `XmlVar.find_clazz_choice(clazz)`: the first choice whose type is exactly the
value's class, otherwise the first choice whose type is a base of it -/
def findClazzChoice (U : Universe) (choices : List ChoiceVar) (c : ClassId) : Option ChoiceVar :=
  match choices.find? (fun ch => ch.cls == c) with
  | some ch => some ch
  | none => choices.find? (fun ch => isSubclass U c ch.cls)

/-- the `xsi:type` attribute of a model value held by an element var / a choice whose
declared type is `declared`: none for the exact type; for a var without declared class
`real_xsi_type(var.qname, meta.target_qname)` if truthy, for an instance of a subclass of the
declared class `meta.target_qname` (kept even when the element is named like it: repair c01g-02);
written as `@<qname>` -/
def xsiAttr (declared : Option ClassId) (qname : Str) (c : ClassId) (m : Meta) : List Str :=
  if declared == some c then [] else
  match m.targetQName with
  | some (t :: ts) => if declared.isNone && (t :: ts) = qname then [] else ['@' :: t :: ts]
  | _ => []

/-- the serializer's walk, parametrised by how `build` is answered
(`bld s c pns` = new state and result) so that the same code runs against the
shared cache and against the cache-free specification -/
def serWalk {σ} (U : Universe) (bld : σ → ClassId → Option Str → σ × Except Err Meta) :
    List Tok → σ → List Frame → List Str → σ × Except Err (List Str)
  | [], s, _, out => (s, .ok out)
  | .enter i c :: rest, s, [], out =>
    -- root object: convert_dataclass(obj) with namespace=None, qname=None
    let _ := i
    match bld s c none with
    | (s', .error e) => (s', .error e)
    | (s', .ok m) => serWalk U bld rest s' [⟨m.vars, targetUri m.qname⟩] (out ++ [m.qname])
  | .enter i c :: rest, s, f :: fs, out =>
    match f.vars[i]? with
    | none => (s, .error .index)
    | some v =>
      if v.kind == .elements then
        -- convert_choice: a model value of a compound field
        match findClazzChoice U v.choices c with
        | some ch =>
          -- convert_xsi_type with the choice: convert_dataclass(value, namespace, choice.qname)
          match bld s c f.ns with
          | (s', .error e) => (s', .error e)
          | (s', .ok m) =>
            serWalk U bld rest s' (⟨m.vars, targetUri m.qname⟩ :: f :: fs)
              (out ++ [ch.qname] ++ xsiAttr (some ch.cls) ch.qname c m)
        | none =>
          -- no choice: meta = fetch(cls, namespace); convert_dataclass(value, qname=meta.target_qname)
          match bld s c f.ns with
          | (s1, .error e) => (s1, .error e)
          | (s1, .ok m1) =>
            match bld s1 c none with
            | (s2, .error e) => (s2, .error e)
            | (s2, .ok m2) =>
              let q := if truthy m1.targetQName then m1.targetQName.getD [] else m2.qname
              serWalk U bld rest s2 (⟨m2.vars, targetUri m2.qname⟩ :: f :: fs) (out ++ [q])
      else
      -- convert_dataclass(value, namespace, var.qname)
      match bld s c f.ns with
      | (s', .error e) => (s', .error e)
      | (s', .ok m) =>
        -- the classes of the child values get `meta.namespace` of this class (repair c01g-01; before:
        -- the namespace of the element name `v.qname`)
        serWalk U bld rest s' (⟨m.vars, targetUri m.qname⟩ :: f :: fs)
          (out ++ wrapperStart v ++ [v.qname] ++ xsiAttr v.cls v.qname c m)
  | .leaf _ :: rest, s, [], out => serWalk U bld rest s [] out
  | .leaf i :: rest, s, f :: fs, out =>
    match f.vars[i]? with
    | none => (s, .error .index)
    | some v =>
      serWalk U bld rest s (f :: fs)
        (if v.kind == .element then out ++ wrapperStart v ++ [v.qname] else out ++ wrapperStart v)
  | .leave :: rest, s, fs, out => serWalk U bld rest s fs.tail out

end Xs.Ctx
