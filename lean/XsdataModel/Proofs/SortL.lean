/- Helper lemmas: `sort_types` and first-match search of `ConverterFactory.deserialize`. -/
import XsdataModel.Conv.Factory

namespace Xs.Conv
open Py

def prioLe (a b : Str) : Bool := decide (typeKey a ≤ typeKey b)

theorem prioLe_trans (a b c : Str) : prioLe a b = true → prioLe b c = true → prioLe a c = true := by
  simp [prioLe]; omega

theorem prioLe_total (a b : Str) : (prioLe a b || prioLe b a) = true := by
  simp [prioLe]; omega

/-- the key order refines the priority order -/
theorem prio_le_of_key_le {a b : Str} (h : typeKey a ≤ typeKey b) : typePriority a ≤ typePriority b := by
  unfold typeKey at h
  split at h <;> split at h <;> omega

def tyLe (a b : Ty) : Bool := decide (a.prio ≤ b.prio)

theorem tyLe_trans (a b c : Ty) : tyLe a b = true → tyLe b c = true → tyLe a c = true := by
  simp [tyLe]; omega

theorem tyLe_total (a b : Ty) : (tyLe a b || tyLe b a) = true := by
  simp [tyLe]; omega

theorem sortTypes_eq (names : List Str) :
    sortTypes names = if names.length < 2 then names else names.mergeSort prioLe := rfl

theorem sortTys_eq (tys : List Ty) :
    sortTys tys = if tys.length < 2 then tys else tys.mergeSort tyLe := rfl

theorem short_pairwise {α} (r : α → α → Prop) (l : List α) (h : l.length < 2) : l.Pairwise r := by
  match l, h with
  | [], _ => exact List.Pairwise.nil
  | [a], _ => simp

theorem sortTys_pairwise (tys : List Ty) : (sortTys tys).Pairwise (fun a b => a.prio ≤ b.prio) := by
  rw [sortTys_eq]
  split
  · exact short_pairwise _ _ ‹_›
  · have := List.pairwise_mergeSort tyLe_trans tyLe_total tys
    exact this.imp (by intro a b h; simpa [tyLe] using h)

theorem sortTys_perm (tys : List Ty) : (sortTys tys).Perm tys := by
  rw [sortTys_eq]
  split
  · exact List.Perm.refl _
  · exact List.mergeSort_perm tys tyLe

/-- a type other than an enum class -/
def Ty.isAtomTy : Ty → Bool
  | .enum _ => false
  | _ => true

theorem deserializeOne_atomTy (e : CEnv) (pos : Nat) (ty : Ty) (s : Str) (kw : Kw) (h : ty.isAtomTy = true) :
    deserializeOne e pos ty s kw = (atomDeserialize e ty s kw).map .atom := by
  cases ty <;> first | (simp only [deserializeOne]; done) | (simp [Ty.isAtomTy] at h)

theorem enum_not_inTable (ms : List EnumVal) : (Ty.enum ms).inTable = false := by
  show (Tables.pythonTypesSorted.find? (·.1 = ['<', 'e', 'n', 'u', 'm', '>'])).isSome = false
  decide

theorem inTable_isAtomTy (t : Ty) (h : t.inTable = true) : t.isAtomTy = true := by
  cases t <;> simp_all [Ty.isAtomTy, enum_not_inTable]

/-- the modelled types that have an entry in the priority table -/
def tableTys : List Ty :=
  [.int, .bool, .float, .decimal, .str, .qname, .xmlDate, .xmlTime, .xmlDateTime, .xmlDuration, .xmlPeriod,
   .pyDate, .pyTime, .pyDateTime]

theorem inTable_mem (t : Ty) (h : t.inTable = true) : t ∈ tableTys := by
  cases t <;> first
    | (simp [tableTys]; done)
    | (exfalso; simp [enum_not_inTable] at h; done)
    | (exfalso; revert h; decide)

theorem tableTys_prio_injective :
    ∀ a ∈ tableTys, ∀ b ∈ tableTys, a.prio = b.prio → a = b := by decide +kernel

/-- distinct table types have distinct priorities (checked against the regenerated table) -/
theorem prio_injective (a b : Ty) (ha : a.inTable = true) (hb : b.inTable = true)
    (h : a.prio = b.prio) : a = b :=
  tableTys_prio_injective a (inTable_mem a ha) b (inTable_mem b hb) h

/-- first-match search over a priority-sorted list of table types -/
theorem deserializeFrom_sorted (e : CEnv) (s : Str) (kw : Kw) (t : Ty) (a : Atom)
    (ht : t.inTable = true) (hacc : atomDeserialize e t s kw = some a) :
    ∀ (l : List Ty) (pos : Nat), l.Pairwise (fun x y => x.prio ≤ y.prio) →
      (∀ x ∈ l, x.inTable = true) → t ∈ l →
      (∀ x ∈ l, x.prio < t.prio → atomDeserialize e x s kw = none) →
      deserializeFrom e s kw pos l = some (.atom a) := by
  intro l
  induction l with
  | nil => intro _ _ _ hm; cases hm
  | cons x xs ih =>
    intro pos hp hin hm hlow
    have hx : x.inTable = true := hin x (by simp)
    unfold deserializeFrom
    rw [deserializeOne_atomTy e pos x s kw (inTable_isAtomTy x hx)]
    cases hxa : atomDeserialize e x s kw with
    | some v =>
      simp only [Option.map_some]
      -- `x` accepts, so its priority is not below `t`'s; it is not above either
      have h1 : ¬ x.prio < t.prio := by
        intro hlt; have := hlow x (by simp) hlt; simp [hxa] at this
      have h2 : x.prio ≤ t.prio := by
        rcases List.mem_cons.mp hm with rfl | hm'
        · exact Nat.le_refl _
        · exact List.rel_of_pairwise_cons hp hm'
      have : x = t := prio_injective x t hx ht (by omega)
      subst this
      simp [hxa] at hacc
      simp [hacc]
    | none =>
      simp only [Option.map_none]
      have hne : t ≠ x := by intro h; subst h; simp [hxa] at hacc
      have hm' : t ∈ xs := by
        rcases List.mem_cons.mp hm with h | h
        · exact absurd h hne
        · exact h
      exact ih (pos + 1) hp.tail (fun y hy => hin y (by simp [hy])) hm'
        (fun y hy => hlow y (by simp [hy]))

end Xs.Conv
