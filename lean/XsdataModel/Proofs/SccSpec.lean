/- From the invariants to the specification: the components are the mutual
reachability classes, hence two runs (any two iteration orders) deliver the
same partition. -/
import XsdataModel.Proofs.SccSem
import XsdataModel.Proofs.PackagesPerm

set_option linter.unusedSimpArgs false
set_option linter.unusedVariables false

namespace Xs.Codegen
open Py List

theorem Sem.init (g : Graph) : Sem g {} [] := by
  refine ⟨?_, ?_, ?_, ?_, ?_⟩
  · intro i x y hx; simp at hx
  · intro i x y hx; simp at hx
  · intro x hx; cases hx
  · intro c hc; cases hc
  · intro x hx; cases hx

theorem root_sem (g : Graph) (hc : ClosedGraph g) :
    ∀ (vs done : List Str) (st : Scc), (∀ v ∈ vs, v ∈ keysOf g) → RootInv g done st → Sem g st [] →
      Sem g (vs.foldl (sccRoot g) st) []
  | [], done, st, _, _, h => h
  | v :: vs, done, st, hk, hr, h => by
    rw [List.foldl_cons]
    have hv : v ∈ keysOf g := hk v List.mem_cons_self
    have hr' : RootInv g (done ++ [v]) (sccRoot g st v) := by
      have := root_struct g hc [v] done st (fun x hx => by
        simp only [List.mem_singleton] at hx; subst hx; exact hv) hr
      simpa using this
    have hs' : Sem g (sccRoot g st v) [] := by
      unfold sccRoot
      simp only [hr.wf.noerr, Bool.false_eq_true, if_false]
      by_cases hd : dhas st.index v = true
      · simp only [hd, if_true]; exact h
      · simp only [hd, Bool.false_eq_true, if_false]
        have hn : dhas st.index v = false := by simpa using hd
        have hf : unindexed g st.index < g.length + 2 := by
          have := unindexed_le_length g st.index; omega
        exact dfs_sem g hc (g.length + 2) v st [] hr.wf h hv hn hf (fun a ha => by cases ha)
          (Or.inl hr.empty)
    exact root_sem g hc vs (done ++ [v]) _ (fun x hx => hk x (List.mem_cons_of_mem _ hx)) hr' hs'

/-- **Specification of `strongly_connected_components`**: for every iteration
order, every yielded component is exactly a class of mutual reachability. -/
theorem scc_spec (g : Graph) (hc : ClosedGraph g) (vorder : List Str)
    (hv : ∀ v, v ∈ vorder ↔ v ∈ keysOf g) :
    ∀ c ∈ (sccRun g vorder).out, ∀ x ∈ c, ∀ y, (y ∈ c ↔ (Reach g x y ∧ Reach g y x)) := by
  have h := root_sem g hc vorder [] {} (fun v hvv => (hv v).1 hvv)
    ⟨WF.init g, rfl, rfl, by simp⟩ (Sem.init g)
  exact h.outSC

/-! ### two partitions into the classes of the same relation -/

theorem eq_of_shared_member : ∀ {l : List (List Str)}, DisjointComps l →
    ∀ a b, a ∈ l → b ∈ l → ∀ x, x ∈ a → x ∈ b → a = b
  | [], _, a, b, ha, _, _, _, _ => by cases ha
  | c :: l, hd, a, b, ha, hb, x, hxa, hxb => by
    have hd' := List.pairwise_cons.1 hd
    rcases List.mem_cons.1 ha with rfl | ha'
    · rcases List.mem_cons.1 hb with rfl | hb'
      · rfl
      · exact absurd hxb (hd'.1 b hb' x hxa)
    · rcases List.mem_cons.1 hb with rfl | hb'
      · exact absurd hxa (hd'.1 a ha' x hxb)
      · exact eq_of_shared_member hd'.2 a b ha' hb' x hxa hxb

theorem nodup_of_disjoint : ∀ {l : List (List Str)}, DisjointComps l → (∀ c ∈ l, c ≠ []) → l.Nodup
  | [], _, _ => List.nodup_nil
  | c :: l, hd, hne => by
    have hd' := List.pairwise_cons.1 hd
    refine List.nodup_cons.2 ⟨?_, nodup_of_disjoint hd'.2 (fun c hc => hne c (List.mem_cons_of_mem _ hc))⟩
    intro hmem
    have hcne := hne c List.mem_cons_self
    cases hc : c with
    | nil => exact hcne hc
    | cons x t =>
      have hx : x ∈ c := by rw [hc]; exact List.mem_cons_self
      exact hd'.1 c hmem x hx hx

theorem InnerPerm.forall_exists : ∀ {t t' : List (List Str)}, InnerPerm t t' →
    ∀ c, c ∈ t → ∃ m, m ∈ t' ∧ c ~ m
  | _, _, .nil, c, hc => by cases hc
  | _, _, .cons hp _ ht, c, hc => by
    rcases List.mem_cons.1 hc with h1 | h1
    · subst h1; exact ⟨_, List.mem_cons_self, hp⟩
    · obtain ⟨m, hm, hcm⟩ := ht.forall_exists c h1
      exact ⟨m, List.mem_cons_of_mem _ hm, hcm⟩

/-- choose, component by component, the matching component of the other run -/
theorem innerPerm_of_match : ∀ (l : List (List Str)) (out' : List (List Str)),
    (∀ c ∈ l, c.Nodup ∧ ∃ d, d ∈ out' ∧ c ~ d) →
    ∃ mid, InnerPerm l mid ∧ ∀ m ∈ mid, m ∈ out'
  | [], _, _ => ⟨[], .nil, fun m hm => by cases hm⟩
  | c :: l, out', h => by
    obtain ⟨hn, d, hd, hcd⟩ := h c List.mem_cons_self
    obtain ⟨mid, hmid, hall⟩ := innerPerm_of_match l out' (fun c' hc' => h c' (List.mem_cons_of_mem _ hc'))
    refine ⟨d :: mid, .cons hcd hn hmid, ?_⟩
    intro m hm
    rcases List.mem_cons.1 hm with rfl | hm'
    · exact hd
    · exact hall m hm'

/-- what `scc_partition` + `scc_spec` say about a run, abstractly -/
structure ClassPartition (g : Graph) (out : List (List Str)) : Prop where
  ok : ∀ c ∈ out, c ≠ [] ∧ c.Nodup
  disj : DisjointComps out
  cover : ∀ x, x ∈ keysOf g ↔ ∃ c ∈ out, x ∈ c
  classes : ∀ c ∈ out, ∀ x ∈ c, ∀ y, (y ∈ c ↔ (Reach g x y ∧ Reach g y x))

theorem ClassPartition.samePartition {g : Graph} {out out' : List (List Str)}
    (h : ClassPartition g out) (h' : ClassPartition g out') : SamePartition out out' := by
  -- every component of `out` has its twin in `out'`
  have hmatch : ∀ c ∈ out, c.Nodup ∧ ∃ d, d ∈ out' ∧ c ~ d := by
    intro c hc
    obtain ⟨hne, hnd⟩ := h.ok c hc
    refine ⟨hnd, ?_⟩
    cases hcx : c with
    | nil => exact absurd hcx hne
    | cons x t =>
      have hx : x ∈ c := by rw [hcx]; exact List.mem_cons_self
      have hkey : x ∈ keysOf g := (h.cover x).2 ⟨c, hc, hx⟩
      obtain ⟨d, hd, hxd⟩ := (h'.cover x).1 hkey
      refine ⟨d, hd, ?_⟩
      rw [← hcx]
      apply (List.perm_ext_iff_of_nodup hnd (h'.ok d hd).2).2
      intro y
      rw [h.classes c hc x hx y, h'.classes d hd x hxd y]
  obtain ⟨mid, hin, hall⟩ := innerPerm_of_match out out' hmatch
  refine ⟨mid, hin, ?_⟩
  have hmidDisj : DisjointComps mid := disjoint_of_innerPerm hin h.disj
  have hmidNe : ∀ m ∈ mid, m ≠ [] := by
    intro m hm hnil
    obtain ⟨c, hc, hcm⟩ := hin.exists_perm m hm
    subst hnil
    exact (h.ok c hc).1 hcm.eq_nil
  have hnd1 : mid.Nodup := nodup_of_disjoint hmidDisj hmidNe
  have hnd2 : out'.Nodup := nodup_of_disjoint h'.disj (fun c hc => (h'.ok c hc).1)
  apply (List.perm_ext_iff_of_nodup hnd1 hnd2).2
  intro m
  constructor
  · exact hall m
  · intro hm
    -- a member of `m` lies in some component of `out`, whose twin in `mid` must be `m`
    obtain ⟨hne, _⟩ := h'.ok m hm
    cases hmx : m with
    | nil => exact absurd hmx hne
    | cons x t =>
      have hx : x ∈ m := by rw [hmx]; exact List.mem_cons_self
      have hkey : x ∈ keysOf g := (h'.cover x).2 ⟨m, hm, hx⟩
      obtain ⟨c, hc, hxc⟩ := (h.cover x).1 hkey
      obtain ⟨m', hm', hcm'⟩ := hin.forall_exists c hc
      have hxm' : x ∈ m' := hcm'.subset hxc
      have : m' = m := eq_of_shared_member h'.disj m' m (hall m' hm') hm x hxm' hx
      rw [← hmx, ← this]; exact hm'

/-- the run of the modelled algorithm delivers the partition into mutual reachability classes -/
theorem sccRun_classPartition (g : Graph) (hc : ClosedGraph g) (vorder : List Str)
    (hv : ∀ v, v ∈ vorder ↔ v ∈ keysOf g) : ClassPartition g (sccRun g vorder).out := by
  obtain ⟨_, h1, h2, h3⟩ := scc_partition g hc vorder hv
  exact ⟨h1, h2, h3, scc_spec g hc vorder hv⟩

end Xs.Codegen

namespace Xs.Codegen
open Py List

theorem Reach.congr {g g' : Graph} (he : ∀ x y, Edge g x y → Edge g' x y) {x y : Str}
    (h : Reach g x y) : Reach g' x y := by
  induction h with
  | refl => exact Reach.refl _
  | tail _ e ih => exact Reach.tail ih (he _ _ e)

/-- the partition statement only depends on the vertex set and the edge relation -/
theorem ClassPartition.congr {g g' : Graph} {out : List (List Str)}
    (hk : ∀ x, x ∈ keysOf g ↔ x ∈ keysOf g') (he : ∀ x y, Edge g x y ↔ Edge g' x y)
    (h : ClassPartition g' out) : ClassPartition g out := by
  refine ⟨h.ok, h.disj, fun x => (hk x).trans (h.cover x), ?_⟩
  intro c hc x hx y
  rw [h.classes c hc x hx y]
  constructor
  · rintro ⟨h1, h2⟩
    exact ⟨h1.congr (fun a b e => (he a b).2 e), h2.congr (fun a b e => (he a b).2 e)⟩
  · rintro ⟨h1, h2⟩
    exact ⟨h1.congr (fun a b e => (he a b).1 e), h2.congr (fun a b e => (he a b).1 e)⟩

end Xs.Codegen
