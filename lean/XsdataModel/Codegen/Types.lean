/-
`xsdata/formats/converter.py : ConverterFactory.sort_types` and
`xsdata/codegen/models.py : Attr.native_types` (`list(set(...))`).

Python types are represented by their `__name__`.  The priority table is
generated from the live `__PYTHON_TYPES_SORTED__` (Tables.lean).
-/
import XsdataModel.Codegen.Basic
import XsdataModel.Tables

namespace Xs.Codegen
open Py

/-- `__PYTHON_TYPES_SORTED__.get(tp, 0)` -/
def typePriorityIn (table : List (Str × Nat)) (t : Str) : Nat := (dget table t).getD 0

def typePriority (t : Str) : Nat := typePriorityIn Tables.pythonTypesSorted t

/-- `ConverterFactory.sort_types(types)` for an arbitrary priority function -/
def sortTypesBy (prio : Str → Nat) (types : List Str) : List Str :=
  if types.length < 2 then types else pySortedByNat prio types

/-- `ConverterFactory.sort_types(types)` -/
def sortTypes (types : List Str) : List Str := sortTypesBy typePriority types

/-- the python types the XSD builtins map to that share their priority with another one -/
def priorityTies (names : List Str) : List (Str × Str) :=
  names.flatMap (fun a => (names.filter (fun b => a != b && typePriority a == typePriority b)).map (fun b => (a, b)))

end Xs.Codegen
