/- The `UEnv` the driver runs with, built from the ranges `extract_tables.py`
generated from the interpreter that runs xsdata. -/
import XsdataModel.Names.Ident
import XsdataModel.Tables

namespace Py

def inRanges (rs : List (Nat × Nat)) (c : Char) : Bool :=
  rs.any (fun r => r.1 ≤ c.toNat && c.toNat ≤ r.2)

def tblUEnv : UEnv where
  isWordNA := inRanges Tables.wordNA
  xidStartNA := inRanges Tables.xidStartNA
  xidContinueNA := inRanges Tables.xidContinueNA

end Py
