/-
QName *values* (an `xsi:type`, a QName-typed attribute) and the namespace scope of the element
they are written on: the prefix `QNameConverter.serialize` puts in front of the local name stays
bound to the QName's namespace through everything that happens to the element's prefix map
until it is declared (later attributes, `add_namespace` for attribute names, the default
namespace reset of `flush_start`), and the document's in-scope bindings of the element are that map
(`ScopeEq`, invariant of the L2 proof).
-/
import XsdataModel.Proofs.Generator

namespace Proofs.QNameScope
open Py Xs.Ns Xs.Sax Xs.Writer Spec.XmlNs Spec.Hyps Proofs.MapInv Proofs.Flush Proofs.Resolve Proofs.TreeWriter

/-- the lexical QName `s` is `p:l` with the non-empty prefix `p` bound to `u` in `M` -/
def Bound (M : NsMap) (s u l : Str) : Prop :=
  ∃ p, p ≠ [] ∧ s = p ++ ':' :: l ∧ dget M (some p) = some u ∧ declOK (some p, u) = true

theorem Bound.ext {M M' : NsMap} {s u l : Str} (h : Bound M s u l) (e : Ext M M') : Bound M' s u l := by
  obtain ⟨p, hp, hs, hg, hd⟩ := h
  obtain ⟨X, rfl, _⟩ := e
  exact ⟨p, hp, hs, dget_append_left M X (some p) u hg, hd⟩

theorem Bound.reset {M : NsMap} {s u l : Str} (h : Bound M s u l) (tag : EName) :
    Bound (resetDefaultNamespace tag M) s u l := by
  obtain ⟨p, hp, hs, hg, hd⟩ := h
  exact ⟨p, hp, hs, by rw [reset_dget_some]; exact hg, hd⟩

/-- … through `flush_start`: the map the element declares -/
theorem Bound.atFlush (env : NsEnv) (henv : EnvOK env) (d : Option Str) {M : NsMap} {s u l : Str}
    (h : Bound M s u l) (hM : MapOK env d M) (isNil : Bool) (base : NsMap) (tag : EName) (A : Attrs)
    (hA : AttrsOK d A) : Bound (Proofs.TreeWriter.flushed env isNil base tag A M).map s u l := by
  generalize hA'def : (if !isNil then dpop A (some env.xsiNil.1, env.xsiNil.2) else A) = A'
  have hA' : AttrsOK d A' := by
    rw [← hA'def]; split
    · exact hA.dpop _
    · exact hA
  have hnsA : ∀ e ∈ A', nsPartOK e.1.1 = true := by
    intro e he
    have := hA'.names e he
    simp only [attrNameOK, Bool.and_eq_true] at this
    cases h1 : e.1.1 with
    | none => rfl
    | some u => rw [h1] at this; exact this.2
  obtain ⟨eA, _, _⟩ := addAttrNamespaces_ok env henv d A' M hM hnsA
  have : (Proofs.TreeWriter.flushed env isNil base tag A M).map = resetDefaultNamespace tag (addAttrNamespaces env A' M) := by
    unfold Proofs.TreeWriter.flushed
    simp only [hA'def]
  rw [this]
  exact (h.ext eA).reset tag

/-- a bound lexical QName resolves, in any scope that agrees with the map, to the QName -/
theorem Bound.resolves {M : NsMap} {s u l : Str} (h : Bound M s u l)
    (hl : isNCName l = true) (S : List (Pfx × Str)) (hS : ScopeEq S M) :
    resolveElem S s = some (some u, l) := by
  obtain ⟨p, hp, hs, hg, hdecl⟩ := h
  have hpn := declOK_prefix_ncname p u hdecl
  simp only [declOK, Bool.and_eq_true, bne_iff_ne, ne_eq, Bool.not_eq_true', beq_iff_eq] at hdecl
  obtain ⟨⟨⟨⟨⟨_, hxmlns⟩, hne⟩, _⟩, _⟩, hxml⟩ := hdecl
  subst hs
  unfold resolveElem
  rw [splitColon_prefixed p l (isNCName_no_colon p hpn)]
  simp only [hpn, hl, Bool.not_true, Bool.false_or]
  have h1 : (p == xmlnsPrefix) = false := by simpa using hxmlns
  simp only [h1, Bool.false_eq_true, if_false]
  by_cases hx : p = xmlPrefix
  · have : u = xmlNsUri := by
      have := hxml
      simp only [hx, beq_self_eq_true] at this
      simpa using this.symm
    simp [hx, this]
  · have h2 : (p == xmlPrefix) = false := by simpa using hx
    simp only [h2, Bool.false_eq_true, if_false]
    rw [hS (some p), hg]
    have h3 : u.isEmpty = false := by simpa using hne
    simp [h3]

/-- `QNameConverter.serialize` on a QName with a declarable namespace: the text is bound in the
resulting map, or it is the bare local name (the namespace is the map's default / empty-prefix binding) -/
theorem serializeQName_bound (env : NsEnv) (henv : EnvOK env) (d : Option Str) (t u l : Str) (M : NsMap)
    (hM : MapOK env d M) (ht : clark t = some (some u, l)) (hu : uriOK u = true) :
    ∃ s M', serializeQName env t M = .ok (s, M') ∧ Ext M M' ∧ MapOK env d M' ∧ (s = l ∨ Bound M' s u l) := by
  have hs := clark_splitQName t _ ht
  obtain ⟨hext, hok, hget⟩ := loadPrefix_ok env henv d u M hM hu
  unfold serializeQName
  rw [hs]
  simp only []
  generalize hlp : loadPrefix env u M = r at hext hok hget
  obtain ⟨po, M'⟩ := r
  simp only [] at hext hok hget
  cases po with
  | none => exact ⟨l, M', rfl, hext, hok, Or.inl rfl⟩
  | some p =>
    by_cases hp : p.isEmpty = true
    · exact ⟨l, M', by simp [hp], hext, hok, Or.inl rfl⟩
    · refine ⟨p ++ ':' :: l, M', by simp [hp], hext, hok, Or.inr ⟨p, ?_, rfl, hget, hok.decl _ (dget_some_mem _ _ _ hget)⟩⟩
      intro h; subst h; simp at hp

open Proofs.Generator in
/-- the same at the level of the written tokens: when the pending element is flushed
(`open_elem`), the frame the XML reader pushes for its start tag has in-scope namespace
bindings that resolve the bound text to the QName -/
theorem open_elem_qname (env : NsEnv) (henv : EnvOK env) (d : Option Str) (isNil : Bool) (base Y : NsMap)
    (tag : EName) (A : Attrs) (gctxs : List (List (Str × Pfx))) (gcur : List (Str × Pfx)) (gpend : Option Str)
    (st : List Frame) (root : Option Node) (sst : List SFrame) (sroot : Option Node)
    (hM : MapOK env d (base ++ Y)) (hK : K2 base gcur) (hS : ScopeEq (parentScope st) base)
    (hA : AttrsOK d A) (htag : TagOK tag (base ++ Y)) (hYok : YOK base Y)
    (hroot : st = [] → root = none) (hsroot : sst = [] → sroot = none)
    (s u l : Str) (hb : Bound (base ++ Y) s u l) (hl : isNCName l = true) :
    ∃ w ws vs scope' decls,
      gRun env.saxXmlNs ⟨gctxs, gcur, [], gpend⟩ (flushed env isNil base tag A (base ++ Y)).calls
          = .ok ([Tok.open_ w decls ws], ⟨pushCtxs gcur gctxs decls, applyCur gcur decls, [], some w⟩)
      ∧ pStep ⟨st, root, false⟩ (Tok.open_ w decls ws) = some ⟨⟨w, tag, vs, [], scope'⟩ :: st, root, false⟩
      ∧ resolveElem scope' s = some (some u, l) := by
  obtain ⟨w, ws, vs, scope', decls, _, _, h3, h4, _, _, _, h8, _⟩ :=
    open_elem env henv d isNil base Y tag A gctxs gcur gpend st root sst sroot hM hK hS hA htag hYok hroot hsroot
  exact ⟨w, ws, vs, scope', decls, h3, h4,
    (hb.atFlush env henv d hM isNil base tag A hA).resolves hl scope' h8⟩

end Proofs.QNameScope
